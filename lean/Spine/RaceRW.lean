/-! Reader/writer locks: consistent protection orders conflicting accesses (abstract theorem for C17,
    the `sync.RWMutex` case of `Spine.Race`). Traces are stored latest event first.

    A mutex is held either exclusively by one thread (`acq`/`rel` = Lock/Unlock) or in shared mode
    by any number of threads (`racq`/`rrel` = RLock/RUnlock). If every write to a location is made
    under the exclusive hold and every read under some hold, two accesses by different threads of
    which at least one is a write are separated by a release by the first and a later acquisition
    by the second. -/
namespace Spine.RaceRW

inductive Ev
  | acq (t m : Nat)
  | rel (t m : Nat)
  | racq (t m : Nat)
  | rrel (t m : Nat)
  | acc (t x : Nat) (w : Bool)
deriving DecidableEq

/-- exclusive owner of mutex `m` after the (reversed) trace -/
def excl : List Ev → Nat → Option Nat
  | [], _ => none
  | .acq t m :: past, m' => if m = m' then some t else excl past m'
  | .rel _ m :: past, m' => if m = m' then none else excl past m'
  | .racq .. :: past, m' => excl past m'
  | .rrel .. :: past, m' => excl past m'
  | .acc .. :: past, m' => excl past m'

/-- threads holding `m` in shared mode (with multiplicity) after the trace -/
def shared : List Ev → Nat → List Nat
  | [], _ => []
  | .racq t m :: past, m' => if m = m' then t :: shared past m' else shared past m'
  | .rrel t m :: past, m' => if m = m' then (shared past m').erase t else shared past m'
  | .acq .. :: past, m' => shared past m'
  | .rel .. :: past, m' => shared past m'
  | .acc .. :: past, m' => shared past m'

/-- reader/writer exclusion: Lock needs the mutex entirely free, RLock needs no exclusive owner,
    Unlock is done by the owner, RUnlock by a shared holder -/
def WF : List Ev → Prop
  | [] => True
  | .acq _ m :: past => excl past m = none ∧ shared past m = [] ∧ WF past
  | .rel t m :: past => excl past m = some t ∧ WF past
  | .racq _ m :: past => excl past m = none ∧ WF past
  | .rrel t m :: past => t ∈ shared past m ∧ WF past
  | .acc .. :: past => WF past

theorem WF_tail {e : Ev} {l : List Ev} (h : WF (e :: l)) : WF l := by
  cases e <;> simp [WF] at h <;> first | exact h.2.2 | exact h.2 | exact h

/-- while a thread owns `m` exclusively nobody holds it in shared mode -/
theorem excl_shared_empty (m t : Nat) : ∀ l, WF l → excl l m = some t → shared l m = []
  | [], _, h => by simp [excl] at h
  | e :: l, hwf, h => by
    have ih := excl_shared_empty m t l (WF_tail hwf)
    cases e with
    | acq t' m' =>
      simp only [WF] at hwf
      by_cases hm : m' = m
      · subst hm; simp only [shared]; exact hwf.2.1
      · simp only [excl, hm, if_false] at h; simp only [shared]; exact ih h
    | rel t' m' =>
      by_cases hm : m' = m
      · subst hm; simp [excl] at h
      · simp only [excl, hm, if_false] at h; simp only [shared]; exact ih h
    | racq t' m' =>
      simp only [excl] at h
      simp only [WF] at hwf
      by_cases hm : m' = m
      · subst hm; rw [h] at hwf; exact absurd hwf.1 (by simp)
      · simp only [shared, hm, if_false]; exact ih h
    | rrel t' m' =>
      simp only [excl] at h
      by_cases hm : m' = m
      · subst hm; simp only [shared, if_true]; rw [ih h]; rfl
      · simp only [shared, hm, if_false]; exact ih h
    | acc t' x w => simp only [excl] at h; simp only [shared]; exact ih h

/-- if `t1` owned `m` exclusively and later does not, `t1` released it in between -/
theorem released (m t1 : Nat) (base : List Ev) (hb : excl base m = some t1) :
    ∀ mid, WF (mid ++ base) → excl (mid ++ base) m ≠ some t1 →
      ∃ mid1 mid0, mid = mid1 ++ Ev.rel t1 m :: mid0
  | [], _, h => absurd hb h
  | e :: mid, hwf, hne => by
    by_cases hprev : excl (mid ++ base) m = some t1
    · cases e with
      | acq t m' =>
        simp only [List.cons_append, WF] at hwf
        by_cases hm : m' = m
        · subst hm; rw [hprev] at hwf; exact absurd hwf.1 (by simp)
        · simp [excl, hm, hprev] at hne
      | rel t m' =>
        simp only [List.cons_append, WF] at hwf
        by_cases hm : m' = m
        · subst hm
          rw [hprev] at hwf
          have : t1 = t := by simpa using hwf.1
          subst this
          exact ⟨[], mid, rfl⟩
        · simp [excl, hm, hprev] at hne
      | racq t m' => simp [excl, hprev] at hne
      | rrel t m' => simp [excl, hprev] at hne
      | acc t x w => simp [excl, hprev] at hne
    · obtain ⟨mid1, mid0, rfl⟩ := released m t1 base hb mid (WF_tail hwf) hprev
      exact ⟨e :: mid1, mid0, rfl⟩

/-- if `t1` held `m` in shared mode and later nobody does, `t1` released it in between -/
theorem rreleased (m t1 : Nat) (base : List Ev) (hb : t1 ∈ shared base m) :
    ∀ mid, t1 ∉ shared (mid ++ base) m → ∃ mid1 mid0, mid = mid1 ++ Ev.rrel t1 m :: mid0
  | [], h => absurd hb h
  | e :: mid, hne => by
    by_cases hprev : t1 ∈ shared (mid ++ base) m
    · cases e with
      | rrel t m' =>
        by_cases hm : m' = m
        · subst hm
          by_cases ht : t = t1
          · subst ht; exact ⟨[], mid, rfl⟩
          · simp only [List.cons_append, shared, if_true] at hne
            exact absurd ((List.mem_erase_of_ne (Ne.symm ht)).mpr hprev) hne
        · simp [shared, hm, hprev] at hne
      | racq t m' =>
        by_cases hm : m' = m
        · subst hm; simp [shared, hprev] at hne
        · simp [shared, hm, hprev] at hne
      | acq t m' => simp [shared, hprev] at hne
      | rel t m' => simp [shared, hprev] at hne
      | acc t x w => simp [shared, hprev] at hne
    · obtain ⟨mid1, mid0, rfl⟩ := rreleased m t1 base hb mid hprev
      exact ⟨e :: mid1, mid0, rfl⟩

/-- thread `t` holds `m` in some mode -/
def Holds (l : List Ev) (m t : Nat) : Prop := excl l m = some t ∨ t ∈ shared l m

/-- an event by which `t` acquires `m` in some mode -/
def IsAcq (e : Ev) (t m : Nat) : Prop := e = Ev.acq t m ∨ e = Ev.racq t m

/-- an event by which `t` releases `m` in some mode -/
def IsRel (e : Ev) (t m : Nat) : Prop := e = Ev.rel t m ∨ e = Ev.rrel t m

/-- writer first: `t1` owns `m` exclusively, later a different thread `t2` holds it in some mode:
    in between `t1` unlocked and afterwards `t2` acquired -/
theorem handover_from_writer (m t1 t2 : Nat) (hne : t1 ≠ t2) (base : List Ev)
    (hb : excl base m = some t1) (hbwf : WF base) :
    ∀ mid, WF (mid ++ base) → Holds (mid ++ base) m t2 →
      ∃ mid2 e mid1 mid0, mid = mid2 ++ e :: (mid1 ++ Ev.rel t1 m :: mid0) ∧ IsAcq e t2 m
  | [], _, h => by
    rcases h with h | h
    · simp only [List.nil_append] at h; rw [hb] at h; exact absurd (by simpa using h) hne
    · simp only [List.nil_append] at h
      rw [excl_shared_empty m t1 base hbwf hb] at h; exact absurd h (by simp)
  | e :: mid, hwf, hown => by
    have hwf' := WF_tail hwf
    -- either t2 already held m before e (induction), or e is t2's acquisition
    by_cases hprev : Holds (mid ++ base) m t2
    · obtain ⟨mid2, e', mid1, mid0, rfl, he'⟩ := handover_from_writer m t1 t2 hne base hb hbwf mid hwf' hprev
      exact ⟨e :: mid2, e', mid1, mid0, rfl, he'⟩
    · have hnex : excl (mid ++ base) m ≠ some t2 := fun h => hprev (Or.inl h)
      have hnsh : t2 ∉ shared (mid ++ base) m := fun h => hprev (Or.inr h)
      cases e with
      | acq t m' =>
        simp only [List.cons_append, WF] at hwf
        by_cases hm : m' = m
        · subst hm
          rcases hown with h | h
          · simp only [List.cons_append, excl, if_true, Option.some.injEq] at h
            subst h
            obtain ⟨mid1, mid0, rfl⟩ := released m' t1 base hb mid hwf' (by rw [hwf.1]; simp)
            exact ⟨[], _, mid1, mid0, rfl, Or.inl rfl⟩
          · simp only [List.cons_append, shared] at h; exact absurd h hnsh
        · rcases hown with h | h
          · simp only [List.cons_append, excl, hm, if_false] at h; exact absurd h hnex
          · simp only [List.cons_append, shared] at h; exact absurd h hnsh
      | racq t m' =>
        simp only [List.cons_append, WF] at hwf
        by_cases hm : m' = m
        · subst hm
          rcases hown with h | h
          · simp only [List.cons_append, excl] at h; exact absurd h hnex
          · simp only [List.cons_append, shared, if_true, List.mem_cons] at h
            rcases h with h | h
            · subst h
              obtain ⟨mid1, mid0, rfl⟩ := released m' t1 base hb mid hwf' (by rw [hwf.1]; simp)
              exact ⟨[], _, mid1, mid0, rfl, Or.inr rfl⟩
            · exact absurd h hnsh
        · rcases hown with h | h
          · simp only [List.cons_append, excl] at h; exact absurd h hnex
          · simp only [List.cons_append, shared, hm, if_false] at h; exact absurd h hnsh
      | rel t m' =>
        rcases hown with h | h
        · by_cases hm : m' = m
          · subst hm; simp [excl] at h
          · simp only [List.cons_append, excl, hm, if_false] at h; exact absurd h hnex
        · simp only [List.cons_append, shared] at h; exact absurd h hnsh
      | rrel t m' =>
        rcases hown with h | h
        · simp only [List.cons_append, excl] at h; exact absurd h hnex
        · by_cases hm : m' = m
          · subst hm
            simp only [List.cons_append, shared, if_true] at h
            exact absurd (List.mem_of_mem_erase h) hnsh
          · simp only [List.cons_append, shared, hm, if_false] at h; exact absurd h hnsh
      | acc t x w =>
        rcases hown with h | h
        · simp only [List.cons_append, excl] at h; exact absurd h hnex
        · simp only [List.cons_append, shared] at h; exact absurd h hnsh

/-- reader first: `t1` holds `m` in shared mode, later `t2` owns it exclusively: in between `t1`
    did its RUnlock and afterwards `t2` locked -/
theorem handover_to_writer (m t1 t2 : Nat) (base : List Ev) (hb : t1 ∈ shared base m) :
    ∀ mid, WF (mid ++ base) → excl (mid ++ base) m = some t2 →
      ∃ mid2 mid1 mid0, mid = mid2 ++ Ev.acq t2 m :: (mid1 ++ Ev.rrel t1 m :: mid0)
  | [], hwf, h => by
    simp only [List.nil_append] at h hwf
    rw [excl_shared_empty m t2 base hwf h] at hb; exact absurd hb (by simp)
  | e :: mid, hwf, hown => by
    have hwf' := WF_tail hwf
    cases e with
    | acq t m' =>
      by_cases hm : m' = m
      · subst hm
        simp only [List.cons_append, excl, if_true, Option.some.injEq] at hown
        subst hown
        simp only [List.cons_append, WF] at hwf
        obtain ⟨mid1, mid0, rfl⟩ := rreleased m' t1 base hb mid (by rw [hwf.2.1]; simp)
        exact ⟨[], mid1, mid0, rfl⟩
      · simp only [List.cons_append, excl, hm, if_false] at hown
        obtain ⟨mid2, mid1, mid0, rfl⟩ := handover_to_writer m t1 t2 base hb mid hwf' hown
        exact ⟨Ev.acq t m' :: mid2, mid1, mid0, rfl⟩
    | rel t m' =>
      by_cases hm : m' = m
      · subst hm; simp [excl] at hown
      · simp only [List.cons_append, excl, hm, if_false] at hown
        obtain ⟨mid2, mid1, mid0, rfl⟩ := handover_to_writer m t1 t2 base hb mid hwf' hown
        exact ⟨Ev.rel t m' :: mid2, mid1, mid0, rfl⟩
    | racq t m' =>
      simp only [List.cons_append, excl] at hown
      obtain ⟨mid2, mid1, mid0, rfl⟩ := handover_to_writer m t1 t2 base hb mid hwf' hown
      exact ⟨Ev.racq t m' :: mid2, mid1, mid0, rfl⟩
    | rrel t m' =>
      simp only [List.cons_append, excl] at hown
      obtain ⟨mid2, mid1, mid0, rfl⟩ := handover_to_writer m t1 t2 base hb mid hwf' hown
      exact ⟨Ev.rrel t m' :: mid2, mid1, mid0, rfl⟩
    | acc t x w =>
      simp only [List.cons_append, excl] at hown
      obtain ⟨mid2, mid1, mid0, rfl⟩ := handover_to_writer m t1 t2 base hb mid hwf' hown
      exact ⟨Ev.acc t x w :: mid2, mid1, mid0, rfl⟩

/-- what the access of thread `t` must hold: a write the exclusive lock, a read any hold -/
def Protected (l : List Ev) (m t : Nat) (w : Bool) : Prop :=
  if w then excl l m = some t else Holds l m t

/-- reader/writer lockset discipline ⇒ ordering: two accesses to `x` by different threads, at least
    one of them a write, writes made under the exclusive hold of `m` and reads under some hold of
    `m`, are separated by a release of `m` by the first thread and a later acquisition of `m` by
    the second; program order, the release→acquire edge of the Go memory model (Unlock→Lock,
    Unlock→RLock, RUnlock→Lock) and program order again order the two accesses. -/
theorem rw_guarded_accesses_ordered (m x t1 t2 : Nat) (w1 w2 : Bool) (hne : t1 ≠ t2)
    (hconf : w1 = true ∨ w2 = true) (earlier mid : List Ev)
    (hwf : WF (Ev.acc t2 x w2 :: (mid ++ Ev.acc t1 x w1 :: earlier)))
    (h1 : Protected earlier m t1 w1)
    (h2 : Protected (mid ++ Ev.acc t1 x w1 :: earlier) m t2 w2) :
    ∃ mid2 e2 mid1 e1 mid0, mid = mid2 ++ e2 :: (mid1 ++ e1 :: mid0) ∧ IsAcq e2 t2 m ∧ IsRel e1 t1 m := by
  have hwfm : WF (mid ++ Ev.acc t1 x w1 :: earlier) := WF_tail hwf
  have hwfb : WF (Ev.acc t1 x w1 :: earlier) := by
    clear h2 hwf
    induction mid with
    | nil => exact hwfm
    | cons e mid ih => exact ih (WF_tail hwfm)
  have h2' : Holds (mid ++ Ev.acc t1 x w1 :: earlier) m t2 := by
    unfold Protected at h2
    cases w2 with
    | true => exact Or.inl (by simpa using h2)
    | false => simpa using h2
  -- the first access holds m exclusively, or only in shared mode
  have h1' : excl earlier m = some t1 ∨ (t1 ∈ shared earlier m ∧ w1 = false) := by
    unfold Protected at h1
    cases w1 with
    | true => exact Or.inl (by simpa using h1)
    | false =>
      rcases (by simpa using h1 : Holds earlier m t1) with h | h
      · exact Or.inl h
      · exact Or.inr ⟨h, rfl⟩
  rcases h1' with hex | ⟨hsh, hw1⟩
  · obtain ⟨mid2, e, mid1, mid0, rfl, he⟩ :=
      handover_from_writer m t1 t2 hne (Ev.acc t1 x w1 :: earlier) (by simpa [excl] using hex) hwfb mid hwfm h2'
    exact ⟨mid2, e, mid1, _, mid0, rfl, he, Or.inl rfl⟩
  · -- the first access is a read under a shared hold, so the second is a write under the exclusive hold
    have hw2 : w2 = true := by
      rcases hconf with h | h
      · rw [hw1] at h; exact absurd h (by simp)
      · exact h
    subst hw2
    have h2x : excl (mid ++ Ev.acc t1 x w1 :: earlier) m = some t2 := by
      unfold Protected at h2; simpa using h2
    obtain ⟨mid2, mid1, mid0, rfl⟩ :=
      handover_to_writer m t1 t2 (Ev.acc t1 x w1 :: earlier) (by simpa [shared] using hsh) mid hwfm h2x
    exact ⟨mid2, _, mid1, _, mid0, rfl, Or.inl rfl, Or.inr rfl⟩

end Spine.RaceRW
