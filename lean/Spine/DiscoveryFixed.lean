import Spine.Discovery
/-! C06, repaired member: each entry of a notification is applied on its own (an `added` entry adds or refreshes
    that entity, a `removed` entry removes that entity). Convergence of the full notification: whatever the tree was,
    afterwards it holds exactly the announced entity addresses. -/
namespace Spine.Disc

def stepFixed (m : Msg) (acc : Tree × List Evt) (ei : EI) : Tree × List Evt :=
  match ei.chg with
  | .added => addOne m acc ei
  | .removed => remOne acc ei
  | .none => acc

def notifyPartialFixed (m : Msg) (t : Tree) : Tree × List Evt × Bool :=
  if m.ents.isEmpty then (t, [], false) else
  if m.ents.any (·.chg = .none) then
    let r := (m.ents.takeWhile (·.chg ≠ .none)).foldl (stepFixed m) (t, [])
    (r.1, r.2, false)
  else
    let r := m.ents.foldl (stepFixed m) (t, [])
    (r.1, r.2, true)

def notifyFullFixed (m : Msg) (t : Tree) : Tree × List Evt × Bool := notifyPartialFixed (fullDiff m t) t

def addrs (t : Tree) : List (List Nat) := t.map (·.addr)

theorem findE_isSome_iff (t : Tree) (a : List Nat) : (findE t a).isSome = true ↔ a ∈ addrs t := by
  unfold findE addrs
  rw [List.find?_isSome]
  simp only [decide_eq_true_eq, List.mem_map]

theorem findE_none_iff (t : Tree) (a : List Nat) : findE t a = none ↔ a ∉ addrs t := by
  rw [← findE_isSome_iff]
  cases findE t a <;> simp

theorem mem_addOne (m : Msg) (acc : Tree × List Evt) (ei : EI) (a : List Nat) :
    a ∈ addrs (addOne m acc ei).1 ↔ a ∈ addrs acc.1 ∨ a = ei.addr := by
  obtain ⟨t, evs⟩ := acc
  simp only [addOne]
  split
  · rename_i e he
    have hin : ei.addr ∈ addrs t := (findE_isSome_iff t ei.addr).mp (by rw [he]; rfl)
    simp only [addrs, List.map_map]
    have : (List.map ((fun e : E => e.addr) ∘ fun e : E => if e.addr = ei.addr then { e with desc := ei.desc, feats := m.feats.filter (·.ent = ei.addr) } else e) t)
        = List.map (fun e : E => e.addr) t := by
      apply List.map_congr_left
      intro e _
      simp only [Function.comp]
      split <;> rfl
    rw [this]
    constructor
    · exact Or.inl
    · rintro (h | rfl)
      · exact h
      · exact hin
  · simp [addrs]

theorem mem_remOne (acc : Tree × List Evt) (ei : EI) (a : List Nat) :
    a ∈ addrs (remOne acc ei).1 ↔ a ∈ addrs acc.1 ∧ a ≠ ei.addr := by
  obtain ⟨t, evs⟩ := acc
  simp only [remOne]
  split
  · simp only [addrs, List.mem_map, List.mem_filter, decide_eq_true_eq, ne_eq]
    constructor
    · rintro ⟨e, ⟨he, hne⟩, rfl⟩; exact ⟨⟨e, he, rfl⟩, hne⟩
    · rintro ⟨⟨e, he, rfl⟩, hne⟩; exact ⟨e, ⟨he, hne⟩, rfl⟩
  · rename_i hn
    have hnot : ei.addr ∉ addrs t := (findE_none_iff t ei.addr).mp hn
    constructor
    · intro h; exact ⟨h, fun heq => hnot (heq ▸ h)⟩
    · exact fun h => h.1

/-- folding entries that are all `added` -/
theorem mem_fold_added (m : Msg) : ∀ (l : List EI) (acc : Tree × List Evt) (a : List Nat),
    (∀ ei ∈ l, ei.chg = .added) →
    (a ∈ addrs (l.foldl (stepFixed m) acc).1 ↔ a ∈ addrs acc.1 ∨ a ∈ l.map (·.addr))
  | [], acc, a, _ => by simp
  | ei :: l, acc, a, h => by
    have h1 : ei.chg = .added := h ei (List.mem_cons_self ..)
    rw [List.foldl_cons, mem_fold_added m l _ a (fun x hx => h x (List.mem_cons_of_mem _ hx))]
    simp only [stepFixed, h1, mem_addOne, List.map_cons, List.mem_cons]
    constructor
    · rintro ((h | h) | h)
      · exact Or.inl h
      · exact Or.inr (Or.inl h)
      · exact Or.inr (Or.inr h)
    · rintro (h | h | h)
      · exact Or.inl (Or.inl h)
      · exact Or.inl (Or.inr h)
      · exact Or.inr h

/-- folding entries that are all `removed` -/
theorem mem_fold_removed (m : Msg) : ∀ (l : List EI) (acc : Tree × List Evt) (a : List Nat),
    (∀ ei ∈ l, ei.chg = .removed) →
    (a ∈ addrs (l.foldl (stepFixed m) acc).1 ↔ a ∈ addrs acc.1 ∧ a ∉ l.map (·.addr))
  | [], acc, a, _ => by simp
  | ei :: l, acc, a, h => by
    have h1 : ei.chg = .removed := h ei (List.mem_cons_self ..)
    rw [List.foldl_cons, mem_fold_removed m l _ a (fun x hx => h x (List.mem_cons_of_mem _ hx))]
    simp only [stepFixed, h1, mem_remOne, List.map_cons, List.mem_cons, not_or]
    constructor
    · rintro ⟨⟨h, hne⟩, hn⟩; exact ⟨h, hne, hn⟩
    · rintro ⟨h, hne, hn⟩; exact ⟨⟨h, hne⟩, hn⟩

theorem fullDiff_no_none (m : Msg) (t : Tree) : (fullDiff m t).ents.any (·.chg = .none) = false := by
  simp only [fullDiff, List.any_append, List.any_map, Bool.or_eq_false_iff]
  constructor <;> (rw [List.any_eq_false]; intro x _; simp [Function.comp])

/-- the tree after the repaired full notification is the fold over the diff, whichever branch is taken -/
theorem notifyFullFixed_tree (m : Msg) (t : Tree) :
    (notifyFullFixed m t).1 = ((fullDiff m t).ents.foldl (stepFixed (fullDiff m t)) (t, [])).1 := by
  unfold notifyFullFixed notifyPartialFixed
  split
  · rename_i he
    have : (fullDiff m t).ents = [] := by simpa using he
    rw [this]; rfl
  · rw [fullDiff_no_none]
    simp

/-- C06 (repaired), convergence: after a full notification the tree holds exactly the announced addresses, whatever
    it held before -/
theorem c06_full_converges (m : Msg) (t : Tree) (a : List Nat) :
    a ∈ addrs (notifyFullFixed m t).1 ↔ a ∈ m.ents.map (·.addr) := by
  rw [notifyFullFixed_tree]
  have hsplit : (fullDiff m t).ents =
      ((m.ents.filter fun ei => (findE t ei.addr).isNone).map fun ei => { ei with chg := Chg.added }) ++
      ((t.filter fun e => !((m.ents.filter fun ei => (findE t ei.addr).isSome).map (·.addr)).contains e.addr).map
        fun e => ({ addr := e.addr, typ := e.typ, chg := .removed, desc := none } : EI)) := rfl
  rw [hsplit, List.foldl_append]
  rw [mem_fold_removed _ _ _ a (by intro ei h; obtain ⟨e, _, rfl⟩ := List.mem_map.mp h; rfl)]
  rw [mem_fold_added _ _ _ a (by intro ei h; obtain ⟨e, _, rfl⟩ := List.mem_map.mp h; rfl)]
  simp only [List.map_map, List.mem_map, List.mem_filter, Function.comp, Option.isNone_iff_eq_none, findE_none_iff,
    List.contains_eq_mem, findE_isSome_iff, Bool.not_eq_true', decide_eq_false_iff_not]
  by_cases hat : a ∈ addrs t
  · constructor
    · rintro ⟨_, hnr⟩
      apply Classical.byContradiction
      intro hnm
      apply hnr
      obtain ⟨e, he, rfl⟩ := List.mem_map.mp hat
      refine ⟨e, ⟨he, ?_⟩, rfl⟩
      rintro ⟨ei, ⟨hei, _⟩, heq⟩
      exact hnm ⟨ei, hei, heq⟩
    · rintro ⟨ei, hei, rfl⟩
      refine ⟨Or.inl hat, ?_⟩
      rintro ⟨e, ⟨_, hne⟩, heq⟩
      apply hne
      exact ⟨ei, ⟨hei, hat⟩, heq.symm⟩
  · constructor
    · rintro ⟨h | ⟨ei, ⟨hei, _⟩, rfl⟩, _⟩
      · exact absurd h hat
      · exact ⟨ei, hei, rfl⟩
    · rintro ⟨ei, hei, rfl⟩
      refine ⟨Or.inr ⟨ei, ⟨hei, hat⟩, rfl⟩, ?_⟩
      rintro ⟨e, ⟨he, _⟩, heq⟩
      apply hat
      rw [← heq]
      exact List.mem_map.mpr ⟨e, he, rfl⟩

/-- the mixed notification that goes wrong as written (B.11) converges here -/
example : addrs (notifyFullFixed ⟨[⟨[0], 1, .none, none⟩, ⟨[2], 3, .none, none⟩], []⟩ [⟨[0], 1, none, []⟩, ⟨[1], 2, none, []⟩]).1 = [[0], [2]] := by
  decide

end Spine.Disc
