import Spine.Approval
import Spine.ApprovalConn
/-! C12 across connections: the counter-keyed model `Spine.ApprE` (maps keyed by the message counter as in the code,
    write instances = (epoch, counter)), fully repaired member, and the instance-keyed model `Spine.Appr` (the one the
    all-schedule theorems are about) are EQUIVALENT: under any injective naming `enc` of instances by numbers, every
    event list of `ApprE` — arrivals, lookups, commits, the two halves of timeouts, drops, in any order, counters reused
    across connections — produces exactly the outcomes of the translated event list in `Appr`.

    The driver has always run the two side by side ("validated"); this is the proof. -/
namespace Spine.ApprEq
open Spine

abbrev Tally := Option (List (Nat × Nat))

/-- approvals counted for key `k` -/
def cnt (t : Tally) (k : Nat) : Nat :=
  match t with
  | none => 0
  | some m => match m.find? (·.1 = k) with
    | some (_, n) => n
    | none => 0

theorem find_filter_ne (m : List (Nat × Nat)) (k k' : Nat) :
    (m.filter (·.1 ≠ k)).find? (·.1 = k') = if k' = k then none else m.find? (·.1 = k') := by
  induction m with
  | nil => simp
  | cons x xs ih =>
    simp only [List.filter_cons]
    by_cases hx : x.1 = k
    · simp only [hx, ne_eq, not_true_eq_false, decide_false, Bool.false_eq_true, if_false, ih, List.find?_cons]
      by_cases h : k' = k
      · simp [h]
      · have : ¬ k = k' := fun h' => h h'.symm
        simp [h, this]
    · simp only [hx, ne_eq, not_false_eq_true, decide_true, if_true, List.find?_cons, ih]
      by_cases h : k' = k
      · subst h; simp [hx]
      · simp [h]

theorem bump_same (t : Tally) (k : Nat) : ApprE.bump {} t k = Appr.bump Appr.Cfg.clean t k := by
  unfold ApprE.bump Appr.bump
  cases t with
  | none => rfl
  | some m => simp only [Appr.Cfg.clean]; cases m.find? (·.1 = k) <;> rfl

theorem bump_n (t : Tally) (k : Nat) : (Appr.bump Appr.Cfg.clean t k).2 = cnt t k + 1 := by
  unfold Appr.bump cnt
  cases t with
  | none => rfl
  | some m =>
    simp only [Appr.Cfg.clean]
    cases h : m.find? (·.1 = k) with
    | none => simp
    | some x => obtain ⟨a, n⟩ := x; simp

theorem bump_cnt (t : Tally) (k k' : Nat) :
    cnt (some (Appr.bump Appr.Cfg.clean t k).1) k' = if k' = k then cnt t k + 1 else cnt t k' := by
  unfold Appr.bump cnt
  cases t with
  | none =>
    by_cases h : k' = k
    · simp [h]
    · have : ¬ k = k' := fun h' => h h'.symm
      simp [h, this]
  | some m =>
    simp only [Appr.Cfg.clean]
    cases hf : m.find? (·.1 = k) with
    | none =>
      simp only [Bool.false_eq_true, if_false, List.find?_append]
      by_cases h : k' = k
      · subst h; simp [hf]
      · have : ¬ k = k' := fun h' => h h'.symm
        simp only [h, if_false]
        cases m.find? (·.1 = k') <;> simp [this]
    | some x =>
      obtain ⟨a, n⟩ := x
      simp only [List.find?_append, find_filter_ne]
      by_cases h : k' = k
      · subst h; simp
      · have : ¬ k = k' := fun h' => h h'.symm
        simp only [h, if_false]
        cases m.find? (·.1 = k') <;> simp [this]

theorem filter_cnt (t : Tally) (k k' : Nat) :
    cnt (t.map (·.filter (·.1 ≠ k))) k' = if k' = k then 0 else cnt t k' := by
  unfold cnt
  cases t with
  | none => simp
  | some m =>
    simp only [Option.map_some, find_filter_ne]
    by_cases h : k' = k
    · simp [h]
    · simp [h]

/-- the event of the instance-keyed model that an event of the counter-keyed model is, in state `s` (an arrival is
    the arrival of the instance (current epoch, counter)) -/
def tr (enc : ApprE.Inst → Nat) (s : ApprE.St) : ApprE.Ev → Appr.Ev
  | .arrive c => .arrive (enc (s.ep, c))
  | .lookup op m => .lookup op (enc m)
  | .commit op a => .commit op a
  | .timeoutTake t => .timeoutTake (enc t)
  | .timeoutSend t => .timeoutSend (enc t)
  | .drop => .drop

/-- the translated event list (the epoch of an arrival is the number of drops before it) -/
def trAll (enc : ApprE.Inst → Nat) (s : ApprE.St) : List ApprE.Ev → List Appr.Ev
  | [] => []
  | e :: es => tr enc s e :: trAll enc (ApprE.step {} s e) es

structure Sim (enc : ApprE.Inst → Nat) (e : ApprE.St) (a : Appr.St) : Prop where
  nCb : a.nCb = e.nCb
  seen : a.seen = e.seen.map enc
  pend : a.pending = e.pending.map enc
  armedE : e.armed = e.pending
  armedA : a.armed = a.pending
  cur : ∀ p ∈ e.pending, p.1 = e.ep
  sub : ∀ p ∈ e.pending, p ∈ e.seen
  fired : a.fired = e.fired.map enc
  outs : a.outcomes = e.outcomes.map fun x => (enc x.1, x.2)
  looks : a.lookups = e.lookups.map fun x => (x.1, enc x.2.1)
  own : ∀ x ∈ e.lookups, x.2.2 = x.2.1
  lseen : ∀ x ∈ e.lookups, x.2.1 ∈ e.seen
  pres : a.presented.length = e.presented
  keysE : ∀ k, cnt e.tally k ≠ 0 → (e.ep, k) ∈ e.seen
  keysA : ∀ w, cnt a.tally w ≠ 0 → w ∈ a.seen
  tally : ∀ p ∈ e.pending, cnt e.tally p.2 = cnt a.tally (enc p)

variable {enc : ApprE.Inst → Nat}

theorem contains_map (hinj : Function.Injective enc) (l : List ApprE.Inst) (x : ApprE.Inst) :
    (l.map enc).contains (enc x) = l.contains x := by
  induction l with
  | nil => rfl
  | cons y ys ih =>
    simp only [List.map_cons, List.contains_cons, ih]
    by_cases h : x = y
    · simp [h]
    · have h1 : (enc x == enc y) = false := beq_eq_false_iff_ne.mpr fun h' => h (hinj h')
      have h2 : (x == y) = false := beq_eq_false_iff_ne.mpr h
      rw [h1, h2]

theorem filter_map_ne (hinj : Function.Injective enc) (l : List ApprE.Inst) (x : ApprE.Inst) :
    (l.map enc).filter (· ≠ enc x) = (l.filter (· ≠ x)).map enc := by
  induction l with
  | nil => rfl
  | cons y ys ih =>
    simp only [List.map_cons, List.filter_cons, ih]
    by_cases h : y = x
    · simp [h]
    · have : enc y ≠ enc x := fun h' => h (hinj h')
      simp [h, this]

/-- among instances of one epoch, "another counter" and "another instance" are the same -/
theorem filter_ctr (l : List ApprE.Inst) (x : ApprE.Inst) (ep : Nat) (hl : ∀ p ∈ l, p.1 = ep) (hx : x.1 = ep) :
    l.filter (·.2 ≠ x.2) = l.filter (· ≠ x) := by
  apply List.filter_congr
  intro p hp
  have h1 := hl p hp
  obtain ⟨p1, p2⟩ := p
  obtain ⟨x1, x2⟩ := x
  simp only at h1 hx ⊢
  subst h1; subst hx
  by_cases h : p2 = x2
  · simp [h]
  · simp [h]

theorem byCtr_mem (l : List ApprE.Inst) (x : ApprE.Inst) (ep : Nat) (hl : ∀ p ∈ l, p.1 = ep) (hx : x ∈ l) :
    ApprE.byCtr l x.2 = some x := by
  unfold ApprE.byCtr
  induction l with
  | nil => cases hx
  | cons y ys ih =>
    simp only [List.find?_cons]
    by_cases h : y.2 = x.2
    · have hy := hl y List.mem_cons_self
      have hxe := hl x hx
      have : y = x := by
        obtain ⟨y1, y2⟩ := y; obtain ⟨x1, x2⟩ := x
        simp only at h hy hxe; subst h; subst hy; subst hxe; rfl
      simp [h, this]
    · have hne : x ≠ y := fun h' => h (by rw [h'])
      have hx' : x ∈ ys := by
        rcases List.mem_cons.mp hx with h' | h'
        · exact absurd h' hne
        · exact h'
      simp only [h, decide_false, Bool.false_eq_true]
      exact ih (fun p hp => hl p (List.mem_cons_of_mem _ hp)) hx'

theorem byCtr_some_mem (l : List ApprE.Inst) (c : Nat) (t : ApprE.Inst) (h : ApprE.byCtr l c = some t) : t ∈ l := by
  unfold ApprE.byCtr at h
  exact List.mem_of_find?_eq_some h

theorem sim_init (n : Nat) : Sim enc { nCb := n } { nCb := n } := by
  refine ⟨rfl, rfl, rfl, rfl, rfl, ?_, ?_, rfl, rfl, rfl, ?_, ?_, rfl, ?_, ?_, ?_⟩
  · intro p h; cases h
  · intro p h; cases h
  · intro x h; cases h
  · intro x h; cases h
  · intro k h; exact absurd rfl h
  · intro k h; exact absurd rfl h
  · intro p h; cases h


theorem mem_map_enc (hinj : Function.Injective enc) (l : List ApprE.Inst) (x : ApprE.Inst) :
    enc x ∈ l.map enc ↔ x ∈ l := by
  constructor
  · intro h
    obtain ⟨y, hy, he⟩ := List.mem_map.mp h
    rw [← hinj he]; exact hy
  · intro h; exact List.mem_map_of_mem h

/-- two pending instances with the same counter are the same instance -/
theorem same_ctr {e : ApprE.St} {a : Appr.St} (h : Sim enc e a) (p m : ApprE.Inst) (hp : p ∈ e.pending)
    (hm : m ∈ e.pending) : p.2 = m.2 ↔ p = m := by
  constructor
  · intro h2
    have h1 : p.1 = m.1 := (h.cur p hp).trans (h.cur m hm).symm
    obtain ⟨p1, p2⟩ := p; obtain ⟨m1, m2⟩ := m
    simp only at h1 h2; subst h1; subst h2; rfl
  · intro h2; rw [h2]

theorem sim_arrive (hinj : Function.Injective enc) {e : ApprE.St} {a : Appr.St} (h : Sim enc e a) (c : Nat) :
    Sim enc (ApprE.step {} e (.arrive c)) (Appr.step Appr.Cfg.clean a (.arrive (enc (e.ep, c)))) := by
  simp only [ApprE.step, Appr.step]
  have hc : a.seen.contains (enc (e.ep, c)) = e.seen.contains (e.ep, c) := by rw [h.seen, contains_map hinj]
  rw [hc]
  cases hs : e.seen.contains (e.ep, c) with
  | true => simpa using h
  | false =>
    have hns : (e.ep, c) ∉ e.seen := by simpa using hs
    have hfil : e.pending.filter (·.2 ≠ c) = e.pending := by
      rw [List.filter_eq_self]
      intro p hp
      have h1 := h.cur p hp
      have h2 := h.sub p hp
      have : p.2 ≠ c := by
        intro h3
        apply hns
        obtain ⟨p1, p2⟩ := p
        simp only at h1 h3; subst h1; subst h3; exact h2
      simpa using this
    simp only [Bool.false_eq_true, if_false, hfil]
    refine ⟨h.nCb, ?_, ?_, ?_, ?_, ?_, ?_, h.fired, h.outs, h.looks, h.own, ?_, ?_, ?_, ?_, ?_⟩
    · simp [h.seen]
    · simp [h.pend]
    · simp [h.armedE]
    · simp [h.armedA]
    · intro p hp
      rcases List.mem_cons.mp hp with rfl | hp
      · rfl
      · exact h.cur p hp
    · intro p hp
      rcases List.mem_cons.mp hp with rfl | hp
      · exact List.mem_cons_self
      · exact List.mem_cons_of_mem _ (h.sub p hp)
    · intro x hx; exact List.mem_cons_of_mem _ (h.lseen x hx)
    · simp [h.pres, h.nCb]
    · intro k hk; exact List.mem_cons_of_mem _ (h.keysE k hk)
    · intro w hw; exact List.mem_cons_of_mem _ (h.keysA w hw)
    · intro p hp
      rcases List.mem_cons.mp hp with rfl | hp
      · have h1 : cnt e.tally c = 0 := by
          cases h0 : cnt e.tally c with
          | zero => rfl
          | succ n => exact absurd (h.keysE c (by rw [h0]; exact Nat.succ_ne_zero n)) hns
        have h2 : cnt a.tally (enc (e.ep, c)) = 0 := by
          cases h0 : cnt a.tally (enc (e.ep, c)) with
          | zero => rfl
          | succ n =>
            have := h.keysA _ (by rw [h0]; exact Nat.succ_ne_zero n)
            rw [h.seen, mem_map_enc hinj] at this
            exact absurd this hns
        simp only [h1, h2]
      · exact h.tally p hp

theorem sim_lookup (hinj : Function.Injective enc) {e : ApprE.St} {a : Appr.St} (h : Sim enc e a) (op : Nat)
    (m : ApprE.Inst) :
    Sim enc (ApprE.step {} e (.lookup op m)) (Appr.step Appr.Cfg.clean a (.lookup op (enc m))) := by
  simp only [ApprE.step, Appr.step]
  have hc : a.pending.contains (enc m) = e.pending.contains m := by rw [h.pend, contains_map hinj]
  rw [hc]
  cases hs : e.pending.contains m with
  | true =>
    have hm : m ∈ e.pending := by simpa using hs
    rw [byCtr_mem e.pending m e.ep h.cur hm]
    simp only [bne_self_eq_false, Bool.and_false, Bool.false_eq_true, if_false, if_true]
    refine ⟨h.nCb, h.seen, h.pend, h.armedE, h.armedA, h.cur, h.sub, h.fired, h.outs, ?_, ?_, ?_, h.pres, h.keysE,
      h.keysA, h.tally⟩
    · simp [h.looks]
    · intro x hx
      rcases List.mem_cons.mp hx with rfl | hx
      · rfl
      · exact h.own x hx
    · intro x hx
      rcases List.mem_cons.mp hx with rfl | hx
      · exact h.sub m hm
      · exact h.lseen x hx
  | false =>
    have hm : m ∉ e.pending := by simpa using hs
    simp only [Bool.false_eq_true, if_false]
    cases hb : ApprE.byCtr e.pending m.2 with
    | none => exact h
    | some t =>
      have ht := byCtr_some_mem _ _ _ hb
      have hne : t ≠ m := fun h' => hm (h' ▸ ht)
      have : (t != m) = true := bne_iff_ne.mpr hne
      simp only [this, Bool.and_true, if_true]
      exact h

/-- counting one more approval for a pending write keeps the two models together -/
theorem sim_bump (hinj : Function.Injective enc) {e : ApprE.St} {a : Appr.St} (h : Sim enc e a) (m : ApprE.Inst)
    (hm : m ∈ e.pending) :
    Sim enc { e with tally := some (ApprE.bump {} e.tally m.2).1 }
      { a with tally := some (Appr.bump Appr.Cfg.clean a.tally (enc m)).1 } := by
  rw [bump_same]
  refine ⟨h.nCb, h.seen, h.pend, h.armedE, h.armedA, h.cur, h.sub, h.fired, h.outs, h.looks, h.own, h.lseen, h.pres,
    ?_, ?_, ?_⟩
  · intro k hk
    simp only [bump_cnt] at hk
    by_cases hkm : k = m.2
    · subst hkm
      have := h.cur m hm
      have h2 := h.sub m hm
      obtain ⟨m1, m2⟩ := m
      simp only at this ⊢; subst this; exact h2
    · simp only [hkm, if_false] at hk; exact h.keysE k hk
  · intro w hw
    simp only [bump_cnt] at hw
    by_cases hwm : w = enc m
    · subst hwm; rw [h.seen, mem_map_enc hinj]; exact h.sub m hm
    · simp only [hwm, if_false] at hw; exact h.keysA w hw
  · intro p hp
    simp only [bump_cnt]
    have h1 := same_ctr h p m hp hm
    by_cases hpm : p = m
    · subst hpm; simp [h.tally p hp]
    · have h2 : ¬ p.2 = m.2 := fun h' => hpm (h1.mp h')
      have h3 : ¬ enc p = enc m := fun h' => hpm (hinj h')
      simp only [h2, h3, if_false]; exact h.tally p hp

/-- the final verdict on a pending write -/
theorem sim_finish (hinj : Function.Injective enc) {e : ApprE.St} {a : Appr.St} (h : Sim enc e a) (m : ApprE.Inst)
    (hm : m ∈ e.pending) (ap : Bool) :
    Sim enc (ApprE.finish {} e m m ap) (Appr.finish Appr.Cfg.clean a (enc m) ap) := by
  have hce : e.armed.contains m = true := by rw [h.armedE]; simpa using hm
  have hca : a.armed.contains (enc m) = true := by
    rw [h.armedA, h.pend, contains_map hinj]; simpa using hm
  have hfc := filter_ctr e.pending m e.ep h.cur (h.cur m hm)
  simp only [ApprE.finish, Appr.finish, hce, hca, Appr.Cfg.clean, Bool.or_true, Bool.false_or, if_true]
  refine ⟨h.nCb, h.seen, ?_, ?_, ?_, ?_, ?_, h.fired, ?_, h.looks, h.own, h.lseen, h.pres, ?_, ?_, ?_⟩
  · simp only [h.pend, hfc]; exact filter_map_ne hinj _ _
  · simp only [h.armedE, hfc]
  · simp only [h.armedA]
  · intro p hp; exact h.cur p ((List.mem_filter.mp hp).1)
  · intro p hp; exact h.sub p ((List.mem_filter.mp hp).1)
  · simp [h.outs]
  · intro k hk
    simp only [filter_cnt] at hk
    by_cases hkm : k = m.2
    · simp [hkm] at hk
    · simp only [hkm, if_false] at hk; exact h.keysE k hk
  · intro w hw
    simp only [filter_cnt] at hw
    by_cases hwm : w = enc m
    · simp [hwm] at hw
    · simp only [hwm, if_false] at hw; exact h.keysA w hw
  · intro p hp
    have hp' := (List.mem_filter.mp hp).1
    have hne : p.2 ≠ m.2 := by
      have := (List.mem_filter.mp hp).2; simpa using this
    have hpm : p ≠ m := fun h' => hne (by rw [h'])
    have h3 : ¬ enc p = enc m := fun h' => hpm (hinj h')
    simp only [filter_cnt, hne, h3, if_false]
    exact h.tally p hp'

/-- states of the instance-keyed model that differ only in the approvals counted for `w` -/
structure TallyOnly (a a' : Appr.St) (w : Nat) : Prop where
  nCb : a'.nCb = a.nCb
  seen : a'.seen = a.seen
  pending : a'.pending = a.pending
  armed : a'.armed = a.armed
  fired : a'.fired = a.fired
  outcomes : a'.outcomes = a.outcomes
  lookups : a'.lookups = a.lookups
  presented : a'.presented = a.presented
  others : ∀ k, k ≠ w → cnt a'.tally k = cnt a.tally k

theorem filter_ne_self (l : List Nat) (w : Nat) (h : w ∉ l) : l.filter (· ≠ w) = l := by
  rw [List.filter_eq_self]
  intro x hx
  have : x ≠ w := fun h' => h (h' ▸ hx)
  simpa using this

theorem tallyOnly_finish (a : Appr.St) (w : Nat) (ap : Bool) (hp : w ∉ a.pending) (ha : a.armed = a.pending) :
    TallyOnly a (Appr.finish Appr.Cfg.clean a w ap) w := by
  have hc : a.armed.contains w = false := by rw [ha]; simpa using hp
  simp only [Appr.finish, hc, Appr.Cfg.clean, Bool.or_false, Bool.false_eq_true, if_false]
  refine ⟨rfl, rfl, filter_ne_self _ _ hp, ?_, rfl, rfl, rfl, rfl, ?_⟩
  · rw [ha]; exact filter_ne_self _ _ hp
  · intro k hk; simp only [filter_cnt, hk, if_false]

theorem TallyOnly.trans {a a1 a2 : Appr.St} {w : Nat} (h1 : TallyOnly a a1 w) (h2 : TallyOnly a1 a2 w) :
    TallyOnly a a2 w :=
  ⟨h2.nCb.trans h1.nCb, h2.seen.trans h1.seen, h2.pending.trans h1.pending, h2.armed.trans h1.armed,
   h2.fired.trans h1.fired, h2.outcomes.trans h1.outcomes, h2.lookups.trans h1.lookups,
   h2.presented.trans h1.presented, fun k hk => (h2.others k hk).trans (h1.others k hk)⟩

theorem tallyOnly_bump (a : Appr.St) (w : Nat) :
    TallyOnly a { a with tally := some (Appr.bump Appr.Cfg.clean a.tally w).1 } w :=
  ⟨rfl, rfl, rfl, rfl, rfl, rfl, rfl, rfl, fun k hk => by simp only [bump_cnt, hk, if_false]⟩

theorem sim_tallyOnly {e : ApprE.St} {a a' : Appr.St} (hinj : Function.Injective enc) (h : Sim enc e a) (w : Nat)
    (ht : TallyOnly a a' w) (hp : w ∉ a.pending) (hs : w ∈ a.seen) : Sim enc e a' := by
  refine ⟨ht.nCb.trans h.nCb, ht.seen.trans h.seen, ht.pending.trans h.pend, h.armedE, ?_, h.cur, h.sub,
    ht.fired.trans h.fired, ht.outcomes.trans h.outs, ht.lookups.trans h.looks, h.own, h.lseen, ?_, h.keysE, ?_, ?_⟩
  · rw [ht.armed, ht.pending]; exact h.armedA
  · rw [ht.presented]; exact h.pres
  · intro k hk
    rw [ht.seen]
    by_cases hkw : k = w
    · rw [hkw]; exact hs
    · rw [ht.others k hkw] at hk; exact h.keysA k hk
  · intro p hp'
    have hne : enc p ≠ w := by
      intro h'; apply hp; rw [← h', h.pend]; exact List.mem_map_of_mem hp'
    rw [ht.others _ hne]; exact h.tally p hp'

theorem find_lookups {e : ApprE.St} {a : Appr.St} (h : Sim enc e a) (op : Nat) :
    a.lookups.find? (·.1 = op) = (e.lookups.find? (·.1 = op)).map fun x => (x.1, enc x.2.1) := by
  rw [h.looks, List.find?_map]; rfl

theorem filter_lookups {e : ApprE.St} {a : Appr.St} (h : Sim enc e a) (op : Nat) :
    a.lookups.filter (·.1 ≠ op) = (e.lookups.filter (·.1 ≠ op)).map fun x => (x.1, enc x.2.1) := by
  rw [h.looks, List.filter_map]; rfl

/-- dropping a verdict's lookup entry keeps the two models together -/
theorem sim_unlook {e : ApprE.St} {a : Appr.St} (h : Sim enc e a) (op : Nat) :
    Sim enc { e with lookups := e.lookups.filter (·.1 ≠ op) } { a with lookups := a.lookups.filter (·.1 ≠ op) } :=
  ⟨h.nCb, h.seen, h.pend, h.armedE, h.armedA, h.cur, h.sub, h.fired, h.outs, filter_lookups h op,
   fun x hx => h.own x (List.mem_filter.mp hx).1, fun x hx => h.lseen x (List.mem_filter.mp hx).1, h.pres, h.keysE,
   h.keysA, h.tally⟩

/-- `ApproveOrDenyWrite` after the lookup entry has been consumed: counter-keyed model -/
def restE (e1 : ApprE.St) (m t : ApprE.Inst) (ap : Bool) : ApprE.St :=
  if (({} : ApprE.Cfg).recheck && ApprE.byCtr e1.pending m.2 != some t) = true then e1
  else if (e1.nCb > 1 && ap) = true then
    if (ApprE.bump {} e1.tally m.2).2 < e1.nCb then { e1 with tally := some (ApprE.bump {} e1.tally m.2).1 }
    else ApprE.finish {} { e1 with tally := some (ApprE.bump {} e1.tally m.2).1 } m t ap
  else ApprE.finish {} e1 m t ap

/-- … instance-keyed model -/
def restA (a1 : Appr.St) (w : Nat) (ap : Bool) : Appr.St :=
  if (a1.nCb > 1 && ap) = true then
    if (Appr.bump Appr.Cfg.clean a1.tally w).2 < a1.nCb then { a1 with tally := some (Appr.bump Appr.Cfg.clean a1.tally w).1 }
    else Appr.finish Appr.Cfg.clean { a1 with tally := some (Appr.bump Appr.Cfg.clean a1.tally w).1 } w ap
  else Appr.finish Appr.Cfg.clean a1 w ap

theorem commitE_eq (e : ApprE.St) (op : Nat) (ap : Bool) :
    ApprE.step {} e (.commit op ap) = match e.lookups.find? (·.1 = op) with
      | none => e
      | some (_, m, t) => restE { e with lookups := e.lookups.filter (·.1 ≠ op) } m t ap := by
  simp only [ApprE.step, restE]
  cases e.lookups.find? (·.1 = op) with
  | none => rfl
  | some x =>
    obtain ⟨o, m, t⟩ := x
    simp only

theorem commitA_eq (a : Appr.St) (op : Nat) (ap : Bool) :
    Appr.step Appr.Cfg.clean a (.commit op ap) = match a.lookups.find? (·.1 = op) with
      | none => a
      | some (_, w) => restA { a with lookups := a.lookups.filter (·.1 ≠ op) } w ap := by
  simp only [Appr.step, restA]
  cases a.lookups.find? (·.1 = op) with
  | none => rfl
  | some x =>
    obtain ⟨o, w⟩ := x
    simp only

theorem sim_rest (hinj : Function.Injective enc) {e1 : ApprE.St} {a1 : Appr.St} (h1 : Sim enc e1 a1)
    (t : ApprE.Inst) (hseen1 : t ∈ e1.seen) (ap : Bool) : Sim enc (restE e1 t t ap) (restA a1 (enc t) ap) := by
  unfold restE restA
  by_cases hm : t ∈ e1.pending
  · -- the write is still pending in both models
    rw [byCtr_mem e1.pending t e1.ep h1.cur hm]
    simp only [bne_self_eq_false, Bool.and_false, Bool.false_eq_true, if_false]
    have hce : (decide (a1.nCb > 1) && ap) = (decide (e1.nCb > 1) && ap) := by rw [h1.nCb]
    by_cases hcond : (decide (e1.nCb > 1) && ap) = true
    · have hcondA : (decide (a1.nCb > 1) && ap) = true := hce.trans hcond
      simp only [hcond, hcondA, if_true]
      have hb := sim_bump hinj h1 t hm
      have hn : (ApprE.bump {} e1.tally t.2).2 = (Appr.bump Appr.Cfg.clean a1.tally (enc t)).2 := by
        rw [bump_same, bump_n, bump_n, h1.tally t hm]
      by_cases hlt : (ApprE.bump {} e1.tally t.2).2 < e1.nCb
      · have hltA : (Appr.bump Appr.Cfg.clean a1.tally (enc t)).2 < a1.nCb := by rw [← hn, h1.nCb]; exact hlt
        simp only [hlt, hltA, if_true]; exact hb
      · have hltA : ¬ (Appr.bump Appr.Cfg.clean a1.tally (enc t)).2 < a1.nCb := by rw [← hn, h1.nCb]; exact hlt
        simp only [hlt, hltA, if_false]
        exact sim_finish hinj hb t hm ap
    · have hcondA : ¬ (decide (a1.nCb > 1) && ap) = true := by rw [hce]; exact hcond
      simp only [hcond, hcondA, Bool.false_eq_true, if_false]
      exact sim_finish hinj h1 t hm ap
  · -- the write is no longer pending: the counter-keyed code re-checks and does nothing, the instance-keyed model
    -- counts for a key that is never looked at again
    have hb : (ApprE.byCtr e1.pending t.2 != some t) = true := by
      apply bne_iff_ne.mpr
      intro h'
      exact hm (byCtr_some_mem _ _ _ h')
    simp only [hb, Bool.and_true, if_true]
    have hpa : enc t ∉ a1.pending := by rw [h1.pend, mem_map_enc hinj]; exact hm
    have hsa : enc t ∈ a1.seen := by rw [h1.seen, mem_map_enc hinj]; exact hseen1
    by_cases hcond : (decide (a1.nCb > 1) && ap) = true
    · simp only [hcond, if_true]
      have hb2 := tallyOnly_bump a1 (enc t)
      by_cases hlt : (Appr.bump Appr.Cfg.clean a1.tally (enc t)).2 < a1.nCb
      · simp only [hlt, if_true]
        exact sim_tallyOnly hinj h1 (enc t) hb2 hpa hsa
      · simp only [hlt, if_false]
        have hf2 := tallyOnly_finish { a1 with tally := some (Appr.bump Appr.Cfg.clean a1.tally (enc t)).1 } (enc t) ap
          hpa h1.armedA
        exact sim_tallyOnly hinj h1 (enc t) (hb2.trans hf2) hpa hsa
    · simp only [hcond, Bool.false_eq_true, if_false]
      exact sim_tallyOnly hinj h1 (enc t) (tallyOnly_finish a1 (enc t) ap hpa h1.armedA) hpa hsa

theorem sim_commit (hinj : Function.Injective enc) {e : ApprE.St} {a : Appr.St} (h : Sim enc e a) (op : Nat)
    (ap : Bool) :
    Sim enc (ApprE.step {} e (.commit op ap)) (Appr.step Appr.Cfg.clean a (.commit op ap)) := by
  rw [commitE_eq, commitA_eq, find_lookups h op]
  cases hf : e.lookups.find? (·.1 = op) with
  | none => exact h
  | some x =>
    obtain ⟨o, m, t⟩ := x
    have hx : (o, m, t) ∈ e.lookups := List.mem_of_find?_eq_some hf
    have htm : t = m := h.own _ hx
    subst htm
    have hseen : t ∈ e.seen := h.lseen _ hx
    simp only [Option.map_some]
    exact sim_rest hinj (sim_unlook h op) t hseen ap

theorem sim_take (hinj : Function.Injective enc) {e : ApprE.St} {a : Appr.St} (h : Sim enc e a) (t : ApprE.Inst) :
    Sim enc (ApprE.step {} e (.timeoutTake t)) (Appr.step Appr.Cfg.clean a (.timeoutTake (enc t))) := by
  simp only [ApprE.step, Appr.step]
  have hc : a.armed.contains (enc t) = e.armed.contains t := by
    rw [h.armedA, h.pend, h.armedE, contains_map hinj]
  rw [hc]
  cases hs : e.armed.contains t with
  | false => simpa using h
  | true =>
    have hm : t ∈ e.pending := by rw [h.armedE] at hs; simpa using hs
    have hfc := filter_ctr e.pending t e.ep h.cur (h.cur t hm)
    simp only [if_true]
    refine ⟨h.nCb, h.seen, ?_, ?_, ?_, ?_, ?_, ?_, h.outs, h.looks, h.own, h.lseen, h.pres, h.keysE, h.keysA, ?_⟩
    · simp only [h.pend, hfc]; exact filter_map_ne hinj _ _
    · simp only [h.armedE, hfc]
    · simp only [h.armedA]
    · intro p hp; exact h.cur p (List.mem_filter.mp hp).1
    · intro p hp; exact h.sub p (List.mem_filter.mp hp).1
    · simp [h.fired]
    · intro p hp; exact h.tally p (List.mem_filter.mp hp).1

theorem sim_send (hinj : Function.Injective enc) {e : ApprE.St} {a : Appr.St} (h : Sim enc e a) (t : ApprE.Inst) :
    Sim enc (ApprE.step {} e (.timeoutSend t)) (Appr.step Appr.Cfg.clean a (.timeoutSend (enc t))) := by
  simp only [ApprE.step, Appr.step]
  have hc : a.fired.contains (enc t) = e.fired.contains t := by rw [h.fired, contains_map hinj]
  rw [hc]
  cases hs : e.fired.contains t with
  | false => simpa using h
  | true =>
    simp only [if_true]
    refine ⟨h.nCb, h.seen, h.pend, h.armedE, h.armedA, h.cur, h.sub, ?_, ?_, h.looks, h.own, h.lseen, h.pres, h.keysE,
      h.keysA, h.tally⟩
    · simp only [h.fired]; exact filter_map_ne hinj _ _
    · simp [h.outs]

theorem sim_drop {e : ApprE.St} {a : Appr.St} (h : Sim enc e a) :
    Sim enc (ApprE.step {} e .drop) (Appr.step Appr.Cfg.clean a .drop) := by
  simp only [ApprE.step, Appr.step]
  refine ⟨h.nCb, h.seen, rfl, rfl, rfl, ?_, ?_, h.fired, h.outs, h.looks, h.own, h.lseen, h.pres, ?_, ?_, ?_⟩
  · intro p hp; cases hp
  · intro p hp; cases hp
  · intro k hk; exact absurd rfl hk
  · intro k hk; exact absurd rfl hk
  · intro p hp; cases hp

theorem sim_step (hinj : Function.Injective enc) {e : ApprE.St} {a : Appr.St} (h : Sim enc e a) (ev : ApprE.Ev) :
    Sim enc (ApprE.step {} e ev) (Appr.step Appr.Cfg.clean a (tr enc e ev)) := by
  cases ev with
  | arrive c => exact sim_arrive hinj h c
  | lookup op m => exact sim_lookup hinj h op m
  | commit op ap => exact sim_commit hinj h op ap
  | timeoutTake t => exact sim_take hinj h t
  | timeoutSend t => exact sim_send hinj h t
  | drop => exact sim_drop h

theorem sim_run (hinj : Function.Injective enc) (evs : List ApprE.Ev) : ∀ (e : ApprE.St) (a : Appr.St), Sim enc e a →
    Sim enc (evs.foldl (ApprE.step {}) e) ((trAll enc e evs).foldl (Appr.step Appr.Cfg.clean) a) := by
  induction evs with
  | nil => intro e a h; exact h
  | cons ev evs ih =>
    intro e a h
    simp only [List.foldl_cons, trAll]
    exact ih _ _ (sim_step hinj h ev)

/-- EQUIVALENCE of the counter-keyed and the instance-keyed model (fully repaired member): for every number of
    callbacks and EVERY event list — counters reused after any number of disconnects, verdicts and timeouts of earlier
    connections arriving at any time — the outcomes are the same, instance by instance, in the same order. -/
theorem outcomes_eq (hinj : Function.Injective enc) (n : Nat) (evs : List ApprE.Ev) :
    (Appr.run Appr.Cfg.clean n (trAll enc { nCb := n } evs)).outcomes =
      (ApprE.run {} n evs).outcomes.map fun x => (enc x.1, x.2) :=
  (sim_run hinj evs _ _ (sim_init n)).outs

/-- an injective naming of instances (Cantor pairing without division: the pair is recovered from the sum and the
    offset) -/
def pairEnc (i : ApprE.Inst) : Nat := (i.1 + i.2) * (i.1 + i.2 + 1) / 2 + i.2

theorem tri_mono {a b : Nat} (h : a < b) : a * (a + 1) / 2 + a < b * (b + 1) / 2 := by
  have h1 : (a + 1) * (a + 2) ≤ b * (b + 1) := Nat.mul_le_mul h (by omega)
  have h2 : (a + 1) * (a + 2) = a * (a + 1) + 2 * (a + 1) := by
    simp only [Nat.add_mul, Nat.mul_add, Nat.mul_one, Nat.one_mul]; omega
  omega

theorem pairEnc_injective : Function.Injective pairEnc := by
  intro x y h
  obtain ⟨x1, x2⟩ := x; obtain ⟨y1, y2⟩ := y
  simp only [pairEnc] at h
  have hs : x1 + x2 = y1 + y2 := by
    rcases Nat.lt_trichotomy (x1 + x2) (y1 + y2) with hlt | heq | hgt
    · have := tri_mono hlt; omega
    · exact heq
    · have := tri_mono hgt; omega
  rw [hs] at h
  have h2 : x2 = y2 := by omega
  have h1 : x1 = y1 := by omega
  rw [h1, h2]

end Spine.ApprEq
