/-! Use-case registry (model/nodemanagement_additions.go, usecaseinformation_additions.go,
    spine/entity_local.go), sequential semantics, written recursively so that proofs are inductions -/
namespace Spine.UC

structure Support where
  name : Nat            -- 0 = empty string
  version : Nat
  avail : Bool
  scen : List Nat
  sub : Nat := 0        -- document sub-revision (interned)
deriving DecidableEq, Repr

structure Info where
  ent : List Nat
  actor : Nat           -- 0 = empty string
  sup : List Support
deriving DecidableEq, Repr

abbrev Reg := List Info

def hasName (sup : List Support) (name : Nat) : Bool := sup.any (·.name = name)

/-- the test of useCaseInformationIndex, with its wildcard rules for empty actor / empty name -/
def hit (ent : List Nat) (actor name : Nat) (i : Info) : Bool :=
  i.ent = ent &&
    (if actor = 0 && name = 0 then true
     else (actor = 0 || i.actor = actor) && (name = 0 || hasName i.sup name))

/-- UseCaseInformationDataType.Add: overwrite the first support of that name, else append -/
def addSup : List Support → Support → List Support
  | [], s => [s]
  | x :: xs, s => if x.name = s.name then s :: xs else x :: addSup xs s

/-- AddUseCaseSupport: into the first information element of (entity, actor), else a new element at the end -/
def add : Reg → List Nat → Nat → Support → Reg
  | [], ent, actor, s => [{ ent := ent, actor := actor, sup := [s] }]
  | i :: rest, ent, actor, s =>
    if hit ent actor 0 i then { i with sup := addSup i.sup s } :: rest else i :: add rest ent actor s

def has (r : Reg) (ent : List Nat) (actor name : Nat) : Bool := r.any (hit ent actor name)

def setSupAvail : List Support → Nat → Bool → List Support
  | [], _, _ => []
  | x :: xs, name, a => if x.name = name then { x with avail := a } :: xs else x :: setSupAvail xs name a

def setAvail : Reg → List Nat → Nat → Nat → Bool → Reg
  | [], _, _, _, _ => []
  | i :: rest, ent, actor, name, a =>
    if hit ent actor name i then { i with sup := setSupAvail i.sup name a } :: rest
    else i :: setAvail rest ent actor name a

/-- RemoveUseCaseSupport: in the first matching element drop every support of that name; drop the element if empty -/
def remove : Reg → List Nat → Nat → Nat → Reg
  | [], _, _, _ => []
  | i :: rest, ent, actor, name =>
    if hit ent actor name i then
      let sup' := i.sup.filter (·.name ≠ name)
      if sup'.isEmpty then rest else { i with sup := sup' } :: rest
    else i :: remove rest ent actor name

def removeAll (r : Reg) (ent : List Nat) : Reg := r.filter (·.ent ≠ ent)

/-- processReadUseCaseData: the reply to a `nodeManagementUseCaseData` read carries the stored function data
    (`fd.ReplyCmdType(false)`), nothing is filtered or recomputed -/
def readReply (r : Reg) : Reg := r

end Spine.UC
