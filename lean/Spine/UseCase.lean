/-! Use-case registry (model/nodemanagement_additions.go, usecaseinformation_additions.go,
    spine/entity_local.go), sequential semantics, written recursively so that proofs are inductions -/
namespace Spine.UC

structure Support where
  name : Nat            -- 0 = empty string
  version : Nat
  avail : Bool
  scen : List Nat
  sub : Nat := 0        -- document sub-revision (interned)
deriving DecidableEq, Repr

structure Info where
  ent : List Nat
  actor : Nat           -- 0 = empty string
  sup : List Support
deriving DecidableEq, Repr

abbrev Reg := List Info

def hasName (sup : List Support) (name : Nat) : Bool := sup.any (·.name = name)

/-- the test of useCaseInformationIndex, with its wildcard rules for empty actor / empty name -/
def hit (ent : List Nat) (actor name : Nat) (i : Info) : Bool :=
  i.ent = ent &&
    (if actor = 0 && name = 0 then true
     else (actor = 0 || i.actor = actor) && (name = 0 || hasName i.sup name))

/-- UseCaseInformationDataType.Add: overwrite the first support of that name, else append -/
def addSup : List Support → Support → List Support
  | [], s => [s]
  | x :: xs, s => if x.name = s.name then s :: xs else x :: addSup xs s

/-- AddUseCaseSupport: into the first information element of (entity, actor), else a new element at the end -/
def add : Reg → List Nat → Nat → Support → Reg
  | [], ent, actor, s => [{ ent := ent, actor := actor, sup := [s] }]
  | i :: rest, ent, actor, s =>
    if hit ent actor 0 i then { i with sup := addSup i.sup s } :: rest else i :: add rest ent actor s

def has (r : Reg) (ent : List Nat) (actor name : Nat) : Bool := r.any (hit ent actor name)

def setSupAvail : List Support → Nat → Bool → List Support
  | [], _, _ => []
  | x :: xs, name, a => if x.name = name then { x with avail := a } :: xs else x :: setSupAvail xs name a

def setAvail : Reg → List Nat → Nat → Nat → Bool → Reg
  | [], _, _, _, _ => []
  | i :: rest, ent, actor, name, a =>
    if hit ent actor name i then { i with sup := setSupAvail i.sup name a } :: rest
    else i :: setAvail rest ent actor name a

/-- RemoveUseCaseSupport: in the first matching element drop every support of that name; drop the element if empty -/
def remove : Reg → List Nat → Nat → Nat → Reg
  | [], _, _, _ => []
  | i :: rest, ent, actor, name =>
    if hit ent actor name i then
      let sup' := i.sup.filter (·.name ≠ name)
      if sup'.isEmpty then rest else { i with sup := sup' } :: rest
    else i :: remove rest ent actor name

def removeAll (r : Reg) (ent : List Nat) : Reg := r.filter (·.ent ≠ ent)

/-! ### the read path: a peer's `nodeManagementUseCaseData` read through node management

    The datagram is dispatched to `NodeManagement.HandleMessage`, which routes a command carrying use-case data to
    `handleMsgUseCaseData`; for the classifier `read` that is `processReadUseCaseData`: a reply whose payload is the
    stored function data (`fd.ReplyCmdType(false)`), serialised onto the wire; the peer decodes it. The wire is
    modelled as a token list with length prefixes (what matters about JSON here: the encoding is injective and
    self-delimiting; `encoding/json` itself is assumption A-json and compared by the harness on every read). -/

abbrev Wire := List Nat

def encNats (l : List Nat) : Wire := l.length :: l
def encSup (s : Support) : Wire := [s.name, s.version, if s.avail then 1 else 0, s.sub] ++ encNats s.scen
def encInfo (i : Info) : Wire := encNats i.ent ++ (i.actor :: i.sup.length :: i.sup.flatMap encSup)
def encode (r : Reg) : Wire := r.length :: r.flatMap encInfo

def decNats : Wire → Option (List Nat × Wire)
  | [] => none
  | n :: rest => if n ≤ rest.length then some (rest.take n, rest.drop n) else none

def decMany {α : Type} (p : Wire → Option (α × Wire)) : Nat → Wire → Option (List α × Wire)
  | 0, w => some ([], w)
  | n + 1, w =>
    match p w with
    | none => none
    | some (x, w') =>
      match decMany p n w' with
      | none => none
      | some (xs, w'') => some (x :: xs, w'')

def decSup : Wire → Option (Support × Wire)
  | name :: version :: av :: sub :: rest =>
    match decNats rest with
    | none => none
    | some (scen, w) => if av ≤ 1 then some (⟨name, version, av == 1, scen, sub⟩, w) else none
  | _ => none

def decInfo (w : Wire) : Option (Info × Wire) :=
  match decNats w with
  | none => none
  | some (ent, w1) =>
    match w1 with
    | actor :: n :: w2 =>
      match decMany decSup n w2 with
      | none => none
      | some (sup, w3) => some (⟨ent, actor, sup⟩, w3)
    | _ => none

/-- the peer's decoding of a reply payload; `none` = not a well-formed use-case payload -/
def decode : Wire → Option Reg
  | [] => none
  | n :: rest =>
    match decMany decInfo n rest with
    | some (r, []) => some r
    | _ => none

/-- command classifiers of an inbound datagram -/
inductive Cls
  | read | reply | notify | write | call | result
deriving DecidableEq, Repr

/-- processReadUseCaseData: the reply payload is the encoding of the stored function data -/
def readReply (r : Reg) : Wire := encode r

/-- `NodeManagement.handleMsgUseCaseData` on the serving side: the use-case payload sent back to the peer, if any.
    Only a `read` is answered with use-case data; `reply` / `notify` update the cache kept for the *peer's* data and
    never touch the local registry; the other classifiers are rejected. -/
def handleUseCaseMsg (r : Reg) : Cls → Option Wire
  | .read => some (readReply r)
  | _ => none

/-- what a peer that sends a read obtains: the decoded payload of the reply -/
def peerReads (r : Reg) : Option Reg := (handleUseCaseMsg r .read).bind decode

end Spine.UC
