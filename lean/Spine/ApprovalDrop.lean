/-! C10: pending write approvals when the peer's connection is removed. `CleanWriteApprovalCaches` as written
    forgets the pending map without stopping the timers; repaired, it stops them. Writes are (peer, counter). -/
namespace Spine.ApprDrop

structure St where
  armed : List (Nat × Nat) := []        -- timers that will fire: (peer, write)
  pending : List (Nat × Nat) := []      -- pendingWriteApprovals
  dropped : List Nat := []              -- peers whose connection has been removed
  sentAfterDrop : List (Nat × Nat) := [] -- results written to a connection after it was removed

inductive Ev
  | arrive (p w : Nat)
  | drop (p : Nat)
  | timeout (p w : Nat)

def step (stopTimers : Bool) (s : St) : Ev → St
  | .arrive p w => if s.dropped.contains p then s
                   else { s with armed := (p, w) :: s.armed, pending := (p, w) :: s.pending }
  | .drop p =>
    { s with dropped := p :: s.dropped,
             pending := s.pending.filter (·.1 ≠ p),
             armed := if stopTimers then s.armed.filter (·.1 ≠ p) else s.armed }
  | .timeout p w =>
    if s.armed.contains (p, w) then
      { s with armed := s.armed.erase (p, w), pending := s.pending.erase (p, w),
               sentAfterDrop := if s.dropped.contains p then (p, w) :: s.sentAfterDrop else s.sentAfterDrop }
    else s

def run (b : Bool) (evs : List Ev) : St := evs.foldl (step b) {}

/-- as written: the timer of a write pending at disconnect fires later and writes to the removed connection -/
theorem timer_after_drop_witness : (run false [.arrive 1 7, .drop 1, .timeout 1 7]).sentAfterDrop = [(1, 7)] := by
  decide

/-- C10 (repaired): nothing is ever written to a connection after it was removed -/
theorem c10_silence (evs : List Ev) : (run true evs).sentAfterDrop = [] := by
  unfold run
  -- invariant: no armed timer belongs to a dropped peer
  suffices ∀ s : St, (s.sentAfterDrop = [] ∧ ∀ x ∈ s.armed, s.dropped.contains x.1 = false) →
      ((evs.foldl (step true) s).sentAfterDrop = [] ∧
        ∀ x ∈ (evs.foldl (step true) s).armed, (evs.foldl (step true) s).dropped.contains x.1 = false) from
    (this {} ⟨rfl, by simp⟩).1
  induction evs with
  | nil => intro s h; exact h
  | cons e es ih =>
    intro s h
    apply ih
    obtain ⟨h1, h2⟩ := h
    cases e with
    | arrive p w =>
      simp only [step]
      split
      · exact ⟨h1, h2⟩
      · rename_i hnd
        refine ⟨h1, ?_⟩
        intro x hx
        rcases List.mem_cons.mp hx with rfl | hx
        · simpa using hnd
        · exact h2 x hx
    | drop p =>
      simp only [step, if_true]
      refine ⟨h1, ?_⟩
      intro x hx
      have hx' := List.mem_filter.mp hx
      have hne : x.1 ≠ p := by simpa using hx'.2
      have := h2 x hx'.1
      simp only [List.contains_cons, Bool.or_eq_false_iff, beq_eq_false_iff_ne, ne_eq]
      exact ⟨hne, this⟩
    | timeout p w =>
      simp only [step]
      split
      · rename_i hc
        have hm : (p, w) ∈ s.armed := by simpa using hc
        have hnd := h2 (p, w) hm
        simp only at hnd
        have hnm : ¬ p ∈ s.dropped := by simpa using hnd
        refine ⟨by simp [hnm, h1], ?_⟩
        intro x hx
        exact h2 x (List.erase_subset hx)
      · exact ⟨h1, h2⟩

end Spine.ApprDrop
