/-!
# TimePeriodType's own JSON (model/commondatatypes_additions.go:36-96), as written

`TimePeriodType` is the only type of the data model with its own `MarshalJSON` / `UnmarshalJSON`
(`Spine.Props.C18.c18_schema_fragment`). What they do is decided by a GUARD on the shape of the period:

* `MarshalJSON` → `getTimePeriodTypeDuration`: `StartTime != nil || EndTime == nil` ⇒ no change;
  otherwise, if the end time parses as a duration it is written as that duration (normalised text), if it
  parses as a date-time it is written as the duration from now to it; anything else ⇒ no change.
* `UnmarshalJSON` → `setTimePeriodTypeEndTime`: `StartTime != nil || EndTime == nil` ⇒ no change;
  otherwise, if the end time parses as a duration it becomes the date-time now + duration; else no change.

The model works on the CLASS of a time string (`junk`, `rel d`, `abs t`, whole seconds) — parsing and
formatting of the strings, rounding to the second and the arithmetic of the period library are C19's
subject. The harness (go/comp/wire_test.go) classifies the real strings with its own parser, asks
`drv_json` for the prediction of this model and compares class and number (± the second rounding and
the measured time between the two calls); where the model predicts "unchanged" the real text must be
the identical string.
-/
namespace Spine.PeriodJson

/-- class of an `AbsoluteOrRelativeTimeType` string -/
inductive TV
  | junk                -- parses neither as duration nor as date-time
  | rel (d : Int)       -- a duration of d seconds
  | abs (t : Int)       -- a date-time, t seconds since the epoch
deriving Repr, DecidableEq

structure TP where
  start : Option TV
  stop : Option TV
deriving Repr, DecidableEq

/-- the guard of `getTimePeriodTypeDuration` / `setTimePeriodTypeEndTime`: only the end time is present -/
def endOnly (p : TP) : Bool := p.start.isNone && p.stop.isSome

/-- `TimePeriodType.MarshalJSON` at time `now` -/
def marshal (now : Int) (p : TP) : TP :=
  if endOnly p then
    match p.stop with
    | some (.abs t) => { p with stop := some (.rel (t - now)) }
    | _ => p            -- a duration is written as the same duration; junk is left alone
  else p

/-- `TimePeriodType.UnmarshalJSON` at time `now` -/
def unmarshal (now : Int) (p : TP) : TP :=
  if endOnly p then
    match p.stop with
    | some (.rel d) => { p with stop := some (.abs (now + d)) }
    | _ => p
  else p

/-- encode at `n`, decode at `n'` -/
def roundtrip (n n' : Int) (p : TP) : TP := unmarshal n' (marshal n p)

/-- A period with a start time, without an end time, or with an unparsable end time is not touched:
    neither on the wire nor after decoding. -/
theorem identity_unless_end_only (n n' : Int) (p : TP)
    (h : p.start.isSome = true ∨ p.stop = none ∨ p.stop = some .junk) :
    marshal n p = p ∧ roundtrip n n' p = p := by
  obtain ⟨s, e⟩ := p
  rcases h with h | h | h
  · cases s with
    | none => simp at h
    | some s => simp [roundtrip, marshal, unmarshal, endOnly]
  · simp only at h; subst h; cases s <;> simp [roundtrip, marshal, unmarshal, endOnly]
  · simp only at h; subst h; cases s <;> simp [roundtrip, marshal, unmarshal, endOnly]

/-- The start time is never changed, and a period keeps the shape "which of the two are present". -/
theorem start_unchanged (n n' : Int) (p : TP) :
    (marshal n p).start = p.start ∧ (roundtrip n n' p).start = p.start ∧
    (roundtrip n n' p).stop.isSome = p.stop.isSome := by
  obtain ⟨s, e⟩ := p
  cases s <;> cases e with
  | none => simp [roundtrip, marshal, unmarshal, endOnly]
  | some e => cases e <;> simp [roundtrip, marshal, unmarshal, endOnly]

/-- An end-only period with a RELATIVE end time travels as that duration and is re-anchored by the
    receiver against its own clock. -/
theorem relative_reanchored (n n' d : Int) :
    marshal n ⟨none, some (.rel d)⟩ = ⟨none, some (.rel d)⟩ ∧
    roundtrip n n' ⟨none, some (.rel d)⟩ = ⟨none, some (.abs (n' + d))⟩ := by
  simp [roundtrip, marshal, unmarshal, endOnly]

/-- An end-only period with an ABSOLUTE end time travels as the duration from now and comes back as the
    same instant, shifted by the time between encoding and decoding. -/
theorem absolute_kept (n n' t : Int) :
    marshal n ⟨none, some (.abs t)⟩ = ⟨none, some (.rel (t - n))⟩ ∧
    roundtrip n n' ⟨none, some (.abs t)⟩ = ⟨none, some (.abs (t + (n' - n)))⟩ := by
  simp only [roundtrip, marshal, unmarshal, endOnly, Option.isNone_none, Option.isSome_some, Bool.and_self, if_true]
  refine ⟨trivial, ?_⟩
  congr 3
  omega

end Spine.PeriodJson
