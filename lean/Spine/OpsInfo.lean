import Spine.Dispatch
/-! What a local feature ANNOUNCES about a function (`Operations.Information()` → `possibleOperations` of the detailed
    discovery data, spine/operations.go) next to what the write gate reads (`Operations.Write()`), C03 clause "the
    written function is announced as writable on that feature".

    `Ops` is the `Operations` object (four flags), `Poss` the announced `PossibleOperationsType`: for read and for
    write one of absent / present / present with the `partial` tag. `info` transcribes `Information()`. The table
    `Spine.Generated.OpsInfo` is the real function run over all sixteen flag combinations (and the real
    `AddFunctionType` → `Information()` / `Operations()` chain of a feature) on every check; `Props/C03Gen.lean` decides
    that the transcription is the code. -/
namespace Spine.OpsInfo

structure Ops where
  read : Bool
  readPartial : Bool
  write : Bool
  writePartial : Bool
deriving DecidableEq, Repr

/-- `none` = the element is absent, `some p` = present, with the partial tag iff `p` -/
structure Poss where
  read : Option Bool
  write : Option Bool
deriving DecidableEq, Repr

def info (o : Ops) : Poss :=
  { read := if o.read then some o.readPartial else none
    write := if o.write then some o.writePartial else none }

/-- a peer that decodes the announcement reads "writable" off the presence of the write element -/
def annWritable (p : Poss) : Bool := p.write.isSome
def annWritePartial (p : Poss) : Bool := p.write == some true
def annReadable (p : Poss) : Bool := p.read.isSome

theorem annWritable_info (o : Ops) : annWritable (info o) = o.write := by
  cases o with | mk r rp w wp => cases w <;> rfl

theorem annReadable_info (o : Ops) : annReadable (info o) = o.read := by
  cases o with | mk r rp w wp => cases r <;> rfl

theorem annWritePartial_info (o : Ops) : annWritePartial (info o) = (o.write && o.writePartial) := by
  cases o with | mk r rp w wp => cases w <;> cases wp <;> rfl

/-- the announcement is write-faithful whatever the read flags are: in particular a WRITE-ONLY function (read = false)
    is announced as writable -/
theorem write_only_is_announced (rp wp : Bool) : annWritable (info ⟨false, rp, true, wp⟩) = true := rfl

def allOps : List Ops :=
  [false, true].flatMap fun r => [false, true].flatMap fun rp => [false, true].flatMap fun w => [false, true].map fun wp => ⟨r, rp, w, wp⟩

/-! ### the dispatch model's local feature, seen through its announcement -/

open Spine.Disp in
/-- what the local feature of the dispatch model announces: one entry per announced function; the read flags are not
    part of `Disp.LF` (the gate does not look at them) and are arbitrary here -/
def announce (rd : Nat → Bool × Bool) (wp : Nat → Bool) (lf : LF) : List (Nat × Poss) :=
  lf.ops.map fun o => (o.1, info ⟨(rd o.1).1, (rd o.1).2, o.2, wp o.1⟩)

/-- "announced as writable on that feature": some entry of the announcement names the function with a write element -/
def announcedWritable (ann : List (Nat × Poss)) (fn : Nat) : Bool := ann.any fun a => a.1 = fn && annWritable a.2

open Spine.Disp in
/-- the gate's reading (`Disp.writable`: `Operations()[fn].Write()`) IS the announcement's, for every feature, every
    function, whatever the read / partial flags -/
theorem writable_iff_announced (rd : Nat → Bool × Bool) (wp : Nat → Bool) (lf : LF) (fn : Nat) :
    writable lf fn = announcedWritable (announce rd wp lf) fn := by
  unfold writable announcedWritable announce
  rw [List.any_map]
  congr 1
  funext o
  simp only [Function.comp, annWritable_info]

end Spine.OpsInfo
