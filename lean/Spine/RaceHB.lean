import Spine.Race
import Spine.LockTables
/-!
# Happens-before and data races over the trace model (C17)

`Spine.Race.guarded_accesses_ordered` concludes with a syntactic witness: between the two accesses
the trace contains `rel t₁ m` and, later, `acq t₂ m`. This module defines the happens-before
relation of the Go memory model restricted to mutexes — program order, "an Unlock is synchronised
before every later Lock of the same mutex", transitivity — over the positions of a trace, defines
a data race (two conflicting accesses by different threads not ordered by happens-before) and
proves that a location all of whose accesses are made under one mutex has no data race, in every
trace that respects mutual exclusion (every schedule, any number of threads).

Positions are chronological: the event `e` of `tr = later ++ e :: earlier` (traces are stored latest
first) is at position `earlier.length`. Hand-written, core Lean only.
-/
namespace Spine.RaceHB
open Spine Spine.Race Spine.LockTables

def thread : Ev → Nat
  | .acq t _ => t
  | .rel t _ => t
  | .acc t _ _ => t

/-- event `e` occurs at chronological position `k` of the (latest-first) trace -/
def At (tr : List Ev) (k : Nat) (e : Ev) : Prop :=
  ∃ later earlier, tr = later ++ e :: earlier ∧ earlier.length = k

/-- happens-before (Go memory model, mutexes only) -/
inductive HB (tr : List Ev) : Nat → Nat → Prop
  | po {i j : Nat} {e1 e2 : Ev} : i < j → At tr i e1 → At tr j e2 → thread e1 = thread e2 → HB tr i j
  | sync {i j t t' m : Nat} : i < j → At tr i (.rel t m) → At tr j (.acq t' m) → HB tr i j
  | trans {i j k : Nat} : HB tr i j → HB tr j k → HB tr i k

/-- two accesses to `x` by different threads, at least one a write, not ordered by happens-before -/
def DataRace (tr : List Ev) (x : Nat) : Prop :=
  ∃ i j t1 t2 w1 w2, i < j ∧ At tr i (.acc t1 x w1) ∧ At tr j (.acc t2 x w2) ∧ t1 ≠ t2 ∧
    (w1 = true ∨ w2 = true) ∧ ¬ HB tr i j

/-- of two occurrences in one list the chronologically earlier one lies inside the tail of the later -/
theorem earlier_inside {α : Type} (a b : α) (e2 e1 : List α) :
    ∀ (l2 l1 : List α), l2 ++ a :: e2 = l1 ++ b :: e1 → e1.length < e2.length →
      ∃ mid, e2 = mid ++ b :: e1
  | [], [], h, hl => by
    simp only [List.nil_append, List.cons.injEq] at h
    rw [h.2] at hl; exact absurd hl (Nat.lt_irrefl _)
  | [], c :: l1, h, _ => by
    simp only [List.nil_append, List.cons_append, List.cons.injEq] at h
    exact ⟨l1, h.2⟩
  | c :: l2, [], h, hl => by
    simp only [List.cons_append, List.nil_append, List.cons.injEq] at h
    have : e1.length = l2.length + (e2.length + 1) := by rw [← h.2]; simp
    omega
  | c :: l2, d :: l1, h, hl => by
    simp only [List.cons_append, List.cons.injEq] at h
    exact earlier_inside a b e2 e1 l2 l1 h.2 hl

/-- **Guarded accesses are ordered by happens-before.** -/
theorem guarded_hb (m x t1 t2 : Nat) (w1 w2 : Bool) (hne : t1 ≠ t2)
    (later mid earlier : List Ev)
    (hwf : WF (later ++ Ev.acc t2 x w2 :: (mid ++ Ev.acc t1 x w1 :: earlier)))
    (hg : Guarded m x (later ++ Ev.acc t2 x w2 :: (mid ++ Ev.acc t1 x w1 :: earlier))) :
    HB (later ++ Ev.acc t2 x w2 :: (mid ++ Ev.acc t1 x w1 :: earlier))
      earlier.length (earlier.length + 1 + mid.length) := by
  obtain ⟨mid2, mid1, mid0, rfl⟩ := guarded_trace_ordered m x t1 t2 w1 w2 hne later mid earlier hwf hg
  -- positions: acc₁ at k0, rel at k1, acq at k2, acc₂ at k3
  have a0 : At (later ++ Ev.acc t2 x w2 :: ((mid2 ++ Ev.acq t2 m :: (mid1 ++ Ev.rel t1 m :: mid0)) ++ Ev.acc t1 x w1 :: earlier))
      earlier.length (Ev.acc t1 x w1) :=
    ⟨later ++ Ev.acc t2 x w2 :: (mid2 ++ Ev.acq t2 m :: (mid1 ++ Ev.rel t1 m :: mid0)), earlier, by simp, rfl⟩
  have a1 : At (later ++ Ev.acc t2 x w2 :: ((mid2 ++ Ev.acq t2 m :: (mid1 ++ Ev.rel t1 m :: mid0)) ++ Ev.acc t1 x w1 :: earlier))
      (earlier.length + 1 + mid0.length) (Ev.rel t1 m) :=
    ⟨later ++ Ev.acc t2 x w2 :: (mid2 ++ Ev.acq t2 m :: mid1), mid0 ++ Ev.acc t1 x w1 :: earlier, by simp, by simp; omega⟩
  have a2 : At (later ++ Ev.acc t2 x w2 :: ((mid2 ++ Ev.acq t2 m :: (mid1 ++ Ev.rel t1 m :: mid0)) ++ Ev.acc t1 x w1 :: earlier))
      (earlier.length + 1 + mid0.length + 1 + mid1.length) (Ev.acq t2 m) :=
    ⟨later ++ Ev.acc t2 x w2 :: mid2, mid1 ++ Ev.rel t1 m :: (mid0 ++ Ev.acc t1 x w1 :: earlier), by simp, by simp; omega⟩
  have a3 : At (later ++ Ev.acc t2 x w2 :: ((mid2 ++ Ev.acq t2 m :: (mid1 ++ Ev.rel t1 m :: mid0)) ++ Ev.acc t1 x w1 :: earlier))
      (earlier.length + 1 + (mid2 ++ Ev.acq t2 m :: (mid1 ++ Ev.rel t1 m :: mid0)).length) (Ev.acc t2 x w2) :=
    ⟨later, (mid2 ++ Ev.acq t2 m :: (mid1 ++ Ev.rel t1 m :: mid0)) ++ Ev.acc t1 x w1 :: earlier, rfl, by simp; omega⟩
  have h01 := HB.po (by omega) a0 a1 (by simp [thread])
  have h12 := HB.sync (by omega) a1 a2
  have h23 := HB.po (by simp; omega) a2 a3 (by simp [thread])
  exact HB.trans (HB.trans h01 h12) h23

/-- **No data race on a guarded location**: in every trace that respects mutual exclusion and in
    which every access to `x` is made under the mutex `m`, no two conflicting accesses to `x` by
    different threads are unordered by happens-before. All schedules, any number of threads. -/
theorem guarded_no_data_race (m x : Nat) (tr : List Ev) (hwf : WF tr) (hg : Guarded m x tr) :
    ¬ DataRace tr x := by
  rintro ⟨i, j, t1, t2, w1, w2, hij, ⟨l1, e1, h1, hl1⟩, ⟨l2, e2, h2, hl2⟩, hne, _, hnhb⟩
  have hlen : e1.length < e2.length := by omega
  obtain ⟨mid, rfl⟩ := earlier_inside (Ev.acc t2 x w2) (Ev.acc t1 x w1) e2 e1 l2 l1 (h2.symm.trans h1) hlen
  subst h2
  have := guarded_hb m x t1 t2 w1 w2 hne l2 mid e1 hwf hg
  apply hnhb
  have hj : j = e1.length + 1 + mid.length := by rw [← hl2]; simp; omega
  rw [hj, ← hl1]
  exact this

theorem HB_lt {tr : List Ev} {i j : Nat} (h : HB tr i j) : i < j := by
  induction h with
  | po h _ _ _ => exact h
  | sync h _ _ => exact h
  | trans _ _ ih1 ih2 => exact Nat.lt_trans ih1 ih2

/-- the unguarded two-event trace: thread 1 writes location 3, then thread 2 writes it, no mutex -/
def racy : List Ev := [.acc 2 3 true, .acc 1 3 true]

theorem racy_at0 {e : Ev} (h : At racy 0 e) : e = .acc 1 3 true := by
  obtain ⟨later, earlier, heq, hl⟩ := h
  have he : earlier = [] := List.eq_nil_of_length_eq_zero hl
  subst he
  match later, heq with
  | [], heq => simp [racy] at heq
  | [a], heq => simp only [racy, List.cons_append, List.nil_append, List.cons.injEq] at heq; exact heq.2.1.symm
  | a :: b :: l, heq => simp [racy] at heq

theorem racy_at1 {e : Ev} (h : At racy 1 e) : e = .acc 2 3 true := by
  obtain ⟨later, earlier, heq, hl⟩ := h
  match later, earlier, heq, hl with
  | [], [b], heq, _ => simp only [racy, List.nil_append, List.cons.injEq] at heq; exact heq.1.symm
  | [], [], _, hl => simp at hl
  | [], _ :: _ :: _, _, hl => simp at hl
  | a :: l, [b], heq, _ =>
    simp only [racy, List.cons_append, List.cons.injEq] at heq
    have := congrArg List.length heq.2
    simp at this
  | a :: l, [], _, hl => simp at hl
  | a :: l, _ :: _ :: _, _, hl => simp at hl

/-- non-vacuity of `DataRace`: the unguarded trace has a data race (so `guarded_no_data_race` denies
    something that can happen), and it respects mutual exclusion trivially -/
theorem racy_has_data_race : WF racy ∧ DataRace racy 3 := by
  refine ⟨by simp [racy, WF], 0, 1, 1, 2, true, true, by omega, ⟨[.acc 2 3 true], [], rfl, rfl⟩,
    ⟨[], [.acc 1 3 true], rfl, rfl⟩, by omega, Or.inl rfl, ?_⟩
  intro h
  have key : ∀ i j, HB racy i j → i = 0 → j = 1 → False := by
    intro i j h
    induction h with
    | po _ a1 a2 ht =>
      intro hi hj; subst hi; subst hj
      rw [racy_at0 a1, racy_at1 a2] at ht
      simp [thread] at ht
    | sync _ a1 _ =>
      intro hi _; subst hi
      have := racy_at0 a1
      exact Ev.noConfusion this
    | trans h1 h2 _ _ =>
      intro hi hk; subst hi; subst hk
      have := HB_lt h1; have := HB_lt h2
      omega
  exact key 0 1 h rfl rfl

end Spine.RaceHB
