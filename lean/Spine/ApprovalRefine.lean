import Spine.ApprovalSpec
/-! C12: every step of the repaired member is a step of the per-write automaton (`specStep`) under the relation `R`. -/
namespace Spine.Appr

theorem refine_arrive (s : St) (sp : Sp) (w0 : Nat) (h : R s sp) :
    R (step Cfg.clean s (.arrive w0)) (specStep s.nCb sp (.arrive w0)) := by
  obtain ⟨hl, hw⟩ := h
  have h0 := hw w0
  have hseen := Rw_seen_iff s w0 _ h0
  simp only [step, specStep]
  cases hx : sp.st w0 with
  | absent =>
    rw [hx] at h0
    have hns : s.seen.contains w0 = false := by simpa using h0.1
    simp only [hns, Bool.false_eq_true, if_false]
    refine ⟨hl, fun w => ?_⟩
    by_cases hww : w = w0
    · subst hww
      simp only [upd_same]
      obtain ⟨h1, h2, h3, h4, h5, h6, h7⟩ := h0
      exact ⟨List.mem_cons_self, List.mem_cons_self, List.mem_cons_self, h4, h5, h6⟩
    · simp only [upd_other _ _ _ _ hww]
      refine Rw_same s _ w (sp.st w) ?_ ?_ ?_ (hw w)
      · exact ⟨by simp [hww], by simp [hww], by simp [hww], Iff.rfl, rfl⟩
      · exact Or.inl rfl
      · exact fun _ y hy _ => hy
  | waiting k =>
    have hs : s.seen.contains w0 = true := by
      have := hseen.mpr (by rw [hx]; exact fun hc => W.noConfusion hc); simpa using this
    simp only [hs, if_true]
    exact ⟨hl, hw⟩
  | expiring =>
    have hs : s.seen.contains w0 = true := by
      have := hseen.mpr (by rw [hx]; exact fun hc => W.noConfusion hc); simpa using this
    simp only [hs, if_true]
    exact ⟨hl, hw⟩
  | gone =>
    have hs : s.seen.contains w0 = true := by
      have := hseen.mpr (by rw [hx]; exact fun hc => W.noConfusion hc); simpa using this
    simp only [hs, if_true]
    exact ⟨hl, hw⟩
  | done o =>
    have hs : s.seen.contains w0 = true := by
      have := hseen.mpr (by rw [hx]; exact fun hc => W.noConfusion hc); simpa using this
    simp only [hs, if_true]
    exact ⟨hl, hw⟩

theorem refine_lookup (s : St) (sp : Sp) (op w0 : Nat) (h : R s sp) :
    R (step Cfg.clean s (.lookup op w0)) (specStep s.nCb sp (.lookup op w0)) := by
  obtain ⟨hl, hw⟩ := h
  have h0 := hw w0
  have hpend := Rw_pending_iff s w0 _ h0
  simp only [step, specStep]
  by_cases hp : w0 ∈ s.pending
  · obtain ⟨k, hk⟩ := hpend.mp hp
    have hc : s.pending.contains w0 = true := by simpa using hp
    simp only [hc, if_true, hk]
    refine ⟨by simp [hl], fun w => ?_⟩
    show Rw _ w (sp.st w)
    refine Rw_same s _ w (sp.st w) ⟨Iff.rfl, Iff.rfl, Iff.rfl, Iff.rfl, rfl⟩ ?_ ?_ (hw w)
    · exact Or.inl rfl
    intro hab y hy hyw
    rcases List.mem_cons.mp hy with rfl | hy'
    · -- the new entry is for a waiting write, not for an absent one
      simp only at hyw
      subst hyw
      rw [hk] at hab; cases hab
    · exact hy'
  · have hc : s.pending.contains w0 = false := by simpa using hp
    have hnw : ∀ k, sp.st w0 ≠ .waiting k := fun k hk => hp (hpend.mpr ⟨k, hk⟩)
    simp only [hc, Bool.false_eq_true, if_false]
    cases hx : sp.st w0 with
    | waiting k => exact absurd hx (hnw k)
    | absent => exact ⟨hl, hw⟩
    | expiring => exact ⟨hl, hw⟩
    | gone => exact ⟨hl, hw⟩
    | done o => exact ⟨hl, hw⟩

theorem refine_take (s : St) (sp : Sp) (w0 : Nat) (h : R s sp) :
    R (step Cfg.clean s (.timeoutTake w0)) (specStep s.nCb sp (.timeoutTake w0)) := by
  obtain ⟨hl, hw⟩ := h
  have h0 := hw w0
  have harm := Rw_armed_iff s w0 _ h0
  simp only [step, specStep]
  by_cases hp : w0 ∈ s.armed
  · obtain ⟨k, hk⟩ := harm.mp hp
    have hc : s.armed.contains w0 = true := by simpa using hp
    simp only [hc, if_true, hk]
    refine ⟨hl, fun w => ?_⟩
    by_cases hww : w = w0
    · subst hww
      simp only [upd_same]
      rw [hk] at h0
      obtain ⟨h1, h2, h3, h4, h5, h6⟩ := h0
      exact ⟨h1, by simp, by simp, List.mem_cons_self, h5⟩
    · simp only [upd_other _ _ _ _ hww]
      refine Rw_same s _ w (sp.st w) ?_ ?_ ?_ (hw w)
      · exact ⟨Iff.rfl, by simp [hww], by simp [hww], by simp [hww], rfl⟩
      · exact Or.inl rfl
      · exact fun _ y hy _ => hy
  · have hc : s.armed.contains w0 = false := by simpa using hp
    have hnw : ∀ k, sp.st w0 ≠ .waiting k := fun k hk => hp (harm.mpr ⟨k, hk⟩)
    simp only [hc, Bool.false_eq_true, if_false]
    cases hx : sp.st w0 with
    | waiting k => exact absurd hx (hnw k)
    | absent => exact ⟨hl, hw⟩
    | expiring => exact ⟨hl, hw⟩
    | gone => exact ⟨hl, hw⟩
    | done o => exact ⟨hl, hw⟩

theorem refine_send (s : St) (sp : Sp) (w0 : Nat) (h : R s sp) :
    R (step Cfg.clean s (.timeoutSend w0)) (specStep s.nCb sp (.timeoutSend w0)) := by
  obtain ⟨hl, hw⟩ := h
  have h0 := hw w0
  have hfir := Rw_fired_iff s w0 _ h0
  simp only [step, specStep]
  by_cases hp : w0 ∈ s.fired
  · have hk := hfir.mp hp
    have hc : s.fired.contains w0 = true := by simpa using hp
    simp only [hc, if_true, hk]
    refine ⟨hl, fun w => ?_⟩
    by_cases hww : w = w0
    · subst hww
      simp only [upd_same]
      rw [hk] at h0
      obtain ⟨h1, h2, h3, h4, h5⟩ := h0
      refine ⟨h1, h2, h3, by simp, ?_⟩
      rw [show outs _ w = _ from outs_append s w w .error _ rfl]
      simp [h5]
    · simp only [upd_other _ _ _ _ hww]
      refine Rw_same s _ w (sp.st w) ?_ ?_ ?_ (hw w)
      · refine ⟨Iff.rfl, Iff.rfl, Iff.rfl, by simp [hww], ?_⟩
        rw [show outs _ w = _ from outs_append s w0 w .error _ rfl]
        have : ¬ w0 = w := fun h' => hww h'.symm
        simp [this]
      · exact Or.inl rfl
      · exact fun _ y hy _ => hy
  · have hc : s.fired.contains w0 = false := by simpa using hp
    have hnw : sp.st w0 ≠ .expiring := fun hk => hp (hfir.mpr hk)
    simp only [hc, Bool.false_eq_true, if_false]
    cases hx : sp.st w0 with
    | expiring => exact absurd hx hnw
    | absent => exact ⟨hl, hw⟩
    | waiting k => exact ⟨hl, hw⟩
    | gone => exact ⟨hl, hw⟩
    | done o => exact ⟨hl, hw⟩


/-! ### the commit of a verdict -/

/-- `s'` differs from `s` only in what concerns write `w0` (and possibly in fewer lookup entries) -/
structure OnlyAt (s s' : St) (w0 : Nat) : Prop where
  seen : s'.seen = s.seen
  fired : s'.fired = s.fired
  pending : ∀ w, w ≠ w0 → (w ∈ s'.pending ↔ w ∈ s.pending)
  armed : ∀ w, w ≠ w0 → (w ∈ s'.armed ↔ w ∈ s.armed)
  outs : ∀ w, w ≠ w0 → outs s' w = outs s w
  tally : ∀ w, w ≠ w0 → tallyOf s'.tally w = tallyOf s.tally w
  look : ∀ y ∈ s'.lookups, y ∈ s.lookups

theorem OnlyAt.trans {s s1 s2 : St} {w0 : Nat} (h1 : OnlyAt s s1 w0) (h2 : OnlyAt s1 s2 w0) : OnlyAt s s2 w0 :=
  ⟨h2.seen.trans h1.seen, h2.fired.trans h1.fired,
   fun w hw => (h2.pending w hw).trans (h1.pending w hw), fun w hw => (h2.armed w hw).trans (h1.armed w hw),
   fun w hw => (h2.outs w hw).trans (h1.outs w hw), fun w hw => (h2.tally w hw).trans (h1.tally w hw),
   fun y hy => h1.look y (h2.look y hy)⟩

theorem OnlyAt.rw {s s' : St} {w0 : Nat} (h : OnlyAt s s' w0) (w : Nat) (hw : w ≠ w0) (x : W) :
    Rw s w x → Rw s' w x := by
  refine Rw_same s s' w x ⟨by rw [h.seen], h.pending w hw, h.armed w hw, by rw [h.fired], h.outs w hw⟩
    (Or.inl (h.tally w hw)) (fun _ y hy _ => h.look y hy)

theorem onlyAt_lookups (s : St) (w0 : Nat) (p : Nat × Nat → Bool) :
    OnlyAt s { s with lookups := s.lookups.filter p } w0 :=
  ⟨rfl, rfl, fun _ _ => Iff.rfl, fun _ _ => Iff.rfl, fun _ _ => rfl, fun _ _ => rfl,
   fun _ hy => (List.mem_filter.mp hy).1⟩

theorem onlyAt_bump (s : St) (w0 : Nat) :
    OnlyAt s { s with tally := some (bump Cfg.clean s.tally w0).1 } w0 :=
  ⟨rfl, rfl, fun _ _ => Iff.rfl, fun _ _ => Iff.rfl, fun _ _ => rfl,
   fun w hw => tallyOf_bump_other s.tally w0 w hw, fun _ hy => hy⟩

theorem onlyAt_finish (s : St) (w0 : Nat) (a : Bool) : OnlyAt s (finish Cfg.clean s w0 a) w0 := by
  by_cases harm : w0 ∈ s.armed
  · rw [finish_armed s w0 a harm]
    refine ⟨rfl, rfl, fun w hw => by simp [hw], fun w hw => by simp [hw], fun w hw => ?_,
      fun w hw => tallyOf_filter_other s.tally w0 w hw, fun _ hy => hy⟩
    rw [show outs _ w = _ from outs_append s w0 w _ _ rfl]
    have : ¬ w0 = w := fun h' => hw h'.symm
    simp [this]
  · rw [finish_unarmed s w0 a harm]
    exact ⟨rfl, rfl, fun w hw => by simp [hw], fun w hw => by simp [hw], fun _ _ => rfl,
      fun w hw => tallyOf_filter_other s.tally w0 w hw, fun _ hy => hy⟩

/-- a waiting write whose verdict is final gets its outcome -/
theorem finish_waiting (s : St) (w0 k : Nat) (a : Bool) (h : Rw s w0 (.waiting k)) :
    Rw (finish Cfg.clean s w0 a) w0 (.done (if a then .applied else .error)) := by
  obtain ⟨h1, h2, h3, h4, h5, h6⟩ := h
  rw [finish_armed s w0 a h3]
  refine ⟨h1, by simp, by simp, h4, ?_⟩
  rw [show outs _ w0 = _ from outs_append s w0 w0 _ _ rfl]
  simp [h5]

/-- a write that is no longer waiting is not touched by a verdict that commits late -/
theorem finish_late (s : St) (w0 : Nat) (a : Bool) (x : W) (hx : x = .expiring ∨ x = .gone ∨ ∃ o, x = .done o)
    (h : Rw s w0 x) : Rw (finish Cfg.clean s w0 a) w0 x := by
  have harm : w0 ∉ s.armed := by
    rcases hx with rfl | rfl | ⟨o, rfl⟩
    · exact h.2.2.1
    · exact h.2.2.1
    · exact h.2.2.1
  have hpen : w0 ∉ s.pending := by
    rcases hx with rfl | rfl | ⟨o, rfl⟩
    · exact h.2.1
    · exact h.2.1
    · exact h.2.1
  rw [finish_unarmed s w0 a harm]
  refine Rw_same s _ w0 x ⟨Iff.rfl, ?_, ?_, Iff.rfl, rfl⟩ (Or.inr hx) ?_ h
  · simp [hpen]
  · simp [harm]
  · intro hab; rcases hx with rfl | rfl | ⟨o, rfl⟩ <;> cases hab

/-- neither the lookup list nor the tally matters for a write that is no longer waiting -/
theorem late_frame (s s' : St) (w0 : Nat) (x : W) (hx : x = .expiring ∨ x = .gone ∨ ∃ o, x = .done o)
    (hs : s'.seen = s.seen) (hp : s'.pending = s.pending) (ha : s'.armed = s.armed) (hf : s'.fired = s.fired)
    (ho : s'.outcomes = s.outcomes) (h : Rw s w0 x) : Rw s' w0 x := by
  refine Rw_same s s' w0 x ⟨by rw [hs], by rw [hp], by rw [ha], by rw [hf], by simp only [outs, ho]⟩ (Or.inr hx) ?_ h
  intro hab; rcases hx with rfl | rfl | ⟨o, rfl⟩ <;> cases hab

/-- the commit of a verdict on a write that is no longer waiting changes nothing the automaton sees -/
theorem commit_late (s : St) (sp : Sp) (op : Nat) (a : Bool) (w0 : Nat)
    (hl : sp.lookups = s.lookups) (hw : ∀ w, Rw s w (sp.st w))
    (hlate : sp.st w0 = .expiring ∨ sp.st w0 = .gone ∨ ∃ o, sp.st w0 = .done o) :
    R (if (decide (s.nCb > 1) && a) = true then
        if (bump Cfg.clean s.tally w0).2 < s.nCb then
          { s with lookups := s.lookups.filter (·.1 ≠ op), tally := some (bump Cfg.clean s.tally w0).1 }
        else finish Cfg.clean
          { s with lookups := s.lookups.filter (·.1 ≠ op), tally := some (bump Cfg.clean s.tally w0).1 } w0 a
      else finish Cfg.clean { s with lookups := s.lookups.filter (·.1 ≠ op) } w0 a)
      { st := sp.st, lookups := s.lookups.filter (·.1 ≠ op) } := by
  have o1 := onlyAt_lookups s w0 (fun y => decide (y.1 ≠ op))
  have o2 := o1.trans (onlyAt_bump { s with lookups := s.lookups.filter (fun y => decide (y.1 ≠ op)) } w0)
  have key : ∀ s' : St, OnlyAt s s' w0 → Rw s' w0 (sp.st w0) → s'.lookups = s.lookups.filter (·.1 ≠ op) →
      R s' { st := sp.st, lookups := s.lookups.filter (·.1 ≠ op) } := by
    intro s' ho hr hlk
    refine ⟨hlk.symm, fun w => ?_⟩
    by_cases hww : w = w0
    · subst hww; exact hr
    · exact ho.rw w hww _ (hw w)
  have r1 : Rw { s with lookups := s.lookups.filter (fun y => decide (y.1 ≠ op)) } w0 (sp.st w0) :=
    late_frame s _ w0 _ hlate rfl rfl rfl rfl rfl (hw w0)
  have r2 : Rw { s with lookups := s.lookups.filter (fun y => decide (y.1 ≠ op)),
                        tally := some (bump Cfg.clean s.tally w0).1 } w0 (sp.st w0) :=
    late_frame s _ w0 _ hlate rfl rfl rfl rfl rfl (hw w0)
  split
  · split
    · exact key _ o2 r2 rfl
    · exact key _ (o2.trans (onlyAt_finish _ w0 a)) (finish_late _ w0 a _ hlate r2) (by rw [lookups_finish])
  · exact key _ (o1.trans (onlyAt_finish _ w0 a)) (finish_late _ w0 a _ hlate r1) (by rw [lookups_finish])

theorem refine_commit (s : St) (sp : Sp) (op : Nat) (a : Bool) (h : R s sp) :
    R (step Cfg.clean s (.commit op a)) (specStep s.nCb sp (.commit op a)) := by
  obtain ⟨hl, hw⟩ := h
  cases hf : s.lookups.find? (fun x => decide (x.1 = op)) with
  | none =>
    have hstep : step Cfg.clean s (.commit op a) = s := by simp only [step, hf]
    rw [hstep]
    simp only [specStep, hl, hf]
    exact ⟨hl, hw⟩
  | some xw =>
    obtain ⟨x, w0⟩ := xw
    rw [commit_eq s op a x w0 hf]
    have hmem : (x, w0) ∈ s.lookups := List.mem_of_find?_eq_some hf
    have h0 := hw w0
    simp only [specStep, hl, hf]
    -- the three shapes of the model's next state, away from w0
    have o1 := onlyAt_lookups s w0 (fun y => decide (y.1 ≠ op))
    have o2 := o1.trans (onlyAt_bump { s with lookups := s.lookups.filter (fun y => decide (y.1 ≠ op)) } w0)
    cases hx : sp.st w0 with
    | absent =>
      rw [hx] at h0
      exact absurd rfl (h0.2.2.2.2.2.2 (x, w0) hmem)
    | waiting k =>
      rw [hx] at h0
      have h1 : Rw { s with lookups := s.lookups.filter (fun y => decide (y.1 ≠ op)) } w0 (.waiting k) := by
        obtain ⟨a1, a2, a3, a4, a5, a6⟩ := h0
        exact ⟨a1, a2, a3, a4, a5, a6⟩
      have h2 : Rw { s with lookups := s.lookups.filter (fun y => decide (y.1 ≠ op)),
                            tally := some (bump Cfg.clean s.tally w0).1 } w0 (.waiting (k + 1)) := by
        obtain ⟨a1, a2, a3, a4, a5, a6⟩ := h0
        refine ⟨a1, a2, a3, a4, a5, ?_⟩
        show tallyOf (some (bump Cfg.clean s.tally w0).1) w0 = k + 1
        rw [tallyOf_bump_self, a6]
      have hb : (bump Cfg.clean s.tally w0).2 = k + 1 := by rw [bump_snd, h0.2.2.2.2.2]
      by_cases hA : (decide (s.nCb > 1) && a) = true
      · have hn : s.nCb > 1 := by simp only [Bool.and_eq_true, decide_eq_true_eq] at hA; exact hA.1
        have ha : a = true := by simp only [Bool.and_eq_true] at hA; exact hA.2
        simp only [hA, if_true, hb]
        by_cases hlt : k + 1 < s.nCb
        · simp only [hlt, if_true]
          refine ⟨rfl, fun w => ?_⟩
          by_cases hww : w = w0
          · subst hww
            simp only [upd_same, verdictW, ha, if_true, hn, hlt, and_self]
            exact h2
          · simp only [upd_other _ _ _ _ hww]
            exact o2.rw w hww _ (hw w)
        · simp only [hlt, if_false]
          refine ⟨by rw [lookups_finish], fun w => ?_⟩
          by_cases hww : w = w0
          · subst hww
            simp only [upd_same, verdictW, ha, if_true, hlt, and_false, if_false]
            have := finish_waiting _ w (k + 1) a h2
            rw [ha] at this
            simpa using this
          · simp only [upd_other _ _ _ _ hww]
            exact (o2.trans (onlyAt_finish _ w0 a)).rw w hww _ (hw w)
      · simp only [hA, Bool.false_eq_true, if_false]
        refine ⟨by rw [lookups_finish], fun w => ?_⟩
        by_cases hww : w = w0
        · subst hww
          have := finish_waiting _ w k a h1
          simp only [upd_same, verdictW]
          cases a with
          | false => simpa using this
          | true =>
            have hn : ¬ s.nCb > 1 := by
              intro hc; apply hA; simp [hc]
            simp only [if_true, hn, false_and, if_false]
            simpa using this
        · simp only [upd_other _ _ _ _ hww]
          exact (o1.trans (onlyAt_finish _ w0 a)).rw w hww _ (hw w)
    | expiring =>
      exact commit_late s sp op a w0 hl hw (Or.inl hx)
    | gone =>
      exact commit_late s sp op a w0 hl hw (Or.inr (Or.inl hx))
    | done o =>
      exact commit_late s sp op a w0 hl hw (Or.inr (Or.inr ⟨o, hx⟩))


/-- the connection is removed: what was waiting is gone, everything else stays as it is -/
theorem refine_drop (s : St) (sp : Sp) (h : R s sp) :
    R (step Cfg.clean s .drop) (specStep s.nCb sp .drop) := by
  obtain ⟨hl, hw⟩ := h
  refine ⟨hl, fun w => ?_⟩
  have h0 := hw w
  simp only [step, specStep, dropW]
  cases hx : sp.st w with
  | absent =>
    rw [hx] at h0
    obtain ⟨h1, h2, h3, h4, h5, h6, h7⟩ := h0
    exact ⟨h1, by simp, by simp, h4, h5, rfl, h7⟩
  | waiting k =>
    rw [hx] at h0
    obtain ⟨h1, h2, h3, h4, h5, h6⟩ := h0
    exact ⟨h1, by simp, by simp, h4, h5⟩
  | expiring =>
    rw [hx] at h0
    obtain ⟨h1, h2, h3, h4, h5⟩ := h0
    exact ⟨h1, by simp, by simp, h4, h5⟩
  | gone =>
    rw [hx] at h0
    obtain ⟨h1, h2, h3, h4, h5⟩ := h0
    exact ⟨h1, by simp, by simp, h4, h5⟩
  | done o =>
    rw [hx] at h0
    obtain ⟨h1, h2, h3, h4, h5⟩ := h0
    exact ⟨h1, by simp, by simp, h4, h5⟩

/-- every step of the repaired member is a step of the per-write automaton -/
theorem step_refines (s : St) (sp : Sp) (e : Ev) (h : R s sp) :
    R (step Cfg.clean s e) (specStep s.nCb sp e) := by
  cases e with
  | arrive w => exact refine_arrive s sp w h
  | lookup op w => exact refine_lookup s sp op w h
  | commit op a => exact refine_commit s sp op a h
  | timeoutTake w => exact refine_take s sp w h
  | timeoutSend w => exact refine_send s sp w h
  | drop => exact refine_drop s sp h

theorem R_init (n : Nat) : R { nCb := n } {} := by
  refine ⟨rfl, fun w => ?_⟩
  exact ⟨by simp, by simp, by simp, by simp, rfl, rfl, by simp⟩

theorem run_refines (n : Nat) (evs : List Ev) : R (run Cfg.clean n evs) (specRun n evs) := by
  unfold run specRun
  suffices ∀ (s : St) (sp : Sp), s.nCb = n → R s sp →
      R (evs.foldl (step Cfg.clean) s) (evs.foldl (specStep n) sp) from this _ _ rfl (R_init n)
  induction evs with
  | nil => intro s sp _ h; exact h
  | cons e es ih =>
    intro s sp hn h
    simp only [List.foldl_cons]
    apply ih
    · rw [nCb_step]; exact hn
    · have := step_refines s sp e h
      rw [hn] at this
      exact this

/-- what the model has produced for a write is what the automaton says -/
theorem outs_of_R (s : St) (sp : Sp) (h : R s sp) (w : Nat) :
    outs s w = match sp.st w with
      | .done o => [o]
      | _ => [] := by
  have := h.2 w
  cases hx : sp.st w with
  | absent => rw [hx] at this; exact this.2.2.2.2.1
  | waiting k => rw [hx] at this; exact this.2.2.2.2.1
  | expiring => rw [hx] at this; exact this.2.2.2.2
  | gone => rw [hx] at this; exact this.2.2.2.2
  | done o => rw [hx] at this; exact this.2.2.2.2

theorem mem_outcomes_iff (s : St) (w : Nat) (o : Out) : (w, o) ∈ s.outcomes ↔ o ∈ outs s w := by
  simp only [outs, List.mem_map, List.mem_filter, decide_eq_true_eq]
  constructor
  · intro h; exact ⟨(w, o), ⟨h, rfl⟩, rfl⟩
  · rintro ⟨⟨w', o'⟩, ⟨hm, hw⟩, ho⟩
    simp only at hw ho
    subst hw; subst ho; exact hm

/-- which write an event is about: the one it names, or — for the commit of a verdict — the one its operation
    looked up -/
def concerns (sp : Sp) (w : Nat) : Ev → Prop
  | .arrive w' => w' = w
  | .lookup _ w' => w' = w
  | .timeoutTake w' => w' = w
  | .timeoutSend w' => w' = w
  | .commit op _ => ∃ x, sp.lookups.find? (·.1 = op) = some (x, w)
  | .drop => True      -- the removal of the peer's own connection concerns every write of the peer

/-- an event that is not about write `w` leaves `w`'s state in the automaton untouched -/
theorem spec_frame (n : Nat) (sp : Sp) (e : Ev) (w : Nat) (h : ¬ concerns sp w e) :
    (specStep n sp e).st w = sp.st w := by
  cases e with
  | arrive w' =>
    have hne : w ≠ w' := fun hc => h hc.symm
    simp only [specStep]; split <;> simp [upd, hne]
  | lookup op w' => simp only [specStep]; split <;> rfl
  | timeoutTake w' =>
    have hne : w ≠ w' := fun hc => h hc.symm
    simp only [specStep]; split <;> simp [upd, hne]
  | timeoutSend w' =>
    have hne : w ≠ w' := fun hc => h hc.symm
    simp only [specStep]; split <;> simp [upd, hne]
  | commit op a =>
    simp only [specStep]
    split
    · rfl
    · rename_i x w' hf
      have hne : w ≠ w' := fun hc => h ⟨x, hc ▸ hf⟩
      split <;> simp [upd, hne]
  | drop => exact absurd trivial h

/-- a write becomes applied only by the commit of an approval, looked up while it was waiting, that completes the
    count: with `n > 1` callbacks it is the approval after `n - 1` counted ones -/
theorem spec_applied_inv (n : Nat) (sp : Sp) (e : Ev) (w : Nat)
    (h : (specStep n sp e).st w = .done .applied) :
    sp.st w = .done .applied ∨
    ∃ op x k, e = .commit op true ∧ sp.lookups.find? (·.1 = op) = some (x, w) ∧ sp.st w = .waiting k ∧
      ¬ (n > 1 ∧ k + 1 < n) := by
  by_cases hc : concerns sp w e
  · cases e with
    | arrive w' =>
      simp only [concerns] at hc; subst hc
      simp only [specStep] at h
      split at h
      · simp [upd] at h
      · exact Or.inl h
    | lookup op w' =>
      simp only [specStep] at h
      split at h <;> exact Or.inl h
    | timeoutTake w' =>
      simp only [concerns] at hc; subst hc
      simp only [specStep] at h
      split at h
      · simp [upd] at h
      · exact Or.inl h
    | timeoutSend w' =>
      simp only [concerns] at hc; subst hc
      simp only [specStep] at h
      split at h
      · simp [upd] at h
      · exact Or.inl h
    | drop =>
      simp only [specStep, dropW] at h
      split at h
      · cases h
      · rename_i hx
        exact Or.inl h
    | commit op a =>
      obtain ⟨x, hf⟩ := hc
      simp only [specStep, hf] at h
      cases hx : sp.st w with
      | waiting k =>
        simp only [hx, upd_same, verdictW] at h
        cases a with
        | false => simp at h
        | true =>
          refine Or.inr ⟨op, x, k, rfl, hf, rfl, ?_⟩
          intro hlt
          simp [hlt] at h
      | absent => simp only [hx] at h; exact Or.inl (hx ▸ h)
      | expiring => simp only [hx] at h; exact Or.inl (hx ▸ h)
      | gone => simp only [hx] at h; exact Or.inl (hx ▸ h)
      | done o => simp only [hx] at h; exact Or.inl (hx ▸ h)
  · rw [spec_frame n sp e w hc] at h
    exact Or.inl h


/-- a write whose connection was removed while it was waiting stays without outcome, whatever happens later -/
theorem spec_gone_final (n : Nat) (sp : Sp) (e : Ev) (w : Nat) (h : sp.st w = .gone) :
    (specStep n sp e).st w = .gone := by
  cases e with
  | arrive w' =>
    simp only [specStep]
    split
    · rename_i hx
      by_cases hw : w = w'
      · subst hw; rw [h] at hx; cases hx
      · simp [upd, hw, h]
    · exact h
  | lookup op w' => simp only [specStep]; split <;> exact h
  | timeoutTake w' =>
    simp only [specStep]
    split
    · rename_i k hx
      by_cases hw : w = w'
      · subst hw; rw [h] at hx; cases hx
      · simp [upd, hw, h]
    · exact h
  | timeoutSend w' =>
    simp only [specStep]
    split
    · rename_i hx
      by_cases hw : w = w'
      · subst hw; rw [h] at hx; cases hx
      · simp [upd, hw, h]
    · exact h
  | drop => simp only [specStep, dropW, h]
  | commit op a =>
    simp only [specStep]
    split
    · exact h
    · rename_i x w' hf
      split
      · rename_i k hx
        by_cases hw : w = w'
        · subst hw; rw [h] at hx; cases hx
        · simp [upd, hw, h]
      · exact h

theorem spec_gone_forever (n : Nat) (evs : List Ev) (sp : Sp) (w : Nat) (h : sp.st w = .gone) :
    (evs.foldl (specStep n) sp).st w = .gone := by
  induction evs generalizing sp with
  | nil => exact h
  | cons e es ih => exact ih _ (spec_gone_final n sp e w h)

end Spine.Appr
