/-!
# Copy-on-write containers: a header handed out under the lock stays valid (C17)

A slice-typed field holds a *header* (backing array, length); a getter that returns the field
under its mutex without copying the elements hands the header to a reader that walks the array
after the mutex is released. This module models ONE such field — the backing arrays as ids, the
headers handed out so far, and per operation the set of array cells it writes — and proves:

* `cow_no_violation`: as long as every writer is copy-on-write (`replace`: the field is set to a
  freshly allocated list; `appendOwn`: `f = append(f, x)` on the field's own full value, in place
  when the array has room, reallocating otherwise), NO write ever hits a cell that a header handed
  out earlier covers — for every sequence of operations, any number of hand-outs. All operations
  run under the field's mutex (that is the guarded-by table of `Spine.Generated.Locks`), so every
  write to a cell a reader may look at precedes the hand-out in the mutex order and is ordered
  before the reader's accesses by happens-before: the lock-free walk is race-free.
* `inplace_delete_violates`, `append_after_cut_violates`: with an in-place deletion
  (`slices.Delete`/`DeleteFunc`: shift down, zero the tail, same array) or a reslice stored back
  followed by an append, a write hits a handed-out header — the write is made under the mutex, the
  reader holds none: a data race.

Which writers a field of the real code has is the regenerated table `containerInPlace` /
`containerCowWrites` (go/lockgraph/containers.go); `Spine.Props.C17` states that no field whose
header escapes has an in-place writer. Hand-written, core Lean only.
-/
namespace Spine.SliceCow

/-- a slice header: backing array id and length -/
structure Hdr where
  arr : Nat
  len : Nat
deriving DecidableEq, Repr

/-- operations on one container field, each performed under the field's mutex -/
inductive Op
  /-- a getter returns the current header without copying the elements -/
  | handOut
  /-- `f = append(f, x)`; `room`: capacity > length (the cell at index len is written in place),
      otherwise the elements are copied to a fresh array -/
  | appendOwn (room : Bool)
  /-- `f = <freshly allocated list of n elements>` (built element by element, clone, nil) -/
  | replace (n : Nat)
  /-- `f = slices.Delete(f, i, i+1)`: cells i … len-1 are rewritten (shift down, zero the last), same array -/
  | deleteInPlace (i : Nat)
  /-- `f = f[:n]`: no cell is written, but the length inside the array decreases -/
  | cutBack (n : Nat)
deriving DecidableEq, Repr

structure St where
  /-- the field's current header -/
  cur : Hdr
  /-- next unused array id -/
  next : Nat
  /-- headers handed out so far -/
  handed : List Hdr
deriving Repr

def init : St := ⟨⟨0, 0⟩, 1, []⟩

/-- the cells (array, index) an operation writes -/
def writes (s : St) : Op → List (Nat × Nat)
  | .handOut => []
  | .appendOwn true => [(s.cur.arr, s.cur.len)]
  | .appendOwn false => (List.range (s.cur.len + 1)).map (fun i => (s.next, i))
  | .replace n => (List.range n).map (fun i => (s.next, i))
  | .deleteInPlace i => ((List.range s.cur.len).filter (fun j => decide (i ≤ j))).map (fun j => (s.cur.arr, j))
  | .cutBack _ => []

def step (s : St) : Op → St
  | .handOut => { s with handed := s.cur :: s.handed }
  | .appendOwn true => { s with cur := ⟨s.cur.arr, s.cur.len + 1⟩ }
  | .appendOwn false => { s with cur := ⟨s.next, s.cur.len + 1⟩, next := s.next + 1 }
  | .replace n => { s with cur := ⟨s.next, n⟩, next := s.next + 1 }
  | .deleteInPlace i => if i < s.cur.len then { s with cur := ⟨s.cur.arr, s.cur.len - 1⟩ } else s
  | .cutBack n => if n ≤ s.cur.len then { s with cur := ⟨s.cur.arr, n⟩ } else s

/-- copy-on-write writers (and the getter) -/
def isCow : Op → Bool
  | .deleteInPlace _ => false
  | .cutBack _ => false
  | _ => true

/-- the write lands in a cell the header covers -/
def hits (h : Hdr) (w : Nat × Nat) : Bool := w.1 == h.arr && decide (w.2 < h.len)

/-- array ids in use are below `next`; inside the current array the length never decreased since a
    header was handed out -/
def Inv (s : St) : Prop :=
  s.cur.arr < s.next ∧ ∀ h ∈ s.handed, h.arr < s.next ∧ (h.arr = s.cur.arr → h.len ≤ s.cur.len)

theorem inv_init : Inv init := ⟨by decide, by intro h hh; cases hh⟩

theorem inv_step (s : St) (op : Op) (hi : Inv s) (hc : isCow op = true) : Inv (step s op) := by
  obtain ⟨hcur, hh⟩ := hi
  cases op with
  | handOut =>
    refine ⟨hcur, ?_⟩
    intro h hm
    simp only [step, List.mem_cons] at hm
    rcases hm with rfl | hm
    · exact ⟨hcur, fun _ => Nat.le_refl _⟩
    · exact hh h hm
  | appendOwn room =>
    cases room with
    | true =>
      refine ⟨hcur, ?_⟩
      intro h hm
      have := hh h hm
      exact ⟨this.1, fun e => Nat.le_succ_of_le (this.2 e)⟩
    | false =>
      refine ⟨Nat.lt_succ_self _, ?_⟩
      intro h hm
      have := hh h hm
      refine ⟨Nat.lt_succ_of_lt this.1, ?_⟩
      intro e
      simp only [step] at e
      omega
  | replace n =>
    refine ⟨Nat.lt_succ_self _, ?_⟩
    intro h hm
    have := hh h hm
    refine ⟨Nat.lt_succ_of_lt this.1, ?_⟩
    intro e
    simp only [step] at e
    omega
  | deleteInPlace i => simp [isCow] at hc
  | cutBack n => simp [isCow] at hc

/-- **One step.** A copy-on-write operation writes no cell covered by a header handed out earlier. -/
theorem cow_write_misses (s : St) (op : Op) (hi : Inv s) (hc : isCow op = true) :
    ∀ w ∈ writes s op, ∀ h ∈ s.handed, hits h w = false := by
  obtain ⟨_, hh⟩ := hi
  intro w hw h hm
  have hb := hh h hm
  cases op with
  | handOut => simp [writes] at hw
  | appendOwn room =>
    cases room with
    | true =>
      simp only [writes, List.mem_singleton] at hw
      subst hw
      simp only [hits, Bool.and_eq_false_iff, beq_eq_false_iff_ne, ne_eq, decide_eq_false_iff_not, Nat.not_lt]
      by_cases e : s.cur.arr = h.arr
      · right; exact hb.2 e.symm
      · left; exact e
    | false =>
      simp only [writes, List.mem_map, List.mem_range] at hw
      obtain ⟨i, _, rfl⟩ := hw
      simp only [hits, Bool.and_eq_false_iff, beq_eq_false_iff_ne, ne_eq, decide_eq_false_iff_not, Nat.not_lt]
      left; omega
  | replace n =>
    simp only [writes, List.mem_map, List.mem_range] at hw
    obtain ⟨i, _, rfl⟩ := hw
    simp only [hits, Bool.and_eq_false_iff, beq_eq_false_iff_ne, ne_eq, decide_eq_false_iff_not, Nat.not_lt]
    left; omega
  | deleteInPlace i => simp [isCow] at hc
  | cutBack n => simp [isCow] at hc

/-- all (handed-out header, write) pairs of a run in which the write hits the header -/
def violations : St → List Op → List (Hdr × (Nat × Nat))
  | _, [] => []
  | s, op :: ops =>
    (s.handed.flatMap fun h => ((writes s op).filter (hits h)).map fun w => (h, w)) ++
      violations (step s op) ops

/-- **Every run.** From any state satisfying the invariant (in particular the initial one), a
    sequence of copy-on-write operations — any length, any number of hand-outs in between — never
    writes a cell that a header handed out earlier covers. -/
theorem cow_no_violation (s : St) (hi : Inv s) (ops : List Op) (hc : ∀ op ∈ ops, isCow op = true) :
    violations s ops = [] := by
  induction ops generalizing s with
  | nil => rfl
  | cons op ops ih =>
    have hop := hc op (List.mem_cons_self ..)
    have hrest := ih (step s op) (inv_step s op hi hop) (fun o ho => hc o (List.mem_cons_of_mem _ ho))
    simp only [violations, hrest, List.append_nil]
    have hm := cow_write_misses s op hi hop
    apply List.eq_nil_iff_forall_not_mem.mpr
    intro p hp
    simp only [List.mem_flatMap, List.mem_map, List.mem_filter] at hp
    obtain ⟨h, hh, w, ⟨hw, hhit⟩, _⟩ := hp
    rw [hm w hw h hh] at hhit
    exact Bool.noConfusion hhit

/-- non-vacuity of the run theorem: a copy-on-write run with hand-outs, appends in place and a
    removal by replacement -/
def cowRun : List Op :=
  [.replace 3, .handOut, .appendOwn true, .handOut, .replace 3, .appendOwn true, .handOut, .appendOwn false]

theorem cowRun_ok : (∀ op ∈ cowRun, isCow op = true) ∧ violations init cowRun = [] :=
  ⟨by decide, cow_no_violation init inv_init cowRun (by decide)⟩

/-- **In-place deletion breaks it**: list of 3, header handed out, element 1 deleted in place —
    cells 1 and 2 of the array the reader walks are rewritten. -/
theorem inplace_delete_violates :
    violations init [.replace 3, .handOut, .deleteInPlace 1] = [(⟨1, 3⟩, (1, 1)), (⟨1, 3⟩, (1, 2))] := by
  decide

/-- … and so does a reslice stored back followed by an append (no write by the cut itself; the
    append then overwrites the cell behind the cut). -/
theorem append_after_cut_violates :
    violations init [.replace 3, .handOut, .cutBack 2, .appendOwn true] = [(⟨1, 3⟩, (1, 2))] := by
  decide

end Spine.SliceCow
