import Spine.Dispatch
namespace Spine.Disp

/-- what the SPINE classifier rules prescribe -/
inductive Resp | reply (fn : Nat) | success | error deriving DecidableEq, Repr

/-- replies and results are responses; requests the stack sends on its own account are not -/
def kindOf : Out → Option Resp
  | .reply _ fn _ _ => some (.reply fn)
  | .result _ 0 _ _ => some .success
  | .result _ (_ + 1) _ _ => some .error
  | _ => none

/-- the specification: exactly these responses, in this order -/
def expected (w : W) (p : Nat) (d : Dg) : List Resp :=
  match srcF w p d with
  | none => []                                     -- outside the property: source feature not announced
  | some rf =>
    if d.cls = .result then []                     -- never any result in answer to a result
    else match dstF w d with
    | none => [.error]                             -- destination feature does not exist
    | some lf =>
      if d.cls = .write then
        -- applied only with write permission and binding (C03), then acknowledged if requested
        if gateOk w p lf d && lf.fds.contains d.fn then (if d.ack then [.success] else []) else [.error]
      else match handle lf rf d with
        | (some _, _) => [.error]                  -- rejected
        | (none, replied) =>                       -- accepted: the reply if it is a read, the acknowledgement if requested
          (if replied then [.reply d.fn] else []) ++ (if d.ack && d.cls ≠ .read then [.success] else [])

/-- node management announces no writable function (true of `NewNodeManagement`) -/
def nmReadOnly (w : W) : Prop := ∀ lf ∈ w.loc, lf.nm = true → ∀ o ∈ lf.ops, o.2 = false

/-- the one excluded point: a result addressed to a feature that does not exist -/
def resultToUnknown (w : W) (d : Dg) : Prop := d.cls = .result ∧ dstF w d = none

theorem handle_err_pos (lf : LF) (rf : RF) (d : Dg) (e : Nat) (b : Bool) (h : handle lf rf d = (some e, b)) :
    e ≠ 0 := by
  unfold handle at h
  repeat' split at h
  all_goals first | (simp at h; try omega) | skip
  all_goals (try (obtain ⟨h1, _⟩ := h; omega))

theorem kindOf_res_err (d : Dg) (e : Nat) (he : e ≠ 0) : kindOf (res d e) = some .error := by
  cases e with
  | zero => exact absurd rfl he
  | succ n => rfl

theorem gate_false_of_nm (w : W) (p : Nat) (lf : LF) (d : Dg) (hNM : nmReadOnly w) (hmem : lf ∈ w.loc)
    (hnm : lf.nm = true) : gateOk w p lf d = false := by
  unfold gateOk
  have : (lf.ops.any fun o => decide (o.1 = d.fn) && o.2) = false := by
    rw [List.any_eq_false]
    intro o ho
    simp [hNM lf hmem hnm o ho]
  simp [this]

/-- the responses computed for known source and destination are the prescribed ones -/
theorem responses_spec (w : W) (p : Nat) (lf : LF) (rf : RF) (d : Dg) (hNM : nmReadOnly w) (hmem : lf ∈ w.loc)
    (hres : d.cls ≠ .result) :
    (responses w p lf rf d).filterMap kindOf =
      (if d.cls = .write then
        if gateOk w p lf d && lf.fds.contains d.fn then (if d.ack then [.success] else []) else [.error]
      else match handle lf rf d with
        | (some _, _) => [.error]
        | (none, replied) =>
          (if replied then [.reply d.fn] else []) ++ (if d.ack && d.cls ≠ .read then [.success] else [])) := by
  unfold responses
  by_cases hw : d.cls = .write
  · -- writes
    simp only [hw, decide_true, Bool.true_and, if_true]
    by_cases hg : gateOk w p lf d = true
    · have hnm : lf.nm = false := by
        cases h : lf.nm with
        | false => rfl
        | true => rw [gate_false_of_nm w p lf d hNM hmem h] at hg; cases hg
      simp only [hg, hnm, Bool.not_true, Bool.false_eq_true, if_false, Bool.not_false, if_true, Bool.true_and]
      by_cases hf : d.fn ∈ lf.fds <;> by_cases ha : d.ack = true <;> simp [hf, ha, kindOf, res]
    · have hg' : gateOk w p lf d = false := by simpa using hg
      simp [hg', kindOf, res]
  · -- everything else goes through the feature's verdict
    have hwb : (decide (d.cls = Cls.write)) = false := by simpa using hw
    simp only [hwb, Bool.false_and, Bool.false_eq_true, if_false, hw]
    cases hh : handle lf rf d with
    | mk v replied =>
      cases v with
      | some e =>
        have he := handle_err_pos lf rf d e replied hh
        simp [hres, kindOf_res_err d e he]
      | none =>
        have hack : (d.cls = .call || d.cls = .reply || d.cls = .notify) = decide (d.cls ≠ .read) := by
          cases hc : d.cls <;> simp_all
        simp only [List.filterMap_append, hack]
        by_cases hr : replied = true <;> by_cases ha : d.ack = true <;>
          by_cases hrd : d.cls = .read <;> simp [hr, ha, hrd, kindOf, res]

/-- C01 (partial): for every world and every datagram that does not trip `PrintMessageOverview`, except a result
    addressed to a feature that does not exist, the responses the stack emits are exactly those the classifier
    rules prescribe — no more and no fewer -/
theorem c01_exact_partial (w : W) (p : Nat) (d : Dg) (hwf : panics d = false) (hNM : nmReadOnly w)
    (hx : ¬ resultToUnknown w d) :
    (processCmd w p d).2.filterMap kindOf = expected w p d := by
  unfold processCmd expected
  cases hsrc : srcF w p d with
  | none => simp
  | some rf =>
    simp only []
    cases hdst : dstF w d with
    | none =>
      have hres : d.cls ≠ .result := fun h => hx ⟨h, hdst⟩
      simp [hres, kindOf, res]
    | some lf =>
      have hmem : lf ∈ w.loc := List.mem_of_find?_eq_some hdst
      simp only [hwf, Bool.false_eq_true, if_false]
      by_cases hres : d.cls = .result
      · -- an incoming result is never answered
        have hresp : responses w p lf rf d = [] := by
          unfold responses
          have h1 : (decide (d.cls = Cls.write)) = false := by simp [hres]
          simp only [h1, Bool.false_and, Bool.false_eq_true, if_false]
          cases hh : handle lf rf d with
          | mk v replied =>
            cases v with
            | some e => simp [hres]
            | none =>
              have : replied = false := by
                unfold handle at hh
                simp only [hres] at hh
                repeat' split at hh
                all_goals simp_all
              simp [this, hres]
        have hwr : wantsRead w p lf rf d = false := by simp [wantsRead, hres]
        simp [hresp, hwr, hres]
      · have hsp := responses_spec w p lf rf d hNM hmem hres
        simp only [hres, if_false]
        split
        · rename_i hwr
          cases hreq : request (sendN (answered (w.peers p) d.ref) (responses w p lf rf d).length) d.src d.fn with
          | mk pr' sent =>
            simp only [List.filterMap_append, hsp]
            cases sent <;> simp [kindOf]
        · simp only [hsp]

/-- the full statement is false of the code as it is: a result to an unknown feature is answered with a result -/
theorem c01_exact_refuted :
    ∃ (w : W) (p : Nat) (d : Dg), panics d = false ∧ nmReadOnly w ∧
      (processCmd w p d).2.filterMap kindOf ≠ expected w p d := by
  refine ⟨{ loc := [], peers := fun _ => { feats := [⟨[0], 0, []⟩], msgNum := 0, req := [] }, binds := [] }, 1,
    ⟨([0], 0), ([9], 9), 7, some 3, .result, false, 900⟩, by decide, ?_, by decide⟩
  intro lf hlf; cases hlf

/-- a response references the request's counter, is addressed to the request's source and names the addressed
    feature as its source -/
def addressed (d : Dg) : Out → Prop
  | .reply r _ s t => r = d.ctr ∧ s = d.dst ∧ t = d.src
  | .result r _ s t => r = d.ctr ∧ s = d.dst ∧ t = d.src
  | _ => True

theorem responses_addressed (w : W) (p : Nat) (lf : LF) (rf : RF) (d : Dg) :
    ∀ o ∈ responses w p lf rf d, addressed d o := by
  intro o ho
  unfold responses at ho
  repeat' split at ho
  all_goals simp only [List.mem_append, List.mem_singleton, List.not_mem_nil, or_false, false_or] at ho
  all_goals (try (rcases ho with ho | ho))
  all_goals (try (split at ho))
  all_goals (try (simp only [List.mem_singleton, List.not_mem_nil] at ho))
  all_goals (try subst ho)
  all_goals (try simp [addressed, res])
  all_goals (try (exact absurd ho (by simp)))

/-- C01, addressing: every response references the request's counter, is addressed to the request's source and
    names the addressed feature as its source -/
theorem c01_addressing (w : W) (p : Nat) (d : Dg) (o : Out) (ho : o ∈ (processCmd w p d).2) : addressed d o := by
  unfold processCmd at ho
  cases hsrc : srcF w p d with
  | none => simp [hsrc] at ho
  | some rf =>
    simp only [hsrc] at ho
    cases hdst : dstF w d with
    | none => simp only [hdst, List.mem_singleton] at ho; subst ho; simp [addressed, res]
    | some lf =>
      simp only [hdst] at ho
      split at ho
      · simp only [List.mem_singleton] at ho; subst ho; trivial
      · split at ho
        · cases hreq : request (sendN (answered (w.peers p) d.ref) (responses w p lf rf d).length) d.src d.fn with
          | mk pr' sent =>
            simp only [hreq, List.mem_append] at ho
            rcases ho with ho | ho
            · exact responses_addressed w p lf rf d o ho
            · cases sent
              · simp at ho
              · simp only [if_true, List.mem_singleton] at ho; subst ho; trivial
        · exact responses_addressed w p lf rf d o ho

end Spine.Disp
