import Spine.Dispatch
/-! Lemmas and theorems about `Spine.Disp.processCmd` for C01 (exactly the prescribed responses, correctly
    addressed, to the sender's connection only). The property-level statements are collected in
    `Spine/Props/C01.lean`. -/
namespace Spine.Disp

/-- what the SPINE classifier rules prescribe -/
inductive Resp | reply (fn : Nat) (val : Nat) | success | error deriving DecidableEq, Repr

/-- replies and results are responses; requests and notifications the stack sends on its own account are not -/
def respOf : Out → Option Resp
  | .reply _ fn _ _ v _ => some (.reply fn v)
  | .result _ 0 _ _ _ => some .success
  | .result _ (_ + 1) _ _ _ => some .error
  | _ => none

/-- a response together with the connection it is written to -/
def kindOf (o : Nat × Out) : Option (Nat × Resp) := (respOf o.2).map fun r => (o.1, r)

/-- the specification: exactly these responses, in this order (all of them to the sender) -/
def expected (w : W) (p : Nat) (d : Dg) : List Resp :=
  match srcF w p d with
  | none => []                                     -- outside the property: source feature not announced
  | some rf =>
    if d.cls = .result then []                     -- never any result in answer to a result
    else match dstF w d with
    | none => [.error]                             -- destination feature does not exist
    | some lf =>
      if d.cls = .write then
        -- applied only with write permission and binding (C03), then acknowledged if requested
        if gateOk w p lf d && lf.fds.contains d.fn && !d.bad then (if d.ack then [.success] else []) else [.error]
      else match handle lf rf d with
        | (some _, _) => [.error]                  -- rejected
        | (none, replied) =>                       -- accepted: the reply if it is a read, the acknowledgement if requested
          (if replied then [.reply d.fn (replyVal w p lf d)] else []) ++ (if d.ack && d.cls ≠ .read then [.success] else [])

/-- node management announces no writable function (true of `NewNodeManagement`) -/
def nmReadOnly (w : W) : Prop := ∀ lf ∈ w.loc, lf.nm = true → ∀ o ∈ lf.ops, o.2 = false

/-- the one excluded point: a result addressed to a feature that does not exist -/
def resultToUnknown (w : W) (d : Dg) : Prop := d.cls = .result ∧ dstF w d = none

/-- the step cannot trip the unrepaired `PrintMessageOverview`: either the member is repaired or the datagram is
    well-formed (reference present where required, result data with error number, counter present) -/
def NoCrash (w : W) (d : Dg) : Prop := w.cfg.overviewPanics = true → wf d = true

theorem crashes_false (w : W) (p : Nat) (lf : LF) (rf : RF) (d : Dg) (h : NoCrash w d) : crashes w p lf rf d = false := by
  unfold crashes
  cases hc : w.cfg.overviewPanics with
  | false => rfl
  | true =>
    have := h hc
    unfold wf at this
    simp only [Bool.and_eq_true, Bool.not_eq_true'] at this
    cases hctr : d.ctr with
    | none => rw [hctr] at this; simp at this
    | some c => simp [this.1]

theorem unknown_no_panic (w : W) (d : Dg) (h : NoCrash w d) : (w.cfg.overviewPanics && d.ctr.isNone) = false := by
  cases hc : w.cfg.overviewPanics with
  | false => rfl
  | true =>
    have := h hc
    unfold wf at this
    simp only [Bool.and_eq_true, Bool.not_eq_true'] at this
    cases hctr : d.ctr with
    | none => rw [hctr] at this; simp at this
    | some c => simp

theorem handleNM_err_pos (d : Dg) (e : Nat) (b : Bool) (h : handleNM d = (some e, b)) : e ≠ 0 := by
  unfold handleNM at h
  repeat' split at h
  all_goals first | (simp at h; try omega) | skip
  all_goals (try (obtain ⟨h1, _⟩ := h; omega))

theorem handleF_err_pos (lf : LF) (rf : RF) (d : Dg) (e : Nat) (b : Bool) (h : handleF lf rf d = (some e, b)) :
    e ≠ 0 := by
  unfold handleF at h
  repeat' split at h
  all_goals first | (simp at h; try omega) | skip
  all_goals (try (obtain ⟨h1, _⟩ := h; omega))

theorem handle_err_pos (lf : LF) (rf : RF) (d : Dg) (e : Nat) (b : Bool) (h : handle lf rf d = (some e, b)) :
    e ≠ 0 := by
  unfold handle at h
  split at h
  · exact handleNM_err_pos d e b h
  · exact handleF_err_pos lf rf d e b h

/-- an incoming result that is accepted is never replied to -/
theorem handle_result_no_reply (lf : LF) (rf : RF) (d : Dg) (hres : d.cls = .result) (replied : Bool)
    (h : handle lf rf d = (none, replied)) : replied = false := by
  unfold handle at h
  split at h
  · unfold handleNM at h
    simp only [hres] at h
    repeat' split at h
    all_goals simp_all
  · unfold handleF at h
    simp only [hres] at h
    repeat' split at h
    all_goals simp_all

theorem respOf_res_err (d : Dg) (e : Nat) (he : e ≠ 0) : respOf (res d e) = some .error := by
  cases e with
  | zero => exact absurd rfl he
  | succ n => rfl

theorem respOf_resU (d : Dg) : respOf (resU d) = some .error := rfl

theorem gate_false_of_nm (w : W) (p : Nat) (lf : LF) (d : Dg) (hNM : nmReadOnly w) (hmem : lf ∈ w.loc)
    (hnm : lf.nm = true) : gateOk w p lf d = false := by
  unfold gateOk writable
  have : (lf.ops.any fun o => decide (o.1 = d.fn) && o.2) = false := by
    rw [List.any_eq_false]
    intro o ho
    simp [hNM lf hmem hnm o ho]
  simp [this]

/-- the responses computed for known source and destination are the prescribed ones -/
theorem responses_spec (w : W) (p : Nat) (lf : LF) (rf : RF) (d : Dg) (hNM : nmReadOnly w) (hmem : lf ∈ w.loc)
    (hres : d.cls ≠ .result) :
    (responses w p lf rf d).filterMap respOf =
      (if d.cls = .write then
        if gateOk w p lf d && lf.fds.contains d.fn && !d.bad then (if d.ack then [.success] else []) else [.error]
      else match handle lf rf d with
        | (some _, _) => [.error]
        | (none, replied) =>
          (if replied then [.reply d.fn (replyVal w p lf d)] else []) ++ (if d.ack && d.cls ≠ .read then [.success] else [])) := by
  unfold responses
  by_cases hw : d.cls = .write
  · -- writes
    simp only [hw, decide_true, Bool.true_and, if_true]
    by_cases hg : gateOk w p lf d = true
    · have hnm : lf.nm = false := by
        cases h : lf.nm with
        | false => rfl
        | true => rw [gate_false_of_nm w p lf d hNM hmem h] at hg; cases hg
      simp only [hg, hnm, Bool.not_true, Bool.false_eq_true, if_false, Bool.not_false, if_true, Bool.true_and]
      by_cases hf : d.fn ∈ lf.fds <;> by_cases ha : d.ack = true <;> by_cases hb : d.bad = true <;>
        simp [hf, ha, hb, respOf, res]
    · have hg' : gateOk w p lf d = false := by simpa using hg
      simp [hg', respOf, res]
  · -- everything else goes through the feature's verdict
    have hwb : (decide (d.cls = Cls.write)) = false := by simpa using hw
    simp only [hwb, Bool.false_and, Bool.false_eq_true, if_false, hw]
    cases hh : handle lf rf d with
    | mk v replied =>
      cases v with
      | some e =>
        have he := handle_err_pos lf rf d e replied hh
        simp [hres, respOf_res_err d e he]
      | none =>
        have hack : (d.cls = .call || d.cls = .reply || d.cls = .notify) = decide (d.cls ≠ .read) := by
          cases hc : d.cls <;> simp_all
        simp only [List.filterMap_append, hack]
        by_cases hr : replied = true <;> by_cases ha : d.ack = true <;>
          by_cases hrd : d.cls = .read <;> simp [hr, ha, hrd, respOf, res]

/-- an incoming result is never answered when its destination exists -/
theorem responses_result (w : W) (p : Nat) (lf : LF) (rf : RF) (d : Dg) (hres : d.cls = .result) :
    responses w p lf rf d = [] := by
  unfold responses
  have h1 : (decide (d.cls = Cls.write)) = false := by simp [hres]
  simp only [h1, Bool.false_and, Bool.false_eq_true, if_false]
  cases hh : handle lf rf d with
  | mk v replied =>
    cases v with
    | some e => simp [hres]
    | none =>
      have := handle_result_no_reply lf rf d hres replied hh
      simp [this, hres]

theorem kindOf_notifs (w : W) (d : Dg) : (notifs w d).filterMap kindOf = [] := by
  unfold notifs notifsAt
  induction (w.subs.filter fun s => s.1 = d.dst) with
  | nil => rfl
  | cons s l ih => simpa [List.filterMap_cons, kindOf, respOf] using ih

theorem kindOf_tag (p : Nat) (l : List Out) :
    (tag p l).filterMap kindOf = (l.filterMap respOf).map fun r => (p, r) := by
  unfold tag
  induction l with
  | nil => rfl
  | cons o l ih =>
    simp only [List.map_cons, List.filterMap_cons, kindOf]
    cases h : respOf o with
    | none => simpa using ih
    | some r => simpa using ih

/-- C01 (partial, every member of the family): for every world and every datagram that does not trip
    `PrintMessageOverview`, except — in members that still answer it — a result addressed to a feature that does not
    exist, the responses the stack emits are exactly those the classifier rules prescribe, all of them written to
    the sender's connection — no more and no fewer, and none to any other peer -/
theorem c01_exact_partial (w : W) (p : Nat) (d : Dg) (hwf : NoCrash w d) (hNM : nmReadOnly w)
    (hx : w.cfg.resultOnResult = true → ¬ resultToUnknown w d) :
    (processCmd w p d).2.filterMap kindOf = (expected w p d).map fun r => (p, r) := by
  unfold processCmd expected
  cases hsrc : srcF w p d with
  | none => simp
  | some rf =>
    simp only []
    cases hdst : dstF w d with
    | none =>
      by_cases hres : d.cls = .result
      · have hflag : w.cfg.resultOnResult = false := by
          cases hf : w.cfg.resultOnResult with
          | false => rfl
          | true => exact absurd ⟨hres, hdst⟩ (hx hf)
        simp [hres, hflag]
      · simp [hres, unknown_no_panic w d hwf, kindOf, respOf_resU]
    | some lf =>
      have hmem : lf ∈ w.loc := List.mem_of_find?_eq_some hdst
      simp only [crashes_false w p lf rf d hwf, Bool.false_eq_true, if_false]
      by_cases hres : d.cls = .result
      · -- an incoming result is never answered
        have hresp : responses w p lf rf d = [] := responses_result w p lf rf d hres
        have hwr : wantsRead w p lf rf d = false := by simp [wantsRead, hres]
        have happ : applies w p lf d = false := by simp [applies, hres]
        simp [hresp, hwr, hres, happ, tag]
      · have hsp := responses_spec w p lf rf d hNM hmem hres
        simp only [hres, if_false]
        have houts : ((if applies w p lf d = true then notifs w d else []) ++ tag p (responses w p lf rf d)).filterMap kindOf
            = ((responses w p lf rf d).filterMap respOf).map fun r => (p, r) := by
          rw [List.filterMap_append, kindOf_tag]
          split <;> simp [kindOf_notifs]
        split
        · rename_i hwr
          cases hreq : request ((bump (record (setPeer w p (answered (w.peers p) d.ref)) (applies w p lf d) d)
              ((if applies w p lf d = true then notifs w d else []) ++ tag p (responses w p lf rf d))).peers p) d.src d.fn with
          | mk pr' sent =>
            simp only [List.filterMap_append, houts, hsp]
            cases sent <;> simp [kindOf, respOf]
        · simp only [houts, hsp]

/-- C01 for the repaired member (`resultOnResult` off): no exclusion left -/
theorem c01_exact (w : W) (p : Nat) (d : Dg) (hcfg : w.cfg.resultOnResult = false) (hwf : NoCrash w d)
    (hNM : nmReadOnly w) :
    (processCmd w p d).2.filterMap kindOf = (expected w p d).map fun r => (p, r) :=
  c01_exact_partial w p d hwf hNM (fun h => by rw [hcfg] at h; cases h)

def refW : W := { loc := [], peers := fun _ => { feats := [⟨[0], 0, [], 0, .special⟩], msgNum := 0, req := [] }, binds := [] }
def refD : Dg := { src := ([0], 0), dst := ([9], 9), ctr := some 7, ref := some 3, cls := .result, ack := false, fn := 900 }

/-- the full statement is false of the code as it is: a result to an unknown feature is answered with a result -/
theorem c01_exact_refuted :
    ∃ (w : W) (p : Nat) (d : Dg), w.cfg = {} ∧ wf d = true ∧ nmReadOnly w ∧
      (processCmd w p d).2.filterMap kindOf ≠ (expected w p d).map fun r => (p, r) := by
  refine ⟨refW, 1, refD, rfl, by decide, ?_, by decide⟩
  intro lf hlf; cases hlf

/-- a response is written to the sender's connection, references the request's counter, is addressed to the
    request's source and names the addressed feature as its source -/
def addressed (p : Nat) (d : Dg) : Nat × Out → Prop
  | (q, .reply r _ s t _ sd) => q = p ∧ r = d.ctr ∧ s = d.dst ∧ t = d.src ∧ (sd = some 0 ∨ sd = d.dstDev)
  | (q, .result r _ s t sd) => q = p ∧ r = d.ctr ∧ s = d.dst ∧ t = d.src ∧ (sd = some 0 ∨ sd = d.dstDev)
  | _ => True

theorem responses_addressed (w : W) (p : Nat) (lf : LF) (rf : RF) (d : Dg) :
    ∀ o ∈ responses w p lf rf d, addressed p d (p, o) := by
  intro o ho
  unfold responses at ho
  repeat' split at ho
  all_goals simp only [List.mem_append, List.mem_singleton, List.not_mem_nil, or_false, false_or] at ho
  all_goals (try (rcases ho with ho | ho))
  all_goals (try (split at ho))
  all_goals (try (simp only [List.mem_singleton, List.not_mem_nil] at ho))
  all_goals (try subst ho)
  all_goals (try simp [addressed, res])
  all_goals (try (exact absurd ho (by simp)))

theorem notifs_addressed (w : W) (p : Nat) (d : Dg) : ∀ o ∈ notifs w d, addressed p d o := by
  intro o ho
  unfold notifs notifsAt at ho
  simp only [List.mem_map] at ho
  obtain ⟨s, _, rfl⟩ := ho
  trivial

theorem tag_addressed (w : W) (p : Nat) (lf : LF) (rf : RF) (d : Dg) :
    ∀ o ∈ tag p (responses w p lf rf d), addressed p d o := by
  intro o ho
  unfold tag at ho
  simp only [List.mem_map] at ho
  obtain ⟨o', ho', rfl⟩ := ho
  exact responses_addressed w p lf rf d o' ho'

/-- C01, addressing (every member): every response is written to the sender's connection, references the
    request's counter, is addressed to the request's source and names the addressed feature as its source -/
theorem c01_addressing (w : W) (p : Nat) (d : Dg) (o : Nat × Out) (ho : o ∈ (processCmd w p d).2) :
    addressed p d o := by
  unfold processCmd at ho
  cases hsrc : srcF w p d with
  | none => simp [hsrc] at ho
  | some rf =>
    simp only [hsrc] at ho
    cases hdst : dstF w d with
    | none =>
      simp only [hdst] at ho
      split at ho
      · simp at ho
      · split at ho
        · simp only [List.mem_singleton] at ho; subst ho; trivial
        · simp only [List.mem_singleton] at ho; subst ho; simp [addressed, resU]
    | some lf =>
      simp only [hdst] at ho
      have houts : ∀ o ∈ (if applies w p lf d = true then notifs w d else []) ++ tag p (responses w p lf rf d),
          addressed p d o := by
        intro o ho
        rw [List.mem_append] at ho
        rcases ho with ho | ho
        · split at ho
          · exact notifs_addressed w p d o ho
          · simp at ho
        · exact tag_addressed w p lf rf d o ho
      split at ho
      · simp only [List.mem_singleton] at ho; subst ho; trivial
      · split at ho
        · cases hreq : request ((bump (record (setPeer w p (answered (w.peers p) d.ref)) (applies w p lf d) d)
              ((if applies w p lf d = true then notifs w d else []) ++ tag p (responses w p lf rf d))).peers p) d.src d.fn with
          | mk pr' sent =>
            simp only [hreq, List.mem_append] at ho
            rcases ho with ho | ho
            · exact houts o (List.mem_append.mpr ho)
            · cases sent
              · simp at ho
              · simp only [if_true, List.mem_singleton] at ho; subst ho; trivial
        · exact houts o ho

/-! ### node-management calls and entity notifications: exactly the acknowledgement or exactly one error -/

/-- a binding / subscription call is answered with exactly one error when refused and with exactly the requested
    acknowledgement when accepted, on the caller's connection -/
theorem c01_call (w : W) (p : Nat) (ctr : Nat) (ack : Bool) (k : Call) (hc : connected w p = true) :
    (processCall w p ctr ack k).2.filterMap kindOf =
      if callOk w p k then (if ack then [(p, Resp.success)] else []) else [(p, Resp.error)] := by
  unfold processCall
  simp only [hc, Bool.not_true, Bool.false_eq_true, if_false]
  by_cases hk : callOk w p k = true
  · cases ack <;> simp [hk, kindOf, respOf]
  · have hk' : callOk w p k = false := by simpa using hk
    simp [hk', kindOf, respOf]

end Spine.Disp
