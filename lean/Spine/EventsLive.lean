import Spine.EventsLock
import Spine.EventsHist
/-! C15, global progress of the event bus with its two locks (`Spine.Bus.lstep`): no reachable state is a deadlock.

    From every reachable state the goroutines that are inside `Publish` can — by their own steps, each of them enabled
    (not waiting for a lock) when it is taken — make every started publication return (`all_publications_return`);
    the spawned application handler goroutines then run, and everything owed is delivered exactly once
    (`everything_owed_is_delivered`). -/
namespace Spine.Bus

/-- a step of a goroutine that is inside Publish (not of a handler, not a (un)subscription) -/
def isPublisherStep : LEv → Bool
  | .acquire _ => true
  | .deliver _ => true
  | .release _ => true
  | _ => false

def isAppRun : LEv → Bool
  | .appRun _ _ => true
  | _ => false

/-- every event of the list is enabled in the state in which it is taken -/
def EnabledAll : LSt → List LEv → Prop
  | _, [] => True
  | s, e :: es => Enabled s e ∧ EnabledAll (lstep s e) es

instance instDecidableEnabledAll : (s : LSt) → (fin : List LEv) → Decidable (EnabledAll s fin)
  | _, [] => isTrue trivial
  | s, e :: es =>
    have := instDecidableEnabledAll (lstep s e) es
    inferInstanceAs (Decidable (Enabled s e ∧ EnabledAll (lstep s e) es))

theorem enabledAll_append (a b : List LEv) : ∀ s : LSt,
    EnabledAll s (a ++ b) ↔ EnabledAll s a ∧ EnabledAll (a.foldl lstep s) b := by
  induction a with
  | nil => intro s; simp [EnabledAll]
  | cons e es ih =>
    intro s
    simp only [List.cons_append, EnabledAll, List.foldl_cons, ih (lstep s e), and_assoc]

theorem lrun_append (evs fin : List LEv) : lrun (evs ++ fin) = fin.foldl lstep (lrun evs) := by
  simp [lrun, List.foldl_append]

/-! ## Lists of publications -/

/-- one publication under `setPhase` -/
def setOne (p ph : Nat) (q : Pub) : Pub := if q.id = p then { q with phase := ph } else q

theorem setPhase_eq (s : St) (p ph : Nat) : setPhase s p ph = s.pubs.map (setOne p ph) := rfl

theorem setOne_id (p ph : Nat) (q : Pub) : (setOne p ph q).id = q.id := by
  unfold setOne; split <;> rfl

theorem setOne_ne (p ph : Nat) (q : Pub) (h : q.id ≠ p) : setOne p ph q = q := by
  unfold setOne; simp [h]

theorem setOne_phase_eq (p ph : Nat) (q : Pub) (h : q.id = p) : (setOne p ph q).phase = ph := by
  unfold setOne; simp [h]

theorem map_setOne_ids (p ph : Nat) (l : List Pub) : (l.map (setOne p ph)).map (·.id) = l.map (·.id) := by
  induction l with
  | nil => rfl
  | cons x xs ih => simp only [List.map_cons, ih, setOne_id]

theorem map_setOne_absent (p ph : Nat) (l : List Pub) (h : p ∉ l.map (·.id)) : l.map (setOne p ph) = l := by
  induction l with
  | nil => rfl
  | cons x xs ih =>
    simp only [List.map_cons, List.mem_cons, not_or] at h
    simp only [List.map_cons]
    rw [ih h.2, setOne_ne p ph x (fun e => h.1 e.symm)]

theorem find_none_absent (p : Nat) (l : List Pub) (h : l.find? (·.id = p) = none) : p ∉ l.map (·.id) := by
  intro hm
  obtain ⟨q, hq, hid⟩ := List.mem_map.mp hm
  have := List.find?_eq_none.mp h q hq
  simp at this
  exact this hid

/-- with distinct ids, a publication of the list is the one `findPub` finds under its id -/
theorem find_of_mem (l : List Pub) (hnd : (l.map (·.id)).Nodup) (q : Pub) (hq : q ∈ l) :
    l.find? (·.id = q.id) = some q := by
  induction l with
  | nil => cases hq
  | cons x xs ih =>
    simp only [List.map_cons, List.nodup_cons] at hnd
    rcases List.mem_cons.mp hq with rfl | hq
    · simp
    · have hne : ¬ x.id = q.id := by
        intro e
        exact hnd.1 (e ▸ List.mem_map.mpr ⟨q, hq, rfl⟩)
      simp only [List.find?_cons, hne, decide_false]
      exact ih hnd.2 hq

/-! ## The measure -/

/-- what a publication in a phase still has to do (besides taking the lock): 0 ↦ 3, 1 ↦ 2, returned ↦ 0 -/
def wt (ph : Nat) : Nat := if ph = 0 then 3 else if ph = 1 then 2 else 0

def wsum : List Pub → Nat
  | [] => 0
  | q :: qs => wt q.phase + wsum qs

/-- number of publisher steps that can still take effect, plus one while the lock is free -/
def unfinished (s : LSt) : Nat := wsum s.bus.pubs + (if s.holder = none then 1 else 0)

theorem wsum_setOne (p ph : Nat) (l : List Pub) (hnd : (l.map (·.id)).Nodup) (q : Pub)
    (hf : l.find? (·.id = p) = some q) :
    wsum (l.map (setOne p ph)) + wt q.phase = wsum l + wt ph := by
  induction l with
  | nil => cases hf
  | cons x xs ih =>
    simp only [List.map_cons, List.nodup_cons] at hnd
    by_cases hx : x.id = p
    · have hq : q = x := by
        simp only [List.find?_cons, hx, decide_true] at hf
        exact (Option.some.inj hf).symm
      subst hq
      have habs : p ∉ xs.map (·.id) := by rw [← hx]; exact hnd.1
      simp only [List.map_cons, wsum, map_setOne_absent p ph xs habs, setOne_phase_eq p ph q hx]
      omega
    · simp only [List.find?_cons, hx, decide_false] at hf
      have := ih hnd.2 hf
      simp only [List.map_cons, wsum, setOne_ne p ph x hx]
      omega

/-! ## The general invariant -/

/-- the part of the invariant that speaks about the list of publications and the holder of `muHandle` only -/
structure PInv (pubs : List Pub) (holder : Option Nat) : Prop where
  /-- publication ids are distinct -/
  nd : (pubs.map (·.id)).Nodup
  /-- a publication whose core handlers have run and that has not returned holds `muHandle` -/
  ph1 : ∀ q ∈ pubs, q.phase = 1 → holder = some q.id
  le2 : ∀ q ∈ pubs, q.phase ≤ 2
  /-- the holder is a publication of the list -/
  hmem : ∀ p, holder = some p → ∃ q ∈ pubs, q.id = p

/-- the general invariant of the lock model -/
structure GInv (s : LSt) : Prop extends PInv s.bus.pubs s.holder where
  linv : LInv s

theorem mem_map_setOne (p ph : Nat) (l : List Pub) (q' : Pub) (h : q' ∈ l.map (setOne p ph)) :
    ∃ q ∈ l, q' = setOne p ph q := by
  obtain ⟨q, hq, e⟩ := List.mem_map.mp h
  exact ⟨q, hq, e.symm⟩

theorem pinv_set1 (l : List Pub) (p : Nat) (h : PInv l (some p)) : PInv (l.map (setOne p 1)) (some p) := by
  refine ⟨?_, ?_, ?_, ?_⟩
  · rw [map_setOne_ids]; exact h.nd
  · intro q' hq' hph
    obtain ⟨q, hq, rfl⟩ := mem_map_setOne p 1 l q' hq'
    by_cases hid : q.id = p
    · rw [setOne_id, hid]
    · rw [setOne_ne p 1 q hid] at hph ⊢
      exact h.ph1 q hq hph
  · intro q' hq'
    obtain ⟨q, hq, rfl⟩ := mem_map_setOne p 1 l q' hq'
    by_cases hid : q.id = p
    · rw [setOne_phase_eq p 1 q hid]; omega
    · rw [setOne_ne p 1 q hid]; exact h.le2 q hq
  · intro p' hp'
    obtain ⟨q, hq, hid⟩ := h.hmem p' hp'
    exact ⟨setOne p 1 q, List.mem_map.mpr ⟨q, hq, rfl⟩, by rw [setOne_id]; exact hid⟩

theorem pinv_set2 (l : List Pub) (p : Nat) (h : PInv l (some p)) : PInv (l.map (setOne p 2)) none := by
  refine ⟨?_, ?_, ?_, ?_⟩
  · rw [map_setOne_ids]; exact h.nd
  · intro q' hq' hph
    obtain ⟨q, hq, rfl⟩ := mem_map_setOne p 2 l q' hq'
    by_cases hid : q.id = p
    · rw [setOne_phase_eq p 2 q hid] at hph; omega
    · rw [setOne_ne p 2 q hid] at hph
      have := h.ph1 q hq hph
      exact absurd (Option.some.inj this).symm hid
  · intro q' hq'
    obtain ⟨q, hq, rfl⟩ := mem_map_setOne p 2 l q' hq'
    by_cases hid : q.id = p
    · rw [setOne_phase_eq p 2 q hid]; omega
    · rw [setOne_ne p 2 q hid]; exact h.le2 q hq
  · intro p' hp'; cases hp'

theorem pinv_snoc (l : List Pub) (ho : Option Nat) (p : Nat) (snap : List H) (h : PInv l ho)
    (hnew : l.find? (·.id = p) = none) : PInv (l ++ [⟨p, snap, 0⟩]) ho := by
  refine ⟨?_, ?_, ?_, ?_⟩
  · rw [List.map_append, List.nodup_append]
    refine ⟨h.nd, by simp, ?_⟩
    intro a ha b hb
    simp only [List.map_cons, List.map_nil, List.mem_singleton] at hb
    subst hb
    intro e; subst e
    exact find_none_absent _ l hnew ha
  · intro q hq hph
    rcases List.mem_append.mp hq with hq | hq
    · exact h.ph1 q hq hph
    · simp only [List.mem_singleton] at hq; subst hq; cases hph
  · intro q hq
    rcases List.mem_append.mp hq with hq | hq
    · exact h.le2 q hq
    · simp only [List.mem_singleton] at hq; subst hq; show 0 ≤ 2; omega
  · intro p' hp'
    obtain ⟨q, hq, hid⟩ := h.hmem p' hp'
    exact ⟨q, List.mem_append_left _ hq, hid⟩

theorem pinv_acq (l : List Pub) (p : Nat) (h : PInv l none) (hp : ∃ q ∈ l, q.id = p) : PInv l (some p) := by
  refine ⟨h.nd, ?_, h.le2, ?_⟩
  · intro q hq hph; cases h.ph1 q hq hph
  · intro p' hp'; cases hp'; exact hp

theorem pubs_subscribe (s : St) (x : H) : (step s (.subscribe x)).pubs = s.pubs := by
  simp only [step]; split <;> rfl

theorem pubs_appRun (s : St) (p : Nat) (x : H) : (step s (.appRun p x)).pubs = s.pubs := by
  simp only [step]; split <;> rfl

theorem pubs_snapshot (s : St) (p : Nat) : (step s (.snapshot p)).pubs = s.pubs ∨
    (s.pubs.find? (·.id = p) = none ∧ (step s (.snapshot p)).pubs = s.pubs ++ [⟨p, s.handlers, 0⟩]) := by
  simp only [step]
  split
  · exact Or.inl rfl
  · rename_i hnone
    right
    refine ⟨?_, rfl⟩
    cases hf : findPub s p with
    | none => exact hf
    | some x => rw [hf] at hnone; simp at hnone

theorem pubs_handle (s : St) (p : Nat) (x : Pub) (hf : findPub s p = some x) (h0 : x.phase = 0) :
    (step s (.handle p)).pubs = s.pubs.map (setOne p 1) := by
  simp only [step]
  rw [hf]
  simp only [h0, if_true]
  rfl

theorem pubs_ret (s : St) (p : Nat) (x : Pub) (hf : findPub s p = some x) (h1 : x.phase = 1) :
    (step s (.ret p)).pubs = s.pubs.map (setOne p 2) := by
  simp only [step]
  rw [hf]
  simp only [h1, if_true]
  rfl

/-- what an event that takes effect does to the holder and to the publications -/
theorem lstep_acquire (s : LSt) (p : Nat) (hh : s.holder = none) (hp : phaseOf s p = some 0) :
    lstep s (.acquire p) = { s with holder := some p } := by
  simp [lstep, hh, hp]

theorem lstep_deliver (s : LSt) (p : Nat) (hh : s.holder = some p) (hp : phaseOf s p = some 0) :
    lstep s (.deliver p) = apply s (.handle p) := by
  simp [lstep, hh, hp]

theorem lstep_release (s : LSt) (p : Nat) (hh : s.holder = some p) (hp : phaseOf s p = some 1) :
    lstep s (.release p) = { apply s (.ret p) with holder := none } := by
  simp [lstep, hh, hp]

theorem ginv_step (s : LSt) (e : LEv) (h : GInv s) : GInv (lstep s e) := by
  refine { toPInv := ?_, linv := linv_step s e h.linv }
  have hP := h.toPInv
  cases e with
  | subscribe x =>
    show PInv (step s.bus (.subscribe x)).pubs s.holder
    rw [pubs_subscribe]; exact hP
  | unsubscribe x => exact hP
  | appRun p x =>
    show PInv (step s.bus (.appRun p x)).pubs s.holder
    rw [pubs_appRun]; exact hP
  | snapshot p =>
    show PInv (step s.bus (.snapshot p)).pubs s.holder
    rcases pubs_snapshot s.bus p with e | ⟨hnew, e⟩
    · rw [e]; exact hP
    · rw [e]; exact pinv_snoc _ _ _ _ hP hnew
  | acquire p =>
    by_cases hc : s.holder = none ∧ phaseOf s p = some 0
    · rw [lstep_acquire s p hc.1 hc.2]
      obtain ⟨x, hf, _⟩ := phaseOf_some s p 0 hc.2
      show PInv s.bus.pubs (some p)
      refine pinv_acq _ p (hc.1 ▸ hP) ⟨x, List.mem_of_find?_eq_some hf, findPub_id _ _ _ hf⟩
    · have : lstep s (.acquire p) = s := by simp only [lstep]; rw [if_neg hc]
      rw [this]; exact hP
  | deliver p =>
    by_cases hc : s.holder = some p ∧ phaseOf s p = some 0
    · rw [lstep_deliver s p hc.1 hc.2]
      obtain ⟨x, hf, hx⟩ := phaseOf_some s p 0 hc.2
      show PInv (step s.bus (.handle p)).pubs s.holder
      rw [pubs_handle s.bus p x hf hx, hc.1]
      exact pinv_set1 _ p (hc.1 ▸ hP)
    · have : lstep s (.deliver p) = s := by simp only [lstep]; rw [if_neg hc]
      rw [this]; exact hP
  | release p =>
    by_cases hc : s.holder = some p ∧ phaseOf s p = some 1
    · rw [lstep_release s p hc.1 hc.2]
      obtain ⟨x, hf, hx⟩ := phaseOf_some s p 1 hc.2
      show PInv (step s.bus (.ret p)).pubs none
      rw [pubs_ret s.bus p x hf hx]
      exact pinv_set2 _ p (hc.1 ▸ hP)
    · have : lstep s (.release p) = s := by simp only [lstep]; rw [if_neg hc]
      rw [this]; exact hP

theorem ginv_init : GInv {} :=
  { nd := List.nodup_nil
    ph1 := fun _ hq => nomatch hq
    le2 := fun _ hq => nomatch hq
    hmem := fun _ hp => nomatch hp
    linv := fun _ hq => nomatch hq }

theorem ginv_foldl (fin : List LEv) : ∀ s : LSt, GInv s → GInv (fin.foldl lstep s) := by
  induction fin with
  | nil => intro s h; exact h
  | cons e es ih => intro s h; exact ih _ (ginv_step s e h)

theorem ginv_lrun (evs : List LEv) : GInv (lrun evs) := ginv_foldl evs {} ginv_init

/-- in every reachable state the publication ids are distinct -/
theorem ids_nodup (evs : List LEv) : ((lrun evs).bus.pubs.map (·.id)).Nodup := (ginv_lrun evs).nd

/-! ## Progress -/

theorem phaseOf_of_mem (s : LSt) (h : GInv s) (q : Pub) (hq : q ∈ s.bus.pubs) :
    phaseOf s q.id = some q.phase := by
  unfold phaseOf findPub
  rw [find_of_mem _ h.nd q hq]
  rfl

theorem unfinished_some (s : LSt) (p : Nat) (hh : s.holder = some p) : unfinished s = wsum s.bus.pubs := by
  simp [unfinished, hh]

theorem unfinished_none (s : LSt) (hh : s.holder = none) : unfinished s = wsum s.bus.pubs + 1 := by
  simp [unfinished, hh]

/-- as long as a publication has not returned, some publishing goroutine has an enabled step that takes effect -/
theorem progress (s : LSt) (h : GInv s) (hex : ∃ q ∈ s.bus.pubs, q.phase ≠ 2) :
    ∃ e, isPublisherStep e = true ∧ Enabled s e ∧ unfinished (lstep s e) < unfinished s := by
  have w0 : wt 0 = 3 := rfl
  have w1 : wt 1 = 2 := rfl
  have w2 : wt 2 = 0 := rfl
  cases hh : s.holder with
  | some p =>
    rcases h.linv p hh with h0 | h1
    · obtain ⟨x, hf, hx⟩ := phaseOf_some s p 0 h0
      refine ⟨.deliver p, rfl, hh, ?_⟩
      rw [lstep_deliver s p hh h0]
      have hh' : (apply s (.handle p)).holder = some p := hh
      rw [unfinished_some _ p hh', unfinished_some s p hh]
      show wsum (step s.bus (.handle p)).pubs < _
      rw [pubs_handle s.bus p x hf hx]
      have := wsum_setOne p 1 s.bus.pubs h.nd x hf
      rw [hx, w0, w1] at this
      omega
    · obtain ⟨x, hf, hx⟩ := phaseOf_some s p 1 h1
      refine ⟨.release p, rfl, hh, ?_⟩
      rw [lstep_release s p hh h1]
      rw [unfinished_none _ rfl, unfinished_some s p hh]
      show wsum (step s.bus (.ret p)).pubs + 1 < _
      rw [pubs_ret s.bus p x hf hx]
      have := wsum_setOne p 2 s.bus.pubs h.nd x hf
      rw [hx, w1, w2] at this
      omega
  | none =>
    obtain ⟨q, hq, hne⟩ := hex
    have hle := h.le2 q hq
    have hn1 : q.phase ≠ 1 := by
      intro h1
      have := h.ph1 q hq h1
      rw [hh] at this; cases this
    have hq0 : q.phase = 0 := by omega
    have hp : phaseOf s q.id = some 0 := by rw [phaseOf_of_mem s h q hq, hq0]
    refine ⟨.acquire q.id, rfl, hh, ?_⟩
    rw [lstep_acquire s q.id hh hp, unfinished_some _ q.id rfl, unfinished_none s hh]
    show wsum s.bus.pubs < _
    omega

/-! ## Completion -/

/-- once every publication has returned, `muHandle` is free -/
theorem holder_none_of_done (s : LSt) (h : GInv s) (hall : ∀ q ∈ s.bus.pubs, q.phase = 2) : s.holder = none := by
  cases hh : s.holder with
  | none => rfl
  | some p =>
    exfalso
    rcases h.linv p hh with h0 | h1
    · obtain ⟨x, hf, hx⟩ := phaseOf_some s p 0 h0
      have := hall x (List.mem_of_find?_eq_some hf)
      omega
    · obtain ⟨x, hf, hx⟩ := phaseOf_some s p 1 h1
      have := hall x (List.mem_of_find?_eq_some hf)
      omega

/-- from every state that satisfies the invariant, publisher steps alone — each enabled in turn — make every
    publication return and free the lock -/
theorem returns_from (n : Nat) : ∀ s : LSt, GInv s → unfinished s ≤ n →
    ∃ fin : List LEv, (∀ e ∈ fin, isPublisherStep e = true) ∧ EnabledAll s fin ∧
      (∀ q ∈ (fin.foldl lstep s).bus.pubs, q.phase = 2) ∧ (fin.foldl lstep s).holder = none := by
  have stop : ∀ s : LSt, GInv s → (¬ ∃ q ∈ s.bus.pubs, q.phase ≠ 2) →
      ∃ fin : List LEv, (∀ e ∈ fin, isPublisherStep e = true) ∧ EnabledAll s fin ∧
        (∀ q ∈ (fin.foldl lstep s).bus.pubs, q.phase = 2) ∧ (fin.foldl lstep s).holder = none := by
    intro s h hex
    have hall : ∀ q ∈ s.bus.pubs, q.phase = 2 :=
      fun q hq => Decidable.byContradiction (fun hne => hex ⟨q, hq, hne⟩)
    exact ⟨[], (by intro e he; cases he), trivial, hall, holder_none_of_done s h hall⟩
  induction n with
  | zero =>
    intro s h hn
    by_cases hex : ∃ q ∈ s.bus.pubs, q.phase ≠ 2
    · obtain ⟨e, _, _, hlt⟩ := progress s h hex
      omega
    · exact stop s h hex
  | succ n ih =>
    intro s h hn
    by_cases hex : ∃ q ∈ s.bus.pubs, q.phase ≠ 2
    · obtain ⟨e, hpub, hen, hlt⟩ := progress s h hex
      obtain ⟨fin, h1, h2, h3, h4⟩ := ih (lstep s e) (ginv_step s e h) (by omega)
      refine ⟨e :: fin, ?_, ⟨hen, h2⟩, h3, h4⟩
      intro e' he'
      rcases List.mem_cons.mp he' with rfl | he'
      · exact hpub
      · exact h1 e' he'
    · exact stop s h hex

/-- from every reachable state, the publishing goroutines' own steps, each enabled (not waiting for a lock) when it
    is taken, make every started `Publish` return and leave `muHandle` free; no handler has to do anything — no
    `appRun`, no (un)subscription, no new publication -/
theorem all_publications_return (evs : List LEv) : ∃ fin : List LEv,
    (∀ e ∈ fin, isPublisherStep e = true) ∧ EnabledAll (lrun evs) fin ∧
    (∀ q ∈ (lrun (evs ++ fin)).bus.pubs, q.phase = 2) ∧ (lrun (evs ++ fin)).holder = none := by
  obtain ⟨fin, h1, h2, h3, h4⟩ := returns_from _ (lrun evs) (ginv_lrun evs) (Nat.le_refl _)
  refine ⟨fin, h1, h2, ?_, ?_⟩
  · rw [lrun_append]; exact h3
  · rw [lrun_append]; exact h4

/-- the spawned application handler goroutines run — one `appRun` per pending entry, never waiting for a lock —
    until nothing is pending; publications and the lock are untouched -/
theorem drain (l : List (Nat × H)) : ∀ s : LSt, s.bus.pending = l →
    ∃ fin : List LEv, (∀ e ∈ fin, isAppRun e = true) ∧ EnabledAll s fin ∧
      (fin.foldl lstep s).bus.pending = [] ∧ (fin.foldl lstep s).bus.pubs = s.bus.pubs ∧
      (fin.foldl lstep s).holder = s.holder := by
  induction l with
  | nil => intro s hs; exact ⟨[], (by intro e he; cases he), trivial, hs, rfl, rfl⟩
  | cons a rest ih =>
    intro s hs
    obtain ⟨p, x⟩ := a
    have hpend : (lstep s (.appRun p x)).bus.pending = rest := by
      show (step s.bus (.appRun p x)).pending = rest
      simp [step, hs]
    obtain ⟨fin, h1, h2, h3, h4, h5⟩ := ih (lstep s (.appRun p x)) hpend
    refine ⟨.appRun p x :: fin, ?_, ⟨(show Enabled s (.appRun p x) from True.intro), h2⟩, h3, ?_, h5⟩
    · intro e' he'
      rcases List.mem_cons.mp he' with rfl | he'
      · rfl
      · exact h1 e' he'
    · exact h4.trans (pubs_appRun s.bus p x)

/-- from every reachable state, steps of the publishing goroutines and of the spawned application handler
    goroutines, each enabled when it is taken, lead to a state in which nothing is pending, every started `Publish`
    has returned and every handler has been delivered every publication exactly as often as it is owed it (once if
    it was subscribed at the snapshot, never otherwise) -/
theorem everything_owed_is_delivered (evs : List LEv) : ∃ fin : List LEv,
    (∀ e ∈ fin, isPublisherStep e = true ∨ isAppRun e = true) ∧ EnabledAll (lrun evs) fin ∧
    (lrun (evs ++ fin)).bus.pending = [] ∧ (∀ q ∈ (lrun (evs ++ fin)).bus.pubs, q.phase = 2) ∧
    ∀ p h, (lrun (evs ++ fin)).bus.delivered.count (p, h) = owed (lrun (evs ++ fin)).bus p h := by
  obtain ⟨f1, a1, a2, a3, _⟩ := returns_from _ (lrun evs) (ginv_lrun evs) (Nat.le_refl _)
  obtain ⟨f2, b1, b2, b3, b4, _⟩ := drain _ (f1.foldl lstep (lrun evs)) rfl
  have e : lrun (evs ++ (f1 ++ f2)) = f2.foldl lstep (f1.foldl lstep (lrun evs)) := by
    rw [lrun_append, List.foldl_append]
  have hph : ∀ q ∈ (lrun (evs ++ (f1 ++ f2))).bus.pubs, q.phase = 2 := by
    rw [e, b4]; exact a3
  have hpe : (lrun (evs ++ (f1 ++ f2))).bus.pending = [] := by rw [e]; exact b3
  refine ⟨f1 ++ f2, ?_, ?_, hpe, hph, ?_⟩
  · intro e' he'
    rcases List.mem_append.mp he' with he' | he'
    · exact Or.inl (a1 e' he')
    · exact Or.inr (b1 e' he')
  · exact (enabledAll_append f1 f2 _).mpr ⟨a2, b2⟩
  · intro p h
    have hi : Inv (lrun (evs ++ (f1 ++ f2))).bus := by rw [lrun_refines]; exact inv_run _
    have hc := hi.cnt p h
    have hw : waiting (lrun (evs ++ (f1 ++ f2))).bus p h = 0 := by
      unfold waiting
      cases hf : findPub (lrun (evs ++ (f1 ++ f2))).bus p with
      | none => rfl
      | some q =>
        have := hph q (List.mem_of_find?_eq_some hf)
        simp [this]
    rw [hpe, hw] at hc
    simpa using hc

/-! ## Non-vacuity: a concrete reachable state with two overlapping publications

    Publication 0 has returned, its application handler `(1, 7)` is still pending; publication 1 holds `muHandle` and
    has not yet run the core handlers (phase 0); publication 2 has taken its snapshot and queues on `muHandle`. -/

def exEvs : List LEv :=
  [.subscribe (1, 7), .subscribe (0, 3), .snapshot 0, .acquire 0, .deliver 0, .release 0,
   .snapshot 1, .snapshot 2, .acquire 1]

/-- the publishers' own steps: 1 delivers and releases, then 2 acquires, delivers and releases -/
def exFin3 : List LEv := [.deliver 1, .release 1, .acquire 2, .deliver 2, .release 2]

/-- … followed by the three application handler goroutines -/
def exFin4 : List LEv := exFin3 ++ [.appRun 0 (1, 7), .appRun 1 (1, 7), .appRun 2 (1, 7)]

example : (lrun exEvs).holder = some 1 ∧
    (lrun exEvs).bus.pubs.map (fun q => (q.id, q.phase)) = [(0, 2), (1, 0), (2, 0)] ∧
    (lrun exEvs).bus.pending = [(0, (1, 7))] ∧ (lrun exEvs).bus.delivered = [(0, (0, 3))] := by decide

/-- the queued publication cannot proceed while 1 holds the lock: `EnabledAll` is not trivially true -/
example : ¬ EnabledAll (lrun exEvs) [.acquire 2] := by decide

example : ¬ EnabledAll (lrun exEvs) [.deliver 1, .acquire 2] := by decide

/-- (3) on the example: the concrete `fin`, every step enabled in turn, all phases 2, lock free — and the pending
    application handler of publication 0 has not been needed -/
example : (∀ e ∈ exFin3, isPublisherStep e = true) ∧ EnabledAll (lrun exEvs) exFin3 ∧
    (lrun (exEvs ++ exFin3)).bus.pubs.map (·.phase) = [2, 2, 2] ∧ (lrun (exEvs ++ exFin3)).holder = none ∧
    (lrun (exEvs ++ exFin3)).bus.pending = [(0, (1, 7)), (1, (1, 7)), (2, (1, 7))] := by decide

/-- (4) on the example -/
example : (∀ e ∈ exFin4, isPublisherStep e = true ∨ isAppRun e = true) ∧ EnabledAll (lrun exEvs) exFin4 ∧
    (lrun (exEvs ++ exFin4)).bus.pending = [] ∧
    (lrun (exEvs ++ exFin4)).bus.pubs.map (·.phase) = [2, 2, 2] ∧
    (lrun (exEvs ++ exFin4)).bus.delivered =
      [(0, (0, 3)), (1, (0, 3)), (2, (0, 3)), (0, (1, 7)), (1, (1, 7)), (2, (1, 7))] ∧
    (lrun (exEvs ++ exFin4)).bus.delivered.count (2, (1, 7)) = 1 ∧
    owed (lrun (exEvs ++ exFin4)).bus 2 (1, 7) = 1 ∧
    (lrun (exEvs ++ exFin4)).bus.delivered.count (2, (1, 9)) = 0 ∧
    owed (lrun (exEvs ++ exFin4)).bus 2 (1, 9) = 0 := by decide

/-- the measure on the example: 3 + 3 for the two publications in phase 0, lock taken -/
example : unfinished (lrun exEvs) = 6 ∧ unfinished (lrun (exEvs ++ exFin3)) = 1 := by decide

end Spine.Bus

