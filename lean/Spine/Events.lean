/-! Event-sourced model of the event bus (spine/events.go): subscribe (de-duplicating), unsubscribe,
    Publish = snapshot of the handler list (under mu) ; delivery to the core handlers and spawning of one
    goroutine per application handler (under muHandle) ; return. Application handlers run later. -/
namespace Spine.Bus

abbrev H := Nat × Nat            -- (level: 0 core, 1 application; handler)

structure Pub where
  id : Nat
  snap : List H
  phase : Nat                    -- 0 snapshot taken, 1 core handlers done and application handlers spawned, 2 returned
deriving Repr

structure St where
  handlers : List H := []
  pubs : List Pub := []
  pending : List (Nat × H) := []     -- spawned application deliveries not yet run
  delivered : List (Nat × H) := []   -- (publication, handler) in delivery order

inductive Ev
  | subscribe (h : H) | unsubscribe (h : H)
  | snapshot (p : Nat) | handle (p : Nat) | ret (p : Nat)
  | appRun (p : Nat) (h : H)

def findPub (s : St) (p : Nat) : Option Pub := s.pubs.find? (·.id = p)

def setPhase (s : St) (p : Nat) (ph : Nat) : List Pub :=
  s.pubs.map fun q => if q.id = p then { q with phase := ph } else q

def step (s : St) : Ev → St
  | .subscribe h => if s.handlers.contains h then s else { s with handlers := s.handlers ++ [h] }
  | .unsubscribe h => { s with handlers := s.handlers.filter (· ≠ h) }
  | .snapshot p =>
    if (findPub s p).isSome then s else { s with pubs := s.pubs ++ [⟨p, s.handlers, 0⟩] }
  | .handle p =>
    match findPub s p with
    | some q =>
      if q.phase = 0 then
        { s with pubs := setPhase s p 1,
                 delivered := s.delivered ++ (q.snap.filter (·.1 = 0)).map (fun h => (p, h)),
                 pending := s.pending ++ (q.snap.filter (·.1 ≠ 0)).map (fun h => (p, h)) }
      else s
    | none => s
  | .ret p =>
    match findPub s p with
    | some q => if q.phase = 1 then { s with pubs := setPhase s p 2 } else s
    | none => s
  | .appRun p h =>
    if s.pending.contains (p, h) then
      { s with pending := s.pending.erase (p, h), delivered := s.delivered ++ [(p, h)] }
    else s

def run (evs : List Ev) : St := evs.foldl step {}

/-- a handler subscribed twice, an event published once, the application handler run: delivered once -/
example : (run [.subscribe (1, 7), .subscribe (1, 7), .snapshot 1, .handle 1, .ret 1, .appRun 1 (1, 7)]).delivered
    = [(1, (1, 7))] := by decide

/-- unsubscription before the publication's snapshot: nothing is delivered -/
example : (run [.subscribe (1, 7), .unsubscribe (1, 7), .snapshot 1, .handle 1, .ret 1]).delivered = [] := by decide

end Spine.Bus
