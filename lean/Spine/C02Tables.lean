import Spine.Update
/-!
# Row formats and row predicates of the regenerated C02 tables

`go/cmd/translate` (generators `shapes` = G3, `wiring` = G4) writes `Spine/Generated/Shapes.lean` and
`Spine/Generated/Wiring.lean` from the tree under test on every run; the row formats and what a good row
is are fixed here by hand, so a code change can alter rows but never the yardstick.
-/
namespace Spine.Tables
open Spine

/-- how `FilterData.SelectorMatch` treats one field of a selectors struct -/
inductive SelKind
  | ignored   -- not a pointer field, or the item has no field of that name: the code skips it
  | eq        -- same pointer-to-scalar type as the item field: compared by value
  | never     -- pointer field of another type, or a comparable struct holding pointers: never equal
  | panics    -- the item field is not a pointer, or the struct type is not comparable: the comparison panics
deriving DecidableEq, Repr, Inhabited

/-- G3: one list type that implements `model.Updater` -/
structure ListType where
  name : String            -- the list struct, e.g. `LoadControlLimitListDataType`
  fct : String             -- function name (CmdType tag)
  listField : String       -- the slice field of the list struct
  scalar : Bool            -- items are not structs (no fields for the engine to look at)
  registered : Bool        -- the function factory creates a store for it
  shape : Shape            -- what the engine sees of the item type
  hasSel : Bool            -- model.FilterType has a selectors field for the function
  selKinds : List SelKind  -- per field of the selectors struct
  hasEl : Bool             -- model.FilterType has an elements field for the function
deriving Repr, Inhabited

/-- G4: what one `UpdateList` method does, read off its syntax tree -/
structure WiringRow where
  recv : String            -- receiver type
  file : String
  line : Nat
  asserted : String        -- `newList.(*T)`
  read : String            -- field read from the asserted value
  passed : String          -- receiver field passed to the engine as existing data
  args : List String       -- all arguments of the engine call
  dataVar : String         -- results of the engine call
  okVar : String
  assigned : String        -- receiver field that is assigned
  assignRhs : String       -- … with this value
  guard : String           -- … under this condition ("" = unconditionally)
  ret : List String        -- returned expressions
  extra : Nat              -- statements that fit none of the expected forms
deriving Repr, Inhabited

def keyIdx (sh : Shape) : List Nat := sh.keys.map (·.1)

/-- a struct-typed key ends `hashKey`; it must therefore be the last key for the hash to be injective -/
def structKeyLast : List (Nat × KeyKind) → Bool
  | [] => true
  | [_] => true
  | (_, k) :: rest => k != .struct && structKeyLast rest

def selEntryOK (n : Nat) (m : Option Nat) (k : SelKind) : Bool :=
  match k, m with
  | .ignored, none => true
  | .eq, some i => i < n
  | .never, some i => i < n
  | .panics, some i => i == n      -- out of range on purpose: the model then predicts the panic
  | _, _ => false

def selOK (n : Nat) : List (Option Nat) → List SelKind → Bool
  | [], [] => true
  | m :: ms, k :: ks => selEntryOK n m k && selOK n ms ks
  | _, _ => false

/-- the row is a shape the engine theorems apply to:
    identifier fields exist and are distinct; a struct key comes last (so `hashKey` is injective on complete
    identifiers); the write-check field exists and is no identifier; every selector field is classified and
    points into the item; the elements struct mirrors the item struct field by field (otherwise
    `RemoveElementFromItem` silently does nothing). -/
def shapeOK (t : ListType) : Bool :=
  t.scalar ||
  ((keyIdx t.shape).all (· < t.shape.n) && (keyIdx t.shape).Nodup && structKeyLast t.shape.keys &&
   (match t.shape.flag with
    | none => true
    | some f => f < t.shape.n && !(keyIdx t.shape).contains f) &&
   (if t.hasSel then selOK t.shape.n t.shape.selMap t.selKinds else t.shape.selMap.isEmpty && t.selKinds.isEmpty) &&
   (if t.hasEl then t.shape.elN == t.shape.n && t.shape.elMap == (List.range t.shape.n).map some
    else t.shape.elN == 0 && t.shape.elMap.isEmpty))

/-- identifiers are all numeric: "ordered by numeric identifier" then determines the order completely -/
def numericKeys (t : ListType) : Bool := !t.shape.keys.isEmpty && t.shape.keys.all (·.2 == .uint)

/-- the method reads, passes and assigns one and the same list field (the list field of its own type),
    calls the engine with its own parameters in order, assigns the engine's result only under
    `success && persist`, and returns the engine's result and success flag -/
def rowOK (listField : String) (w : WiringRow) : Bool :=
  w.asserted == w.recv &&
  w.read == listField && w.passed == listField && w.assigned == listField &&
  w.args == ["remoteWrite", "r." ++ listField, "newData", "filterPartial", "filterDelete"] &&
  w.dataVar != "" && w.okVar != "" &&
  w.assignRhs == w.dataVar &&
  (w.guard == w.okVar ++ " && persist" || w.guard == "persist && " ++ w.okVar) &&
  w.ret == [w.dataVar, w.okVar] &&
  w.extra == 0

def findRow (rows : List WiringRow) (name : String) : Option WiringRow := rows.find? (·.recv == name)

def wiringOK (rows : List WiringRow) (t : ListType) : Bool :=
  match findRow rows t.name with
  | some w => rowOK t.listField w
  | none => false

end Spine.Tables
