import Spine.Update
/-!
# Row formats and row predicates of the regenerated C02 tables

`go/cmd/translate` (generators `shapes` = G3, `wiring` = G4) writes `Spine/Generated/Shapes.lean` and
`Spine/Generated/Wiring.lean` from the tree under test on every run; the row formats and what a good row
is are fixed here by hand, so a code change can alter rows but never the yardstick.
-/
namespace Spine.Tables
open Spine

/-- what a field of a selectors struct is, by the TYPES of the selector field and of the item field of the same
    name (a fact of the data model; it does not depend on how `FilterData.SelectorMatch` is written) -/
inductive SelType
  | ignored    -- the selector field is not a pointer, or the item has no field of that name: the code skips it
  | scalar     -- same pointer-to-scalar type as the item field
  | othertype  -- the item field is a pointer of another type
  | nonptr     -- the item field is not a pointer (a slice)
  | struct     -- same pointer-to-struct type, comparable with `==` (holds pointers, so `==` compares identities)
  | structnc   -- same pointer-to-struct type, not comparable with `==` (holds a slice)
deriving DecidableEq, Repr, Inhabited

/-- how `SelectorMatch` of the tree under test behaves; probed by the harness on the real code -/
structure SelFacts where
  nilPanics : Bool    -- the selected item field is nil or not a pointer: panic (true) / no match (false)
  structDeep : Bool   -- struct-typed values are compared deeply (true: `reflect.DeepEqual`) / with `!=` (false)
deriving DecidableEq, Repr, Inhabited

/-- the code as written at the pinned commit -/
def SelFacts.asWritten : SelFacts := ⟨true, false⟩

/-- the entry of the engine model's `selMap` for one selector field (`idx` = item field of the same name):
    * `none`          the field takes no part;
    * `some i`, i < n the item field `i` is compared with the selector's value (fields that can never be equal —
                      other type; comparable struct under `!=` — are compared too: the harness gives their
                      selector values a number no item value has);
    * `some n`        out of range on purpose, "the item never carries it": panic resp. no match, by `nilPanics`;
    * `some (n+1+i)`  non-comparable struct under `!=` behind a nil check: no match when absent, panic when present
                      (`Spine.selectorMatchR`). -/
def selEntryFor (f : SelFacts) (n : Nat) (idx : Option Nat) (ty : SelType) : Option Nat :=
  match ty, idx with
  | .ignored, _ => none
  | _, none => none
  | .scalar, some i => some i
  | .othertype, some i => some i
  | .nonptr, some _ => some n
  | .struct, some i => some i
  | .structnc, some i => if f.structDeep then some i else if f.nilPanics then some n else some (n + 1 + i)

def selMapFor (f : SelFacts) (n : Nat) : List (Option Nat) → List SelType → List (Option Nat)
  | i :: is, t :: ts => selEntryFor f n i t :: selMapFor f n is ts
  | _, _ => []

/-- can a value of the selector field equal a value of the item field on this tree -/
def selCanMatch (f : SelFacts) : SelType → Bool
  | .scalar => true
  | .struct => f.structDeep
  | .structnc => f.structDeep
  | _ => false

/-- G3: one list type that implements `model.Updater` -/
structure ListType where
  name : String            -- the list struct, e.g. `LoadControlLimitListDataType`
  fct : String             -- function name (CmdType tag)
  listField : String       -- the slice field of the list struct
  scalar : Bool            -- items are not structs (no fields for the engine to look at)
  registered : Bool        -- the function factory creates a store for it
  shape : Shape            -- what the engine sees of the item type; `selMap` here is the NAME map (selector field →
                           -- item field of the same name); the model's `selMap` is `selMapFor facts …` (`shapeFor`)
  keyTypes : List String   -- Go type of each identifier field (what `hashKey` renders: a uint, a string, an address)
  hasSel : Bool            -- model.FilterType has a selectors field for the function
  selTypes : List SelType  -- per field of the selectors struct
  hasEl : Bool             -- model.FilterType has an elements field for the function
deriving Repr, Inhabited

/-- G4: what one `UpdateList` method does, read off its syntax tree -/
structure WiringRow where
  recv : String            -- receiver type
  file : String
  line : Nat
  asserted : String        -- `newList.(*T)`
  read : String            -- field read from the asserted value
  passed : String          -- receiver field passed to the engine as existing data
  args : List String       -- all arguments of the engine call
  dataVar : String         -- results of the engine call
  okVar : String
  assigned : String        -- receiver field that is assigned
  assignRhs : String       -- … with this value
  guard : String           -- … under this condition ("" = unconditionally)
  ret : List String        -- returned expressions
  extra : Nat              -- statements that fit none of the expected forms
deriving Repr, Inhabited

def keyIdx (sh : Shape) : List Nat := sh.keys.map (·.1)

/-- a struct-typed key ends `hashKey`; it must therefore be the last key for the hash to be injective -/
def structKeyLast : List (Nat × KeyKind) → Bool
  | [] => true
  | [_] => true
  | (_, k) :: rest => k != .struct && structKeyLast rest

/-- a selector field that takes part names an item field -/
def selEntryOK (n : Nat) (m : Option Nat) (k : SelType) : Bool :=
  match k, m with
  | .ignored, _ => true
  | _, some i => i < n
  | _, none => false

def selOK (n : Nat) : List (Option Nat) → List SelType → Bool
  | [], [] => true
  | m :: ms, k :: ks => selEntryOK n m k && selOK n ms ks
  | _, _ => false

/-- the shape the engine model runs with on a tree whose `SelectorMatch` behaves as `f` says -/
def shapeFor (f : SelFacts) (t : ListType) : Shape :=
  { t.shape with selMap := selMapFor f t.shape.n t.shape.selMap t.selTypes }

/-- the row is a shape the engine theorems apply to:
    identifier fields exist and are distinct; a struct key comes last (so `hashKey` is injective on complete
    identifiers); the write-check field exists and is no identifier; every selector field is classified and
    points into the item; the elements struct mirrors the item struct field by field (otherwise
    `RemoveElementFromItem` silently does nothing). -/
def shapeOK (t : ListType) : Bool :=
  t.scalar ||
  ((keyIdx t.shape).all (· < t.shape.n) && (keyIdx t.shape).Nodup && structKeyLast t.shape.keys &&
   (match t.shape.flag with
    | none => true
    | some f => f < t.shape.n && !(keyIdx t.shape).contains f) &&
   (if t.hasSel then selOK t.shape.n t.shape.selMap t.selTypes else t.shape.selMap.isEmpty && t.selTypes.isEmpty) &&
   (if t.hasEl then t.shape.elN == t.shape.n && t.shape.elMap == (List.range t.shape.n).map some
    else t.shape.elN == 0 && t.shape.elMap.isEmpty))

/-- identifiers are all numeric: "ordered by numeric identifier" then determines the order completely -/
def numericKeys (t : ListType) : Bool := !t.shape.keys.isEmpty && t.shape.keys.all (·.2 == .uint)

/-- the method reads, passes and assigns one and the same list field (the list field of its own type),
    calls the engine with its own parameters in order, assigns the engine's result only under
    `success && persist`, and returns the engine's result and success flag -/
def rowOK (listField : String) (w : WiringRow) : Bool :=
  w.asserted == w.recv &&
  w.read == listField && w.passed == listField && w.assigned == listField &&
  w.args == ["remoteWrite", "r." ++ listField, "newData", "filterPartial", "filterDelete"] &&
  w.dataVar != "" && w.okVar != "" &&
  w.assignRhs == w.dataVar &&
  (w.guard == w.okVar ++ " && persist" || w.guard == "persist && " ++ w.okVar) &&
  w.ret == [w.dataVar, w.okVar] &&
  w.extra == 0

def findRow (rows : List WiringRow) (name : String) : Option WiringRow := rows.find? (·.recv == name)

def wiringOK (rows : List WiringRow) (t : ListType) : Bool :=
  match findRow rows t.name with
  | some w => rowOK t.listField w
  | none => false

end Spine.Tables
