import Spine.TeardownKeys
import Spine.Dispatch
/-! C10 — "every other peer … CONTINUES TO BE SERVED": the composition of the identity-key teardown model `Spine.TdK`
    with the dispatch model `Spine.Disp`.

    `world x s` is the dispatch world that a `TdK` state `s` denotes (peer := connection; the registries are the key-level
    registries projected to (local server feature, connection, client feature); the remote features of a connection are
    the features of the entities the connected device currently has) together with what the teardown does not touch
    (`Ctx`: local features, their data, the senders' counters and unanswered requests, the family member).
    The RESPONSES of the stack to an inbound datagram / node-management call of connection `q` are those of the
    dispatch model in that world (`Disp.processCmd`, `Disp.processCall`).

    `Frame k w w'` is what a teardown about connection `k` does to the dispatch world: some registry entries OF `k` are
    gone, the peer record of `k` is arbitrary, everything else is as before. `serve_cmd_frame` / `serve_call_frame`:
    under `Frame k`, every datagram and every subscription / unsubscription / unbind call of every `q ≠ k` is answered
    with exactly the same outputs on every connection other than `k`'s. `world_drop_frame` / `world_dropEntity_frame`
    establish `Frame` for both teardown kinds of `TdK` on every state of the invariant and every `Facts` with `Facts.ok`.
    Core Lean only (the driver `drv_tdk` imports this file). -/
namespace Spine.TdS
open Spine Spine.Disp

/-! ## the outputs of `processCmd` as a pure function -/

/-- the outputs of `Disp.processCmd` (second component), without the state threading -/
def outsCmd (w : W) (p : Nat) (d : Dg) : List (Nat × Out) :=
  match srcF w p d with
  | none => []
  | some rf =>
    match dstF w d with
    | none =>
      if d.cls = .result && !w.cfg.resultOnResult then []
      else if w.cfg.overviewPanics && d.ctr.isNone then [(p, .panic)]
      else [(p, resU d)]
    | some lf =>
      if crashes w p lf rf d then [(p, .panic)] else
      ((if applies w p lf d then notifs w d else []) ++ tag p (responses w p lf rf d)) ++
      (if wantsRead w p lf rf d && !((answered (w.peers p) d.ref).req.any fun e => e.2.1 = d.src && e.2.2 = d.fn)
       then [(p, .readReq d.fn d.dst d.src)] else [])

theorem request_snd (pr : Peer) (dst : Addr) (fn : Nat) :
    (request pr dst fn).2 = !(pr.req.any fun e => e.2.1 = dst && e.2.2 = fn) := by
  unfold request
  split
  · rename_i h; rw [h]; rfl
  · rename_i h
    have h' : (pr.req.any fun e => e.2.1 = dst && e.2.2 = fn) = false := Bool.eq_false_iff.2 h
    rw [h']; rfl

theorem record_peers (w : W) (b : Bool) (d : Dg) : (record w b d).peers = w.peers := by
  unfold record; split <;> rfl

theorem w1_req (w : W) (p : Nat) (pr : Peer) (b : Bool) (d : Dg) (outs : List (Nat × Out)) :
    ((bump (record (setPeer w p pr) b d) outs).peers p).req = pr.req := by
  simp only [bump, record_peers, setPeer, sendN, if_true]

theorem processCmd_snd (w : W) (p : Nat) (d : Dg) : (processCmd w p d).2 = outsCmd w p d := by
  unfold processCmd outsCmd
  cases srcF w p d with
  | none => rfl
  | some rf =>
    cases dstF w d with
    | none =>
      dsimp only
      split
      · rfl
      · split <;> rfl
    | some lf =>
      dsimp only
      split
      · rfl
      · split
        · rename_i hw
          rw [request_snd, w1_req]
          simp only [hw, Bool.true_and]
        · rename_i hw
          have : wantsRead w p lf rf d = false := by simpa using hw
          simp [this]

/-! ## what a teardown about connection `k` does to the dispatch world -/

/-- `w'` is `w` after a clean-up about connection `k`: only registry entries of `k` are gone, only `k`'s peer record may
    differ -/
structure Frame (k : Nat) (w w' : W) : Prop where
  loc : w'.loc = w.loc
  data : w'.data = w.data
  cfg : w'.cfg = w.cfg ∧ w'.nmData = w.nmData
  peers : ∀ q, q ≠ k → w'.peers q = w.peers q
  binds : ∃ keep : Entry → Bool, (∀ b, b.2.1 ≠ k → keep b = true) ∧ w'.binds = w.binds.filter keep
  subs : ∃ keep : Entry → Bool, (∀ b, b.2.1 ≠ k → keep b = true) ∧ w'.subs = w.subs.filter keep

theorem any_filter_keep_mem {α : Type} (keep f : α → Bool) : ∀ (l : List α), (∀ a ∈ l, f a = true → keep a = true) →
    (l.filter keep).any f = l.any f := by
  intro l
  induction l with
  | nil => intro _; rfl
  | cons a l ih =>
    intro h
    have ih' := ih (fun b hb => h b (List.mem_cons_of_mem _ hb))
    by_cases hk : keep a = true
    · simp [List.filter_cons, hk, ih']
    · have hk' : keep a = false := by simpa using hk
      have hf : f a = false := by
        cases hfa : f a with
        | false => rfl
        | true => rw [h a List.mem_cons_self hfa] at hk'; exact absurd hk' (by simp)
      simp [List.filter_cons, hk', ih', hf]

theorem any_filter_keep {α : Type} (l : List α) (keep f : α → Bool) (h : ∀ a, f a = true → keep a = true) :
    (l.filter keep).any f = l.any f :=
  any_filter_keep_mem keep f l (fun a _ => h a)

theorem filter_filter_keep {α : Type} (l : List α) (keep f : α → Bool) (h : ∀ a, f a = true → keep a = true) :
    (l.filter keep).filter f = l.filter f := by
  rw [List.filter_filter]
  apply TdK.filter_congr_mem
  intro a _
  cases hfa : f a with
  | false => rfl
  | true => simp [h a hfa]

section
variable {k : Nat} {w w' : W} (hf : Frame k w w') {q : Nat} (hq : q ≠ k)
include hf hq

theorem srcF_frame (d : Dg) : srcF w' q d = srcF w q d := by
  unfold srcF; rw [hf.peers q hq]

theorem gateOk_frame (lf : LF) (d : Dg) : gateOk w' q lf d = gateOk w q lf d := by
  obtain ⟨keep, hk, hb⟩ := hf.binds
  unfold gateOk
  rw [hb, any_filter_keep]
  intro b hb'
  apply hk
  simp only [Bool.and_eq_true, decide_eq_true_eq] at hb'
  rw [hb'.1.2]; exact hq

theorem replyVal_frame (lf : LF) (d : Dg) : replyVal w' q lf d = replyVal w q lf d := by
  obtain ⟨keepB, hkB, hB⟩ := hf.binds
  obtain ⟨keepS, hkS, hS⟩ := hf.subs
  unfold replyVal
  rw [hB, hS, hf.data, hf.cfg.2, filter_filter_keep, filter_filter_keep]
  · intro b hb'; apply hkB; rw [of_decide_eq_true hb']; exact hq
  · intro b hb'; apply hkS; rw [of_decide_eq_true hb']; exact hq

theorem responses_frame (lf : LF) (rf : RF) (d : Dg) : responses w' q lf rf d = responses w q lf rf d := by
  unfold responses
  rw [gateOk_frame hf hq, replyVal_frame hf hq]

theorem applies_frame (lf : LF) (d : Dg) : applies w' q lf d = applies w q lf d := by
  unfold applies; rw [gateOk_frame hf hq]

theorem wantsRead_frame (lf : LF) (rf : RF) (d : Dg) : wantsRead w' q lf rf d = wantsRead w q lf rf d := by
  unfold wantsRead; rw [gateOk_frame hf hq]

theorem crashes_frame (lf : LF) (rf : RF) (d : Dg) : crashes w' q lf rf d = crashes w q lf rf d := by
  unfold crashes; rw [responses_frame hf hq, hf.cfg.1]

end

/-- the notifications of a data change, on every connection other than `k`'s, are those of before -/
theorem notifs_frame {k : Nat} {w w' : W} (hf : Frame k w w') (d : Dg) :
    (notifs w' d).filter (fun o => o.1 ≠ k) = (notifs w d).filter (fun o => o.1 ≠ k) := by
  obtain ⟨keep, hk, hS⟩ := hf.subs
  unfold notifs notifsAt
  rw [hS]
  generalize w.subs = l
  induction l with
  | nil => rfl
  | cons s l ih =>
    by_cases hks : keep s = true
    · by_cases ha : (decide (s.1 = d.dst)) = true
      · simp only [List.filter_cons, hks, ha, if_true, List.map_cons]
        by_cases hn : s.2.1 = k
        · simpa [hn] using ih
        · simpa [hn] using ih
      · simpa [List.filter_cons, hks, ha] using ih
    · have hks' : keep s = false := by simpa using hks
      have hsk : s.2.1 = k := by
        apply Classical.byContradiction
        intro hne
        rw [hk s hne] at hks'; exact absurd hks' (by simp)
      by_cases ha : (decide (s.1 = d.dst)) = true
      · simp only [List.filter_cons, hks', ha, if_true, List.map_cons]
        simpa [hsk] using ih
      · simpa [List.filter_cons, hks', ha] using ih

theorem filter_tag (k q : Nat) (hq : q ≠ k) (l : List Out) : (tag q l).filter (fun o => o.1 ≠ k) = tag q l := by
  unfold tag
  rw [List.filter_eq_self]
  intro o ho
  obtain ⟨x, _, rfl⟩ := List.mem_map.1 ho
  simpa using hq

/-- FRAME OVER RESPONSES, datagrams: after a clean-up about connection `k`, whatever datagram (read, write, notify, reply,
    result, call; well-formed or not) another connection `q` sends, the outputs of the stack on every connection other
    than `k`'s — replies, results, the notifications an accepted write fans out, read requests — are exactly those it
    would have produced without the clean-up. -/
theorem serve_cmd_frame {k : Nat} {w w' : W} (hf : Frame k w w') (q : Nat) (hq : q ≠ k) (d : Dg) :
    (processCmd w' q d).2.filter (fun o => o.1 ≠ k) = (processCmd w q d).2.filter (fun o => o.1 ≠ k) := by
  rw [processCmd_snd, processCmd_snd]
  unfold outsCmd
  rw [srcF_frame hf hq]
  cases srcF w q d with
  | none => rfl
  | some rf =>
    have hd : dstF w' d = dstF w d := by unfold dstF; rw [hf.loc]
    rw [hd]
    cases dstF w d with
    | none => dsimp only; rw [hf.cfg.1]
    | some lf =>
      dsimp only
      rw [crashes_frame hf hq, applies_frame hf hq, responses_frame hf hq, wantsRead_frame hf hq, hf.peers q hq]
      split
      · rfl
      · simp only [List.filter_append]
        congr 2
        split
        · exact notifs_frame hf d
        · rfl

/-- the answer to a node-management call is written to the caller only -/
theorem processCall_snd (w : W) (p ctr : Nat) (ack : Bool) (c : Call) :
    (processCall w p ctr ack c).2 =
      if !connected w p then [] else
      if callOk w p c then (if ack then [(p, Out.result (some ctr) 0 nmAddr nmAddr (some 0))] else [])
      else [(p, Out.result (some ctr) 1 nmAddr nmAddr (some 0))] := by
  unfold processCall
  split
  · rfl
  · split <;> rfl

theorem connected_frame {k : Nat} {w w' : W} (hf : Frame k w w') (q : Nat) (hq : q ≠ k) : connected w' q = connected w q := by
  unfold connected remF; rw [hf.peers q hq]

/-- is the call one whose verdict looks at the entries of the CALLER only: subscription request, subscription delete,
    binding delete. (A binding request is refused while ANY peer holds a binding on the server feature — see
    `serve_bind_frame`.) -/
def Call.own : Call → Bool
  | .bind _ _ _ => false
  | _ => true

theorem callOk_frame {k : Nat} {w w' : W} (hf : Frame k w w') (q : Nat) (hq : q ≠ k) (c : Call) (hc : Call.own c = true) :
    callOk w' q c = callOk w q c := by
  obtain ⟨keepB, hkB, hB⟩ := hf.binds
  obtain ⟨keepS, hkS, hS⟩ := hf.subs
  have hl : ∀ a, locF w' a = locF w a := by intro a; unfold locF; rw [hf.loc]
  have hr : ∀ a, remF w' q a = remF w q a := by intro a; unfold remF; rw [hf.peers q hq]
  have own : ∀ (keep : Entry → Bool), (∀ b, b.2.1 ≠ k → keep b = true) → ∀ (l : List Entry) (s c : Addr),
      (l.filter keep).any (fun b => b.1 = s && b.2.1 = q && b.2.2 = c) = l.any (fun b => b.1 = s && b.2.1 = q && b.2.2 = c) := by
    intro keep hk l s c
    apply any_filter_keep
    intro b hb'
    apply hk
    simp only [Bool.and_eq_true, decide_eq_true_eq] at hb'
    rw [hb'.1.2]; exact hq
  cases c with
  | bind c s t => simp [Call.own] at hc
  | unbind c s => simp only [callOk, hl, hr, hasBinding, hB, own keepB hkB]
  | sub c s t => simp only [callOk, hl, hr, hS, own keepS hkS]
  | unsub c s => simp only [callOk, hl, hr, hS, own keepS hkS]

/-- FRAME OVER RESPONSES, registry calls: a subscription request, subscription delete or binding delete of another
    connection `q` is answered exactly as without the clean-up. -/
theorem serve_call_frame {k : Nat} {w w' : W} (hf : Frame k w w') (q : Nat) (hq : q ≠ k) (ctr : Nat) (ack : Bool) (c : Call)
    (hc : Call.own c = true) :
    (processCall w' q ctr ack c).2 = (processCall w q ctr ack c).2 := by
  rw [processCall_snd, processCall_snd, connected_frame hf q hq, callOk_frame hf q hq c hc]

/-- … and a BINDING request of `q` is answered as without the clean-up whenever the clean-up removed no binding on the
    requested server feature (if it did — the removed peer held the one binding the feature admits — the feature is free
    again, which is what "all of that device's bindings disappear" asks for: `bind_freed`). -/
theorem serve_bind_frame {k : Nat} {w w' : W} (hf : Frame k w w') (q : Nat) (hq : q ≠ k) (ctr : Nat) (ack : Bool) (c s : Addr) (t : Nat)
    (hs : ∀ b ∈ w.binds, b.1 = s → b.2.1 ≠ k) :
    (processCall w' q ctr ack (.bind c s t)).2 = (processCall w q ctr ack (.bind c s t)).2 := by
  obtain ⟨keepB, hkB, hB⟩ := hf.binds
  have hl : locF w' s = locF w s := by unfold locF; rw [hf.loc]
  have hr : remF w' q c = remF w q c := by unfold remF; rw [hf.peers q hq]
  have hok : callOk w' q (.bind c s t) = callOk w q (.bind c s t) := by
    simp only [callOk, hl, hr, hB]
    rw [any_filter_keep_mem]
    intro b hb hbs
    exact hkB b (hs b hb (of_decide_eq_true hbs))
  rw [processCall_snd, processCall_snd, connected_frame hf q hq, hok]

/-- where an output of `processCmd` goes: to the sender, or to a subscriber of the registry -/
theorem outs_dest (w : W) (p : Nat) (d : Dg) : ∀ o ∈ (processCmd w p d).2, o.1 = p ∨ ∃ s ∈ w.subs, s.2.1 = o.1 := by
  rw [processCmd_snd]
  unfold outsCmd
  have htag : ∀ (l : List Out), ∀ o ∈ tag p l, o.1 = p := by
    intro l o ho
    unfold tag at ho
    obtain ⟨x, _, rfl⟩ := List.mem_map.1 ho
    rfl
  cases srcF w p d with
  | none => intro o ho; simp at ho
  | some rf =>
    cases dstF w d with
    | none =>
      dsimp only
      intro o ho
      left
      split at ho
      · simp at ho
      · split at ho
        · simp at ho; rw [ho]
        · simp at ho; rw [ho]
    | some lf =>
      dsimp only
      intro o ho
      split at ho
      · left; simp at ho; rw [ho]
      · rw [List.mem_append, List.mem_append] at ho
        rcases ho with (ho | ho) | ho
        · split at ho
          · right
            unfold notifs notifsAt at ho
            obtain ⟨s, hs, rfl⟩ := List.mem_map.1 ho
            exact ⟨s, (List.mem_filter.1 hs).1, rfl⟩
          · simp at ho
        · left; exact htag _ o ho
        · left
          split at ho
          · simp at ho; rw [ho]
          · simp at ho

/-! ## the dispatch world a `TdK` state denotes -/

open Spine.TdK

/-- what the dispatch world needs and a teardown does not touch: the local features, their data, the features a
    connected device has announced per entity, the senders (message counter, unanswered requests) per connection, the
    member of the dispatch family -/
structure Ctx where
  loc : List LF
  featsOf : Nat → List Nat → List RF
  data : Addr → Nat → Nat := fun _ _ => 0
  snd : Nat → Nat × List (Nat × Addr × Nat) := fun _ => (0, [])
  cfg : Cfg := Cfg.clean

/-- a key-level registry entry as the dispatch model sees it: local server feature, connection, client feature -/
def entryOf (e : TdK.Entry) : Disp.Entry := ((e.sEnt, e.sFeat), e.cl.ski, (e.cl.ent, e.cFeat))

/-- the remote features of connection `q`: those of the entities its connected device currently has -/
def peerOf (x : Ctx) (s : St) (q : Nat) : Peer :=
  match forSki s q with
  | some c => ⟨c.ents.flatMap (x.featsOf q), (x.snd q).1, (x.snd q).2⟩
  | none => ⟨[], 0, []⟩

def world (x : Ctx) (s : St) : W :=
  { loc := x.loc, peers := peerOf x s, binds := s.binds.map entryOf, subs := s.subs.map entryOf, data := x.data, cfg := x.cfg }

theorem map_filter_entryOf (es : List TdK.Entry) (p : TdK.Entry → Bool) (keep : Disp.Entry → Bool)
    (h : ∀ e, keep (entryOf e) = p e) : (es.filter p).map entryOf = (es.map entryOf).filter keep := by
  rw [List.filter_map]
  congr 1
  apply TdK.filter_congr_mem
  intro e _
  exact (h e).symm

theorem frame_refl (k : Nat) (w : W) : Frame k w w :=
  ⟨rfl, rfl, ⟨rfl, rfl⟩, fun _ _ => rfl, ⟨fun _ => true, fun _ _ => rfl, (List.filter_eq_self.2 (fun _ _ => rfl)).symm⟩,
    ⟨fun _ => true, fun _ _ => rfl, (List.filter_eq_self.2 (fun _ _ => rfl)).symm⟩⟩

/-- RemoveRemoteDeviceConnection(k), every state of the invariant, every choice of comparisons that names peer and
    entity: on the dispatch world it is a clean-up about `k` only (also when `k` is not connected: nothing changes) -/
theorem world_drop_frame (x : Ctx) (F : Facts) (hF : F.ok = true) (s : St) (hs : Inv s) (k : Nat) :
    Frame k (world x s) (world x (drop F s k).1) := by
  cases hk : forSki s k with
  | none =>
    have : (drop F s k).1 = s := by unfold drop; rw [hk]
    rw [this]; exact frame_refl k _
  | some c =>
    have ex := drop_exact F hF s hs k c hk
    refine ⟨rfl, rfl, ⟨rfl, rfl⟩, ?_, ⟨fun b => b.2.1 != k, ?_, ?_⟩, ⟨fun b => b.2.1 != k, ?_, ?_⟩⟩
    · intro q hq
      simp only [world, peerOf]
      rw [forSki_drop_other F s k q hq]
    · intro b hb; simpa using hb
    · simp only [world]; rw [ex.2.1]; exact map_filter_entryOf _ _ _ (fun _ => rfl)
    · intro b hb; simpa using hb
    · simp only [world]; rw [ex.1]; exact map_filter_entryOf _ _ _ (fun _ => rfl)

theorem forSki_dropEntity_other (F : Facts) (s : St) (k q : Nat) (ent : List Nat) (hq : q ≠ k) :
    forSki (dropEntity F s k ent).1 q = forSki s q := by
  unfold dropEntity
  cases hk : forSki s k with
  | none => rfl
  | some c =>
    dsimp only
    split
    · rfl
    · simp only [forSki, List.find?_map]
      have hp : ((fun x : Conn => x.ski == q) ∘ dropConnEnt k ent) = (fun x => x.ski == q) := by
        funext x; simp [Function.comp, dropConnEnt_ski]
      rw [hp]
      cases hfq : s.conns.find? (fun x => x.ski == q) with
      | none => rfl
      | some c' =>
        have hc' : c'.ski = q := by simpa using List.find?_some hfq
        simp [dropConnEnt, hc', hq]

/-- the removal of entity `ent` of connection `k` (any `ent`: also [0], unknown entities, unknown connections — then
    nothing changes): on the dispatch world a clean-up about `k` only -/
theorem world_dropEntity_frame (x : Ctx) (F : Facts) (hF : F.ok = true) (s : St) (hs : Inv s) (k : Nat) (ent : List Nat) :
    Frame k (world x s) (world x (dropEntity F s k ent).1) := by
  have hpeers : ∀ q, q ≠ k → (world x (dropEntity F s k ent).1).peers q = (world x s).peers q := by
    intro q hq
    simp only [world, peerOf]
    rw [forSki_dropEntity_other F s k q ent hq]
  cases hk : forSki s k with
  | none =>
    have : (dropEntity F s k ent).1 = s := by unfold dropEntity; rw [hk]
    rw [this]; exact frame_refl k _
  | some c =>
    by_cases hcond : (ent == [0] || !c.ents.contains ent) = true
    · have : (dropEntity F s k ent).1 = s := by unfold dropEntity; simp only [hk, hcond, if_true]
      rw [this]; exact frame_refl k _
    · have hcond' : (ent == [0] || !c.ents.contains ent) = false := by simpa using hcond
      simp only [Bool.or_eq_false_iff, Bool.not_eq_false'] at hcond'
      have h0 : ent ≠ [0] := by simpa using hcond'.1
      have ex := dropEntity_exact F hF s hs k c hk ent h0 hcond'.2
      refine ⟨rfl, rfl, ⟨rfl, rfl⟩, hpeers, ⟨fun b => !(b.2.1 == k && b.2.2.1 == ent), ?_, ?_⟩,
        ⟨fun b => !(b.2.1 == k && b.2.2.1 == ent), ?_, ?_⟩⟩
      · intro b hb; simp [hb]
      · simp only [world]; rw [ex.2.1]; exact map_filter_entryOf _ _ _ (fun _ => rfl)
      · intro b hb; simp [hb]
      · simp only [world]; rw [ex.1]; exact map_filter_entryOf _ _ _ (fun _ => rfl)

/-- after the teardown of connection `k` no registry entry of the dispatch world names `k` -/
theorem world_drop_no_subs (x : Ctx) (F : Facts) (hF : F.ok = true) (s : St) (hs : Inv s) (k : Nat) (c : Conn)
    (hk : forSki s k = some c) : ∀ b ∈ (world x (drop F s k).1).subs, b.2.1 ≠ k := by
  have ex := drop_exact F hF s hs k c hk
  intro b hb
  simp only [world] at hb
  rw [ex.1] at hb
  obtain ⟨e, he, rfl⟩ := List.mem_map.1 hb
  have := (List.mem_filter.1 he).2
  simpa [entryOf] using this

/-! ## the composed step: what the driver runs -/

/-- an inbound datagram of connection `q` in the world of `s`: the context afterwards (data of the local features, the
    senders) and the outputs. The registries are not changed by a datagram to a feature (`Disp.processCmd`). -/
def serveCmd (x : Ctx) (s : St) (q : Nat) (d : Dg) : Ctx × List (Nat × Out) :=
  let r := processCmd (world x s) q d
  ({ x with data := r.1.data, snd := fun p => ((r.1.peers p).msgNum, (r.1.peers p).req) }, r.2)

/-- the verdict and the outputs of a node-management call of connection `q` -/
def serveCall (x : Ctx) (s : St) (q ctr : Nat) (ack : Bool) (c : Call) : Bool × List (Nat × Out) :=
  (connected (world x s) q && callOk (world x s) q c, (processCall (world x s) q ctr ack c).2)

end Spine.TdS
