import Spine.CmdJsonThm
import Spine.CmdNat
/-!
# From the decidable skeleton of a command built from tokens to every choice of values

`Spine.Cmd.build` never inspects the values (naturality, `Spine/CmdNat.lean`): the command built from
values `a` is the command built from the tokens `Spine.Cmd.tok`, with every token replaced by its value.
Its SKELETON (which fields are set, by which token, in which order; which function; which filters) is
decided by the kernel for every function and shape (`cmdSkel`), everything about the values is generic.
-/
namespace Spine.CmdJson
open Spine.Json Spine.Generated Spine.Cmd

/-- the value of a token as the receiver sees it -/
def normTok (env : Nat → Key) (g : Nat → V) (n : Nat) : V := norm (tyOf (env n)) (g n)

theorem mapSet_fst (g : Nat → V) (nset : List (Nat × Nat)) : (mapSet g nset).map (·.1) = nset.map (·.1) := by
  induction nset with
  | nil => rfl
  | cons p rest ih => simp only [mapSet_cons, List.map_cons, ih]

theorem setSub_of_skel (slots : List Slot) (env : Nat → Key) (g : Nat → V) (nset : List (Nat × Nat))
    (h : setSkel slots env nset = true) : SetSub slots (mapSet g nset) := by
  simp only [setSkel, Bool.and_eq_true] at h
  unfold SetSub
  rw [mapSet_fst]; exact h.1

theorem tokTyped_of_skel (slots : List Slot) (env : Nat → Key) (nset : List (Nat × Nat))
    (h : setSkel slots env nset = true) : ∀ p ∈ nset, ∃ s, slotAt slots p.1 = some s ∧ s.tyKey = env p.2 := by
  simp only [setSkel, Bool.and_eq_true, List.all_eq_true] at h
  intro p hp
  have := h.2 p hp
  unfold tokTyped at this
  cases hs : slotAt slots p.1 with
  | none => simp [hs] at this
  | some s => exact ⟨s, rfl, by simpa [hs] using this⟩

theorem setTyped_of_skel (slots : List Slot) (env : Nat → Key) (g : Nat → V) (nset : List (Nat × Nat))
    (h : setSkel slots env nset = true) (hg : ∀ n, typed (tyOf (env n)) (g n) = true) :
    SetTyped slots (mapSet g nset) := by
  intro q hq s hs
  simp only [mapSet, List.mem_map] at hq
  obtain ⟨p, hp, rfl⟩ := hq
  obtain ⟨s', hs', hty⟩ := tokTyped_of_skel slots env nset h p hp
  simp only at hs
  rw [hs'] at hs
  cases hs
  rw [hty]; exact hg p.2

theorem normSet_of_skel (slots : List Slot) (env : Nat → Key) (g : Nat → V) (nset : List (Nat × Nat))
    (h : setSkel slots env nset = true) :
    (mapSet g nset).map (normAt slots) = mapSet (normTok env g) nset := by
  simp only [mapSet, List.map_map]
  apply List.map_congr_left
  intro p hp
  obtain ⟨s', hs', hty⟩ := tokTyped_of_skel slots env nset h p hp
  simp only [Function.comp, normAt, hs', hty, normTok]

theorem filterSkel_parts (env : Nat → Key) (f : Filter Nat) (h : filterSkel env f = true) :
    f.ctl = true ∧ setSkel filterSlots env f.set = true := by
  simpa [filterSkel] using h

theorem cmdSkel_parts (env : Nat → Key) (c : Cmd Nat) (h : cmdSkel env c = true) :
    setSkel cmdSlots env c.data = true ∧ (∀ f ∈ c.filter, filterSkel env f = true) ∧ fnKeyOk c.function = true := by
  simp only [cmdSkel, Bool.and_eq_true, List.all_eq_true] at h
  exact ⟨h.1.1, h.1.2, h.2⟩

theorem shape_of_skel (env : Nat → Key) (g : Nat → V) (ct : Cmd Nat) (h : cmdSkel env ct = true) :
    CmdShape (Cmd.map g ct) := by
  obtain ⟨h1, h2, h3⟩ := cmdSkel_parts env ct h
  refine ⟨setSub_of_skel _ env g _ h1, ?_, h3⟩
  intro f hf
  simp only [Cmd.map, List.mem_map] at hf
  obtain ⟨f0, hf0, rfl⟩ := hf
  obtain ⟨hc, hs⟩ := filterSkel_parts env f0 (h2 f0 hf0)
  exact ⟨hc, setSub_of_skel _ env g _ hs⟩

theorem typed_of_skel (env : Nat → Key) (g : Nat → V) (ct : Cmd Nat) (h : cmdSkel env ct = true)
    (hg : ∀ n, typed (tyOf (env n)) (g n) = true) : CmdTyped (Cmd.map g ct) := by
  obtain ⟨h1, h2, _⟩ := cmdSkel_parts env ct h
  refine ⟨setTyped_of_skel _ env g _ h1 hg, ?_⟩
  intro f hf
  simp only [Cmd.map, List.mem_map] at hf
  obtain ⟨f0, hf0, rfl⟩ := hf
  exact setTyped_of_skel _ env g _ (filterSkel_parts env f0 (h2 f0 hf0)).2 hg

theorem normCmd_map (env : Nat → Key) (g : Nat → V) (ct : Cmd Nat) (h : cmdSkel env ct = true) :
    normCmd (Cmd.map g ct) = Cmd.map (normTok env g) ct := by
  obtain ⟨h1, h2, _⟩ := cmdSkel_parts env ct h
  simp only [normCmd, Cmd.map, List.map_map]
  congr 1
  · apply List.map_congr_left
    intro f hf
    simp only [Function.comp, normFilter, Filter.map]
    rw [normSet_of_skel _ env g _ (filterSkel_parts env f (h2 f hf)).2]
  · exact normSet_of_skel _ env g _ h1

theorem argsTyped_get (fn : FnRow) (a : Args V) (h : argsTyped fn a = true) :
    ∀ n, typed (tyOf (tokTy fn n)) (a.get n) = true := by
  simp only [argsTyped, Bool.and_eq_true] at h
  obtain ⟨⟨⟨⟨h0, h1⟩, h2⟩, h3⟩, h4⟩ := h
  intro n
  match n with
  | 0 => exact h0
  | 1 => exact h1
  | 2 => exact h2
  | 3 => exact h3
  | _ + 4 => exact h4

/-- What the kernel decides about the command built from the tokens — it is built, its skeleton is
    well formed against the tables, it is recognised as what the property demands — gives the END-TO-END
    statement for every choice of values of the right types: built, turned into a Go value of the
    schema's `CmdType`, encoded to JSON, decoded, read back and recognised, the command is the same
    function, payload type and filters, and every value is the normal form of the value put in. -/
theorem e2e_of_tok (hok : tablesOk = true) (hwf : wf tCmdSchema = true) (cfg : Cfg) (fn : FnRow) (sh : Shape)
    (ct : Cmd Nat) (hb : build cfg fn sh tok = .ok ct) (hsk : cmdSkel (tokTy fn) ct = true)
    (hrec : recognise ct = .ok (some (expected fn sh tok)))
    (a : Args V) (ha : argsTyped fn a = true) :
    e2e cfg fn sh a = .ok (some (expected fn sh (normArgs fn a))) := by
  have hbuild : build cfg fn sh a = .ok (Cmd.map a.get ct) := by
    have := build_map a.get cfg fn sh tok
    rw [Args.map_get_tok, hb] at this
    exact this.symm
  unfold e2e
  rw [hbuild]
  simp only
  rw [wire_eq hok hwf _ (shape_of_skel _ a.get ct hsk) (typed_of_skel _ a.get ct hsk (argsTyped_get fn a ha))]
  simp only
  rw [normCmd_map _ a.get ct hsk, recognise_map, hrec]
  simp only [exMap, Option.map_some]
  rw [← expected_map]
  rfl

end Spine.CmdJson
