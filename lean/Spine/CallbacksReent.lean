/-! C14, WHERE the callbacks run (round 5): the re-entrancy clause.

    A registered callback may call back into the feature it was registered on — the request chain: the callback of
    request 1 registers the callback of follow-up request 2 (`AddResponseCallback`), adds a result callback, … — and
    every such call takes the registry mutex (`muxResponseCB`), which is NOT re-entrant. `Spine.CB` says WHICH
    callbacks a delivery invokes; this model says where they run, as threads over one mutex:

    * `outsideLock` (the code as written: `go cb(msg)` inside the critical section — the new goroutine holds
      nothing; a direct call after the Unlock is the same as far as the mutex is concerned),
    * `inlineUnderLock` (the callback is called on the delivering goroutine before the Unlock).

    Which one the tree under test is, is a regenerated fact (`Spine.Generated.Callbacks.invocationsAsyncOrUnlocked`,
    generator `callbacks`); `Spine.Props.C14Gen` instantiates the theorems with it.

    Theorems: over every reachable state of every schedule — any number of callbacks per counter, each re-entering the
    feature any number of times, any number of goroutines registering concurrently — `outsideLock` never gets stuck
    (`progress`) and every step consumes potential (`step_decreases`): every maximal schedule ends with the delivery
    returned and every callback run to completion. `inlineUnderLock` with one re-entering callback is stuck for ever
    (`inline_under_lock_stuck`). -/
namespace Spine.CBR

/-- what a callback does, step by step -/
inductive CAct
  | reenter      -- calls back into the feature: Lock, …, Unlock of the registry mutex
  | work         -- anything else
deriving DecidableEq, Repr

inductive Act
  | acq | rel | work
  | spawn (i : Nat)      -- `go cb(msg)` for the i-th waiting callback
deriving DecidableEq, Repr

def compile : List CAct → List Act
  | [] => []
  | .reenter :: p => .acq :: .rel :: compile p
  | .work :: p => .work :: compile p

/-- a thread: does it hold the mutex, what is left to do -/
abbrev Thr := Bool × List Act

/-- one step of one thread (`pre`, `post`: the other threads); `body i` = what the i-th callback does -/
inductive Step (body : Nat → List CAct) : List Thr → List Thr → Prop
  | acq (pre post : List Thr) (p : List Act) (free : ∀ th ∈ pre ++ post, th.1 = false) :
      Step body (pre ++ (false, .acq :: p) :: post) (pre ++ (true, p) :: post)
  | rel (pre post : List Thr) (f : Bool) (p : List Act) :
      Step body (pre ++ (f, .rel :: p) :: post) (pre ++ (false, p) :: post)
  | work (pre post : List Thr) (f : Bool) (p : List Act) :
      Step body (pre ++ (f, .work :: p) :: post) (pre ++ (f, p) :: post)
  | spawn (pre post : List Thr) (f : Bool) (i : Nat) (p : List Act) :
      Step body (pre ++ (f, .spawn i :: p) :: post) (pre ++ (f, p) :: post ++ [(false, compile (body i))])

/-- lock discipline of a program: `ok held p` = started with the mutex held / not held, p never locks twice, never
    unlocks what it does not hold, and ends without the mutex -/
def ok : Bool → List Act → Bool
  | held, [] => !held
  | false, .acq :: p => ok true p
  | true, .acq :: _ => false
  | true, .rel :: p => ok false p
  | false, .rel :: _ => false
  | h, .work :: p => ok h p
  | h, .spawn _ :: p => ok h p

def AllOk (ts : List Thr) : Prop := ∀ th ∈ ts, ok th.1 th.2 = true

theorem ok_compile : ∀ b : List CAct, ok false (compile b) = true
  | [] => rfl
  | .reenter :: p => by simp [compile, ok, ok_compile p]
  | .work :: p => by simp [compile, ok, ok_compile p]

theorem step_allOk {body ts ts'} (h : Step body ts ts') (inv : AllOk ts) : AllOk ts' := by
  cases h with
  | acq pre post p free =>
    intro th hth
    simp only [List.mem_append, List.mem_cons] at hth
    rcases hth with hth | rfl | hth
    · exact inv th (by simp [hth])
    · have := inv (false, .acq :: p) (by simp)
      simpa [ok] using this
    · exact inv th (by simp [hth])
  | rel pre post f p =>
    intro th hth
    simp only [List.mem_append, List.mem_cons] at hth
    rcases hth with hth | rfl | hth
    · exact inv th (by simp [hth])
    · have := inv (f, .rel :: p) (by simp)
      cases f <;> simp [ok] at this ⊢
      exact this
    · exact inv th (by simp [hth])
  | work pre post f p =>
    intro th hth
    simp only [List.mem_append, List.mem_cons] at hth
    rcases hth with hth | rfl | hth
    · exact inv th (by simp [hth])
    · have := inv (f, .work :: p) (by simp)
      cases f <;> simpa [ok] using this
    · exact inv th (by simp [hth])
  | spawn pre post f i p =>
    intro th hth
    simp only [List.mem_append, List.mem_cons, List.not_mem_nil, or_false] at hth
    rcases hth with (hth | rfl | hth) | rfl
    · exact inv th (by simp [hth])
    · have := inv (f, .spawn i :: p) (by simp)
      cases f <;> simpa [ok] using this
    · exact inv th (by simp [hth])
    · exact ok_compile _

/-- PROGRESS: a state in which the lock discipline holds and some thread is not finished can take a step — no
    schedule of callbacks that run outside the lock ever blocks the delivery, a callback or a registration -/
theorem progress (body : Nat → List CAct) (ts : List Thr) (inv : AllOk ts) (hne : ∃ th ∈ ts, th.2 ≠ []) :
    ∃ ts', Step body ts ts' := by
  by_cases hh : ∃ th ∈ ts, th.1 = true
  · -- the holder can always move: its next action is not a Lock
    obtain ⟨⟨f, p⟩, hmem, hf⟩ := hh
    simp only at hf; subst hf
    obtain ⟨pre, post, rfl⟩ := List.append_of_mem hmem
    have hok := inv (true, p) (by simp)
    match p, hok with
    | [], hok => simp [ok] at hok
    | .acq :: p, hok => simp [ok] at hok
    | .rel :: p, _ => exact ⟨_, Step.rel pre post true p⟩
    | .work :: p, _ => exact ⟨_, Step.work pre post true p⟩
    | .spawn i :: p, _ => exact ⟨_, Step.spawn pre post true i p⟩
  · -- nobody holds the mutex: every unfinished thread can move
    have free : ∀ th ∈ ts, th.1 = false := by
      intro th hth
      cases hb : th.1 with
      | false => rfl
      | true => exact absurd ⟨th, hth, hb⟩ hh
    obtain ⟨⟨f, p⟩, hmem, hp⟩ := hne
    have hf : f = false := free (f, p) hmem
    subst hf
    obtain ⟨pre, post, rfl⟩ := List.append_of_mem hmem
    have hok := inv (false, p) (by simp)
    match p, hp, hok with
    | [], hp, _ => exact absurd rfl hp
    | .acq :: p, _, _ =>
      refine ⟨_, Step.acq pre post p ?_⟩
      intro th hth
      exact free th (by
        simp only [List.mem_append, List.mem_cons] at hth ⊢
        rcases hth with h | h
        · exact Or.inl h
        · exact Or.inr (Or.inr h))
    | .rel :: p, _, hok => simp [ok] at hok
    | .work :: p, _, _ => exact ⟨_, Step.work pre post false p⟩
    | .spawn i :: p, _, _ => exact ⟨_, Step.spawn pre post false i p⟩

/-- potential: what is left to do, a `go` counting for the callback it starts -/
def wtAct (body : Nat → List CAct) : Act → Nat
  | .spawn i => 1 + (compile (body i)).length
  | _ => 1

def wtProg (body : Nat → List CAct) (p : List Act) : Nat := (p.map (wtAct body)).sum
def wt (body : Nat → List CAct) (ts : List Thr) : Nat := (ts.map fun th => wtProg body th.2).sum

theorem wtProg_compile (body : Nat → List CAct) : ∀ b : List CAct, wtProg body (compile b) = (compile b).length
  | [] => rfl
  | .reenter :: p => by
    have := wtProg_compile body p
    simp only [wtProg] at this
    simp [compile, wtProg, wtAct, this]; omega
  | .work :: p => by
    have := wtProg_compile body p
    simp only [wtProg] at this
    simp [compile, wtProg, wtAct, this]; omega

/-- TERMINATION: every step consumes potential — a schedule has at most `wt` steps -/
theorem step_decreases {body ts ts'} (h : Step body ts ts') : wt body ts' < wt body ts := by
  cases h with
  | acq pre post p free => simp [wt, wtProg, wtAct]
  | rel pre post f p => simp [wt, wtProg, wtAct]
  | work pre post f p => simp [wt, wtProg, wtAct]
  | spawn pre post f i p =>
    have := wtProg_compile body (body i)
    simp only [wtProg] at this
    simp [wt, wtProg, wtAct, this]; omega

/-- nothing left to do ⇔ potential 0 is implied: potential 0 means every thread is finished -/
theorem done_of_wt_zero (body : Nat → List CAct) : ∀ ts : List Thr, wt body ts = 0 → ∀ th ∈ ts, th.2 = []
  | [], _, th, hth => by cases hth
  | (f, p) :: ts, h, th, hth => by
    simp only [wt, List.map_cons, List.sum_cons] at h
    have h1 : wtProg body p = 0 := by omega
    have h2 : wt body ts = 0 := by simp only [wt]; omega
    rcases List.mem_cons.mp hth with rfl | hth
    · match p, h1 with
      | [], _ => rfl
      | a :: p, h1 =>
        simp only [wtProg, List.map_cons, List.sum_cons] at h1
        cases a <;> simp [wtAct] at h1 <;> omega
    · exact done_of_wt_zero body ts h2 th hth

/-- reachable by any schedule -/
inductive Reach (body : Nat → List CAct) (ts0 : List Thr) : List Thr → Prop
  | refl : Reach body ts0 ts0
  | step {ts ts'} : Reach body ts0 ts → Step body ts ts' → Reach body ts0 ts'

theorem reach_allOk {body ts0 ts} (h : Reach body ts0 ts) (inv : AllOk ts0) : AllOk ts := by
  induction h with
  | refl => exact inv
  | step _ hs ih => exact step_allOk hs ih

theorem reach_wt_le {body ts0 ts} (h : Reach body ts0 ts) : wt body ts ≤ wt body ts0 := by
  induction h with
  | refl => exact Nat.le_refl _
  | step _ hs ih => exact Nat.le_trans (Nat.le_of_lt (step_decreases hs)) ih

/-- where the delivery invokes the callbacks -/
inductive Mode
  | outsideLock | inlineUnderLock
deriving DecidableEq, Repr

/-- the delivery section for n waiting callbacks with the given bodies -/
def deliver (body : Nat → List CAct) : Mode → Nat → List Act
  | .outsideLock, n => .acq :: ((List.range n).map .spawn ++ [.rel])
  | .inlineUnderLock, n => .acq :: (((List.range n).map fun i => compile (body i)).flatten ++ [.rel])

/-- the delivery, `regs` goroutines registering concurrently (each: Lock, check + insert, Unlock) and `others`
    deliveries of other counters with their own callbacks run outside the lock -/
def init (body : Nat → List CAct) (m : Mode) (n regs : Nat) : List Thr :=
  (false, deliver body m n) :: List.replicate regs (false, [.acq, .rel])

theorem ok_spawns (l : List Nat) : ok true (l.map Act.spawn ++ [.rel]) = true := by
  induction l with
  | nil => rfl
  | cons a l ih => simpa [ok] using ih

theorem init_allOk (body : Nat → List CAct) (n regs : Nat) : AllOk (init body .outsideLock n regs) := by
  intro th hth
  simp only [init, List.mem_cons, List.mem_replicate] at hth
  rcases hth with rfl | ⟨_, rfl⟩
  · simpa [deliver, ok] using ok_spawns (List.range n)
  · rfl

/-- THE CLAUSE, callbacks outside the lock: whatever the callbacks do (re-enter the feature any number of times),
    however many wait for the counter, however many goroutines register at the same time, on every schedule: as long
    as anything is left to do a step is possible, and at most `wt` steps are — the delivery returns, every callback
    runs to completion, every registration returns -/
theorem outside_lock_never_blocks (body : Nat → List CAct) (n regs : Nat) (ts : List Thr)
    (h : Reach body (init body .outsideLock n regs) ts) :
    ((∀ th ∈ ts, th.2 = []) ∨ ∃ ts', Step body ts ts') ∧ wt body ts ≤ wt body (init body .outsideLock n regs) := by
  refine ⟨?_, reach_wt_le h⟩
  have inv := reach_allOk h (init_allOk body n regs)
  by_cases hd : ∀ th ∈ ts, th.2 = []
  · exact Or.inl hd
  · refine Or.inr (progress body ts inv ?_)
    apply Classical.byContradiction
    intro hn
    apply hd
    intro th hth
    apply Classical.byContradiction
    intro hne
    exact hn ⟨th, hth, hne⟩

/-- a state from which no thread can ever move -/
def Stuck (body : Nat → List CAct) (ts : List Thr) : Prop := (∃ th ∈ ts, th.2 ≠ []) ∧ ∀ ts', ¬ Step body ts ts'

/-- REFUTED for a callback invoked on the delivering goroutine before the Unlock: ONE waiting callback that calls
    back into the feature once (registers its follow-up callback) — after the delivery's Lock nothing can move any
    more: the delivery waits for the mutex it holds, the concurrent registration waits for the delivery -/
theorem inline_under_lock_stuck :
    let body : Nat → List CAct := fun _ => [.reenter]
    ∃ ts, Reach body (init body .inlineUnderLock 1 1) ts ∧ Stuck body ts := by
  intro body
  refine ⟨[(true, [.acq, .rel, .rel]), (false, [.acq, .rel])], ?_, ⟨⟨_, List.mem_cons_self, by simp⟩, ?_⟩⟩
  · have h := Step.acq (body := body) [] [(false, [.acq, .rel])] [.acq, .rel, .rel] (by simp)
    exact Reach.step Reach.refl h
  · intro ts' hs
    generalize hts : [((true : Bool), [Act.acq, .rel, .rel]), (false, [Act.acq, .rel])] = ts at hs
    cases hs with
    | acq pre post p free =>
      match pre, hts with
      | [], hts => simp at hts
      | [_], hts =>
        simp only [List.cons_append, List.nil_append, List.cons.injEq] at hts
        obtain ⟨rfl, _, _⟩ := hts
        have := free (true, [.acq, .rel, .rel]) (by simp)
        simp at this
      | _ :: _ :: pre, hts => simp at hts
    | rel pre post f p =>
      match pre, hts with
      | [], hts => simp at hts
      | [_], hts => simp at hts
      | _ :: _ :: pre, hts => simp at hts
    | work pre post f p =>
      match pre, hts with
      | [], hts => simp at hts
      | [_], hts => simp at hts
      | _ :: _ :: pre, hts => simp at hts
    | spawn pre post f i p =>
      match pre, hts with
      | [], hts => simp at hts
      | [_], hts => simp at hts
      | _ :: _ :: pre, hts => simp at hts

end Spine.CBR
