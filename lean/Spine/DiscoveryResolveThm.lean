import Spine.DiscoveryResolve
/-! C06, lemmas over `Spine/DiscoveryResolve.lean` (not imported by the driver):
    * the device parts of the addresses carry nothing but the announced device address (`DevInv`, `devInv_history`);
    * the entity events of the repaired tree for full notifications and replies (`guard_full_events`,
      `guard_reply_events`), for one message of any kind (`guard_events_step`) and after any history
      (`guard_events_history`). -/
namespace Spine.Disc

/-! ### the device parts: nothing but the announced device address -/

/-- every device part is absent or `dv`; every listed entity other than [0], and its features, carry `dv` -/
def DevInv (dv : Nat) (t : Tree) (d : Dev) : Prop :=
  (d.addr = none ∨ d.addr = some dv) ∧
  (∀ a, d.ent a = none ∨ d.ent a = some dv) ∧ (∀ a, d.feat a = none ∨ d.feat a = some dv) ∧
  (∀ a ∈ addrs t, a ≠ [0] → d.ent a = some dv ∧ d.feat a = some dv)

theorem refreshSkipped_addr (c : Cfg) (feats : List F) (t : Tree) (ei : EI) (h : refreshSkipped c feats t ei = true) :
    ei.addr = [0] := by
  simp only [refreshSkipped, Bool.and_eq_true, decide_eq_true_eq] at h
  exact h.1.1.2

theorem devFill_announced (dv : Nat) (cur : Option Nat) (h : cur = none ∨ cur = some dv) : devFill cur (some dv) = some dv := by
  cases h with
  | inl h => rw [h]; rfl
  | inr h => rw [h]; rfl

theorem mem_addrs_addOneG (c : Cfg) (feats : List F) (acc : Tree × List Evt) (ei : EI) (a : List Nat)
    (h : a ∈ addrs (addOneG c feats acc ei).1) : a ∈ addrs acc.1 ∨ a = ei.addr := by
  unfold addOneG at h
  split at h
  · exact Or.inl h
  · exact (mem_addOne _ acc ei a).mp h

theorem mem_addrs_remOneG (c : Cfg) (acc : Tree × List Evt) (ei : EI) (a : List Nat)
    (h : a ∈ addrs (remOneG c acc ei).1) : a ∈ addrs acc.1 := by
  unfold remOneG at h
  split at h
  · exact h
  · exact ((mem_remOne acc ei a).mp h).1

theorem devInv_add (dv : Nat) (c : Cfg) (feats : List F) (acc : Tree × List Evt) (d : Dev) (ei : EI)
    (h : DevInv dv acc.1 d) : DevInv dv (addOneG c feats acc ei).1 (devAdd c feats (some dv) acc.1 d ei) := by
  obtain ⟨h1, h2, h3, h4⟩ := h
  have hcur : (if (findE acc.1 ei.addr).isSome then d.ent ei.addr else d.addr) = none ∨
      (if (findE acc.1 ei.addr).isSome then d.ent ei.addr else d.addr) = some dv := by
    split
    · exact h2 _
    · exact h1
  have hfill := devFill_announced dv _ hcur
  refine ⟨h1, fun a => ?_, fun a => ?_, fun a ha hne => ?_⟩
  · simp only [devAdd, Dev.set]
    split
    · exact Or.inr hfill
    · exact h2 a
  · simp only [devAdd, Dev.set]
    split
    · split
      · exact h3 _
      · exact Or.inr hfill
    · exact h3 a
  · simp only [devAdd, Dev.set]
    by_cases hae : a = ei.addr
    · simp only [hae, if_true]
      refine ⟨hfill, ?_⟩
      split
      · rename_i hs
        exact absurd (hae.trans (refreshSkipped_addr c feats acc.1 ei hs)) hne
      · exact hfill
    · simp only [hae, if_false]
      cases mem_addrs_addOneG c feats acc ei a ha with
      | inl hm => exact h4 a hm hne
      | inr he => exact absurd he hae

theorem devInv_entry (dv : Nat) (c : Cfg) (feats : List F) (acc acc' : Tree × List Evt) (e : EW) (d : Dev)
    (he : entryG c feats acc e = some acc') (h : DevInv dv acc.1 d) :
    DevInv dv acc'.1 (devEntry c feats (some dv) acc d e) := by
  unfold entryG at he
  unfold devEntry
  cases hc : e.chg with
  | none => simp [hc] at he
  | added =>
    simp only [hc] at he ⊢
    split at he
    · exact absurd he (by simp)
    · injection he with he; rw [← he]; exact devInv_add dv c feats acc d _ h
  | removed =>
    simp only [hc] at he ⊢
    split at he
    · exact absurd he (by simp)
    · injection he with he
      rw [← he]
      exact ⟨h.1, h.2.1, h.2.2.1, fun a ha hne => h.2.2.2 a (mem_addrs_remOneG c acc _ a ha) hne⟩

theorem devInv_replyEntry (dv : Nat) (c : Cfg) (feats : List F) (acc acc' : Tree × List Evt) (e : EW) (d : Dev)
    (he : replyEntryG c feats acc e = some acc') (h : DevInv dv acc.1 d) :
    DevInv dv acc'.1 (devReplyEntry c feats (some dv) acc d e) := by
  unfold replyEntryG at he
  unfold devReplyEntry
  split at he
  · exact absurd he (by simp)
  · injection he with he; rw [← he]; exact devInv_add dv c feats acc d _ h

theorem devInv_run (dv : Nat) (body : Tree × List Evt → EW → Option (Tree × List Evt))
    (df : Tree × List Evt → Dev → EW → Dev)
    (hs : ∀ acc acc' e d, body acc e = some acc' → DevInv dv acc.1 d → DevInv dv acc'.1 (df acc d e)) :
    ∀ (l : List EW) (acc : Tree × List Evt) (d : Dev), DevInv dv acc.1 d →
      DevInv dv (runG body l acc).1.1 (devRun body df l acc d)
  | [], _, _, h => h
  | e :: l, acc, d, h => by
    unfold runG devRun
    cases hbe : body acc e with
    | none => exact h
    | some acc' => exact devInv_run dv body df hs l acc' _ (hs acc acc' e d hbe h)

theorem devInv_source (dv : Nat) (b : Bool) (t : Tree) (d : Dev) (h : DevInv dv t d) : DevInv dv t (devSource b d) := by
  unfold devSource
  split
  · refine ⟨h.1, h.2.1, fun a => ?_, fun a ha hne => ?_⟩
    · simp only
      split
      · exact h.1
      · exact h.2.2.1 a
    · simp only [hne, if_false]
      exact h.2.2.2 a ha hne
  · exact h

theorem devInv_update (dv : Nat) (t : Tree) (d : Dev) (h : DevInv dv t d) :
    DevInv dv t { devUpdate d (some dv) with fresh0 := false } :=
  ⟨Or.inr rfl, h.2.1, h.2.2.1, h.2.2.2⟩

/-- one message of the repaired tree, of any kind and shape, that announces the device address `dv` -/
theorem devInv_step (dv : Nat) (k : Kind) (m : MsgG) (t : Tree) (d : Dev) (h : DevInv dv t d) :
    DevInv dv (treeStepG Cfg.clean k m t).1 (devStepG Cfg.clean k (some dv) m t d) := by
  unfold treeStepG devStepG
  simp only [Cfg.clean, Bool.false_eq_true, if_false]
  cases k with
  | reply =>
    simp only [replyG]
    exact devInv_source dv _ _ _ (devInv_run dv _ _ (fun acc acc' e d => devInv_replyEntry dv _ m.feats acc acc' e d)
      m.ents (t, []) _ (devInv_update dv t d h))
  | part =>
    simp only [notifyG]
    split
    · rename_i he
      have : m.ents = [] := by simpa using he
      rw [this]
      exact h
    · exact devInv_run dv _ _ (fun acc acc' e d => devInv_entry dv _ m.feats acc acc' e d) m.ents (t, []) d h
  | full =>
    simp only [notifyFullG, notifyG]
    split
    · rename_i he
      have : (fullDiffG m t).ents = [] := by simpa using he
      rw [this]
      exact h
    · exact devInv_run dv _ _ (fun acc acc' e d => devInv_entry dv _ (fullDiffG m t).feats acc acc' e d)
        (fullDiffG m t).ents (t, []) d h

/-- the device parts along a history in which every message announces the device address `dv` -/
def devRunG (c : Cfg) (dv : Nat) : List AnnG → Tree → Dev → Dev
  | [], _, d => d
  | x :: h, t, d => devRunG c dv h (treeStepG c x.kind x.msg t).1 (devStepG c x.kind (some dv) x.msg t d)

theorem devInv_history (dv : Nat) : ∀ (h : List AnnG) (t : Tree) (d : Dev), DevInv dv t d →
    DevInv dv (treeRunG Cfg.clean t h) (devRunG Cfg.clean dv h t d)
  | [], _, _, hi => hi
  | x :: h, t, d, hi => by
    unfold treeRunG devRunG
    rw [List.foldl_cons]
    exact devInv_history dv h _ _ (devInv_step dv x.kind x.msg t d hi)


/-! ### events of the repaired tree: full notification and reply -/

theorem appearances_fullDiff (M : Msg) (t : Tree) (a : List Nat) :
    appearances a (decide (a ∈ addrs t)) (fullDiff M t).ents
      = ((if a ∈ M.ents.map (·.addr) ∧ a ∉ addrs t then 1 else 0),
         (if a ∈ addrs t ∧ a ∉ M.ents.map (·.addr) then 1 else 0)) := by
  have h1 := c06_full_events M t a
  rw [notifyFullFixed_evs] at h1
  have h2 := c06_events_refine (fullDiff M t) (fullDiff M t).ents (t, []) a
  simp only [List.count_nil, Nat.zero_add] at h2
  apply Prod.ext
  · show (appearances a (decide (a ∈ addrs t)) (fullDiff M t).ents).1 = _
    rw [← h2.1, h1.1]
  · show (appearances a (decide (a ∈ addrs t)) (fullDiff M t).ents).2 = _
    rw [← h2.2, h1.2]

theorem toMsg_addrs (m : MsgG) : m.toMsg.ents.map (·.addr) = m.ents.map (·.addr) := by
  simp [MsgG.toMsg, List.map_map, Function.comp, EW.toEI]

/-- events of a well-formed full notification, repaired tree: one entity-added event for every announced address that
    was unknown, one entity-removed event for every known address no longer announced — none for [0] -/
theorem guard_full_events (m : MsgG) (t : Tree) (hw : m.WFfull) (hn : NoEmpty t) :
    (∀ a, a ≠ [0] →
      (notifyFullG Cfg.clean m t).2.1.count (.add a) = (if a ∈ m.ents.map (·.addr) ∧ a ∉ addrs t then 1 else 0) ∧
      (notifyFullG Cfg.clean m t).2.1.count (.rem a) = (if a ∈ addrs t ∧ a ∉ m.ents.map (·.addr) then 1 else 0)) ∧
    (DevInfoOK t → (notifyFullG Cfg.clean m t).2.1.count (.add [0]) = 0 ∧
      (notifyFullG Cfg.clean m t).2.1.count (.rem [0]) = 0) := by
  rw [(notifyFullG_tree m t hw hn).2]
  refine ⟨fun a ha => ?_, fun hd => ?_⟩
  · have h := guard_events_refine (fullDiff m.toMsg t).feats a ha (fullDiff m.toMsg t).ents (t, [])
    simp only [List.count_nil, Nat.zero_add] at h
    rw [h.1, h.2, appearances_fullDiff, toMsg_addrs]
    exact ⟨rfl, rfl⟩
  · have h := guard_events_devInfo (fullDiff m.toMsg t).feats (fullDiff m.toMsg t).ents (t, []) hd
    simpa using h

theorem appearances_all_added (a : List Nat) : ∀ (l : List EI) (b : Bool), (∀ ei ∈ l, ei.chg = .added) →
    appearances a b l = ((if (!b && decide (a ∈ l.map (·.addr))) then 1 else 0), 0)
  | [], b, _ => by cases b <;> rfl
  | ei :: l, b, h => by
    have h1 : ei.chg = .added := h ei (List.mem_cons_self ..)
    have ih := fun b' => appearances_all_added a l b' (fun x hx => h x (List.mem_cons_of_mem _ hx))
    rw [appearances, ih]
    by_cases ha : ei.addr = a
    · subst ha
      cases b <;> simp [applyTo, h1]
    · have ha' : ¬ a = ei.addr := fun h' => ha h'.symm
      cases b <;> simp [applyTo, ha, ha']

theorem fold_addOneG_stepGd (c : Cfg) (feats : List F) : ∀ (l : List EI) (acc : Tree × List Evt),
    l.foldl (addOneG c feats) acc
      = (l.map fun ei => ({ ei with chg := .added } : EI)).foldl (stepGd c feats) acc
  | [], _ => rfl
  | ei :: l, acc => by
    rw [List.foldl_cons, List.map_cons, List.foldl_cons, fold_addOneG_stepGd c feats l, addOneG_eq_stepGd]

/-- events of a well-formed reply, repaired tree: one entity-added event for every listed address that was unknown,
    no entity-removed event — none for [0] -/
theorem guard_reply_events (m : MsgG) (t : Tree) (hw : m.WFreply) :
    (∀ a, a ≠ [0] →
      (replyG Cfg.clean m t).2.count (.add a) = (if a ∈ m.ents.map (·.addr) ∧ a ∉ addrs t then 1 else 0) ∧
      (replyG Cfg.clean m t).2.count (.rem a) = 0) ∧
    (DevInfoOK t → (replyG Cfg.clean m t).2.count (.add [0]) = 0 ∧ (replyG Cfg.clean m t).2.count (.rem [0]) = 0) := by
  have hrun : (replyG Cfg.clean m t).2
      = (((m.ents.map EW.toEI).map fun ei => ({ ei with chg := .added } : EI)).foldl
          (stepGd Cfg.clean m.feats) (t, [])).2 := by
    unfold replyG
    simp only
    rw [runG_reply_wf Cfg.clean m.feats m.ents (t, []) hw, fold_addOneG_stepGd]
    simp
  rw [hrun]
  have hall : ∀ ei ∈ (m.ents.map EW.toEI).map fun ei => ({ ei with chg := .added } : EI), ei.chg = .added := by
    intro ei h; obtain ⟨e, _, rfl⟩ := List.mem_map.mp h; rfl
  have haddr : ((m.ents.map EW.toEI).map fun ei => ({ ei with chg := .added } : EI)).map (·.addr) = m.ents.map (·.addr) := by
    simp [List.map_map, Function.comp, EW.toEI]
  refine ⟨fun a ha => ?_, fun hd => ?_⟩
  · have h := guard_events_refine m.feats a ha ((m.ents.map EW.toEI).map fun ei => ({ ei with chg := .added } : EI)) (t, [])
    simp only [List.count_nil, Nat.zero_add] at h
    rw [h.1, h.2, appearances_all_added a _ _ hall, haddr]
    refine ⟨?_, rfl⟩
    by_cases h1 : a ∈ addrs t <;> by_cases h2 : a ∈ m.ents.map (·.addr) <;> simp [h1, h2]
  · have h := guard_events_devInfo m.feats ((m.ents.map EW.toEI).map fun ei => ({ ei with chg := .added } : EI)) (t, []) hd
    simpa using h

/-- SPEC of the entity events of one announcement at address `a` (known or not before): (added, removed) -/
def evSpec (a : List Nat) (known : Bool) (x : AnnG) : Nat × Nat :=
  match x.kind with
  | .reply => ((if a ∈ x.msg.ents.map (·.addr) ∧ known = false then 1 else 0), 0)
  | .part => appearances a known (x.msg.ents.map EW.toEI)
  | .full => ((if a ∈ x.msg.ents.map (·.addr) ∧ known = false then 1 else 0),
              (if known = true ∧ a ∉ x.msg.ents.map (·.addr) then 1 else 0))

/-- one well-formed message of any kind, repaired tree: the entity events are the specified ones, none for [0] -/
theorem guard_events_step (x : AnnG) (hx : x.WF) (t : Tree) (hn : NoEmpty t) (hd : DevInfoOK t) :
    (∀ a, a ≠ [0] →
      (treeStepG Cfg.clean x.kind x.msg t).2.count (.add a) = (evSpec a (decide (a ∈ addrs t)) x).1 ∧
      (treeStepG Cfg.clean x.kind x.msg t).2.count (.rem a) = (evSpec a (decide (a ∈ addrs t)) x).2) ∧
    (treeStepG Cfg.clean x.kind x.msg t).2.count (.add [0]) = 0 ∧
    (treeStepG Cfg.clean x.kind x.msg t).2.count (.rem [0]) = 0 := by
  rw [treeStepG_clean]
  unfold AnnG.WF at hx
  unfold evSpec
  cases hk : x.kind with
  | reply =>
    rw [hk] at hx
    have h := guard_reply_events x.msg t hx
    refine ⟨fun a ha => ?_, h.2 hd⟩
    have := h.1 a ha
    simp only [decide_eq_false_iff_not]
    exact ⟨this.1, this.2⟩
  | part =>
    rw [hk] at hx
    have hx : x.msg.WFpart := hx
    have he : x.msg.ents.isEmpty = false := by
      cases h : x.msg.ents with | nil => exact absurd h hx.1 | cons _ _ => rfl
    have hrun : (notifyG Cfg.clean x.msg t).2.1
        = ((x.msg.ents.map EW.toEI).foldl (stepGd Cfg.clean x.msg.feats) (t, [])).2 := by
      unfold notifyG
      rw [he]
      simp only [Bool.false_eq_true, if_false]
      rw [runG_entry_wf Cfg.clean x.msg.feats x.msg.ents (t, []) hx.2]
    simp only
    rw [hrun]
    refine ⟨fun a ha => ?_, ?_⟩
    · have := guard_events_refine x.msg.feats a ha (x.msg.ents.map EW.toEI) (t, [])
      simpa using this
    · have := guard_events_devInfo x.msg.feats (x.msg.ents.map EW.toEI) (t, []) hd
      simpa using this
  | full =>
    rw [hk] at hx
    have h := guard_full_events x.msg t hx hn
    refine ⟨fun a ha => ?_, h.2 hd⟩
    have := h.1 a ha
    simp only [decide_eq_false_iff_not, decide_eq_true_eq]
    exact ⟨this.1, this.2⟩

theorem noEmpty_history : ∀ (h : List AnnG) (t : Tree), NoEmpty t → (∀ x ∈ h, x.WF) → NoEmpty (treeRunG Cfg.clean t h)
  | [], _, hn, _ => hn
  | x :: h, t, hn, hw => by
    unfold treeRunG
    rw [List.foldl_cons]
    exact noEmpty_history h _ (noEmpty_step x (hw x (List.mem_cons_self ..)) t hn)
      (fun y hy => hw y (List.mem_cons_of_mem _ hy))

/-- the event clause over histories: after any history of well-formed messages, the next well-formed message publishes
    exactly the specified entity events -/
theorem guard_events_history (h : List AnnG) (t : Tree) (hn : NoEmpty t) (hd : DevInfoOK t) (hw : ∀ x ∈ h, x.WF)
    (x : AnnG) (hx : x.WF) :
    (∀ a, a ≠ [0] →
      (treeStepG Cfg.clean x.kind x.msg (treeRunG Cfg.clean t h)).2.count (.add a)
        = (evSpec a (decide (a ∈ addrs (treeRunG Cfg.clean t h))) x).1 ∧
      (treeStepG Cfg.clean x.kind x.msg (treeRunG Cfg.clean t h)).2.count (.rem a)
        = (evSpec a (decide (a ∈ addrs (treeRunG Cfg.clean t h))) x).2) ∧
    (treeStepG Cfg.clean x.kind x.msg (treeRunG Cfg.clean t h)).2.count (.add [0]) = 0 ∧
    (treeStepG Cfg.clean x.kind x.msg (treeRunG Cfg.clean t h)).2.count (.rem [0]) = 0 :=
  guard_events_step x hx _ (noEmpty_history h t hn hw) (devInfo_history h t hd)

end Spine.Disc
