/-! Event-sourced model of EntityLocal.GetOrAddFeature and NextFeatureId (spine/entity_local.go, entity.go).

    As written the lookup (`FeatureOfTypeAndRole`, under the entity lock) and the creation
    (`NewFeatureLocal(NextFeatureId(), …)` + append, under the entity lock again) are two critical sections: events
    `lookup` and `create`. The family has one flag, `recheck`:
    * `recheck = false` — the code as written: `create` creates unconditionally;
    * `recheck = true`  — the repair of DESIGN §9 (look up again under the creation lock): `create` returns the
      feature that appeared in the meantime instead of creating a second one.
    `getOrAdd` is a call that no other call overlaps (lookup and creation adjacent), `nextId` a direct call of
    `NextFeatureId`. Every call records the feature it returned (`res`). -/
namespace Spine.Feat

structure F where
  id : Nat
  typ : Nat
  role : Nat
deriving DecidableEq, Repr

structure St where
  nextId : Nat := 1
  feats : List F := []
  missed : List (Nat × Nat × Nat) := []   -- (operation, type, role): looked up, found nothing, not created yet
  res : List (Nat × F) := []              -- (operation, the feature it returned)

inductive Ev
  | lookup (op typ role : Nat)        -- FeatureOfTypeAndRole under the lock
  | create (op : Nat)                 -- creation under the lock (with or without a second lookup)
  | getOrAdd (op typ role : Nat)      -- lookup and creation with nothing in between
  | nextId                            -- NextFeatureId called directly

def find (s : St) (typ role : Nat) : Option F := s.feats.find? fun f => f.typ = typ && f.role = role

def has (s : St) (typ role : Nat) : Bool := s.feats.any fun f => f.typ = typ && f.role = role

/-- NewFeatureLocal(NextFeatureId(), …) and append -/
def mk (s : St) (op typ role : Nat) : St :=
  { s with nextId := s.nextId + 1, feats := s.feats ++ [⟨s.nextId, typ, role⟩],
           res := (op, ⟨s.nextId, typ, role⟩) :: s.res }

def ret (s : St) (op : Nat) (f : F) : St := { s with res := (op, f) :: s.res }

def unmiss (s : St) (op : Nat) : St := { s with missed := s.missed.filter (·.1 ≠ op) }

def create (recheck : Bool) (s : St) (op typ role : Nat) : St :=
  match (if recheck then find s typ role else none) with
  | some f => ret (unmiss s op) op f
  | none => mk (unmiss s op) op typ role

def step (recheck : Bool) (s : St) : Ev → St
  | .lookup op typ role =>
    match find s typ role with
    | some f => ret s op f
    | none => { s with missed := (op, typ, role) :: s.missed }
  | .create op =>
    match s.missed.find? (·.1 = op) with
    | none => s
    | some (_, typ, role) => create recheck s op typ role
  | .getOrAdd op typ role =>
    match find s typ role with
    | some f => ret s op f
    | none => mk s op typ role
  | .nextId => { s with nextId := s.nextId + 1 }

def run (recheck : Bool) (evs : List Ev) : St := evs.foldl (step recheck) {}

/-- as written: two goroutines asking for the same type and role both miss and both create -/
theorem double_creation_witness :
    (run false [.lookup 1 7 0, .lookup 2 7 0, .create 1, .create 2]).feats = [⟨1, 7, 0⟩, ⟨2, 7, 0⟩] := by decide

/-- … and are handed two different features -/
theorem two_features_witness :
    (run false [.lookup 1 7 0, .lookup 2 7 0, .create 1, .create 2]).res = [(2, ⟨2, 7, 0⟩), (1, ⟨1, 7, 0⟩)] := by decide

/-- the same schedule on the repaired member: one feature, handed to both -/
theorem repaired_witness :
    (run true [.lookup 1 7 0, .lookup 2 7 0, .create 1, .create 2]).feats = [⟨1, 7, 0⟩] ∧
    (run true [.lookup 1 7 0, .lookup 2 7 0, .create 1, .create 2]).res = [(2, ⟨1, 7, 0⟩), (1, ⟨1, 7, 0⟩)] := by decide

/-! ### feature numbers are fresh — both members, every interleaving -/

def Fresh (s : St) : Prop := (s.feats.map (·.id)).Nodup ∧ ∀ f ∈ s.feats, f.id < s.nextId

theorem fresh_mk (s : St) (h : Fresh s) (op typ role : Nat) : Fresh (mk s op typ role) := by
  refine ⟨?_, ?_⟩
  · simp only [mk, List.map_append, List.map_cons, List.map_nil]
    rw [List.nodup_append]
    refine ⟨h.1, by simp, ?_⟩
    intro a ha b hb
    simp only [List.mem_singleton] at hb; subst hb
    obtain ⟨f, hf, rfl⟩ := List.mem_map.mp ha
    have := h.2 f hf
    omega
  · intro f hf
    simp only [mk] at hf ⊢
    rcases List.mem_append.mp hf with hf | hf
    · exact Nat.lt_succ_of_lt (h.2 f hf)
    · simp only [List.mem_singleton] at hf; subst hf; exact Nat.lt_succ_self _

theorem fresh_step (recheck : Bool) (s : St) (h : Fresh s) (e : Ev) : Fresh (step recheck s e) := by
  cases e with
  | lookup op typ role => simp only [step]; split <;> exact h
  | create op =>
    simp only [step]
    split
    · exact h
    · simp only [create]
      split
      · exact h
      · exact fresh_mk (unmiss s op) h _ _ _
  | getOrAdd op typ role =>
    simp only [step]
    split
    · exact h
    · exact fresh_mk s h _ _ _
  | nextId => exact ⟨h.1, fun f hf => Nat.lt_succ_of_lt (h.2 f hf)⟩

/-- feature numbers are never reused or duplicated — true of the code as written and of the repaired code, for
    every interleaving of any number of calls -/
theorem ids_fresh (recheck : Bool) (evs : List Ev) : Fresh (run recheck evs) := by
  unfold run
  suffices ∀ s : St, Fresh s → Fresh (evs.foldl (step recheck) s) from this {} ⟨by simp, by simp⟩
  induction evs with
  | nil => intro s h; exact h
  | cons e es ih => intro s h; exact ih _ (fresh_step recheck s h e)

/-- the numbers handed out grow strictly: a feature created later has a larger number than every existing one -/
theorem ids_increasing (s : St) (h : Fresh s) (op typ role : Nat) :
    ∀ f ∈ s.feats, f.id < s.nextId ∧ (mk s op typ role).feats = s.feats ++ [⟨s.nextId, typ, role⟩] :=
  fun f hf => ⟨h.2 f hf, rfl⟩

/-! ### one feature per type and role -/

def OnePer (s : St) : Prop := ∀ typ role, (s.feats.filter fun f => f.typ = typ && f.role = role).length ≤ 1

theorem filter_nil_of_find_none (s : St) (typ role : Nat) (h : find s typ role = none) :
    (s.feats.filter fun f => f.typ = typ && f.role = role) = [] := by
  rw [List.filter_eq_nil_iff]
  intro f hf
  have := List.find?_eq_none.mp h f hf
  simpa using this

theorem onePer_mk (s : St) (h : OnePer s) (op typ role : Nat) (hn : find s typ role = none) :
    OnePer (mk s op typ role) := by
  intro t r
  simp only [mk, List.filter_append, List.length_append]
  have hprev := h t r
  by_cases htr : typ = t ∧ role = r
  · obtain ⟨rfl, rfl⟩ := htr
    rw [filter_nil_of_find_none s typ role hn]
    simp
  · have : (decide (typ = t) && decide (role = r)) = false := by
      simp only [Bool.and_eq_false_imp, decide_eq_true_eq, decide_eq_false_iff_not]
      intro h1 h2; exact htr ⟨h1, h2⟩
    simp [this]; exact hprev

/-- results are existing features of the requested type and role -/
def ResOk (s : St) : Prop := ∀ p ∈ s.res, p.2 ∈ s.feats

theorem resOk_mk (s : St) (h : ResOk s) (op typ role : Nat) : ResOk (mk s op typ role) := by
  intro p hp
  simp only [mk, List.mem_cons] at hp ⊢
  rcases hp with rfl | hp
  · simp
  · exact List.mem_append_left _ (h p hp)

theorem resOk_ret (s : St) (h : ResOk s) (op : Nat) (f : F) (hf : f ∈ s.feats) : ResOk (ret s op f) := by
  intro p hp
  simp only [ret, List.mem_cons] at hp ⊢
  rcases hp with rfl | hp
  · exact hf
  · exact h p hp

theorem find_mem (s : St) (typ role : Nat) (f : F) (h : find s typ role = some f) : f ∈ s.feats :=
  List.mem_of_find?_eq_some h

/-- an event of the repaired code: every event when the creation re-checks; without the re-check only calls that
    nothing overlaps -/
def repaired (recheck : Bool) : Ev → Bool
  | .getOrAdd .. => true
  | .nextId => true
  | _ => recheck

theorem good_step (recheck : Bool) (s : St) (h : OnePer s ∧ ResOk s) (e : Ev) (hr : repaired recheck e = true) :
    OnePer (step recheck s e) ∧ ResOk (step recheck s e) := by
  cases e with
  | nextId => exact h
  | getOrAdd op typ role =>
    simp only [step]
    split
    · rename_i f hf; exact ⟨h.1, resOk_ret s h.2 op f (find_mem s typ role f hf)⟩
    · rename_i hn; exact ⟨onePer_mk s h.1 op typ role hn, resOk_mk s h.2 op typ role⟩
  | lookup op typ role =>
    simp only [step]
    split
    · rename_i f hf; exact ⟨h.1, resOk_ret s h.2 op f (find_mem s typ role f hf)⟩
    · exact h
  | create op =>
    simp only [repaired] at hr; subst hr
    simp only [step]
    split
    · exact h
    · rename_i typ role _
      simp only [create, if_true]
      split
      · rename_i f hf
        exact ⟨h.1, resOk_ret (unmiss s op) h.2 op f (find_mem s typ role f hf)⟩
      · rename_i hn
        exact ⟨onePer_mk (unmiss s op) h.1 op typ role hn, resOk_mk (unmiss s op) h.2 op typ role⟩

theorem good_run (recheck : Bool) (evs : List Ev) (hrep : ∀ e ∈ evs, repaired recheck e = true) :
    OnePer (run recheck evs) ∧ ResOk (run recheck evs) := by
  unfold run
  suffices ∀ s, OnePer s ∧ ResOk s → OnePer (evs.foldl (step recheck) s) ∧ ResOk (evs.foldl (step recheck) s) from
    this {} ⟨by intro t r; simp, by intro p hp; simp at hp⟩
  induction evs with
  | nil => intro s h; exact h
  | cons e es ih =>
    intro s h
    exact ih (fun e' he' => hrep e' (List.mem_cons_of_mem _ he')) _
      (good_step recheck s h e (hrep e List.mem_cons_self))

/-- C07 (repaired code): however many goroutines ask, in whatever interleaving of their lookups and creations,
    there is at most one feature per type and role -/
theorem c07_one_feature_per_type_role (evs : List Ev) : OnePer (run true evs) :=
  (good_run true evs (by intro e _; cases e <;> rfl)).1

/-- the same for the code as written as long as no two calls overlap -/
theorem c07_one_feature_per_type_role_nonoverlap (evs : List Ev) (hrep : ∀ e ∈ evs, repaired false e = true) :
    OnePer (run false evs) :=
  (good_run false evs hrep).1

theorem unique_of_onePer (s : St) (h : OnePer s) (f g : F) (hf : f ∈ s.feats) (hg : g ∈ s.feats)
    (ht : f.typ = g.typ) (hr : f.role = g.role) : f = g := by
  have hl := h f.typ f.role
  have hf' : f ∈ s.feats.filter fun x => x.typ = f.typ && x.role = f.role := by simp [hf]
  have hg' : g ∈ s.feats.filter fun x => x.typ = f.typ && x.role = f.role := by simp [hg, ht, hr]
  match hm : s.feats.filter fun x => x.typ = f.typ && x.role = f.role with
  | [] => rw [hm] at hf'; simp at hf'
  | [x] =>
    rw [hm] at hf' hg'
    simp only [List.mem_singleton] at hf' hg'
    rw [hf', hg']
  | x :: y :: rest => rw [hm] at hl; simp at hl

/-- C07 (repaired code): asking repeatedly, from any goroutines, for the feature of one type and role yields one
    and the same feature -/
theorem c07_same_feature (evs : List Ev) (p q : Nat × F) (hp : p ∈ (run true evs).res) (hq : q ∈ (run true evs).res)
    (ht : p.2.typ = q.2.typ) (hr : p.2.role = q.2.role) : p.2 = q.2 := by
  have h := good_run true evs (by intro e _; cases e <;> rfl)
  exact unique_of_onePer _ h.1 p.2 q.2 (h.2 p hp) (h.2 q hq) ht hr

end Spine.Feat
