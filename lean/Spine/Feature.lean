/-! Event-sourced model of EntityLocal.GetOrAddFeature and NextFeatureId (spine/entity_local.go, entity.go).
    As written the lookup and the creation are two critical sections; repaired they are one. -/
namespace Spine.Feat

structure F where
  id : Nat
  typ : Nat
  role : Nat
deriving DecidableEq, Repr

structure St where
  nextId : Nat := 1
  feats : List F := []
  missed : List (Nat × Nat × Nat) := []   -- (operation, type, role): looked up, found nothing, not created yet

inductive Ev
  | lookup (op typ role : Nat)        -- FeatureOfTypeAndRole under the lock
  | create (op : Nat)                 -- NewFeatureLocal(NextFeatureId(), …) and append, under the lock
  | getOrAdd (typ role : Nat)         -- repaired: lookup and creation in one critical section
  | nextId                            -- NextFeatureId called directly

def has (s : St) (typ role : Nat) : Bool := s.feats.any fun f => f.typ = typ && f.role = role

def step (s : St) : Ev → St
  | .lookup op typ role => if has s typ role then s else { s with missed := (op, typ, role) :: s.missed }
  | .create op =>
    match s.missed.find? (·.1 = op) with
    | none => s
    | some (_, typ, role) =>
      { nextId := s.nextId + 1, feats := s.feats ++ [⟨s.nextId, typ, role⟩], missed := s.missed.filter (·.1 ≠ op) }
  | .getOrAdd typ role =>
    if has s typ role then s else { s with nextId := s.nextId + 1, feats := s.feats ++ [⟨s.nextId, typ, role⟩] }
  | .nextId => { s with nextId := s.nextId + 1 }

def run (evs : List Ev) : St := evs.foldl step {}

/-- as written: two goroutines asking for the same type and role both miss and both create -/
theorem double_creation_witness :
    (run [.lookup 1 7 0, .lookup 2 7 0, .create 1, .create 2]).feats = [⟨1, 7, 0⟩, ⟨2, 7, 0⟩] := by decide

/-- feature numbers are never reused or duplicated — true of the code as written, for every interleaving -/
theorem ids_fresh (evs : List Ev) :
    ((run evs).feats.map (·.id)).Nodup ∧ ∀ f ∈ (run evs).feats, f.id < (run evs).nextId := by
  unfold run
  suffices ∀ s : St, ((s.feats.map (·.id)).Nodup ∧ ∀ f ∈ s.feats, f.id < s.nextId) →
      (((evs.foldl step s).feats.map (·.id)).Nodup ∧ ∀ f ∈ (evs.foldl step s).feats, f.id < (evs.foldl step s).nextId) from
    this {} ⟨by simp, by simp⟩
  induction evs with
  | nil => intro s h; exact h
  | cons e es ih =>
    intro s h
    apply ih
    have app : ∀ typ role : Nat, ((((s.feats ++ [(⟨s.nextId, typ, role⟩ : F)]).map (fun f : F => f.id)).Nodup) ∧
        ∀ f ∈ s.feats ++ [(⟨s.nextId, typ, role⟩ : F)], f.id < s.nextId + 1) := by
      intro typ role
      refine ⟨?_, ?_⟩
      · simp only [List.map_append, List.map_cons, List.map_nil]
        rw [List.nodup_append]
        refine ⟨h.1, by simp, ?_⟩
        intro a ha b hb
        simp only [List.mem_singleton] at hb; subst hb
        obtain ⟨f, hf, rfl⟩ := List.mem_map.mp ha
        have := h.2 f hf
        omega
      · intro f hf
        rcases List.mem_append.mp hf with hf | hf
        · exact Nat.lt_succ_of_lt (h.2 f hf)
        · simp only [List.mem_singleton] at hf; subst hf; exact Nat.lt_succ_self _
    cases e with
    | lookup op typ role => simp only [step]; split <;> exact h
    | create op =>
      simp only [step]
      split
      · exact h
      · exact app _ _
    | getOrAdd typ role =>
      simp only [step]
      split
      · exact h
      · exact app _ _
    | nextId => exact ⟨h.1, fun f hf => Nat.lt_succ_of_lt (h.2 f hf)⟩

def repaired : Ev → Bool | .getOrAdd .. => true | .nextId => true | _ => false

def OnePer (s : St) : Prop := ∀ typ role, (s.feats.filter fun f => f.typ = typ && f.role = role).length ≤ 1

/-- C07 (repaired code): however many goroutines ask, there is one feature per type and role -/
theorem c07_one_feature_per_type_role (evs : List Ev) (hrep : ∀ e ∈ evs, repaired e = true) : OnePer (run evs) := by
  unfold run
  suffices ∀ s, OnePer s → OnePer (evs.foldl step s) from this {} (by intro t r; simp)
  induction evs with
  | nil => intro s h; exact h
  | cons e es ih =>
    intro s h
    apply ih (fun e' he' => hrep e' (List.mem_cons_of_mem _ he'))
    have hr := hrep e List.mem_cons_self
    cases e with
    | lookup op typ role => simp [repaired] at hr
    | create op => simp [repaired] at hr
    | nextId => exact h
    | getOrAdd typ role =>
      simp only [step]
      split
      · exact h
      · rename_i hnone
        intro t r
        simp only [List.filter_append, List.length_append]
        have hprev := h t r
        by_cases htr : typ = t ∧ role = r
        · obtain ⟨rfl, rfl⟩ := htr
          have hz : (s.feats.filter fun f => decide (f.typ = typ) && decide (f.role = role)).length = 0 := by
            have hn : has s typ role = false := by simpa using hnone
            rw [List.length_eq_zero_iff, List.filter_eq_nil_iff]
            intro f hf
            have := List.any_eq_false.mp hn f hf
            simpa using this
          simp [hz]
        · have : (decide (typ = t) && decide (role = r)) = false := by
            simp only [Bool.and_eq_false_imp, decide_eq_true_eq, decide_eq_false_iff_not]
            intro h1 h2; exact htr ⟨h1, h2⟩
          simp [this]; exact hprev

end Spine.Feat
