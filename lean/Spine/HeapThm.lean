import Spine.Heap
import Spine.C04Thm
/-!
# Lemmas about the store / sharing model (C11, C04c)

* `Ext h h'`: `h'` extends `h` without disturbing anything that existed in `h` except the struct the store
  points to: every old backing array reads the same, every old struct other than the stored one is the same,
  and the store pointer is the old one or a brand-new struct. `Ext` is a preorder, so it lifts to histories.
* `updateData_safe_ext`: a `DataCopy`, a replace (fast path) and a merge-path update — an update without
  filter data whose items carry identifiers, persisting or not, local or remote, every member of the family —
  are `Ext` steps.
* `readStruct_ext`: across an `Ext` step a retained struct other than the stored one reads the same.
* `updateData_merge_noop`: a merge-path update that does not persist, or fails, leaves the stored data as it was.
* `WF` (slices point into existing arrays, the store to an existing struct) is preserved by every operation.
-/
namespace Spine.Heap
open Spine

/-! ### the merge path of the engine -/

/-- the items of an update carry identifiers (or there are none): `UpdateList` takes the `Merge` branch -/
def MergeNw (sh : Shape) (nw : List Item) : Prop := ∀ n0 rest, nw = n0 :: rest → hasIdentifiers sh n0 = true

instance (sh : Shape) (nw : List Item) : Decidable (MergeNw sh nw) :=
  match nw with
  | [] => isTrue (by intro n0 rest h; cases h)
  | n0 :: rest =>
    if h : hasIdentifiers sh n0 = true then isTrue (by intro a b hab; cases hab; exact h)
    else isFalse (fun hm => h (hm n0 rest rfl))

/-- on the merge path the engine returns a fresh sorted merge and does not write into the caller's array -/
theorem updateListF_merge (c : UCfg) (sh : Shape) (remote : Bool) (ex nw : List Item) (hnw : MergeNw sh nw) :
    updateListF c sh remote ex nw none none =
      .ok ⟨ex, sortData sh (mergeF c sh remote ex nw).1, (mergeF c sh remote ex nw).2, true⟩ := by
  unfold updateListF deletePhaseF partialPhaseF tailF
  cases nw with
  | nil => simp
  | cons n0 rest => simp [hnw n0 rest rfl]

/-! ### heap basics -/

theorem writeBack_self (h : H) (cur : Slice) : h.writeBack cur (h.slice cur) = h := by
  cases cur with
  | none => rfl
  | some an =>
    obtain ⟨a, n⟩ := an
    simp only [H.writeBack, H.slice, List.take_append_drop]
    by_cases ha : a < h.arrays.length
    · simp [List.getElem?_eq_getElem ha]
    · have : h.arrays.length ≤ a := Nat.le_of_not_lt ha
      simp [List.set_eq_of_length_le this]

/-- `h'` extends `h` leaving alone everything that existed except the stored struct -/
structure Ext (h h' : H) : Prop where
  arr : ∀ a, a < h.arrays.length → h'.arrays[a]? = h.arrays[a]?
  alen : h.arrays.length ≤ h'.arrays.length
  slen : h.structs.length ≤ h'.structs.length
  str : ∀ s, s < h.structs.length → h.store ≠ some s → h'.structs[s]? = h.structs[s]?
  store : ∀ s, h'.store = some s → h.store = some s ∨ h.structs.length ≤ s

theorem Ext.refl (h : H) : Ext h h :=
  ⟨fun _ _ => rfl, Nat.le_refl _, Nat.le_refl _, fun _ _ _ => rfl, fun _ hs => Or.inl hs⟩

theorem Ext.trans {h1 h2 h3 : H} (a : Ext h1 h2) (b : Ext h2 h3) : Ext h1 h3 where
  arr := fun x hx => by rw [b.arr x (Nat.lt_of_lt_of_le hx a.alen), a.arr x hx]
  alen := Nat.le_trans a.alen b.alen
  slen := Nat.le_trans a.slen b.slen
  str := fun s hs hne => by
    have h2ne : h2.store ≠ some s := by
      intro h2s
      rcases a.store s h2s with h | h
      · exact hne h
      · exact absurd hs (Nat.not_lt.mpr h)
    rw [b.str s (Nat.lt_of_lt_of_le hs a.slen) h2ne, a.str s hs hne]
  store := fun s hs => by
    rcases b.store s hs with h | h
    · rcases a.store s h with h' | h'
      · exact Or.inl h'
      · exact Or.inr h'
    · exact Or.inr (Nat.le_trans a.slen h)

theorem allocList_structs (h : H) (l : List Item) : (h.allocList l).1.structs = h.structs := by
  unfold H.allocList; split <;> rfl

theorem allocList_store (h : H) (l : List Item) : (h.allocList l).1.store = h.store := by
  unfold H.allocList; split <;> rfl

theorem ext_allocList (h : H) (l : List Item) : Ext h (h.allocList l).1 := by
  unfold H.allocList
  split
  · exact Ext.refl h
  · exact ⟨fun a ha => by simp [List.getElem?_append_left ha], by simp, Nat.le_refl _, fun _ _ _ => rfl, fun _ hs => Or.inl hs⟩

theorem ext_allocStruct (h : H) (v : Slice) : Ext h (h.allocStruct v).1 :=
  ⟨fun _ _ => rfl, Nat.le_refl _, by simp [H.allocStruct],
   fun s hs _ => by simp [H.allocStruct, List.getElem?_append_left hs], fun _ hs => Or.inl hs⟩

theorem ext_allocValue (h : H) (l : List Item) : Ext h (h.allocValue l).1 :=
  (ext_allocList h l).trans (ext_allocStruct _ _)

theorem allocValue_snd (h : H) (l : List Item) : (h.allocValue l).2 = h.structs.length := by
  simp [H.allocValue, H.allocStruct, allocList_structs]

theorem allocValue_store (h : H) (l : List Item) : (h.allocValue l).1.store = h.store := by
  simp [H.allocValue, H.allocStruct, allocList_store]

theorem allocValue_slen (h : H) (l : List Item) : (h.allocValue l).1.structs.length = h.structs.length + 1 := by
  simp [H.allocValue, H.allocStruct, allocList_structs]

/-- pointing the store at a struct that did not exist in `h` -/
theorem ext_setStore {h h' : H} (e : Ext h h') (s : Nat) (hs : h.structs.length ≤ s) : Ext h { h' with store := some s } :=
  ⟨e.arr, e.alen, e.slen, e.str, fun s' hs' => by
    simp only [Option.some.injEq] at hs'; subst hs'; exact Or.inr hs⟩

theorem ext_ensureStore (h : H) : Ext h h.ensureStore.1 := by
  unfold H.ensureStore
  cases hst : h.store with
  | some s => exact Ext.refl h
  | none => exact ext_setStore (ext_allocStruct h none) _ (Nat.le_refl _)

theorem ensureStore_store (h : H) : h.ensureStore.1.store = some h.ensureStore.2 := by
  unfold H.ensureStore
  cases hst : h.store with
  | some s => simp [hst]
  | none => rfl

/-- re-assigning the list field of the stored struct -/
theorem ext_setStoreField (h : H) (s : Nat) (v : Slice) (hs : h.store = some s) :
    Ext h { h with structs := h.structs.set s v } :=
  ⟨fun _ _ => rfl, Nat.le_refl _, by simp, fun s' _ hne => by
    have : s ≠ s' := fun e => hne (e ▸ hs)
    simp [List.getElem?_set_ne this], fun _ hs' => Or.inl hs'⟩

theorem ext_dataCopy (h : H) : Ext h (dataCopy h).1 := by
  unfold dataCopy
  cases h.store with
  | none => exact Ext.refl h
  | some s => exact ext_allocStruct h _

/-! ### the engine on the merge path, and the replace path -/

/-- an engine result that did not write in place (`inplace` is what was read) is an extension step -/
theorem applyRes_ext (h1 : H) (s : Nat) (persist : Bool) (inp : Nat) (r : Res) (hst : h1.store = some s)
    (hin : r.inplace = h1.slice (h1.field s)) : Ext h1 (applyRes h1 s persist inp r).1 := by
  unfold applyRes
  simp only [hin, writeBack_self]
  have e3 : Ext h1 (if r.fresh = true then (h1.allocList r.out).1 else h1) := by
    split
    · exact ext_allocList h1 r.out
    · exact Ext.refl h1
  have hs3 : (if r.fresh = true then (h1.allocList r.out).1 else h1).store = some s := by
    split
    · rw [allocList_store]; exact hst
    · exact hst
  generalize (if r.fresh = true then (h1.allocList r.out).1 else h1) = h3 at e3 hs3
  generalize (if r.fresh = true then (h1.allocList r.out).2 else h1.field s) = v
  have e4 : Ext h3 (if (r.fresh && r.ok && persist) = true then { h3 with structs := h3.structs.set s v } else h3) := by
    split
    · exact ext_setStoreField h3 s v hs3
    · exact Ext.refl _
  generalize (if (r.fresh && r.ok && persist) = true then { h3 with structs := h3.structs.set s v } else h3) = h4 at e4
  split
  · exact (e3.trans e4).trans (ext_allocStruct _ _)
  · exact e3.trans e4

theorem engine_merge_ext (c : Cfg) (sh : Shape) (h : H) (remote persist : Bool) (nw : List Item) (inp : Nat)
    (hnw : MergeNw sh nw) : Ext h (engine c sh h remote persist nw none none inp).1 := by
  unfold engine
  simp only [updateListF_merge c.u sh remote _ nw hnw]
  exact (ext_ensureStore h).trans (applyRes_ext _ _ persist inp _ (ensureStore_store h) rfl)

/-- an update that is safe for retained values: the replace fast path, or the merge path -/
def SafeUpd (c : Cfg) (sh : Shape) (h : H) (remote persist : Bool) (nw : List Item) (fp fd : FArg) : Prop :=
  fastPath c (h.allocValue nw).1 remote persist fp fd = true ∨ (fp.toOpt = none ∧ fd.toOpt = none ∧ MergeNw sh nw)

theorem updateData_safe_ext (c : Cfg) (sh : Shape) (h : H) (remote persist : Bool) (nw : List Item) (fp fd : FArg)
    (hs : SafeUpd c sh h remote persist nw fp fd) : Ext h (updateData c sh h remote persist nw fp fd).1 := by
  unfold updateData
  have h1 := ext_allocValue h nw
  by_cases hf : fastPath c (h.allocValue nw).1 remote persist fp fd = true
  · simp only [hf, if_true]
    split
    · exact ext_setStore h1 _ (by rw [allocValue_snd]; exact Nat.le_refl _)
    · refine ext_setStore (h1.trans (ext_allocStruct _ _)) _ ?_
      simp only [H.allocStruct, allocValue_slen]
      omega
  · simp only [hf, Bool.false_eq_true, if_false]
    rcases hs with hs | ⟨hp, hd, hm⟩
    · exact absurd hs hf
    · rw [hp, hd]
      exact h1.trans (engine_merge_ext c sh _ remote persist nw _ hm)

/-! ### reading across an extension -/

/-- every slice held by a struct points into an existing array, and the store points to an existing struct -/
def H.WF (h : H) : Prop :=
  (∀ s a n, h.field s = some (a, n) → a < h.arrays.length) ∧ (∀ s, h.store = some s → s < h.structs.length)

theorem slice_ext {h h' : H} (e : Ext h h') (v : Slice) (hv : ∀ a n, v = some (a, n) → a < h.arrays.length) :
    h'.slice v = h.slice v := by
  cases v with
  | none => rfl
  | some an => obtain ⟨a, n⟩ := an; simp only [H.slice, e.arr a (hv a n rfl)]

theorem readStruct_ext {h h' : H} (e : Ext h h') (hw : h.WF) (s : Nat) (hs : s < h.structs.length)
    (hne : h.store ≠ some s) : h'.readStruct s = h.readStruct s := by
  unfold H.readStruct
  have hf : h'.field s = h.field s := by unfold H.field; rw [e.str s hs hne]
  rw [hf]
  exact slice_ext e _ (fun a n hv => hw.1 s a n hv)

/-! ### well-formedness is preserved by every operation -/

def ValidSlice (h : H) (v : Slice) : Prop := ∀ a n, v = some (a, n) → a < h.arrays.length

theorem wf_empty : ({} : H).WF := ⟨fun s a n h => by simp [H.field] at h, fun s h => by cases h⟩

theorem validSlice_field {h : H} (hw : h.WF) (s : Nat) : ValidSlice h (h.field s) := fun a n hv => hw.1 s a n hv

theorem validSlice_mono {h h' : H} (hl : h.arrays.length ≤ h'.arrays.length) {v : Slice} (hv : ValidSlice h v) :
    ValidSlice h' v := fun a n e => Nat.lt_of_lt_of_le (hv a n e) hl

theorem field_append (h : H) (v : Slice) (s : Nat) :
    (h.allocStruct v).1.field s = if s = h.structs.length then v else h.field s := by
  simp only [H.field, H.allocStruct]
  by_cases hs : s < h.structs.length
  · simp [List.getElem?_append_left hs, Nat.ne_of_lt hs]
  · by_cases he : s = h.structs.length
    · simp [he]
    · have : h.structs.length < s := by omega
      have h1 : (h.structs ++ [v])[s]? = none := by
        apply List.getElem?_eq_none; simp; omega
      have h2 : h.structs[s]? = none := List.getElem?_eq_none (by omega)
      simp [h1, h2, he]

theorem wf_allocStruct {h : H} (hw : h.WF) {v : Slice} (hv : ValidSlice h v) : (h.allocStruct v).1.WF := by
  refine ⟨fun s a n hf => ?_, fun s hs => ?_⟩
  · rw [field_append] at hf
    split at hf
    · exact hv a n hf
    · exact hw.1 s a n hf
  · have := hw.2 s hs
    simp [H.allocStruct]; omega

theorem wf_allocList {h : H} (hw : h.WF) (l : List Item) :
    (h.allocList l).1.WF ∧ ValidSlice (h.allocList l).1 (h.allocList l).2 := by
  unfold H.allocList
  split
  · exact ⟨hw, fun a n e => by cases e⟩
  · refine ⟨⟨fun s a n hf => ?_, hw.2⟩, fun a n e => ?_⟩
    · have := hw.1 s a n hf
      simp; omega
    · simp only [Option.some.injEq, Prod.mk.injEq] at e
      simp; omega

theorem wf_writeBack {h : H} (hw : h.WF) (cur : Slice) (ip : List Item) : (h.writeBack cur ip).WF := by
  cases cur with
  | none => exact hw
  | some an =>
    obtain ⟨a, n⟩ := an
    exact ⟨fun s a' n' hf => by have := hw.1 s a' n' hf; simpa [H.writeBack] using this, hw.2⟩

theorem writeBack_alen (h : H) (cur : Slice) (ip : List Item) : (h.writeBack cur ip).arrays.length = h.arrays.length := by
  cases cur with
  | none => rfl
  | some an => obtain ⟨a, n⟩ := an; simp [H.writeBack]

theorem writeBack_field (h : H) (cur : Slice) (ip : List Item) (s : Nat) : (h.writeBack cur ip).field s = h.field s := by
  cases cur with
  | none => rfl
  | some an => obtain ⟨a, n⟩ := an; rfl

theorem wf_setField {h : H} (hw : h.WF) (s : Nat) {v : Slice} (hv : ValidSlice h v) :
    ({ h with structs := h.structs.set s v } : H).WF := by
  refine ⟨fun s' a n hf => ?_, fun s' hs => by have := hw.2 s' hs; simpa using this⟩
  simp only [H.field] at hf
  by_cases he : s = s'
  · subst he
    by_cases hl : s < h.structs.length
    · simp [List.getElem?_set_self hl] at hf
      exact hv a n (by rw [hf])
    · have : (h.structs.set s v)[s]? = none := List.getElem?_eq_none (by simp; omega)
      simp [this] at hf
  · rw [List.getElem?_set_ne he] at hf
    exact hw.1 s' a n hf

theorem wf_setStore {h : H} (hw : h.WF) (s : Nat) (hs : s < h.structs.length) : ({ h with store := some s } : H).WF :=
  ⟨hw.1, fun s' e => by simp only [Option.some.injEq] at e; subst e; exact hs⟩

theorem wf_allocValue {h : H} (hw : h.WF) (l : List Item) : (h.allocValue l).1.WF :=
  wf_allocStruct (wf_allocList hw l).1 (wf_allocList hw l).2

theorem wf_full {h : H} (hw : h.WF) (l : List Item) : (full h l).1.WF :=
  wf_setStore (wf_allocValue hw l) _ (by rw [allocValue_snd, allocValue_slen]; exact Nat.lt_succ_self _)

theorem wf_dataCopy {h : H} (hw : h.WF) : (dataCopy h).1.WF := by
  unfold dataCopy
  cases h.store with
  | none => exact hw
  | some s => exact wf_allocStruct hw (validSlice_field hw s)

theorem wf_ensureStore {h : H} (hw : h.WF) : h.ensureStore.1.WF := by
  unfold H.ensureStore
  cases hst : h.store with
  | some s => exact hw
  | none =>
    have h1 : (h.allocStruct none).1.WF := wf_allocStruct hw (fun a n e => by cases e)
    exact wf_setStore h1 _ (by simp [H.allocStruct])

theorem wf_applyRes {h1 : H} (hw : h1.WF) (s : Nat) (persist : Bool) (inp : Nat) (r : Res) :
    (applyRes h1 s persist inp r).1.WF := by
  unfold applyRes
  dsimp only
  have hw2 : (h1.writeBack (h1.field s) r.inplace).WF := wf_writeBack hw _ _
  have hcur : ValidSlice (h1.writeBack (h1.field s) r.inplace) (h1.field s) :=
    validSlice_mono (by rw [writeBack_alen]; exact Nat.le_refl _) (validSlice_field hw s)
  generalize h1.writeBack (h1.field s) r.inplace = h2 at hw2 hcur
  have h3 : (if r.fresh = true then (h2.allocList r.out).1 else h2).WF ∧
      ValidSlice (if r.fresh = true then (h2.allocList r.out).1 else h2)
        (if r.fresh = true then (h2.allocList r.out).2 else h1.field s) := by
    split
    · exact wf_allocList hw2 r.out
    · exact ⟨hw2, hcur⟩
  generalize (if r.fresh = true then (h2.allocList r.out).1 else h2) = h3' at h3
  generalize (if r.fresh = true then (h2.allocList r.out).2 else h1.field s) = v at h3
  have h4 : (if (r.fresh && r.ok && persist) = true then { h3' with structs := h3'.structs.set s v } else h3').WF ∧
      ValidSlice (if (r.fresh && r.ok && persist) = true then { h3' with structs := h3'.structs.set s v } else h3') v := by
    split
    · exact ⟨wf_setField h3.1 s h3.2, h3.2⟩
    · exact h3
  generalize (if (r.fresh && r.ok && persist) = true then { h3' with structs := h3'.structs.set s v } else h3') = h4' at h4
  split
  · exact wf_allocStruct h4.1 h4.2
  · exact h4.1

theorem wf_engine {h : H} (hw : h.WF) (c : Cfg) (sh : Shape) (remote persist : Bool) (nw : List Item)
    (fp fd : Option Filter) (inp : Nat) : (engine c sh h remote persist nw fp fd inp).1.WF := by
  unfold engine
  dsimp only
  split
  · exact wf_ensureStore hw
  · exact wf_applyRes (wf_ensureStore hw) _ _ _ _

theorem wf_updateData {h : H} (hw : h.WF) (c : Cfg) (sh : Shape) (remote persist : Bool) (nw : List Item)
    (fp fd : FArg) : (updateData c sh h remote persist nw fp fd).1.WF := by
  unfold updateData
  dsimp only
  split
  · split
    · exact wf_setStore (wf_allocValue hw nw) _ (by rw [allocValue_snd, allocValue_slen]; exact Nat.lt_succ_self _)
    · exact wf_setStore (wf_allocStruct (wf_allocValue hw nw) (validSlice_field (wf_allocValue hw nw) _)) _
        (by simp [H.allocStruct])
  · exact wf_engine (wf_allocValue hw nw) _ _ _ _ _ _ _ _

/-! ### a merge-path update that does not persist, or fails, is a no-op on the stored data -/

theorem readStore_same {h h' : H} (e : Ext h h') (hw : h.WF) (hst : h'.store = h.store)
    (hf : ∀ s, h.store = some s → h'.field s = h.field s) : h'.readStore = h.readStore := by
  unfold H.readStore
  rw [hst]
  cases hs : h.store with
  | none => rfl
  | some s =>
    simp only [H.readStruct, hf s hs]
    exact slice_ext e _ (fun a n hv => hw.1 s a n hv)

theorem ensureStore_read (h : H) : h.ensureStore.1.readStore = h.readStore := by
  unfold H.ensureStore
  cases hst : h.store with
  | some s => rfl
  | none => simp [H.readStore, hst, H.readStruct, H.field, H.allocStruct, H.slice]

theorem applyRes_noop {h1 : H} (hw : h1.WF) (s : Nat) (persist : Bool) (inp : Nat) (r : Res) (hst : h1.store = some s)
    (hin : r.inplace = h1.slice (h1.field s)) (hno : persist = false ∨ r.ok = false) :
    (applyRes h1 s persist inp r).1.readStore = h1.readStore := by
  have e := applyRes_ext h1 s persist inp r hst hin
  have hs := hw.2 s hst
  apply readStore_same e hw
  · -- the store pointer is not moved by the engine
    unfold applyRes
    simp only [hin, writeBack_self]
    have hk : (r.fresh && r.ok && persist) = false := by rcases hno with h | h <;> simp [h]
    simp only [hk, Bool.false_eq_true, if_false]
    split <;> split <;> simp [H.allocStruct, allocList_store]
  · intro s' hs'
    rw [hst] at hs'; cases hs'
    unfold applyRes
    simp only [hin, writeBack_self]
    have hk : (r.fresh && r.ok && persist) = false := by rcases hno with h | h <;> simp [h]
    simp only [hk, Bool.false_eq_true, if_false]
    have hstr : (if r.fresh = true then (h1.allocList r.out).1 else h1).structs = h1.structs := by
      split
      · exact allocList_structs _ _
      · rfl
    generalize (if r.fresh = true then (h1.allocList r.out).1 else h1) = h3 at hstr
    split
    · rw [field_append]
      have : s ≠ h3.structs.length := by rw [hstr]; exact Nat.ne_of_lt hs
      rw [if_neg this]
      simp [H.field, hstr]
    · simp [H.field, hstr]

theorem engine_merge_noop (c : Cfg) (sh : Shape) {h : H} (hw : h.WF) (remote persist : Bool) (nw : List Item) (inp : Nat)
    (hnw : MergeNw sh nw)
    (hno : persist = false ∨ ∃ i o, (engine c sh h remote persist nw none none inp).2 = .done false i o) :
    (engine c sh h remote persist nw none none inp).1.readStore = h.readStore := by
  revert hno
  unfold engine
  simp only [updateListF_merge c.u sh remote _ nw hnw]
  intro hno
  rw [← ensureStore_read h]
  apply applyRes_noop (wf_ensureStore hw) _ _ _ _ (ensureStore_store h) rfl
  rcases hno with hp | ⟨i, o, hd⟩
  · exact Or.inl hp
  · right
    unfold applyRes at hd
    simp only at hd
    by_cases hok : (mergeF c.u sh remote (h.ensureStore.1.slice (h.ensureStore.1.field h.ensureStore.2)) nw).2 = true
    · simp [hok] at hd
    · simpa using hok

theorem allocValue_read {h : H} (hw : h.WF) (l : List Item) : (h.allocValue l).1.readStore = h.readStore := by
  apply readStore_same (ext_allocValue h l) hw (allocValue_store h l)
  intro s hs
  have := hw.2 s hs
  unfold H.allocValue
  rw [field_append]
  simp [allocList_structs, Nat.ne_of_lt this, H.field]

/-- C11 / C04 (partial): an identifier-based partial update or a non-persisting filter-less update (the merge path),
    local or remote, in every member of the family: if it does not persist, or fails, the stored data reads
    exactly as before -/
theorem updateData_merge_noop (c : Cfg) (sh : Shape) {h : H} (hw : h.WF) (remote persist : Bool) (nw : List Item)
    (fp fd : FArg) (hp : fp.toOpt = none) (hd : fd.toOpt = none) (hnw : MergeNw sh nw)
    (hnf : fastPath c (h.allocValue nw).1 remote persist fp fd = false)
    (hno : persist = false ∨ ∃ i o, (updateData c sh h remote persist nw fp fd).2 = .done false i o) :
    (updateData c sh h remote persist nw fp fd).1.readStore = h.readStore := by
  revert hno
  unfold updateData
  simp only [hnf, Bool.false_eq_true, if_false, hp, hd]
  intro hno
  rw [engine_merge_noop c sh (wf_allocValue hw nw) remote persist nw _ hnw hno]
  exact allocValue_read hw nw

/-! ### what the stored data reads after an engine call -/

theorem slice_writeBack (h : H) (a n : Nat) (ha : a < h.arrays.length) (ip : List Item)
    (hl : ip.length = (h.slice (some (a, n))).length) :
    (h.writeBack (some (a, n)) ip).slice (some (a, n)) = ip := by
  simp only [H.slice, H.writeBack, List.getElem?_set_self ha, Option.getD_some] at hl ⊢
  simp only [List.getElem?_eq_getElem ha, Option.getD_some, List.length_take] at hl ⊢
  rw [List.take_append]
  have h1 : ip.length ≤ n := by omega
  rw [List.take_of_length_le h1]
  have h2 : List.take (n - ip.length) (List.drop n h.arrays[a]) = [] := by
    by_cases hn : n ≤ h.arrays[a].length
    · have : n - ip.length = 0 := by omega
      simp [this]
    · have : h.arrays[a].length ≤ n := by omega
      simp [List.drop_of_length_le this]
  rw [h2, List.append_nil]

theorem slice_allocList_new (h : H) (l : List Item) : (h.allocList l).1.slice (h.allocList l).2 = l := by
  unfold H.allocList
  split
  · rename_i he
    simp only [H.slice]
    exact (List.isEmpty_iff.mp he).symm
  · simp [H.slice]

theorem slice_allocList_old (h : H) (l : List Item) (v : Slice) (hv : ValidSlice h v) :
    (h.allocList l).1.slice v = h.slice v := slice_ext (ext_allocList h l) v hv

theorem readStore_allocStruct (h : H) (v : Slice) (hs : ∀ s, h.store = some s → s < h.structs.length) :
    (h.allocStruct v).1.readStore = h.readStore := by
  unfold H.readStore
  show (match h.store with | none => [] | some s => (h.allocStruct v).1.readStruct s) = _
  cases hst : h.store with
  | none => rfl
  | some s =>
    have := hs s hst
    simp only [H.readStruct, field_append, Nat.ne_of_lt this, if_false]
    rfl

/-- the stored data after an engine call: the returned list if it is a fresh one and the call succeeded and
    persists, else the content of the stored array after the in-place writes -/
theorem applyRes_readStore {h1 : H} (hw : h1.WF) (s : Nat) (hst : h1.store = some s) (persist : Bool) (inp : Nat)
    (r : Res) (hlen : r.inplace.length = (h1.slice (h1.field s)).length) :
    (applyRes h1 s persist inp r).1.readStore = if r.fresh && r.ok && persist then r.out else r.inplace := by
  have hs := hw.2 s hst
  -- after the write-back the stored struct reads `r.inplace`
  have hw2 : (h1.writeBack (h1.field s) r.inplace).WF := wf_writeBack hw _ _
  have h2read : (h1.writeBack (h1.field s) r.inplace).slice (h1.field s) = r.inplace := by
    cases hf : h1.field s with
    | none =>
      rw [hf] at hlen
      simp only [H.slice, List.length_nil] at hlen
      simp [H.writeBack, H.slice, List.length_eq_zero_iff.mp hlen]
    | some an =>
      obtain ⟨a, n⟩ := an
      rw [hf] at hlen
      exact slice_writeBack h1 a n (hw.1 s a n hf) _ hlen
  have h2f : ∀ s', (h1.writeBack (h1.field s) r.inplace).field s' = h1.field s' := writeBack_field h1 _ _
  have h2st : (h1.writeBack (h1.field s) r.inplace).store = some s := by
    cases h1.field s with
    | none => exact hst
    | some an => exact hst
  have h2sl : (h1.writeBack (h1.field s) r.inplace).structs.length = h1.structs.length := by
    cases h1.field s with
    | none => rfl
    | some an => rfl
  unfold applyRes
  dsimp only
  generalize h1.writeBack (h1.field s) r.inplace = h2 at hw2 h2read h2f h2st h2sl
  have hcur : ValidSlice h2 (h1.field s) := by rw [← h2f s]; exact validSlice_field hw2 s
  by_cases hfr : r.fresh = true
  · simp only [hfr, if_true, Bool.true_and]
    have hw3 := wf_allocList hw2 r.out
    have h3st : (h2.allocList r.out).1.store = some s := by rw [allocList_store]; exact h2st
    have h3sl : (h2.allocList r.out).1.structs.length = h1.structs.length := by rw [allocList_structs]; exact h2sl
    have h3new := slice_allocList_new h2 r.out
    have h3old : (h2.allocList r.out).1.slice (h1.field s) = r.inplace := by
      rw [slice_allocList_old h2 r.out _ hcur]; exact h2read
    have h3f : (h2.allocList r.out).1.field s = h1.field s := by
      simp only [H.field, allocList_structs]; exact h2f s
    generalize h2.allocList r.out = q at hw3 h3st h3sl h3new h3old h3f
    obtain ⟨h3, v⟩ := q
    simp only at hw3 h3st h3sl h3new h3old h3f ⊢
    by_cases hk : (r.ok && persist) = true
    · simp only [hk, if_true]
      have h4read : ({ h3 with structs := h3.structs.set s v } : H).readStore = r.out := by
        simp only [H.readStore, h3st, H.readStruct, H.field]
        rw [List.getElem?_set_self (by omega)]
        exact h3new
      have h4s : ∀ s', ({ h3 with structs := h3.structs.set s v } : H).store = some s' →
          s' < ({ h3 with structs := h3.structs.set s v } : H).structs.length := by
        intro s' e; simp only at e; rw [h3st] at e; cases e; simp; omega
      split
      · rw [readStore_allocStruct _ _ h4s]; exact h4read
      · exact h4read
    · simp only [hk, Bool.false_eq_true, if_false]
      have h3read : h3.readStore = r.inplace := by
        simp only [H.readStore, h3st, H.readStruct, h3f]; exact h3old
      split
      · rw [readStore_allocStruct _ _ hw3.1.2]; exact h3read
      · exact h3read
  · have hfr' : r.fresh = false := by simpa using hfr
    simp only [hfr', Bool.false_eq_true, if_false, Bool.false_and]
    have h2r : h2.readStore = r.inplace := by
      simp only [H.readStore, h2st, H.readStruct, h2f s]; exact h2read
    split
    · rw [readStore_allocStruct _ _ hw2.2]; exact h2r
    · exact h2r

theorem ensureStore_slice (h : H) : h.ensureStore.1.slice (h.ensureStore.1.field h.ensureStore.2) = h.readStore := by
  unfold H.ensureStore
  cases hst : h.store with
  | some s => simp [H.readStore, hst, H.readStruct]
  | none => simp [H.readStore, hst, H.field, H.allocStruct, H.slice]

/-- the engine path in closed form on the stored data -/
theorem engine_readStore (c : Cfg) (sh : Shape) {h : H} (hw : h.WF) (remote persist : Bool) (nw : List Item)
    (fp fd : Option Filter) (inp : Nat) (r : Res) (hu : updateListF c.u sh remote h.readStore nw fp fd = .ok r)
    (hlen : r.inplace.length = h.readStore.length) :
    (engine c sh h remote persist nw fp fd inp).1.readStore = if r.fresh && r.ok && persist then r.out else r.inplace := by
  unfold engine
  dsimp only
  rw [ensureStore_slice, hu]
  exact applyRes_readStore (wf_ensureStore hw) _ (ensureStore_store h) persist inp r (by rw [ensureStore_slice]; exact hlen)

theorem engine_panic_readStore (c : Cfg) (sh : Shape) (h : H) (remote persist : Bool) (nw : List Item)
    (fp fd : Option Filter) (inp : Nat) (s : String) (hu : updateListF c.u sh remote h.readStore nw fp fd = .panic s) :
    (engine c sh h remote persist nw fp fd inp).1.readStore = h.readStore := by
  unfold engine
  dsimp only
  rw [ensureStore_slice, hu]
  exact ensureStore_read h

/-- C04, clause 1a on the store: a remote write that goes through the engine (any shape, any member of the family)
    keeps every element whose flag is not true, identical, in the stored data -/
theorem remote_engine_write_protects (c : Cfg) (sh : Shape) {h : H} (hw : h.WF) (persist : Bool) (nw : List Item)
    (fp fd : FArg) (hnf : fastPath c (h.allocValue nw).1 true persist fp fd = false) :
    ∀ e ∈ h.readStore, writeAllowed sh e = false → e ∈ (updateData c sh h true persist nw fp fd).1.readStore := by
  intro e he hwe
  unfold updateData
  simp only [hnf, Bool.false_eq_true, if_false]
  have hw0 := wf_allocValue hw nw
  have hr0 := allocValue_read hw nw
  generalize (h.allocValue nw).1 = h0 at hw0 hr0
  generalize (h.allocValue nw).2 = inp
  rw [← hr0] at he
  cases hu : updateListF c.u sh true h0.readStore nw fp.toOpt fd.toOpt with
  | panic s => rw [engine_panic_readStore c sh h0 true persist nw _ _ inp s hu]; exact he
  | ok r =>
    have hp := updateListF_remote_protects c.u sh _ nw _ _ r hu
    rw [engine_readStore c sh hw0 true persist nw _ _ inp r hu (Prot.length sh hp.1)]
    split
    · exact hp.2 e he hwe
    · exact Prot.mem sh hp.1 e he hwe

/-- in the member with the fast path closed for remote writes, no remote write to an existing store takes it -/
theorem fastPath_repaired (c : Cfg) (h : H) (persist : Bool) (fp fd : FArg) (hc : c.fastpathRemote = false)
    (hs : h.store.isSome = true) : fastPath c h true persist fp fd = false := by
  simp [fastPath, hc, hs]

/-! ### histories -/

inductive Op
  | copy
  | upd (remote persist : Bool) (nw : List Item) (fp fd : FArg)
deriving Repr

def stepOp (c : Cfg) (sh : Shape) (h : H) : Op → H
  | .copy => (dataCopy h).1
  | .upd remote persist nw fp fd => (updateData c sh h remote persist nw fp fd).1

def run (c : Cfg) (sh : Shape) (h : H) (ops : List Op) : H := ops.foldl (stepOp c sh) h

/-- ops that are safe for retained values whatever the state: a `DataCopy`; an update whose filters carry no
    selector / elements and whose items carry identifiers (replace or merge path); a filter-less persisting update
    that is certain to take the replace path -/
def Op.Safe (c : Cfg) (sh : Shape) : Op → Prop
  | .copy => True
  | .upd remote persist nw fp fd =>
    fp.toOpt = none ∧ fd.toOpt = none ∧
      (MergeNw sh nw ∨ (fp.isNil = true ∧ fd.isNil = true ∧ persist = true ∧ (remote = false ∨ c.fastpathRemote = true)))

theorem stepOp_safe_ext (c : Cfg) (sh : Shape) (h : H) (op : Op) (hs : op.Safe c sh) : Ext h (stepOp c sh h op) := by
  cases op with
  | copy => exact ext_dataCopy h
  | upd remote persist nw fp fd =>
    obtain ⟨hp, hd, hm⟩ := hs
    apply updateData_safe_ext
    rcases hm with hm | ⟨h1, h2, h3, h4⟩
    · exact Or.inr ⟨hp, hd, hm⟩
    · left
      rcases h4 with h4 | h4 <;> simp [fastPath, h1, h2, h3, h4]

theorem run_safe_ext (c : Cfg) (sh : Shape) : ∀ (ops : List Op) (h : H), (∀ op ∈ ops, op.Safe c sh) → Ext h (run c sh h ops)
  | [], h, _ => Ext.refl h
  | op :: ops, h, hs => by
    have h1 := stepOp_safe_ext c sh h op (hs op List.mem_cons_self)
    exact h1.trans (run_safe_ext c sh ops _ (fun o ho => hs o (List.mem_cons_of_mem _ ho)))

theorem wf_run (c : Cfg) (sh : Shape) : ∀ (ops : List Op) (h : H), h.WF → (run c sh h ops).WF
  | [], _, hw => hw
  | op :: ops, h, hw => by
    apply wf_run c sh ops
    cases op with
    | copy => exact wf_dataCopy hw
    | upd remote persist nw fp fd => exact wf_updateData hw c sh remote persist nw fp fd

/-- a `DataCopy` snapshot is a brand-new struct that reads the stored data and is not the stored struct -/
theorem dataCopy_snapshot {h : H} (hw : h.WF) (s : Nat) (hst : h.store = some s) :
    (dataCopy h).2 = some h.structs.length ∧ (dataCopy h).1.readStruct h.structs.length = h.readStore ∧
      (dataCopy h).1.store ≠ some h.structs.length ∧ h.structs.length < (dataCopy h).1.structs.length := by
  have hs := hw.2 s hst
  unfold dataCopy
  simp only [hst]
  refine ⟨rfl, ?_, ?_, by simp [H.allocStruct]⟩
  · simp only [H.readStruct, field_append, if_true, H.readStore, hst]
    rfl
  · simp only [H.allocStruct, hst, ne_eq, Option.some.injEq]
    omega

/-! ### the member whose fast path stores a copy: the store never points to a struct that was handed out -/

/-- the structs an `UpdateData` call hands to / leaves with the caller: the value handed in, the returned data -/
def UpdRes.handles : UpdRes → List Nat
  | .panic => []
  | .done _ i o => i :: o.toList

theorem applyRes_store (h1 : H) (s : Nat) (persist : Bool) (inp : Nat) (r : Res) :
    (applyRes h1 s persist inp r).1.store = h1.store := by
  unfold applyRes
  dsimp only
  have h2 : (h1.writeBack (h1.field s) r.inplace).store = h1.store := by
    cases h1.field s with
    | none => rfl
    | some an => rfl
  split <;> split <;> split <;> simp [H.allocStruct, allocList_store, h2]

theorem writeBack_slen (h : H) (cur : Slice) (ip : List Item) : (h.writeBack cur ip).structs.length = h.structs.length := by
  cases cur with
  | none => rfl
  | some an => rfl

/-- the handles of an engine result: the input, and on success a brand-new struct -/
theorem applyRes_handles (h1 : H) (s : Nat) (persist : Bool) (inp : Nat) (r : Res) :
    ∀ x ∈ (applyRes h1 s persist inp r).2.handles, x = inp ∨ x = h1.structs.length := by
  unfold applyRes
  dsimp only
  have hl : ∀ h3 : H, h3.structs.length = h1.structs.length → ∀ v : Slice,
      (if (r.fresh && r.ok && persist) = true then ({ h3 with structs := h3.structs.set s v } : H) else h3).structs.length
        = h1.structs.length := by
    intro h3 h3l v
    split <;> simp [h3l]
  have h3l : (if r.fresh = true then ((h1.writeBack (h1.field s) r.inplace).allocList r.out).1
      else h1.writeBack (h1.field s) r.inplace).structs.length = h1.structs.length := by
    split
    · rw [allocList_structs, writeBack_slen]
    · rw [writeBack_slen]
  intro x hx
  split at hx
  · simp only [UpdRes.handles, Option.toList, List.mem_cons, List.not_mem_nil, or_false, H.allocStruct] at hx
    rcases hx with rfl | rfl
    · exact Or.inl rfl
    · exact Or.inr (hl _ h3l _)
  · simp only [UpdRes.handles, Option.toList, List.mem_cons, List.not_mem_nil, or_false] at hx
    exact Or.inl hx

theorem applyRes_slen (h1 : H) (s : Nat) (persist : Bool) (inp : Nat) (r : Res) :
    (applyRes h1 s persist inp r).1.structs.length = h1.structs.length + (if r.ok then 1 else 0) := by
  unfold applyRes
  dsimp only
  have h3l : (if r.fresh = true then ((h1.writeBack (h1.field s) r.inplace).allocList r.out).1
      else h1.writeBack (h1.field s) r.inplace).structs.length = h1.structs.length := by
    split
    · rw [allocList_structs, writeBack_slen]
    · rw [writeBack_slen]
  generalize (if r.fresh = true then ((h1.writeBack (h1.field s) r.inplace).allocList r.out).1
      else h1.writeBack (h1.field s) r.inplace) = h3 at h3l
  generalize (if r.fresh = true then ((h1.writeBack (h1.field s) r.inplace).allocList r.out).2 else h1.field s) = v
  have h4l : (if (r.fresh && r.ok && persist) = true then ({ h3 with structs := h3.structs.set s v } : H) else h3).structs.length
      = h1.structs.length := by
    split <;> simp [h3l]
  cases hok : r.ok with
  | false =>
    simp only [hok, Bool.and_false, Bool.false_and, Bool.false_eq_true, if_false] at h4l ⊢
    simpa using h4l
  | true =>
    simp only [if_true, H.allocStruct, List.length_append, List.length_cons, List.length_nil]
    rw [hok] at h4l
    omega

theorem applyRes_handles_lt (h1 : H) (s : Nat) (persist : Bool) (inp : Nat) (r : Res) (hi : inp < h1.structs.length) :
    ∀ x ∈ (applyRes h1 s persist inp r).2.handles, x < (applyRes h1 s persist inp r).1.structs.length := by
  intro x hx
  rw [applyRes_slen]
  have hcases := applyRes_handles h1 s persist inp r x hx
  unfold applyRes at hx
  dsimp only at hx
  cases hok : r.ok with
  | true => rcases hcases with rfl | rfl <;> simp <;> omega
  | false =>
    simp only [hok, Bool.false_eq_true, if_false, UpdRes.handles, Option.toList, List.mem_cons, List.not_mem_nil, or_false] at hx
    subst hx; simp; omega

/-- every struct an `UpdateData` call hands out exists afterwards, and no struct disappears -/
theorem updateData_handles_lt (c : Cfg) (sh : Shape) (h : H) (remote persist : Bool) (nw : List Item) (fp fd : FArg) :
    h.structs.length ≤ (updateData c sh h remote persist nw fp fd).1.structs.length ∧
    ∀ x ∈ (updateData c sh h remote persist nw fp fd).2.handles, x < (updateData c sh h remote persist nw fp fd).1.structs.length := by
  have hi := allocValue_snd h nw
  have hl := allocValue_slen h nw
  unfold updateData
  dsimp only
  split
  · split
    · refine ⟨by simp only []; omega, fun x hx => ?_⟩
      simp only [UpdRes.handles, Option.toList, List.mem_cons, List.not_mem_nil, or_false, or_self] at hx
      simp only []; omega
    · refine ⟨by simp only [H.allocStruct, List.length_append, List.length_cons, List.length_nil]; omega, fun x hx => ?_⟩
      simp only [UpdRes.handles, Option.toList, List.mem_cons, List.not_mem_nil, or_false, or_self] at hx
      simp only [H.allocStruct, List.length_append, List.length_cons, List.length_nil]; omega
  · unfold engine
    dsimp only
    have he := (ext_ensureStore (h.allocValue nw).1).slen
    split
    · exact ⟨by simp only []; omega, fun x hx => by simp [UpdRes.handles] at hx⟩
    · rename_i r _
      refine ⟨by rw [applyRes_slen]; omega, ?_⟩
      exact applyRes_handles_lt _ _ persist _ r (by omega)

/-- where the store points after an `UpdateData` call of the member whose fast path stores a copy, and which
    structs the call handed out: the store is the old one or a brand-new private struct; every handle is new and is
    not the stored struct -/
theorem updateData_private (c : Cfg) (hc : c.fastpathAdopts = false) (sh : Shape) {h : H} (hw : h.WF)
    (remote persist : Bool) (nw : List Item) (fp fd : FArg) :
    (∀ x ∈ (updateData c sh h remote persist nw fp fd).2.handles, h.structs.length ≤ x) ∧
    (∀ s, (updateData c sh h remote persist nw fp fd).1.store = some s →
      (h.store = some s ∨ h.structs.length ≤ s) ∧ s ∉ (updateData c sh h remote persist nw fp fd).2.handles) := by
  have hi := allocValue_snd h nw
  have hl := allocValue_slen h nw
  have hst := allocValue_store h nw
  unfold updateData
  dsimp only
  split
  · -- fast path: the store points to a copy made for it
    simp only [hc, Bool.false_eq_true, if_false, UpdRes.handles, Option.toList, H.allocStruct, hi]
    refine ⟨fun x hx => ?_, fun s hs => ?_⟩
    · simp only [List.mem_cons, List.not_mem_nil, or_false, or_self] at hx
      omega
    · simp only [Option.some.injEq] at hs
      subst hs
      rw [hl]
      exact ⟨Or.inr (by omega), by simp⟩
  · -- engine path
    unfold engine
    dsimp only
    have hen : ∀ s, (h.allocValue nw).1.ensureStore.1.store = some s →
        s = (h.allocValue nw).1.ensureStore.2 ∧
        ((h.store = some s ∧ s < h.structs.length ∧ (h.allocValue nw).1.ensureStore.1.structs.length = h.structs.length + 1) ∨
         (s = h.structs.length + 1 ∧ (h.allocValue nw).1.ensureStore.1.structs.length = h.structs.length + 2)) := by
      intro s hs
      unfold H.ensureStore at hs ⊢
      cases hs0 : (h.allocValue nw).1.store with
      | some s0 =>
        simp only [hs0] at hs ⊢
        cases hs
        rw [hst] at hs0
        exact ⟨rfl, Or.inl ⟨hs0, hw.2 _ hs0, hl⟩⟩
      | none =>
        simp only [hs0] at hs ⊢
        simp only [Option.some.injEq] at hs
        subst hs
        exact ⟨rfl, Or.inr ⟨hl, by simp [H.allocStruct, hl]⟩⟩
    split
    · -- panic: nothing handed out
      refine ⟨fun x hx => by simp [UpdRes.handles] at hx, fun s hs => ⟨?_, by simp [UpdRes.handles]⟩⟩
      rcases (hen s hs).2 with ⟨h1, _, _⟩ | ⟨h1, _⟩
      · exact Or.inl h1
      · exact Or.inr (by omega)
    · rename_i r _
      have hh := applyRes_handles (h.allocValue nw).1.ensureStore.1 (h.allocValue nw).1.ensureStore.2 persist
        (h.allocValue nw).2 r
      refine ⟨fun x hx => ?_, fun s hs => ?_⟩
      · rcases hh x hx with rfl | rfl
        · rw [hi]; exact Nat.le_refl _
        · have := (ext_ensureStore (h.allocValue nw).1).slen
          omega
      · rw [applyRes_store] at hs
        obtain ⟨_, hcase⟩ := hen s hs
        refine ⟨?_, fun hmem => ?_⟩
        · rcases hcase with ⟨h1, _, _⟩ | ⟨h1, _⟩
          · exact Or.inl h1
          · exact Or.inr (by omega)
        · rcases hh s hmem with he | he
          · rw [hi] at he
            rcases hcase with ⟨_, h2, _⟩ | ⟨h2, _⟩ <;> omega
          · rcases hcase with ⟨_, h2, h3⟩ | ⟨h2, h3⟩ <;> omega

/-- histories that record every struct handed out -/
def stepH (c : Cfg) (sh : Shape) (st : H × List Nat) : Op → H × List Nat
  | .copy => ((dataCopy st.1).1, st.2 ++ (dataCopy st.1).2.toList)
  | .upd remote persist nw fp fd =>
    ((updateData c sh st.1 remote persist nw fp fd).1, st.2 ++ (updateData c sh st.1 remote persist nw fp fd).2.handles)

def runH (c : Cfg) (sh : Shape) (st : H × List Nat) (ops : List Op) : H × List Nat := ops.foldl (stepH c sh) st

theorem runH_fst (c : Cfg) (sh : Shape) : ∀ (ops : List Op) (st : H × List Nat), (runH c sh st ops).1 = run c sh st.1 ops
  | [], _ => rfl
  | op :: ops, st => by
    show (runH c sh (stepH c sh st op) ops).1 = run c sh (stepOp c sh st.1 op) ops
    rw [runH_fst c sh ops]
    cases op <;> rfl

/-- invariant: well-formed, every handed-out struct exists, none of them is the stored struct -/
def Private (st : H × List Nat) : Prop :=
  st.1.WF ∧ (∀ x ∈ st.2, x < st.1.structs.length) ∧ (∀ s, st.1.store = some s → s ∉ st.2)

theorem private_step (c : Cfg) (hc : c.fastpathAdopts = false) (sh : Shape) (st : H × List Nat) (hp : Private st)
    (op : Op) : Private (stepH c sh st op) := by
  obtain ⟨hw, hlt, hst⟩ := hp
  cases op with
  | copy =>
    refine ⟨wf_dataCopy hw, ?_, ?_⟩
    · intro x hx
      simp only [stepH, List.mem_append] at hx ⊢
      have hsl := (ext_dataCopy st.1).slen
      rcases hx with hx | hx
      · exact Nat.lt_of_lt_of_le (hlt x hx) hsl
      · unfold dataCopy at hx ⊢
        cases hs0 : st.1.store with
        | none => simp [hs0] at hx
        | some s0 =>
          simp only [hs0, Option.toList, List.mem_cons, List.not_mem_nil, or_false, H.allocStruct] at hx ⊢
          subst hx; simp
    · intro s hs
      simp only [stepH, List.mem_append, not_or] at hs ⊢
      unfold dataCopy at hs ⊢
      cases hs0 : st.1.store with
      | none => simp [hs0] at hs
      | some s0 =>
        simp only [hs0, H.allocStruct] at hs ⊢
        cases hs
        refine ⟨hst s hs0, ?_⟩
        simp only [Option.toList, List.mem_cons, List.not_mem_nil, or_false]
        exact Nat.ne_of_lt (hw.2 s hs0)
  | upd remote persist nw fp fd =>
    obtain ⟨hnew, hstore⟩ := updateData_private c hc sh hw remote persist nw fp fd
    have hwf := wf_updateData hw c sh remote persist nw fp fd
    refine ⟨hwf, ?_, ?_⟩
    · intro x hx
      simp only [stepH, List.mem_append] at hx ⊢
      obtain ⟨hmono, hnewlt⟩ := updateData_handles_lt c sh st.1 remote persist nw fp fd
      rcases hx with hx | hx
      · exact Nat.lt_of_lt_of_le (hlt x hx) hmono
      · exact hnewlt x hx
    · intro s hs
      simp only [stepH, List.mem_append, not_or] at hs ⊢
      obtain ⟨hcase, hnot⟩ := hstore s hs
      refine ⟨?_, hnot⟩
      rcases hcase with h1 | h1
      · exact hst s h1
      · intro hmem
        have := hlt s hmem
        omega

theorem private_run (c : Cfg) (hc : c.fastpathAdopts = false) (sh : Shape) :
    ∀ (ops : List Op) (st : H × List Nat), Private st → Private (runH c sh st ops)
  | [], _, hp => hp
  | op :: ops, st, hp => private_run c hc sh ops _ (private_step c hc sh st hp op)

theorem private_empty : Private (({} : H), []) :=
  ⟨wf_empty, fun x hx => (by cases hx), fun s hs => (by cases hs)⟩

end Spine.Heap
