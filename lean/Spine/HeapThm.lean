import Spine.Heap
namespace Spine.Heap
open Spine

def lcShape : Shape :=
  { n := 5, keys := [(0, .uint)], flag := some 1, selMap := [some 0], elN := 5, elMap := [some 0, some 1, some 2, some 3, some 4] }

/-- C11 refuted: a snapshot taken with DataCopy changes when a later selector update is applied -/
theorem snapshot_changes_witness :
    let h0 : H := {}
    let (h1, _) := full h0 [[some 1, some 1, some 0, none, none]]
    let (h2, snap) := dataCopy h1
    let before := h2.readStruct (snap.getD 0)
    let (h3, _) := update lcShape h2 false true [[none, none, some 1, none, none]]
                     (some { sel := some [some 1], el := none }) none
    h3.readStruct (snap.getD 0) ≠ before := by decide

/-- C11 refuted: an update requested without persistence modifies the stored data -/
theorem nonpersist_modifies_witness :
    let h0 : H := {}
    let (h1, s) := full h0 [[some 1, some 1, some 0, none, none]]
    let (h2, _) := update lcShape h1 false false [[none, none, some 1, none, none]] none none
    h2.readStruct s ≠ h1.readStruct s := by decide

/-- on the merge path the engine does not write into the caller's array -/
theorem updateList_merge_inplace (sh : Shape) (remote : Bool) (ex nw : List Item) (r : Res)
    (hnw : ∀ n0 rest, nw = n0 :: rest → hasIdentifiers sh n0 = true)
    (h : updateList sh remote ex nw none none = .ok r) : r.inplace = ex := by
  unfold updateList at h
  simp only at h
  cases nw with
  | nil => simp only at h; injection h with h; rw [← h]
  | cons n0 rest =>
    have := hnw n0 rest rfl
    simp only [this, Bool.not_true, Bool.false_eq_true, if_false] at h
    injection h with h; rw [← h]

theorem set_take_drop {α} (l : List (List α)) (a n : Nat) (ha : a < l.length) :
    l.set a ((l[a]?.getD []).take n ++ (l[a]?.getD []).drop n) = l := by
  rw [List.take_append_drop]
  simp [List.getElem?_eq_getElem ha]

/-- C11 (partial): an identifier-based partial update or a non-persisting full update without filters — the
    merge path — leaves every backing array that existed before exactly as it was; hence every snapshot taken
    earlier still reads the same -/
theorem update_merge_arrays (sh : Shape) (h : H) (remote persist : Bool) (nw : List Item)
    (hnw : ∀ n0 rest, nw = n0 :: rest → hasIdentifiers sh n0 = true)
    (hwf : ∀ s a n, h.store = some s → (h.structs[s]?).join = some (a, n) → a < h.arrays.length)
    (a : Nat) (ha : a < h.arrays.length) :
    (update sh h remote persist nw none none).1.arrays[a]? = h.arrays[a]? := by
  unfold update
  cases hst : h.store with
  | none =>
    -- a fresh, empty struct: nothing exists to be written into
    simp only [H.newStruct]
    have hjoin : ((h.structs ++ [none])[h.structs.length]?).join = (none : Option (Nat × Nat)) := by simp
    simp only [hjoin, H.slice]
    cases hu : updateList sh remote [] nw none none with
    | panic s => rfl
    | ok r =>
      simp only
      split
      · split
        · split
          · rfl
          · simp only [H.newArr]
            rw [List.getElem?_append_left ha]
        · rfl
      · rfl
  | some s =>
    simp only
    cases hcur : (h.structs[s]?).join with
    | none =>
      simp only [H.slice]
      cases hu : updateList sh remote [] nw none none with
      | panic s => rfl
      | ok r =>
        simp only
        split
        · split
          · split
            · rfl
            · simp only [H.newArr]
              rw [List.getElem?_append_left ha]
          · rfl
        · rfl
    | some an =>
      obtain ⟨a0, n⟩ := an
      have ha0 := hwf s a0 n hst hcur
      simp only [H.slice]
      cases hu : updateList sh remote ((h.arrays[a0]?.getD []).take n) nw none none with
      | panic s => rfl
      | ok r =>
        have hin := updateList_merge_inplace sh remote _ nw r hnw hu
        simp only [hin, set_take_drop h.arrays a0 n ha0]
        split
        · split
          · split
            · rfl
            · simp only [H.newArr]
              rw [List.getElem?_append_left ha]
          · rfl
        · rfl

end Spine.Heap
