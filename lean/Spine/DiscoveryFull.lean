import Spine.DiscoveryTree
/-! C06, repaired member, full notifications at content level: entities not listed are absent, listed-and-known entities
    are exactly as they were, listed-and-unknown entities exist with exactly the listed features. Also: what
    `SetOperations` stores is, per function, the last announcement that carries `possibleOperations`. -/
namespace Spine.Disc

/-- SPEC of a full notification, one address at a time -/
def specFull (m : Msg) (a : List Nat) (cur : Option E) : Option E :=
  match cur with
  | some e => if a ∈ m.ents.map (·.addr) then some e else none
  | none => (m.ents.filter (·.addr = a)).foldl (fun c ei => specEntity m a c { ei with chg := .added }) none

theorem specEntity_fold_removed (m : Msg) (a : List Nat) : ∀ (l : List EI) (cur : Option E),
    (∀ ei ∈ l, ei.chg = .removed) → l.foldl (specEntity m a) cur = if a ∈ l.map (·.addr) then none else cur
  | [], _, _ => by simp
  | ei :: l, cur, h => by
    have h1 : ei.chg = .removed := h ei (List.mem_cons_self ..)
    rw [List.foldl_cons, specEntity_fold_removed m a l _ (fun x hx => h x (List.mem_cons_of_mem _ hx))]
    by_cases ha : ei.addr = a
    · subst ha; simp [specEntity, h1]
    · have : ¬ a = ei.addr := fun h' => ha h'.symm
      simp [specEntity, ha, this]

/-- entries about other addresses can be dropped from a per-address fold -/
theorem fold_filter_addr {σ : Type} (s : σ → EI → σ) (a : List Nat) (hs : ∀ c ei, ei.addr ≠ a → s c ei = c) :
    ∀ (l : List EI) (c : σ), l.foldl s c = (l.filter (·.addr = a)).foldl s c
  | [], _ => rfl
  | ei :: l, c => by
    by_cases ha : ei.addr = a
    · simp only [List.foldl_cons, List.filter_cons, ha, decide_true, if_true]
      exact fold_filter_addr s a hs l _
    · simp only [List.foldl_cons, List.filter_cons, ha, decide_false, hs c ei ha]
      exact fold_filter_addr s a hs l c

theorem foldl_congr_mem {σ α : Type} (f g : σ → α → σ) : ∀ (l : List α) (c : σ),
    (∀ c, ∀ x ∈ l, f c x = g c x) → l.foldl f c = l.foldl g c
  | [], _, _ => rfl
  | x :: l, c, h => by
    rw [List.foldl_cons, List.foldl_cons, h c x (List.mem_cons_self ..)]
    exact foldl_congr_mem f g l _ (fun c y hy => h c y (List.mem_cons_of_mem _ hy))

/-- the removed part of the diff names exactly the known addresses that the notification does not list -/
theorem mem_removedPart (m : Msg) (t : Tree) (a : List Nat) :
    a ∈ List.map (fun x => x.addr) (List.map (fun e => ({ addr := e.addr, typ := e.typ, chg := .removed, desc := none } : EI))
        (List.filter (fun e => !(List.map (fun x => x.addr) (List.filter (fun ei => (findE t ei.addr).isSome) m.ents)).contains e.addr) t))
      ↔ a ∈ addrs t ∧ a ∉ m.ents.map (·.addr) := by
  simp only [List.map_map, List.mem_map, List.mem_filter, Function.comp, List.contains_eq_mem,
    Bool.not_eq_true', decide_eq_false_iff_not, addrs]
  constructor
  · rintro ⟨e0, ⟨he0, hne⟩, rfl⟩
    refine ⟨⟨e0, he0, rfl⟩, ?_⟩
    rintro ⟨ei, hei, hea⟩
    apply hne
    refine ⟨ei, ⟨hei, ?_⟩, hea⟩
    rw [hea]
    exact (findE_isSome_iff t e0.addr).mpr (List.mem_map.mpr ⟨e0, he0, rfl⟩)
  · rintro ⟨⟨e0, he0, rfl⟩, hnl⟩
    refine ⟨e0, ⟨he0, ?_⟩, rfl⟩
    rintro ⟨ei, ⟨hei, _⟩, hea⟩
    exact hnl ⟨ei, hei, hea⟩

/-- C06 (repaired), full notification, content level: for every tree, every message and every address -/
theorem c06_full_tree (m : Msg) (t : Tree) (a : List Nat) :
    findE (notifyFullFixed m t).1 a = specFull m a (findE t a) := by
  rw [notifyFullFixed_tree]
  have hsplit : (fullDiff m t).ents =
      ((m.ents.filter fun ei => (findE t ei.addr).isNone).map fun ei => { ei with chg := Chg.added }) ++
      ((t.filter fun e => !((m.ents.filter fun ei => (findE t ei.addr).isSome).map (·.addr)).contains e.addr).map
        fun e => ({ addr := e.addr, typ := e.typ, chg := .removed, desc := none } : EI)) := rfl
  rw [c06_tree_refines, hsplit, List.foldl_append]
  rw [specEntity_fold_removed _ _ _ _ (by intro ei h; obtain ⟨e, _, rfl⟩ := List.mem_map.mp h; rfl)]
  dsimp only
  cases hf : findE t a with
  | some e =>
    have hat : a ∈ addrs t := (findE_isSome_iff t a).mp (by rw [hf]; rfl)
    -- the added part does not mention a known address
    rw [specEntity_untouched _ a _ _ (by
      intro ei h
      obtain ⟨e0, he0, rfl⟩ := List.mem_map.mp h
      have hn : (findE t e0.addr).isNone = true := (List.mem_filter.mp he0).2
      intro heq
      simp only at heq
      rw [heq, hf] at hn
      exact absurd hn (by simp))]
    simp only [specFull]
    by_cases hl : a ∈ m.ents.map (·.addr)
    · rw [if_neg (fun h => ((mem_removedPart m t a).mp h).2 hl), if_pos hl]
    · rw [if_pos ((mem_removedPart m t a).mpr ⟨hat, hl⟩), if_neg hl]
  | none =>
    have hat : a ∉ addrs t := (findE_none_iff t a).mp hf
    -- the removed part does not mention an unknown address
    rw [if_neg (fun h => hat ((mem_removedPart m t a).mp h).1)]
    simp only [specFull]
    rw [List.foldl_map]
    rw [fold_filter_addr (fun c ei => specEntity (fullDiff m t) a c { ei with chg := Chg.added }) a
      (by intro c ei h; simp [specEntity, h])]
    have hff : List.filter (fun x => decide (x.addr = a)) (List.filter (fun ei => (findE t ei.addr).isNone) m.ents)
        = List.filter (fun x => decide (x.addr = a)) m.ents := by
      rw [List.filter_filter]
      apply List.filter_congr
      intro x _
      by_cases hx : x.addr = a
      · simp [hx, hf]
      · simp [hx]
    rw [hff]
    apply foldl_congr_mem
    intro c ei hei
    obtain ⟨hei, hea⟩ := List.mem_filter.mp hei
    have hea : ei.addr = a := by simpa using hea
    simp only [specEntity, hea, if_true]
    congr 2
    -- the diff keeps the features of added entities
    show List.filter (fun x => decide (x.ent = a)) (fullDiff m t).feats = List.filter (fun x => decide (x.ent = a)) m.feats
    simp only [fullDiff]
    rw [List.filter_filter]
    apply List.filter_congr
    intro f _
    by_cases hfe : f.ent = a
    · have : a ∈ List.map (fun x => x.addr) (List.filter (fun ei => (findE t ei.addr).isNone) m.ents) :=
        List.mem_map.mpr ⟨ei, List.mem_filter.mpr ⟨hei, by rw [hea, hf]; rfl⟩, hea⟩
      simp [hfe, this]
    · simp [hfe]

/-- non-vacuity: [1] is known and not listed, [2] is unknown and listed with a feature, [0] is known and listed with
    different features (it stays as it was) -/
example : (notifyFullFixed ⟨[⟨[0], 0, .none, none⟩, ⟨[2], 3, .none, some 1⟩], [⟨[0], 5, 5, 5, none, []⟩, ⟨[2], 1, 1, 1, none, [(1, 4)]⟩]⟩
    [⟨[0], 0, none, [⟨[0], 0, 9, 2, none, []⟩]⟩, ⟨[1], 2, none, []⟩]).1
    = [⟨[0], 0, none, [⟨[0], 0, 9, 2, none, []⟩]⟩, ⟨[2], 3, some 1, [⟨[2], 1, 1, 1, none, [(1, 4)]⟩]⟩] := by decide

/-! ### announced operations -/

def opsLookup (fn : Nat) (l : List (Nat × Nat)) : Option Nat := (l.find? (·.1 = fn)).map (·.2)

/-- SPEC: the operations of function `fn` are those of its last announcement that carries `possibleOperations` -/
def specOpsStep (fn : Nat) (cur : Option Nat) (x : Nat × Option Nat) : Option Nat :=
  if x.1 = fn then (match x.2 with | some b => some b | none => cur) else cur

def specOps (fn : Nat) (l : List (Nat × Option Nat)) : Option Nat := l.foldl (specOpsStep fn) none

theorem lookup_insertOp (fn b g : Nat) : ∀ (acc : List (Nat × Nat)),
    opsLookup g (insertOp fn b acc) = if fn = g then some b else opsLookup g acc
  | [] => by
    by_cases h : fn = g <;> simp [insertOp, opsLookup, h]
  | (g', c) :: rest => by
    simp only [insertOp]
    split
    · by_cases h : fn = g <;> simp [opsLookup, h]
    · split
      · rename_i heq
        subst heq
        by_cases h : fn = g <;> simp [opsLookup, h]
      · rename_i hne
        have ih := lookup_insertOp fn b g rest
        by_cases h2 : g' = g
        · subst h2
          have : ¬ fn = g' := hne
          simp [opsLookup, this]
        · simp only [opsLookup, List.find?_cons, h2, decide_false] at ih ⊢
          exact ih

theorem c06_operations_refines (fn : Nat) : ∀ (l : List (Nat × Option Nat)) (acc : List (Nat × Nat)),
    opsLookup fn (l.foldl setOpsStep acc) = l.foldl (specOpsStep fn) (opsLookup fn acc)
  | [], _ => rfl
  | x :: l, acc => by
    rw [List.foldl_cons, List.foldl_cons, c06_operations_refines fn l]
    congr 1
    unfold setOpsStep specOpsStep
    cases hx : x.2 with
    | none => by_cases h : x.1 = fn <;> simp [h]
    | some b => simp only [lookup_insertOp]

/-- C06: the operations the API reports for a function are exactly the announced ones -/
theorem c06_operations (fn : Nat) (l : List (Nat × Option Nat)) : opsLookup fn (setOps l) = specOps fn l :=
  c06_operations_refines fn l []

example : setOps [(5, some 3), (6, none), (5, some 4), (2, some 1), (5, none)] = [(2, 1), (5, 4)] := by decide

end Spine.Disc
