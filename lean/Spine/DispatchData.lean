import Spine.DispatchHist
/-! C01, "the reply carries the addressed function's CURRENT data": abstract data values in `Spine.Disp`
    (`W.data`: per local feature and function the identity of the operation that set it). -/
namespace Spine.Disp

/-- a read of a function a server / special (non node-management) feature holds is answered with exactly one reply,
    and that reply carries the value the world holds for that function at that moment -/
theorem c01_reply_current_data (w : W) (p : Nat) (d : Dg) (lf : LF) (rf : RF) (hsrc : srcF w p d = some rf)
    (hdst : dstF w d = some lf) (hr : d.cls = .read) (hnm : lf.nm = false) (hrole : lf.role ≠ .client)
    (hf : lf.fds.contains d.fn = true) (hnc : NoCrash w d) :
    (processCmd w p d).2 = [(p, .reply d.ctr d.fn d.dst d.src (w.data d.dst d.fn) (some 0))] := by
  have hpan : crashes w p lf rf d = false := crashes_false w p lf rf d hnc
  have hf' : d.fn ∈ lf.fds := by simpa using hf
  have hh : handle lf rf d = (none, true) := by simp [handle, hnm, handleF, hr, hrole, hf']
  have hresp : responses w p lf rf d = [.reply d.ctr d.fn d.dst d.src (w.data d.dst d.fn) (some 0)] := by
    simp [responses, hr, hh, replyVal, hnm]
  have hwr : wantsRead w p lf rf d = false := by simp [wantsRead, hr]
  have happ : applies w p lf d = false := by simp [applies, hr]
  unfold processCmd
  simp [hsrc, hdst, hpan, hresp, hwr, happ, tag]

theorem data_setPeer (w : W) (p : Nat) (pr : Peer) : (setPeer w p pr).data = w.data := rfl
theorem data_bump (w : W) (outs : List (Nat × Out)) : (bump w outs).data = w.data := rfl

theorem data_record (w w' : W) (b : Bool) (d : Dg) (h : w'.data = w.data) :
    (record w' b d).data = if b then setData w.data d.dst d.fn d.val else w.data := by
  unfold record; split <;> simp [h]

/-- does the datagram set data: a write that reaches the feature, passes the gate and is accepted by the engine -/
def accepts (w : W) (p : Nat) (d : Dg) : Bool :=
  match srcF w p d, dstF w d with
  | some rf, some lf => !crashes w p lf rf d && applies w p lf d
  | _, _ => false

theorem data_processCmd (w : W) (p : Nat) (d : Dg) :
    (processCmd w p d).1.data = if accepts w p d then setData w.data d.dst d.fn d.val else w.data := by
  unfold processCmd accepts
  cases hsrc : srcF w p d with
  | none => simp [data_setPeer]
  | some rf =>
    cases hdst : dstF w d with
    | none =>
      simp only []
      split
      · simp [data_setPeer]
      · split <;> simp [data_setPeer, data_bump]
    | some lf =>
      simp only []
      by_cases hc : crashes w p lf rf d = true
      · simp [hc, data_setPeer]
      · have hc' : crashes w p lf rf d = false := by simpa using hc
        rw [if_neg hc]
        simp only [hc', Bool.not_false, Bool.true_and]
        split
        · cases hreq : request ((bump (record (setPeer w p (answered (w.peers p) d.ref)) (applies w p lf d) d)
              ((if applies w p lf d = true then notifs w d else []) ++ tag p (responses w p lf rf d))).peers p) d.src d.fn with
          | mk pr' sent => simp only [data_setPeer, data_bump]; exact data_record w _ _ d rfl
        · simp only [data_bump]; exact data_record w _ _ d rfl

/-- the (feature, function, value) an operation sets in world `w`, if any: an accepted remote write or a `SetData` /
    `UpdateData` of the local application on a function the feature holds -/
def dataSet (w : W) : Op → Option (Addr × Nat × Nat)
  | .dg p d => if accepts w p d then some (d.dst, d.fn, d.val) else none
  | .setData a fn v =>
    match locF w a with
    | some lf => if lf.fds.contains fn && !lf.nm then some (a, fn, v) else none
    | none => none
  | _ => none

def applySet (f : Addr → Nat → Nat) : Option (Addr × Nat × Nat) → Addr → Nat → Nat
  | some (a, fn, v) => setData f a fn v
  | none => f

/-- nothing but an accepted write or a local set changes any data, and these change exactly the addressed value -/
theorem data_step (w : W) (op : Op) : (step w op).1.data = applySet w.data (dataSet w op) := by
  cases op with
  | dg p d =>
    simp only [step, dataSet, data_processCmd]
    split <;> rfl
  | call p ctr ack k =>
    simp only [step, dataSet, applySet, processCall]
    split
    · rfl
    · split
      · cases k <;> rfl
      · rfl
  | entRem p e ctr ack =>
    simp only [step, dataSet, applySet, processEntRem]
    split
    · rfl
    · simp only [bump]; split <;> rfl
  | entAdd p e ctr ack => simp only [step, dataSet, applySet, processEntAdd]; split <;> rfl
  | drop p => rfl
  | conn p => simp only [step, dataSet, applySet, connPeer]; split <;> rfl
  | reann p ctr ref ack => simp only [step, dataSet, applySet, processReann]; split <;> rfl
  | full p keep ctr ack =>
    simp only [step, dataSet, applySet, processFull]
    split
    · rfl
    · split <;> rfl
  | setData a fn v =>
    simp only [step, dataSet, localSet]
    cases locF w a with
    | none => rfl
    | some lf =>
      simp only []
      split <;> rfl

/-- the data-setting events of a history -/
def dtrace : W → List Op → List (Option (Addr × Nat × Nat))
  | _, [] => []
  | w, op :: ops => dataSet w op :: dtrace (step w op).1 ops

/-- SPEC: the value of (feature, function) after a sequence of set events = the value of the last event that
    addressed it, the initial value if none did -/
def lastSet (a : Addr) (fn : Nat) (init : Nat) (evs : List (Option (Addr × Nat × Nat))) : Nat :=
  evs.foldl (fun cur ev => match ev with
    | some (a', fn', v) => if a' = a ∧ fn' = fn then v else cur
    | none => cur) init

theorem data_run (ops : List Op) : ∀ (w : W) (a : Addr) (fn : Nat),
    (run w ops).data a fn = lastSet a fn (w.data a fn) (dtrace w ops) := by
  induction ops with
  | nil => intro w a fn; rfl
  | cons op ops ih =>
    intro w a fn
    show (run (step w op).1 ops).data a fn = _
    rw [ih, data_step]
    simp only [dtrace, lastSet, List.foldl_cons]
    cases dataSet w op with
    | none => rfl
    | some t =>
      obtain ⟨a', fn', v⟩ := t
      simp only [applySet, setData]
      by_cases h : a = a' ∧ fn = fn'
      · obtain ⟨rfl, rfl⟩ := h; simp
      · have h' : ¬ (a' = a ∧ fn' = fn) := fun hh => h ⟨hh.1.symm, hh.2.symm⟩
        simp [h, h']

/-- C01 over histories: after any history, a read of a function a server / special feature holds is answered with
    exactly one reply carrying the value last written (by an accepted write) or set (by the local application) -/
theorem c01_reply_last_set (w0 : W) (ops : List Op) (p : Nat) (d : Dg) (lf : LF) (rf : RF)
    (hsrc : srcF (run w0 ops) p d = some rf) (hdst : dstF (run w0 ops) d = some lf) (hr : d.cls = .read)
    (hnm : lf.nm = false) (hrole : lf.role ≠ .client) (hf : lf.fds.contains d.fn = true) (hnc : NoCrash w0 d) :
    (processCmd (run w0 ops) p d).2 =
      [(p, .reply d.ctr d.fn d.dst d.src (lastSet d.dst d.fn (w0.data d.dst d.fn) (dtrace w0 ops)) (some 0))] := by
  rw [← data_run]
  exact c01_reply_current_data _ p d lf rf hsrc hdst hr hnm hrole hf (by intro h; rw [cfg_run] at h; exact hnc h)

end Spine.Disp
