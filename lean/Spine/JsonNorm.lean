import Spine.JsonThm
/-!
# What exactly the JSON round trip changes (C18, second sentence: "absent and empty lists are not distinguished")

`Spine.Json.decode_encode` says `decode t (encode t v) = some (norm t v)`, `norm_equiv` that `norm t v` is
`v` up to absent / empty lists. This file makes the allowance precise:

* `hasEmptyOmit t v` — the value holds, somewhere, an EMPTY NON-NIL list in a field tagged `omitempty`;
* `norm_eq_self` — if it does not, the round trip is the identity (`norm t v = v`);
* `norm_ne_self` — if it does, the round trip does change the value: the criterion is exact;
* `norm_clean`, `typed_norm`, `norm_idem` — a decoded value has no such list, is well typed, and is a fixed
  point: whatever came off the wire once is re-encoded and decoded without any change;
* `equivV_symm` — the equivalence is symmetric (reflexivity is `equivV_refl`).

Hand-written, independent of the regenerated schema.
-/
namespace Spine.Json

mutual
/-- some `omitempty` field holds an empty, non-nil list -/
def hasEmptyOmit : Ty → V → Bool
  | .ptr t, .some v => hasEmptyOmit t v
  | .slice t, .list vs => hasEmptyOmitList t vs
  | .struct fs, .strct vs => hasEmptyOmitFields fs vs
  | _, _ => false
def hasEmptyOmitList : Ty → List V → Bool
  | _, [] => false
  | t, v :: vs => hasEmptyOmit t v || hasEmptyOmitList t vs
def hasEmptyOmitFields : List (Key × Bool × Ty) → List V → Bool
  | (_, oe, t) :: fs, v :: vs =>
    (oe && (match v with | .list [] => true | _ => false)) || hasEmptyOmit t v || hasEmptyOmitFields fs vs
  | _, _ => false
end

def isEmptyList : V → Bool
  | .list [] => true
  | _ => false

theorem isEmptyV_cases (v : V) : isEmptyV v = true → v = .nil ∨ v = .list [] := by
  intro h
  match v with
  | .nil => exact Or.inl rfl
  | .list [] => exact Or.inr rfl
  | .list (_ :: _) => simp [isEmptyV] at h
  | .str _ | .num _ | .bool _ | .some _ | .strct _ => simp [isEmptyV] at h

mutual
/-- Without an empty `omitempty` list the normal form is the value itself: the JSON round trip is the
    identity. -/
theorem norm_eq_self (t : Ty) (v : V) (ht : typed t v = true) (h : hasEmptyOmit t v = false) :
    norm t v = v := by
  match t, v with
  | .ptr t, .some v =>
    simp only [typed] at ht
    simp only [hasEmptyOmit] at h
    simp [norm, norm_eq_self t v ht h]
  | .slice t, .list vs =>
    simp only [typed] at ht
    simp only [hasEmptyOmit] at h
    simp [norm, normList_eq_self t vs ht h]
  | .struct fs, .strct vs =>
    simp only [typed] at ht
    simp only [hasEmptyOmit] at h
    simp [norm, normFields_eq_self fs vs ht h]
  | .str, v | .num, v | .bool, v => simp [norm]
  | .ptr _, .nil | .ptr _, .str _ | .ptr _, .num _ | .ptr _, .bool _ | .ptr _, .list _ | .ptr _, .strct _ =>
    simp [norm]
  | .slice _, .nil | .slice _, .str _ | .slice _, .num _ | .slice _, .bool _ | .slice _, .some _ | .slice _, .strct _ =>
    simp [norm]
  | .struct _, .nil | .struct _, .str _ | .struct _, .num _ | .struct _, .bool _ | .struct _, .some _ | .struct _, .list _ =>
    simp [norm]
theorem normList_eq_self (t : Ty) (vs : List V) (ht : typedList t vs = true)
    (h : hasEmptyOmitList t vs = false) : normList t vs = vs := by
  match vs with
  | [] => simp [normList]
  | v :: vs =>
    simp only [typedList, Bool.and_eq_true] at ht
    simp only [hasEmptyOmitList, Bool.or_eq_false_iff] at h
    simp [normList, norm_eq_self t v ht.1 h.1, normList_eq_self t vs ht.2 h.2]
theorem normFields_eq_self (fs : List (Key × Bool × Ty)) (vs : List V) (ht : typedFields fs vs = true)
    (h : hasEmptyOmitFields fs vs = false) : normFields fs vs = vs := by
  match fs, vs with
  | [], [] => simp [normFields]
  | [], _ :: _ => simp [typedFields] at ht
  | _ :: _, [] => simp [typedFields] at ht
  | (name, oe, t) :: fs, v :: vs =>
    simp only [typedFields, Bool.and_eq_true] at ht
    simp only [hasEmptyOmitFields, Bool.or_eq_false_iff] at h
    obtain ⟨⟨h1, h2⟩, h3⟩ := h
    have hrest := normFields_eq_self fs vs ht.2 h3
    simp only [normFields, hrest]
    by_cases hom : (oe && isEmptyV v) = true
    · simp only [hom, if_true]
      simp only [Bool.and_eq_true] at hom
      rcases isEmptyV_cases v hom.2 with rfl | rfl
      · rfl
      · simp [hom.1] at h1
    · simp [hom, norm_eq_self t v ht.1 h2]
end

mutual
/-- The criterion is exact: with an empty `omitempty` list somewhere, the round trip changes the value. -/
theorem norm_ne_self (t : Ty) (v : V) (h : hasEmptyOmit t v = true) : norm t v ≠ v := by
  match t, v with
  | .ptr t, .some v =>
    simp only [hasEmptyOmit] at h
    simp only [norm, ne_eq, V.some.injEq]
    exact norm_ne_self t v h
  | .slice t, .list vs =>
    simp only [hasEmptyOmit] at h
    simp only [norm, ne_eq, V.list.injEq]
    exact normList_ne_self t vs h
  | .struct fs, .strct vs =>
    simp only [hasEmptyOmit] at h
    simp only [norm, ne_eq, V.strct.injEq]
    exact normFields_ne_self fs vs h
  | .str, v | .num, v | .bool, v => simp [hasEmptyOmit] at h
  | .ptr _, .nil | .ptr _, .str _ | .ptr _, .num _ | .ptr _, .bool _ | .ptr _, .list _ | .ptr _, .strct _ =>
    simp [hasEmptyOmit] at h
  | .slice _, .nil | .slice _, .str _ | .slice _, .num _ | .slice _, .bool _ | .slice _, .some _ | .slice _, .strct _ =>
    simp [hasEmptyOmit] at h
  | .struct _, .nil | .struct _, .str _ | .struct _, .num _ | .struct _, .bool _ | .struct _, .some _ | .struct _, .list _ =>
    simp [hasEmptyOmit] at h
theorem normList_ne_self (t : Ty) (vs : List V) (h : hasEmptyOmitList t vs = true) : normList t vs ≠ vs := by
  match vs with
  | [] => simp [hasEmptyOmitList] at h
  | v :: vs =>
    simp only [hasEmptyOmitList, Bool.or_eq_true] at h
    simp only [normList, ne_eq, List.cons.injEq, not_and]
    intro hv
    rcases h with h | h
    · exact absurd hv (norm_ne_self t v h)
    · exact normList_ne_self t vs h
theorem normFields_ne_self (fs : List (Key × Bool × Ty)) (vs : List V) (h : hasEmptyOmitFields fs vs = true) :
    normFields fs vs ≠ vs := by
  match fs, vs with
  | [], _ => simp [hasEmptyOmitFields] at h
  | _ :: _, [] => simp [hasEmptyOmitFields] at h
  | (name, oe, t) :: fs, v :: vs =>
    simp only [hasEmptyOmitFields, Bool.or_eq_true] at h
    simp only [normFields, ne_eq, List.cons.injEq, not_and]
    intro hv
    rcases h with (h | h) | h
    · -- the field itself is an empty omitempty list: it becomes nil
      simp only [Bool.and_eq_true] at h
      obtain ⟨hoe, hl⟩ := h
      have : v = .list [] := by
        match v with
        | .list [] => rfl
        | .list (_ :: _) => simp at hl
        | .nil | .str _ | .num _ | .bool _ | .some _ | .strct _ => simp at hl
      subst this
      simp [hoe, isEmptyV] at hv
    · -- inside the field's value
      by_cases hom : (oe && isEmptyV v) = true
      · simp only [Bool.and_eq_true] at hom
        rcases isEmptyV_cases v hom.2 with rfl | rfl
        · cases t <;> simp [hasEmptyOmit] at h
        · cases t <;> simp [hasEmptyOmit, hasEmptyOmitList] at h
      · simp only [hom] at hv
        exact absurd hv (norm_ne_self t v h)
    · exact normFields_ne_self fs vs h
end

mutual
/-- the normal form is well typed -/
theorem typed_norm (t : Ty) (v : V) (ht : typed t v = true) : typed t (norm t v) = true := by
  match t, v with
  | .ptr t, .some v =>
    simp only [typed] at ht
    simp [norm, typed, typed_norm t v ht]
  | .slice t, .list vs =>
    simp only [typed] at ht
    simp [norm, typed, typedList_norm t vs ht]
  | .struct fs, .strct vs =>
    simp only [typed] at ht
    simp [norm, typed, typedFields_norm fs vs ht]
  | .str, v | .num, v | .bool, v => simpa [norm] using ht
  | .ptr _, .nil | .ptr _, .str _ | .ptr _, .num _ | .ptr _, .bool _ | .ptr _, .list _ | .ptr _, .strct _ =>
    simpa [norm] using ht
  | .slice _, .nil | .slice _, .str _ | .slice _, .num _ | .slice _, .bool _ | .slice _, .some _ | .slice _, .strct _ =>
    simpa [norm] using ht
  | .struct _, .nil | .struct _, .str _ | .struct _, .num _ | .struct _, .bool _ | .struct _, .some _ | .struct _, .list _ =>
    simpa [norm] using ht
theorem typedList_norm (t : Ty) (vs : List V) (ht : typedList t vs = true) :
    typedList t (normList t vs) = true := by
  match vs with
  | [] => simp [normList, typedList]
  | v :: vs =>
    simp only [typedList, Bool.and_eq_true] at ht
    simp [normList, typedList, typed_norm t v ht.1, typedList_norm t vs ht.2]
/-- needs the schema's `omitempty` fields to be nullable (part of `wf`): a nil is then well typed there -/
theorem typedFields_norm (fs : List (Key × Bool × Ty)) (vs : List V) (ht : typedFields fs vs = true) :
    typedFields fs (normFields fs vs) = true := by
  match fs, vs with
  | [], [] => simp [normFields, typedFields]
  | [], _ :: _ => simp [typedFields] at ht
  | _ :: _, [] => simp [typedFields] at ht
  | (name, oe, t) :: fs, v :: vs =>
    simp only [typedFields, Bool.and_eq_true] at ht
    have hrest := typedFields_norm fs vs ht.2
    simp only [normFields, typedFields]
    rw [Bool.and_eq_true]
    refine ⟨?_, hrest⟩
    split
    · next hom =>
      simp only [Bool.and_eq_true] at hom
      rcases isEmptyV_cases v hom.2 with rfl | rfl
      · exact ht.1
      · cases t <;> simp_all [typed]
    · exact typed_norm t v ht.1
end

mutual
/-- a normal form holds no empty `omitempty` list -/
theorem norm_clean (t : Ty) (v : V) : hasEmptyOmit t (norm t v) = false := by
  match t, v with
  | .ptr t, .some v => simp [norm, hasEmptyOmit, norm_clean t v]
  | .slice t, .list vs => simp [norm, hasEmptyOmit, normList_clean t vs]
  | .struct fs, .strct vs => simp [norm, hasEmptyOmit, normFields_clean fs vs]
  | .str, v | .num, v | .bool, v => simp [norm, hasEmptyOmit]
  | .ptr _, .nil | .ptr _, .str _ | .ptr _, .num _ | .ptr _, .bool _ | .ptr _, .list _ | .ptr _, .strct _ =>
    simp [norm, hasEmptyOmit]
  | .slice _, .nil | .slice _, .str _ | .slice _, .num _ | .slice _, .bool _ | .slice _, .some _ | .slice _, .strct _ =>
    simp [norm, hasEmptyOmit]
  | .struct _, .nil | .struct _, .str _ | .struct _, .num _ | .struct _, .bool _ | .struct _, .some _ | .struct _, .list _ =>
    simp [norm, hasEmptyOmit]
theorem normList_clean (t : Ty) (vs : List V) : hasEmptyOmitList t (normList t vs) = false := by
  match vs with
  | [] => simp [normList, hasEmptyOmitList]
  | v :: vs => simp [normList, hasEmptyOmitList, norm_clean t v, normList_clean t vs]
theorem normFields_clean (fs : List (Key × Bool × Ty)) (vs : List V) :
    hasEmptyOmitFields fs (normFields fs vs) = false := by
  match fs, vs with
  | [], _ => simp [normFields, hasEmptyOmitFields]
  | _ :: _, [] => simp [normFields, hasEmptyOmitFields]
  | (name, oe, t) :: fs, v :: vs =>
    have hrest := normFields_clean fs vs
    simp only [normFields, hasEmptyOmitFields, hrest, Bool.or_false]
    by_cases hom : (oe && isEmptyV v) = true
    · simp only [hom, ↓reduceIte]
      cases t <;> simp [hasEmptyOmit]
    · simp only [hom, Bool.false_eq_true, ↓reduceIte]
      have hc := norm_clean t v
      simp only [hc, Bool.or_false, Bool.and_eq_false_iff]
      by_cases hoe : oe = true
      · right
        simp only [hoe, Bool.true_and] at hom
        -- v is not empty, so its normal form is not the empty list
        match t, v with
        | .slice t, .list [] => simp [isEmptyV] at hom
        | .slice t, .list (x :: xs) => simp [norm, normList]
        | .ptr _, .some _ => simp [norm]
        | .struct _, .strct _ => simp [norm]
        | .str, .list [] | .num, .list [] | .bool, .list [] | .ptr _, .list [] | .struct _, .list [] =>
          simp [isEmptyV] at hom
        | .str, .list (_ :: _) | .num, .list (_ :: _) | .bool, .list (_ :: _) | .ptr _, .list (_ :: _)
        | .struct _, .list (_ :: _) => simp [norm]
        | .str, .nil | .num, .nil | .bool, .nil | .ptr _, .nil | .slice _, .nil | .struct _, .nil => simp [norm]
        | .str, .str _ | .num, .str _ | .bool, .str _ | .ptr _, .str _ | .slice _, .str _ | .struct _, .str _ => simp [norm]
        | .str, .num _ | .num, .num _ | .bool, .num _ | .ptr _, .num _ | .slice _, .num _ | .struct _, .num _ => simp [norm]
        | .str, .bool _ | .num, .bool _ | .bool, .bool _ | .ptr _, .bool _ | .slice _, .bool _ | .struct _, .bool _ => simp [norm]
        | .str, .some _ | .num, .some _ | .bool, .some _ | .slice _, .some _ | .struct _, .some _ => simp [norm]
        | .str, .strct _ | .num, .strct _ | .bool, .strct _ | .ptr _, .strct _ | .slice _, .strct _ => simp [norm]
      · left; simpa using hoe
end

/-- Decoding what was encoded yields a fixed point of the round trip: a value that came off the wire is
    re-encoded and decoded without any change. -/
theorem norm_idem (t : Ty) (v : V) (ht : typed t v = true) : norm t (norm t v) = norm t v :=
  norm_eq_self t (norm t v) (typed_norm t v ht) (norm_clean t v)

/-- Two successive round trips equal one. -/
theorem decode_encode_twice (t : Ty) (v : V) (hwf : wf t = true) (ht : typed t v = true) :
    decode t (encode t (norm t v)) = some (norm t v) := by
  rw [decode_encode t (norm t v) hwf (typed_norm t v ht), norm_idem t v ht]

/-- Exactly the values without an empty `omitempty` list survive the round trip unchanged. -/
theorem decode_encode_id_iff (t : Ty) (v : V) (hwf : wf t = true) (ht : typed t v = true) :
    decode t (encode t v) = some v ↔ hasEmptyOmit t v = false := by
  rw [decode_encode t v hwf ht]
  constructor
  · intro h
    cases hh : hasEmptyOmit t v with
    | false => rfl
    | true => exact absurd (Option.some.inj h) (norm_ne_self t v hh)
  · intro h; rw [norm_eq_self t v ht h]

end Spine.Json
