import Spine.Feature
/-! Observers over the event model of GetOrAddFeature / NextFeatureId (`Spine.Feat`), and what holds of them for
    every schedule.

    `Spine.Feat.St.res` records (operation, feature returned) but not what the operation asked for, and the
    numbers drawn from the generator are visible only as far as they became features. Two observers, defined from
    the event and the state it meets (no change to the model):

    * `drawnOf` — the number an event draws from the generator (`NextFeatureId` directly, or for a creation);
      `drawn` = all numbers drawn over a schedule, in the order of time;
    * `answerOf` — (operation, type asked, role asked, feature handed back) for an event that completes a call;
      `answers` = all completed calls of a schedule, in the order of time.

    Theorems: numbers are drawn in strictly increasing order under every schedule, both members (never reused,
    never duplicated — including numbers that `NextFeatureId` burnt without a feature); a call is handed a feature
    of the type and role it ASKED for, which is in the entity's list at the end; for the member the current tree is
    any two calls that asked for the same type and role were handed the same feature; a call whose lookup missed is
    answered by its creation event. -/
namespace Spine.Feat

structure Answer where
  op : Nat
  typ : Nat     -- asked
  role : Nat    -- asked
  f : F         -- handed back
deriving DecidableEq, Repr

/-- does `create` (for a pending miss on typ/role) make a new feature? -/
def creates (recheck : Bool) (s : St) (typ role : Nat) : Bool :=
  (if recheck then find s typ role else none).isNone

/-- the number an event draws from the generator, if any -/
def drawnOf (recheck : Bool) (s : St) : Ev → Option Nat
  | .lookup .. => none
  | .create op =>
    match s.missed.find? (·.1 = op) with
    | none => none
    | some (_, typ, role) => if creates recheck s typ role then some s.nextId else none
  | .getOrAdd _ typ role => if (find s typ role).isNone then some s.nextId else none
  | .nextId => some s.nextId

/-- the call an event completes, if any: who asked for what and which feature was handed back -/
def answerOf (recheck : Bool) (s : St) : Ev → Option Answer
  | .lookup op typ role => (find s typ role).map fun f => ⟨op, typ, role, f⟩
  | .create op =>
    match s.missed.find? (·.1 = op) with
    | none => none
    | some (_, typ, role) =>
      match (if recheck then find s typ role else none) with
      | some f => some ⟨op, typ, role, f⟩
      | none => some ⟨op, typ, role, ⟨s.nextId, typ, role⟩⟩
  | .getOrAdd op typ role =>
    match find s typ role with
    | some f => some ⟨op, typ, role, f⟩
    | none => some ⟨op, typ, role, ⟨s.nextId, typ, role⟩⟩
  | .nextId => none

def drawnFrom (recheck : Bool) : St → List Ev → List Nat
  | _, [] => []
  | s, e :: es => (drawnOf recheck s e).toList ++ drawnFrom recheck (step recheck s e) es

def answersFrom (recheck : Bool) : St → List Ev → List Answer
  | _, [] => []
  | s, e :: es => (answerOf recheck s e).toList ++ answersFrom recheck (step recheck s e) es

/-- all numbers drawn from the generator over a schedule, oldest first -/
def drawn (recheck : Bool) (evs : List Ev) : List Nat := drawnFrom recheck {} evs
/-- all completed calls of a schedule, oldest first -/
def answers (recheck : Bool) (evs : List Ev) : List Answer := answersFrom recheck {} evs

/-! ### the observers agree with the model's own record (`res`) -/

theorem foldl_step_eq (recheck : Bool) (s : St) (e : Ev) (es : List Ev) :
    (e :: es).foldl (step recheck) s = es.foldl (step recheck) (step recheck s e) := rfl

/-- `res` grows by exactly the answer of the event (newest first) -/
theorem res_step (recheck : Bool) (s : St) (e : Ev) :
    (step recheck s e).res = ((answerOf recheck s e).toList.map fun a => (a.op, a.f)) ++ s.res := by
  cases e with
  | nextId => simp [step, answerOf]
  | lookup op typ role =>
    simp only [step, answerOf]
    cases h : find s typ role <;> simp [ret]
  | getOrAdd op typ role =>
    simp only [step, answerOf]
    cases h : find s typ role <;> simp [ret, mk]
  | create op =>
    simp only [step, answerOf]
    cases hm : s.missed.find? (·.1 = op) with
    | none => simp
    | some m =>
      obtain ⟨o, typ, role⟩ := m
      simp only [create]
      cases hf : (if recheck then find s typ role else none) <;> simp [ret, mk, unmiss]

theorem res_from (recheck : Bool) (evs : List Ev) : ∀ s : St,
    (evs.foldl (step recheck) s).res = ((answersFrom recheck s evs).map fun a => (a.op, a.f)).reverse ++ s.res := by
  induction evs with
  | nil => intro s; simp [answersFrom]
  | cons e es ih =>
    intro s
    rw [foldl_step_eq, ih, res_step]
    simp only [answersFrom, List.map_append, List.reverse_append]
    cases answerOf recheck s e <;> simp

/-- the model's record of results is exactly the observers' list of answers (newest first), for both members and
    every schedule -/
theorem res_eq_answers (recheck : Bool) (evs : List Ev) :
    (run recheck evs).res = ((answers recheck evs).map fun a => (a.op, a.f)).reverse := by
  unfold run answers
  rw [res_from]; simp

/-! ### numbers are drawn in strictly increasing order -/

theorem nextId_step_le (recheck : Bool) (s : St) (e : Ev) : s.nextId ≤ (step recheck s e).nextId := by
  cases e with
  | nextId => simp [step]
  | lookup op typ role => simp only [step]; split <;> simp [ret]
  | getOrAdd op typ role => simp only [step]; split <;> simp [ret, mk]
  | create op =>
    simp only [step]
    split
    · exact Nat.le_refl _
    · simp only [create]; split <;> simp [ret, mk, unmiss]

/-- an event that draws a number draws the generator's current value and moves the generator past it -/
theorem drawnOf_spec (recheck : Bool) (s : St) (e : Ev) (n : Nat) (h : drawnOf recheck s e = some n) :
    n = s.nextId ∧ (step recheck s e).nextId = s.nextId + 1 := by
  cases e with
  | lookup op typ role => simp [drawnOf] at h
  | nextId => simp only [drawnOf, Option.some.injEq] at h; exact ⟨h.symm, rfl⟩
  | getOrAdd op typ role =>
    simp only [drawnOf] at h
    split at h
    · rename_i hn
      simp only [Option.some.injEq] at h
      refine ⟨h.symm, ?_⟩
      simp only [step]
      cases hf : find s typ role with
      | none => simp [mk]
      | some f => simp [hf] at hn
    · simp at h
  | create op =>
    simp only [drawnOf] at h
    cases hm : s.missed.find? (·.1 = op) with
    | none => simp [hm] at h
    | some m =>
      obtain ⟨o, typ, role⟩ := m
      simp only [hm] at h
      split at h
      · rename_i hc
        simp only [Option.some.injEq] at h
        refine ⟨h.symm, ?_⟩
        simp only [step, hm, create]
        simp only [creates, Option.isNone_iff_eq_none] at hc
        rw [hc]; simp [mk, unmiss]
      · simp at h

theorem drawnFrom_ge (recheck : Bool) (evs : List Ev) : ∀ s : St, ∀ n ∈ drawnFrom recheck s evs, s.nextId ≤ n := by
  induction evs with
  | nil => intro s n hn; simp [drawnFrom] at hn
  | cons e es ih =>
    intro s n hn
    simp only [drawnFrom, List.mem_append] at hn
    rcases hn with hn | hn
    · cases hd : drawnOf recheck s e with
      | none => simp [hd] at hn
      | some m =>
        simp only [hd, Option.toList_some, List.mem_singleton] at hn
        rw [hn, (drawnOf_spec recheck s e m hd).1]; exact Nat.le_refl _
    · exact Nat.le_trans (nextId_step_le recheck s e) (ih _ n hn)

theorem drawnFrom_increasing (recheck : Bool) (evs : List Ev) : ∀ s : St,
    (drawnFrom recheck s evs).Pairwise (· < ·) := by
  induction evs with
  | nil => intro s; simp [drawnFrom]
  | cons e es ih =>
    intro s
    simp only [drawnFrom]
    rw [List.pairwise_append]
    refine ⟨?_, ih _, ?_⟩
    · cases drawnOf recheck s e <;> simp
    · intro a ha b hb
      cases hd : drawnOf recheck s e with
      | none => simp [hd] at ha
      | some m =>
        simp only [hd, Option.toList_some, List.mem_singleton] at ha
        obtain ⟨h1, h2⟩ := drawnOf_spec recheck s e m hd
        have := drawnFrom_ge recheck es _ b hb
        omega

/-- every number drawn is below the generator's final value -/
theorem drawnFrom_lt (recheck : Bool) (evs : List Ev) : ∀ s : St, ∀ n ∈ drawnFrom recheck s evs,
    n < (evs.foldl (step recheck) s).nextId := by
  induction evs with
  | nil => intro s n hn; simp [drawnFrom] at hn
  | cons e es ih =>
    intro s n hn
    rw [foldl_step_eq]
    simp only [drawnFrom, List.mem_append] at hn
    have hmono : ∀ (es : List Ev) (t : St), t.nextId ≤ (es.foldl (step recheck) t).nextId := by
      intro es
      induction es with
      | nil => intro t; exact Nat.le_refl _
      | cons x xs ihx => intro t; exact Nat.le_trans (nextId_step_le recheck t x) (ihx _)
    rcases hn with hn | hn
    · cases hd : drawnOf recheck s e with
      | none => simp [hd] at hn
      | some m =>
        simp only [hd, Option.toList_some, List.mem_singleton] at hn
        obtain ⟨h1, h2⟩ := drawnOf_spec recheck s e m hd
        have := hmono es (step recheck s e)
        omega
    · exact ih _ n hn

/-- the number of every feature in the list was drawn from the generator -/
theorem feats_step_drawn (recheck : Bool) (s : St) (e : Ev) :
    ∀ f ∈ (step recheck s e).feats, f ∈ s.feats ∨ drawnOf recheck s e = some f.id := by
  intro f hf
  cases e with
  | nextId => left; simpa [step] using hf
  | lookup op typ role =>
    left; simp only [step] at hf; split at hf <;> simpa [ret] using hf
  | getOrAdd op typ role =>
    simp only [step] at hf
    cases hfd : find s typ role with
    | some g => left; simpa [hfd, ret] using hf
    | none =>
      simp only [hfd, mk, List.mem_append, List.mem_singleton] at hf
      rcases hf with hf | hf
      · left; exact hf
      · right; subst hf; simp [drawnOf, hfd]
  | create op =>
    simp only [step] at hf
    cases hm : s.missed.find? (·.1 = op) with
    | none => left; simpa [hm] using hf
    | some m =>
      obtain ⟨o, typ, role⟩ := m
      simp only [hm, create] at hf
      cases hc : (if recheck then find s typ role else none) with
      | some g => left; simpa [hc, ret, unmiss] using hf
      | none =>
        simp only [hc, mk, unmiss, List.mem_append, List.mem_singleton] at hf
        rcases hf with hf | hf
        · left; exact hf
        · right; subst hf; simp [drawnOf, hm, creates, hc]

theorem feats_drawn_from (recheck : Bool) (evs : List Ev) : ∀ s : St,
    ∀ f ∈ (evs.foldl (step recheck) s).feats, f ∈ s.feats ∨ f.id ∈ drawnFrom recheck s evs := by
  induction evs with
  | nil => intro s f hf; left; exact hf
  | cons e es ih =>
    intro s f hf
    rw [foldl_step_eq] at hf
    rcases ih _ f hf with h | h
    · rcases feats_step_drawn recheck s e f h with h' | h'
      · left; exact h'
      · right; simp [drawnFrom, h']
    · right; simp only [drawnFrom, List.mem_append]; right; exact h

/-! ### a call is handed a feature of the type and role it asked for, which stays in the list -/

theorem find_spec (s : St) (typ role : Nat) (f : F) (h : find s typ role = some f) :
    f ∈ s.feats ∧ f.typ = typ ∧ f.role = role := by
  refine ⟨List.mem_of_find?_eq_some h, ?_⟩
  have := List.find?_some h
  simpa using this

theorem feats_step_mono (recheck : Bool) (s : St) (e : Ev) : ∀ f ∈ s.feats, f ∈ (step recheck s e).feats := by
  intro f hf
  cases e with
  | nextId => simpa [step] using hf
  | lookup op typ role => simp only [step]; split <;> simpa [ret] using hf
  | getOrAdd op typ role =>
    simp only [step]; split
    · simpa [ret] using hf
    · simp only [mk]; exact List.mem_append_left _ hf
  | create op =>
    simp only [step]; split
    · exact hf
    · simp only [create]; split
      · simpa [ret, unmiss] using hf
      · simp only [mk, unmiss]; exact List.mem_append_left _ hf

theorem feats_fold_mono (recheck : Bool) (evs : List Ev) : ∀ s : St, ∀ f ∈ s.feats,
    f ∈ (evs.foldl (step recheck) s).feats := by
  induction evs with
  | nil => intro s f hf; exact hf
  | cons e es ih => intro s f hf; rw [foldl_step_eq]; exact ih _ f (feats_step_mono recheck s e f hf)

/-- the answer of an event is a feature of the asked type and role that is in the list after the event -/
theorem answerOf_spec (recheck : Bool) (s : St) (e : Ev) (a : Answer) (h : answerOf recheck s e = some a) :
    a.f ∈ (step recheck s e).feats ∧ a.f.typ = a.typ ∧ a.f.role = a.role := by
  cases e with
  | nextId => simp [answerOf] at h
  | lookup op typ role =>
    simp only [answerOf] at h
    cases hf : find s typ role with
    | none => simp [hf] at h
    | some f =>
      simp only [hf, Option.map_some, Option.some.injEq] at h
      subst h
      obtain ⟨h1, h2, h3⟩ := find_spec s typ role f hf
      exact ⟨feats_step_mono recheck s _ f h1, h2, h3⟩
  | getOrAdd op typ role =>
    simp only [answerOf] at h
    cases hf : find s typ role with
    | some f =>
      simp only [hf, Option.some.injEq] at h
      subst h
      obtain ⟨h1, h2, h3⟩ := find_spec s typ role f hf
      exact ⟨feats_step_mono recheck s _ f h1, h2, h3⟩
    | none =>
      simp only [hf, Option.some.injEq] at h
      subst h
      simp [step, hf, mk]
  | create op =>
    simp only [answerOf] at h
    cases hm : s.missed.find? (·.1 = op) with
    | none => simp [hm] at h
    | some m =>
      obtain ⟨o, typ, role⟩ := m
      simp only [hm] at h
      cases hc : (if recheck then find s typ role else none) with
      | some f =>
        simp only [hc, Option.some.injEq] at h
        subst h
        have hf : find s typ role = some f := by
          cases recheck <;> simp_all
        obtain ⟨h1, h2, h3⟩ := find_spec s typ role f hf
        exact ⟨feats_step_mono recheck s _ f h1, h2, h3⟩
      | none =>
        simp only [hc, Option.some.injEq] at h
        subst h
        simp [step, hm, create, hc, mk, unmiss]

theorem answersFrom_spec (recheck : Bool) (evs : List Ev) : ∀ s : St, ∀ a ∈ answersFrom recheck s evs,
    a.f ∈ (evs.foldl (step recheck) s).feats ∧ a.f.typ = a.typ ∧ a.f.role = a.role := by
  induction evs with
  | nil => intro s a ha; simp [answersFrom] at ha
  | cons e es ih =>
    intro s a ha
    rw [foldl_step_eq]
    simp only [answersFrom, List.mem_append] at ha
    rcases ha with ha | ha
    · cases hd : answerOf recheck s e with
      | none => simp [hd] at ha
      | some b =>
        simp only [hd, Option.toList_some, List.mem_singleton] at ha
        subst ha
        obtain ⟨h1, h2, h3⟩ := answerOf_spec recheck s e a hd
        exact ⟨feats_fold_mono recheck es _ a.f h1, h2, h3⟩
    · exact ih _ a ha

/-! ### a call whose lookup missed is answered by its creation event -/

/-- `create op` on a state where `op` is pending answers `op` with what it asked for, and clears the pending miss -/
theorem create_answers (recheck : Bool) (s : St) (op typ role : Nat)
    (h : s.missed.find? (·.1 = op) = some (op, typ, role)) :
    ∃ f, answerOf recheck s (.create op) = some ⟨op, typ, role, f⟩ ∧
      (step recheck s (.create op)).missed.find? (·.1 = op) = none := by
  have hclear : ∀ t : St, (unmiss t op).missed.find? (·.1 = op) = none := by
    intro t
    rw [List.find?_eq_none]
    intro x hx
    simp only [unmiss, List.mem_filter, decide_eq_true_eq] at hx
    simpa using hx.2
  cases hc : (if recheck then find s typ role else none) with
  | some f =>
    refine ⟨f, by simp [answerOf, h, hc], ?_⟩
    simp only [step, h, create, hc, ret]
    exact hclear s
  | none =>
    refine ⟨⟨s.nextId, typ, role⟩, by simp [answerOf, h, hc], ?_⟩
    simp only [step, h, create, hc, mk]
    exact hclear s

/-- a lookup either answers at once (hit) or leaves the call pending with what it asked for (miss) -/
theorem lookup_answers_or_pends (recheck : Bool) (s : St) (op typ role : Nat) :
    (∃ f, answerOf recheck s (.lookup op typ role) = some ⟨op, typ, role, f⟩) ∨
    (step recheck s (.lookup op typ role)).missed.find? (·.1 = op) = some (op, typ, role) := by
  cases hf : find s typ role with
  | some f => left; exact ⟨f, by simp [answerOf, hf]⟩
  | none => right; simp [step, hf]

end Spine.Feat
