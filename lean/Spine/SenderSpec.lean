import Spine.Sender
/-! C13 — the SPEC of request de-duplication as an executable monitor, and MODEL ⊨ SPEC.

`Spec.step` is the monitor the Go harness evaluates on the implementation's trace
(go/comp/sender_test.go, `specSnd`): it keeps the set of requests that were *written* and not
*answered* since, knows nothing about caches or eviction, and rejects an observation in which a
request was withheld without an identical unanswered request, or with another counter than that
request's. The theorem says the model passes the monitor on every history. -/
namespace Spine.Snd.Spec

/-- SPEC state: (hash of destination+command, counter) of written, unanswered requests -/
abbrev U := List (Nat × Nat)

inductive Obs
  | req (h c : Nat) (written : Bool)   -- Request returned counter c; a datagram was written or not
  | resp (ref : Nat)                   -- a response referencing ref arrived
  | other                              -- any send that is not a request
  deriving DecidableEq, Repr

/-- one monitor step: `none` = the observation contradicts the property -/
def step (u : U) : Obs → Option U
  | .req h c true => some ((h, c) :: u.filter (·.1 ≠ h))
  | .req h c false => if (h, c) ∈ u then some u else none
  | .resp r => some (u.filter (·.2 ≠ r))
  | .other => some u

def run : U → List Obs → Option U
  | u, [] => some u
  | u, o :: os => match step u o with
    | none => none
    | some u' => run u' os

end Spine.Snd.Spec

namespace Spine.Snd
open Spec

/-- the observation the model produces for an operation -/
def observe (s : St) : Op → Obs
  | .request h => let r := request s h; .req h r.2.1 r.2.2
  | .response r => .resp r
  | _ => .other

def observations : St → List Op → List Obs
  | _, [] => []
  | s, op :: ops => observe s op :: observations (step s op) ops

/-- coupling invariant: every request the model remembers is, for the SPEC, written and unanswered
    (the converse fails after an eviction, which is exactly why eviction never causes a wrong
    withholding) -/
def Coupled (s : St) (u : U) : Prop := ∀ c h, (c, h) ∈ s.req → (h, c) ∈ u

theorem evict_subset (s : St) : ∀ e ∈ evict s, e ∈ s.req := by
  intro e he
  unfold evict at he
  split at he
  · split at he
    · exact (List.mem_filter.mp he).1
    · exact he
  · exact he

theorem step_coupled (s : St) (u : U) (op : Op) (hc : Coupled s u) :
    ∃ u', Spec.step u (observe s op) = some u' ∧ Coupled (Snd.step s op) u' := by
  cases op with
  | request h =>
    simp only [observe, Snd.step]
    unfold request
    split
    · rename_i c h' hf
      have hm := List.mem_of_find?_eq_some hf
      have hp := List.find?_some hf
      simp only [decide_eq_true_eq] at hp
      subst hp
      refine ⟨u, ?_, hc⟩
      simp [Spec.step, hc c h' hm]
    · rename_i hf
      refine ⟨_, rfl, ?_⟩
      intro c h' hm
      simp only [List.mem_append, List.mem_singleton, Prod.mk.injEq] at hm
      rcases hm with hm | ⟨rfl, rfl⟩
      · have hm' := evict_subset s _ hm
        have hne : h' ≠ h := by
          intro heq; subst heq
          have := List.find?_eq_none.mp hf (c, h') hm'
          simp at this
        simp [List.mem_filter, hc c h' hm', hne]
      · simp
  | response r =>
    refine ⟨_, rfl, ?_⟩
    intro c h hm
    simp only [Snd.step, response, List.mem_filter, decide_eq_true_eq] at hm
    simp [List.mem_filter, hc c h hm.1, hm.2]
  | other => exact ⟨u, rfl, fun c h hm => hc c h (by simpa [Snd.step, other] using hm)⟩
  | notify => exact ⟨u, rfl, fun c h hm => hc c h (by simpa [Snd.step, notify] using hm)⟩
  | get c =>
    refine ⟨u, rfl, ?_⟩
    simp only [Snd.step, get]
    split <;> exact hc

/-- MODEL ⊨ SPEC: on every history the model's observations pass the monitor -/
theorem model_satisfies_spec (ops : List Op) : ∀ (s : St) (u : U), Coupled s u →
    (Spec.run u (observations s ops)).isSome := by
  induction ops with
  | nil => intro s u _; simp [observations, Spec.run]
  | cons op ops ih =>
    intro s u hc
    obtain ⟨u', h1, h2⟩ := step_coupled s u op hc
    simp only [observations, Spec.run, h1]
    exact ih _ _ h2

end Spine.Snd
