/-! C19, clause S3b (instants) at the level of the SPINE TEXT: a byte-level model of what
    `NewDateTimeTypeFromTime`, `(*DateTimeType).GetTime`, `(*DateType).GetTime` and `(*TimeType).GetTime`
    (`model/commondatatypes_additions.go`) do with package `time` of the Go runtime:

    * `lex`     — `time.nextStdChunk`: cutting a layout string into elements (all chunk kinds of Go 1.23 are
                  recognised; the kinds no layout of the code uses are the element `other`, outside the model);
    * `format`  — `Time.AppendFormat` for the elements modelled (year of at least four digits, two-digit
                  fields, the fraction `.000` / `.999`, the zones `-07:00` / `Z07:00`, literal bytes);
    * `parse`   — `time.parse`: `skip` of literal bytes, `getnum` (two digits; one or two for the hour),
                  the four-digit year, the range checks, the fraction that is read after the seconds although
                  the layout has none, the optional `.999…` element, `parseNanoseconds`, the numeric zone,
                  "extra text", the validation of the day against the length of the month;
    * `civil` / `daysOf` — the proleptic Gregorian calendar (days ↔ year, month, day);
    * `getTime` — the loop of the three `GetTime` methods: the first layout that parses wins, UTC implied;
    * `newDateTimeTypeFromTime` — `t.Round(time.Second).UTC().Format(layout)`.

    Core Lean only (imported by `Drivers/Num.lean`); the check compares every function with the real code on
    every run (`go/comp/numeric_test.go`, ops `ttext`, `tread`, `tlib`, `tsweep`). Texts and layouts are lists
    of byte values. -/
namespace Spine.TimeText

abbrev Text := List Nat

/-- an element of a layout (`std…` constants of package time) -/
inductive Elem where
  | lit (b : Nat)
  | year                       -- "2006"
  | month                      -- "01"
  | day                        -- "02"
  | hour                       -- "15"
  | minute                     -- "04"
  | second                     -- "05"
  | frac (nine : Bool) (n : Nat) (comma : Bool)   -- ".999…" (optional, trimmed) / ".000…" (fixed), n digits
  | zone (iso : Bool)          -- "-07:00" / "Z07:00"
  | other                      -- any other chunk of package time: outside the model
deriving DecidableEq, Repr

def isDigit (c : Nat) : Bool := 48 ≤ c && c ≤ 57
def isLower (c : Nat) : Bool := 97 ≤ c && c ≤ 122

/-- does the text start with the given bytes? -/
def startsWith : Text → Text → Bool
  | _, [] => true
  | [], _ :: _ => false
  | c :: t, p :: ps => c == p && startsWith t ps

/-- length of the run of byte `ch` at the head of the text -/
def runLen (ch : Nat) : Text → Nat
  | [] => 0
  | c :: t => if c = ch then runLen ch t + 1 else 0

/-- the chunk of package time that starts at the head of the layout, with its length in bytes
    (`nextStdChunk`, one position) -/
def stdAt (l : Text) : Option (Elem × Nat) :=
  match l with
  | [] => none
  | c :: t =>
    if c = 74 then  -- 'J': January, Jan
      if startsWith l [74, 97, 110, 117, 97, 114, 121] then some (.other, 7)
      else if startsWith l [74, 97, 110] && !(match l.drop 3 with | x :: _ => isLower x | [] => false) then some (.other, 3)
      else none
    else if c = 77 then  -- 'M': Monday, Mon, MST
      if startsWith l [77, 111, 110, 100, 97, 121] then some (.other, 6)
      else if startsWith l [77, 111, 110] && !(match l.drop 3 with | x :: _ => isLower x | [] => false) then some (.other, 3)
      else if startsWith l [77, 83, 84] then some (.other, 3)
      else none
    else if c = 48 then  -- '0': 01 … 06, 002
      match t with
      | 49 :: _ => some (.month, 2)
      | 50 :: _ => some (.day, 2)
      | 51 :: _ => some (.other, 2)
      | 52 :: _ => some (.minute, 2)
      | 53 :: _ => some (.second, 2)
      | 54 :: _ => some (.other, 2)
      | 48 :: 50 :: _ => some (.other, 3)
      | _ => none
    else if c = 49 then  -- '1': 15, 1
      match t with
      | 53 :: _ => some (.hour, 2)
      | _ => some (.other, 1)
    else if c = 50 then  -- '2': 2006, 2
      if startsWith l [50, 48, 48, 54] then some (.year, 4) else some (.other, 1)
    else if c = 95 then  -- '_': _2, _2006 (a literal '_' and the year), __2
      match t with
      | 50 :: _ => if startsWith t [50, 48, 48, 54] then none else some (.other, 2)
      | 95 :: 50 :: _ => some (.other, 3)
      | _ => none
    else if c = 51 || c = 52 || c = 53 then some (.other, 1)
    else if c = 80 then (match t with | 77 :: _ => some (.other, 2) | _ => none)   -- PM
    else if c = 112 then (match t with | 109 :: _ => some (.other, 2) | _ => none) -- pm
    else if c = 45 then  -- '-': -070000, -07:00:00, -0700, -07:00, -07
      if startsWith l [45, 48, 55, 48, 48, 48, 48] then some (.other, 7)
      else if startsWith l [45, 48, 55, 58, 48, 48, 58, 48, 48] then some (.other, 9)
      else if startsWith l [45, 48, 55, 48, 48] then some (.other, 5)
      else if startsWith l [45, 48, 55, 58, 48, 48] then some (.zone false, 6)
      else if startsWith l [45, 48, 55] then some (.other, 3)
      else none
    else if c = 90 then  -- 'Z': Z070000, Z07:00:00, Z0700, Z07:00, Z07
      if startsWith l [90, 48, 55, 48, 48, 48, 48] then some (.other, 7)
      else if startsWith l [90, 48, 55, 58, 48, 48, 58, 48, 48] then some (.other, 9)
      else if startsWith l [90, 48, 55, 48, 48] then some (.other, 5)
      else if startsWith l [90, 48, 55, 58, 48, 48] then some (.zone true, 6)
      else if startsWith l [90, 48, 55] then some (.other, 3)
      else none
    else if c = 46 || c = 44 then  -- '.', ',': a run of 0s or of 9s that is not followed by a digit
      match t with
      | ch :: _ =>
        if ch = 48 || ch = 57 then
          let n := runLen ch t
          if (match t.drop n with | x :: _ => isDigit x | [] => false) then none
          else some (.frac (ch = 57) n (c = 44), n + 1)
        else none
      | [] => none
    else none

/-- `nextStdChunk` applied repeatedly: the layout as a list of elements -/
def lexAux : Nat → Text → List Elem
  | 0, _ => []
  | _, [] => []
  | fuel + 1, c :: t =>
    match stdAt (c :: t) with
    | some (e, n) => e :: lexAux fuel ((c :: t).drop n)
    | none => .lit c :: lexAux fuel t

def lex (l : Text) : List Elem := lexAux l.length l

/-- is every element inside the model? (no other chunk of package time, no blank — `skip` treats blanks
    specially —, the fixed fraction `.000` only for writing) -/
def supported (forParse : Bool) : List Elem → Bool
  | [] => true
  | .other :: _ => false
  | .lit b :: es => b != 32 && supported forParse es
  | .frac nine n _ :: es => (nine || !forParse) && 0 < n && n ≤ 9 && supported forParse es
  | _ :: es => supported forParse es

/-! ## The calendar: days since 0000-03-01 (proleptic Gregorian) ↔ year, month, day -/

/-- days from 0000-03-01 to 1970-01-01 -/
def epochShift : Nat := 719468

/-- year (counted from March), day of that year (0 = 1 March) of the day number `N` — by 400-, 100-, 4-
    and 1-year cycles, as `Time.absDate` does -/
def yearDoy (N : Nat) : Nat × Nat :=
  let a := N / 146097
  let r := N % 146097
  let b := if r / 36524 ≥ 4 then 3 else r / 36524
  let r2 := r - 36524 * b
  let c := r2 / 1461
  let r3 := r2 % 1461
  let e := if r3 / 365 ≥ 4 then 3 else r3 / 365
  (400 * a + 100 * b + 4 * c + e, r3 - 365 * e)

/-- month (1–12) and day (1–31) of the day `doy` of a year counted from March -/
def monthDay (doy : Nat) : Nat × Nat :=
  let mp := (5 * doy + 2) / 153
  (if mp < 10 then mp + 3 else mp - 9, doy - (153 * mp + 2) / 5 + 1)

/-- civil date of the day number `N` -/
def civil (N : Nat) : Nat × Nat × Nat :=
  let yd := yearDoy N
  let md := monthDay yd.2
  (if md.1 ≤ 2 then yd.1 + 1 else yd.1, md.1, md.2)

/-- day number of a civil date (`year ≥ 0`; January and February of year 0 are before day 0: the model
    shifts by one 400-year cycle, see `unixDays`) -/
def daysOf (y m d : Nat) : Nat :=
  let Y := if m ≤ 2 then y - 1 else y
  let mp := if m > 2 then m - 3 else m + 9
  365 * Y + Y / 4 - Y / 100 + Y / 400 + (153 * mp + 2) / 5 + d - 1

def isLeap (y : Nat) : Bool := y % 4 == 0 && (y % 100 != 0 || y % 400 == 0)

def daysIn (m y : Nat) : Nat :=
  if m = 2 then (if isLeap y then 29 else 28)
  else if m = 4 || m = 6 || m = 9 || m = 11 then 30 else 31

/-- the model's years are shifted by 400 so that year 0 has its January: day number of an instant -/
def shift400 : Nat := 146097

/-- Unix seconds → (shifted day number, second of the day); `none` before 0000-01-01 -/
def splitSec (sec : Int) : Option (Nat × Nat) :=
  let s := sec + (epochShift + shift400 : Nat) * 86400
  if s < 0 then none else some (s.toNat / 86400, s.toNat % 86400)

/-! ## Writing -/

def dig (x : Nat) : Nat := 48 + x % 10

def fmt2 (x : Nat) : Text := [dig (x / 10), dig x]

/-- `appendInt(b, year, 4)` for a year of at most six digits -/
def fmtYear (y : Nat) : Text :=
  if y < 10000 then [dig (y / 1000), dig (y / 100), dig (y / 10), dig y]
  else if y < 100000 then [dig (y / 10000), dig (y / 1000), dig (y / 100), dig (y / 10), dig y]
  else [dig (y / 100000), dig (y / 10000), dig (y / 1000), dig (y / 100), dig (y / 10), dig y]

/-- the nine digits of the nanoseconds -/
def nanoDigits (ns : Nat) : Text :=
  [dig (ns / 100000000), dig (ns / 10000000), dig (ns / 1000000), dig (ns / 100000), dig (ns / 10000),
   dig (ns / 1000), dig (ns / 100), dig (ns / 10), dig ns]

/-- drop trailing zeros (`'0'`) -/
def trimZeros (t : Text) : Text := (t.reverse.dropWhile (· = 48)).reverse

/-- `appendNano` -/
def fmtFrac (nine : Bool) (n : Nat) (comma : Bool) (ns : Nat) : Text :=
  if nine && ns = 0 then [] else
  let ds := (nanoDigits ns).take n
  let ds := if nine then trimZeros ds else ds
  if nine && ds = [] then [] else (if comma then 44 else 46) :: ds

/-- the numeric zone of an offset in seconds east of UTC -/
def fmtZone (iso : Bool) (off : Int) : Text :=
  if iso && off = 0 then [90] else
  let z := off.natAbs / 60
  (if off ≤ -60 then 45 else 43) :: (fmt2 (z / 60) ++ 58 :: fmt2 (z % 60))

/-- what is written: the fields of the instant in its zone -/
structure Wall where
  year : Nat
  month : Nat
  day : Nat
  hour : Nat
  minute : Nat
  second : Nat
  ns : Nat
  off : Int
deriving DecidableEq, Repr

/-- the wall clock of the instant `sec` (Unix seconds) + `ns` in the zone `off` seconds east of UTC; `none`
    before year 0 -/
def wallOf (sec : Int) (ns : Nat) (off : Int) : Option Wall :=
  match splitSec (sec + off) with
  | none => none
  | some (N, s) =>
    let c := civil N
    if c.1 < 400 then none else
    some ⟨c.1 - 400, c.2.1, c.2.2, s / 3600, s / 60 % 60, s % 60, ns, off⟩

def fmtElem (w : Wall) : Elem → Text
  | .lit b => [b]
  | .year => fmtYear w.year
  | .month => fmt2 w.month
  | .day => fmt2 w.day
  | .hour => fmt2 w.hour
  | .minute => fmt2 w.minute
  | .second => fmt2 w.second
  | .frac nine n comma => fmtFrac nine n comma w.ns
  | .zone iso => fmtZone iso w.off
  | .other => []

def fmtWall (es : List Elem) (w : Wall) : Text := es.flatMap (fmtElem w)

/-- `time.Unix(sec, ns).In(zone off).Format(layout)` -/
def format (es : List Elem) (sec : Int) (ns : Nat) (off : Int) : Option Text :=
  (wallOf sec ns off).map (fmtWall es)

/-! ## Reading -/

/-- the fields `time.parse` collects (`month`, `day` absent = Go's -1; `zoff` absent = no numeric zone;
    `utc` = the zone element read the letter `Z`) -/
structure Fields where
  year : Nat := 0
  month : Option Nat := none
  day : Option Nat := none
  hour : Nat := 0
  minute : Nat := 0
  second : Nat := 0
  ns : Nat := 0
  utc : Bool := false
  zoff : Option Int := none
deriving DecidableEq, Repr

def dval (c : Nat) : Nat := c - 48

/-- `getnum(value, true)`: exactly two digits -/
def get2 : Text → Option (Nat × Text)
  | a :: b :: t => if isDigit a && isDigit b then some (dval a * 10 + dval b, t) else none
  | _ => none

/-- `getnum(value, false)`: one or two digits -/
def get12 : Text → Option (Nat × Text)
  | a :: b :: t => if isDigit a then (if isDigit b then some (dval a * 10 + dval b, t) else some (dval a, b :: t)) else none
  | [a] => if isDigit a then some (dval a, []) else none
  | [] => none

def isSep (c : Nat) : Bool := c = 46 || c = 44

/-- the digits at the head of the text and the rest -/
def spanDigits : Text → Text × Text
  | [] => ([], [])
  | c :: t => if isDigit c then ((spanDigits t).1.cons c, (spanDigits t).2) else ([], c :: t)

def digitsVal (ds : Text) : Nat := ds.foldl (fun acc c => acc * 10 + dval c) 0

/-- `parseNanoseconds` of a separator followed by the digits `ds` (only the first nine count) -/
def nanosOf (ds : Text) : Nat :=
  let d9 := ds.take 9
  digitsVal d9 * 10 ^ (9 - d9.length)

/-- a fraction at the head of the text (separator and at least one digit): nanoseconds and the rest -/
def takeFrac : Text → Option (Nat × Text)
  | s :: d :: t =>
    if isSep s && isDigit d then
      let sp := spanDigits (d :: t)
      some (nanosOf sp.1, sp.2)
    else none
  | _ => none

/-- the next element of the layout that is not a literal byte (`nextStdChunk(layout)` in the special case of
    the seconds) -/
def nextStd : List Elem → Option Elem
  | [] => none
  | .lit _ :: es => nextStd es
  | e :: _ => some e

def isFrac : Option Elem → Bool
  | some (.frac _ _ _) => true
  | _ => false

/-- the numeric zone `±hh:mm` at the head of the text: offset in seconds and the rest -/
def takeZone : Text → Option (Int × Text)
  | sg :: h1 :: h2 :: col :: m1 :: m2 :: t =>
    if col = 58 && isDigit h1 && isDigit h2 && isDigit m1 && isDigit m2 && (sg = 43 || sg = 45) then
      let hr := dval h1 * 10 + dval h2
      let mm := dval m1 * 10 + dval m2
      if hr > 24 || mm > 60 then none else
      let o : Int := ((hr * 60 + mm) * 60 : Nat)
      some (if sg = 45 then -o else o, t)
    else none
  | _ => none

/-- `time.parse`, the loop over the elements of the layout -/
def parseElems : List Elem → Text → Fields → Option Fields
  | [], [], f => some f
  | [], _ :: _, _ => none                                  -- extra text
  | .lit b :: es, v, f =>
    match v with
    | c :: v' => if c = b then parseElems es v' f else none
    | [] => none
  | .year :: es, v, f =>
    match v with
    | a :: b :: c :: d :: v' =>
      if isDigit a && isDigit b && isDigit c && isDigit d then
        parseElems es v' { f with year := dval a * 1000 + dval b * 100 + dval c * 10 + dval d }
      else none
    | _ => none
  | .month :: es, v, f =>
    match get2 v with
    | some (m, v') => if m = 0 || 12 < m then none else parseElems es v' { f with month := some m }
    | none => none
  | .day :: es, v, f =>
    match get2 v with
    | some (d, v') => parseElems es v' { f with day := some d }
    | none => none
  | .hour :: es, v, f =>
    match get12 v with
    | some (h, v') => if 24 ≤ h then none else parseElems es v' { f with hour := h }
    | none => none
  | .minute :: es, v, f =>
    match get2 v with
    | some (m, v') => if 60 ≤ m then none else parseElems es v' { f with minute := m }
    | none => none
  | .second :: es, v, f =>
    match get2 v with
    | some (s, v') =>
      if 60 ≤ s then none else
      -- a fraction in the text although the layout has none next: read it all the same
      match (if isFrac (nextStd es) then none else takeFrac v') with
      | some (ns, v'') => parseElems es v'' { f with second := s, ns := ns }
      | none => parseElems es v' { f with second := s }
    | none => none
  | .frac _ _ _ :: es, v, f =>                              -- the optional fraction `.999…`
    match takeFrac v with
    | some (ns, v') => parseElems es v' { f with ns := ns }
    | none => parseElems es v f
  | .zone iso :: es, v, f =>
    match (if iso then (match v with | 90 :: v' => some v' | _ => none) else none) with
    | some v' => parseElems es v' { f with utc := true }
    | none =>
      match takeZone v with
      | some (o, v') => parseElems es v' { f with zoff := some o }
      | none => none
  | .other :: _, _, _ => none

/-- an instant as the getters return it: Unix seconds, nanoseconds, offset of the zone it is presented in -/
structure Instant where
  sec : Int
  ns : Nat
  off : Int
deriving DecidableEq, Repr

/-- the end of `time.parse`: defaults, validation of the day, `Date(…)` in UTC, in the zone read, or in the
    default location (UTC for all getters) -/
def instantOf (f : Fields) : Option Instant :=
  let m := f.month.getD 1
  let d := f.day.getD 1
  if d < 1 || daysIn m f.year < d then none else
  let days : Int := (daysOf (f.year + 400) m d : Nat) - ((epochShift + shift400 : Nat) : Int)
  let loc : Int := days * 86400 + (f.hour * 3600 + f.minute * 60 + f.second : Nat)
  if f.utc then some ⟨loc, f.ns, 0⟩
  else match f.zoff with
    | some o => some ⟨loc - o, f.ns, o⟩
    | none => some ⟨loc, f.ns, 0⟩

/-- `time.ParseInLocation(layout, text, time.UTC)` -/
def parse (es : List Elem) (v : Text) : Option Instant :=
  match parseElems es v {} with
  | some f => instantOf f
  | none => none

/-- the loop of `GetTime`: the first layout that parses without error -/
def getTime : List (List Elem) → Text → Option Instant
  | [], _ => none
  | es :: rest, v =>
    match parse es v with
    | some i => some i
    | none => getTime rest v

/-- `t.Round(time.Second)` on Unix seconds + nanoseconds: halfway values up -/
def roundSec (sec : Int) (ns : Nat) : Int := if ns < 500000000 then sec else sec + 1

/-- `NewDateTimeTypeFromTime`: `t.Round(time.Second).UTC().Format(layout)`; the flags say whether the
    rounding and the conversion to UTC are on the way (they are regenerated from the source) -/
def newDateTimeTypeFromTime (es : List Elem) (rounds utc : Bool) (sec : Int) (ns : Nat) (off : Int) : Option Text :=
  format es (if rounds then roundSec sec ns else sec) (if rounds then 0 else ns) (if utc then 0 else off)

/-- first and last second of the years 0000 … 9999 -/
def minSec : Int := -62167219200
def maxSec : Int := 253402300799

end Spine.TimeText
