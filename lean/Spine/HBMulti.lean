/-! C16, "after stop, or removal of the entity, has returned, at most one refresh that was already in flight completes
    and the data then stays unchanged" — ALL the streams of one heartbeat manager in one model.

    `StartHeartbeat` / `StopHeartbeat` are the atomic events of the tree under test (one critical section each, regenerated
    facts of `Props/C16Gen`); every start creates a new goroutine ("stream") with its own ticker (channel of capacity
    one) and its own stop channel; the goroutine of an earlier start may still be between `<-ticker.C` and the end of
    `SetData` ("in flight"), or may not yet have noticed that its channel was closed, when the next start and the next
    stop happen. The counter (`heartBeatNum`) and the feature's data are shared by all streams.

    One stream of this model is `Spine.HBR.Stream`; the counter part is `Spine.HBC`. -/
namespace Spine.HBM

structure Strm where
  ready : Bool := false          -- a tick waits in this stream's ticker.C
  inflight : Option Nat := none  -- the counter drawn: the stream is between `<-ticker.C` and the end of `SetData`
  stopped : Bool := true         -- its stop channel has been closed
  exited : Bool := true          -- the goroutine has returned
  -- (the default is a stream that does not exist: every event on it is a no-op)

def Strm.fresh : Strm := { stopped := false, exited := false }

structure St where
  cur : Option Nat := none       -- the stream that has not been told to stop (IsHeartbeatRunning = cur.isSome)
  next : Nat := 0                -- streams 0 .. next-1 have been started
  strm : Nat → Strm := fun _ => {}
  num : Nat := 0                 -- heartBeatNum
  stored : List Nat := []        -- counters stored into the feature's data, oldest first
  mark : Nat := 0                -- number of counters stored when the last StopHeartbeat / RemoveEntity that ended a
                                 -- running heartbeat returned

inductive Ev
  | start            -- StartHeartbeat (atomic: close the running stream's channel, make a new one, go)
  | stop             -- StopHeartbeat / RemoveEntity (atomic: close if running)
  | tick (k : Nat)   -- stream k's ticker fires (a tick is dropped when one is already waiting)
  | take (k : Nat)   -- stream k's select chose `<-ticker.C`; the counter is drawn (atomic add)
  | store (k : Nat)  -- stream k's SetData completes (the refresh is stored and notified)
  | exit (k : Nat)   -- stream k's select chose `<-stopC`: the goroutine returns

def set (f : Nat → Strm) (k : Nat) (v : Strm) : Nat → Strm := fun j => if j = k then v else f j

/-- close the running stream's channel -/
def stopCur (s : St) : St :=
  match s.cur with
  | some c => { s with strm := set s.strm c { s.strm c with stopped := true }, cur := none }
  | none => s

def doStart (s : St) : St :=
  let s1 := stopCur s
  { s1 with strm := set s1.strm s1.next Strm.fresh, cur := some s1.next, next := s1.next + 1 }

def doStop (s : St) : St :=
  match s.cur with
  | some _ => { stopCur s with mark := s.stored.length }
  | none => s

def doTick (s : St) (k : Nat) : St :=
  if (s.strm k).exited then s else { s with strm := set s.strm k { s.strm k with ready := true } }

def doTake (s : St) (k : Nat) : St :=
  if (s.strm k).ready && (s.strm k).inflight.isNone && !(s.strm k).exited then
    { s with num := s.num + 1, strm := set s.strm k { s.strm k with ready := false, inflight := some (s.num + 1) } }
  else s

def doStore (s : St) (k : Nat) : St :=
  match (s.strm k).inflight with
  | some v => { s with stored := s.stored ++ [v], strm := set s.strm k { s.strm k with inflight := none } }
  | none => s

def doExit (s : St) (k : Nat) : St :=
  if (s.strm k).stopped && (s.strm k).inflight.isNone then
    { s with strm := set s.strm k { s.strm k with exited := true } }
  else s

def step (s : St) : Ev → St
  | .start => doStart s
  | .stop => doStop s
  | .tick k => doTick s k
  | .take k => doTake s k
  | .store k => doStore s k
  | .exit k => doExit s k

def run (evs : List Ev) : St := evs.foldl step {}

/-- stream j neither has a refresh in flight nor is a stopped stream that has not yet noticed it -/
def settled (x : Strm) : Bool := x.inflight.isNone && (!x.stopped || x.exited)

/-- nothing is pending anywhere: no refresh in flight, every stopped stream has returned -/
def quiet (s : St) : Bool := (List.range s.next).all fun j => settled (s.strm j)

/-- A-inflight / promptness for ALL streams of the manager: a ticker fires only when nothing is pending — a refresh in
    flight completes, and a stopped stream notices its closed channel, before the next tick of ANY stream (both take
    far less than one period; all streams of a manager have the same period). Every other event is unconstrained: any
    interleaving of starts, stops, takes, stores and exits. -/
def promptAll : St → List Ev → Bool
  | _, [] => true
  | s, .tick k :: es => quiet s && promptAll (step s (.tick k)) es
  | s, e :: es => promptAll (step s e) es

/-- what stream j may still store: a refresh in flight or a tick already waiting -/
def credit (x : Strm) : Nat := (if x.inflight.isSome then 1 else 0) + (if x.ready && !x.exited then 1 else 0)

structure Inv (s : St) : Prop where
  fresh : ∀ j, s.next ≤ j → (s.strm j).exited = true ∧ (s.strm j).inflight = none
  curLt : ∀ c, s.cur = some c → c < s.next ∧ (s.strm c).stopped = false
  live : ∀ j, (s.strm j).stopped = false → s.cur = some j
  one : ∀ j, credit (s.strm j) ≤ 1
  excl : ∀ i j, i ≠ j → credit (s.strm i) = 0 ∨ credit (s.strm j) = 0
  markLe : s.mark ≤ s.stored.length
  fin : s.cur = none → s.stored.length ≤ s.mark + 1 ∧ (s.stored.length = s.mark + 1 → ∀ j, credit (s.strm j) = 0)
  sorted : s.stored.Pairwise (· < ·)
  le : ∀ v ∈ s.stored, v ≤ s.num
  fl : ∀ j v, (s.strm j).inflight = some v → v = s.num ∧ ∀ w ∈ s.stored, w < s.num

theorem inv_init : Inv {} := by
  refine ⟨fun _ _ => ⟨rfl, rfl⟩, ?_, ?_, ?_, ?_, Nat.le_refl _, ?_, List.Pairwise.nil, ?_, ?_⟩
  · intro c h; cases h
  · intro j h; cases h
  · intro j; exact Nat.zero_le 1
  · intro i j _; exact Or.inl rfl
  · intro _; exact ⟨by decide, fun h => by cases h⟩
  · intro v h; cases h
  · intro j v h; cases h

theorem set_same (f : Nat → Strm) (k : Nat) (v : Strm) : set f k v k = v := by simp [set]
theorem set_other (f : Nat → Strm) (k j : Nat) (v : Strm) (h : j ≠ k) : set f k v j = f j := by simp [set, h]

theorem credit_stopped (x : Strm) (b : Bool) : credit { x with stopped := b } = credit x := rfl

/-- closing the running stream's channel changes no credit -/
theorem stopCur_credit (s : St) (j : Nat) : credit ((stopCur s).strm j) = credit (s.strm j) := by
  unfold stopCur
  cases hc : s.cur with
  | none => rfl
  | some c =>
    simp only
    by_cases hj : j = c
    · subst hj; rw [set_same]; rfl
    · rw [set_other _ _ _ _ hj]

theorem stopCur_inflight (s : St) (j : Nat) : ((stopCur s).strm j).inflight = (s.strm j).inflight := by
  unfold stopCur
  cases hc : s.cur with
  | none => rfl
  | some c =>
    simp only
    by_cases hj : j = c
    · subst hj; rw [set_same]
    · rw [set_other _ _ _ _ hj]

theorem stopCur_exited (s : St) (j : Nat) : ((stopCur s).strm j).exited = (s.strm j).exited := by
  unfold stopCur
  cases hc : s.cur with
  | none => rfl
  | some c =>
    simp only
    by_cases hj : j = c
    · subst hj; rw [set_same]
    · rw [set_other _ _ _ _ hj]

/-- after closing the running stream's channel every stream has been told to stop -/
theorem stopCur_all_stopped (s : St) (h : Inv s) (j : Nat) : ((stopCur s).strm j).stopped = true := by
  unfold stopCur
  cases hc : s.cur with
  | none =>
    simp only
    cases hs : (s.strm j).stopped with
    | true => rfl
    | false => have := h.live j hs; rw [hc] at this; cases this
  | some c =>
    simp only
    by_cases hj : j = c
    · subst hj; rw [set_same]
    · rw [set_other _ _ _ _ hj]
      cases hs : (s.strm j).stopped with
      | true => rfl
      | false =>
        have := h.live j hs; rw [hc] at this; injection this with this; exact absurd this.symm hj

theorem stopCur_fields (s : St) :
    (stopCur s).next = s.next ∧ (stopCur s).num = s.num ∧ (stopCur s).stored = s.stored ∧
    (stopCur s).mark = s.mark ∧ (stopCur s).cur = none := by
  unfold stopCur
  cases hc : s.cur with
  | none => simp [hc]
  | some c => simp

theorem start_inv (s : St) (h : Inv s) : Inv (doStart s) := by
  obtain ⟨hn, hnum, hst, hmk, _⟩ := stopCur_fields s
  have hcr : ∀ j, credit ((doStart s).strm j) = if j = s.next then 0 else credit (s.strm j) := by
    intro j
    simp only [doStart, hn]
    by_cases hj : j = s.next
    · subst hj; rw [set_same]; simp [credit, Strm.fresh]
    · rw [set_other _ _ _ _ hj, stopCur_credit]; simp [hj]
  have hfreshCredit : credit (s.strm s.next) = 0 := by
    have := h.fresh s.next (Nat.le_refl _)
    simp [credit, this.1, this.2]
  refine ⟨?_, ?_, ?_, ?_, ?_, ?_, ?_, ?_, ?_, ?_⟩
  · intro j hj
    simp only [doStart, hn] at hj ⊢
    have hne : j ≠ s.next := by omega
    rw [set_other _ _ _ _ hne, stopCur_exited, stopCur_inflight]
    exact h.fresh j (by omega)
  · intro c hc
    simp only [doStart, hn] at hc ⊢
    injection hc with hc; subst hc
    rw [set_same]; exact ⟨Nat.lt_succ_self _, rfl⟩
  · intro j hj
    simp only [doStart, hn] at hj ⊢
    by_cases hjn : j = s.next
    · rw [hjn]
    · rw [set_other _ _ _ _ hjn, stopCur_all_stopped s h j] at hj; cases hj
  · intro j; rw [hcr]; split
    · exact Nat.zero_le _
    · exact h.one j
  · intro i j hij; rw [hcr, hcr]
    by_cases hi : i = s.next
    · simp [hi]
    · by_cases hj : j = s.next
      · simp [hj]
      · simp only [hi, hj, if_false]; exact h.excl i j hij
  · simp only [doStart, hst, hmk]; exact h.markLe
  · intro hc; simp [doStart] at hc
  · simp only [doStart, hst]; exact h.sorted
  · simp only [doStart, hst, hnum]; exact h.le
  · intro j v hv
    simp only [doStart, hn, hnum, hst] at hv ⊢
    by_cases hjn : j = s.next
    · subst hjn; rw [set_same] at hv; simp [Strm.fresh] at hv
    · rw [set_other _ _ _ _ hjn, stopCur_inflight] at hv; exact h.fl j v hv

theorem stop_inv (s : St) (h : Inv s) : Inv (doStop s) := by
  unfold doStop
  cases hc : s.cur with
  | none => exact h
  | some c =>
    obtain ⟨hn, hnum, hst, _, hcur⟩ := stopCur_fields s
    simp only
    refine ⟨?_, ?_, ?_, ?_, ?_, ?_, ?_, ?_, ?_, ?_⟩
    · intro j hj; simp only [hn] at hj; rw [stopCur_exited, stopCur_inflight]; exact h.fresh j hj
    · intro d hd; simp only [hcur] at hd; cases hd
    · intro j hj; rw [stopCur_all_stopped s h j] at hj; cases hj
    · intro j; rw [stopCur_credit]; exact h.one j
    · intro i j hij; rw [stopCur_credit, stopCur_credit]; exact h.excl i j hij
    · simp only [hst]; exact Nat.le_refl _
    · intro _; simp only [hst]; exact ⟨Nat.le_succ _, fun hh => by omega⟩
    · simp only [hst]; exact h.sorted
    · simp only [hst, hnum]; exact h.le
    · intro j v hv; simp only [hnum, hst]; rw [stopCur_inflight] at hv; exact h.fl j v hv

theorem quiet_iff (s : St) : quiet s = true ↔ ∀ j, j < s.next → settled (s.strm j) = true := by
  simp [quiet, List.all_eq_true, List.mem_range]

/-- when nothing is pending only the running stream can hold a tick -/
theorem quiet_credit (s : St) (h : Inv s) (hq : quiet s = true) (j : Nat) (hj : (s.strm j).exited = false) :
    s.cur = some j ∧ (s.strm j).inflight = none := by
  have hlt : j < s.next := by
    cases Nat.lt_or_ge j s.next with
    | inl h' => exact h'
    | inr h' => have := (h.fresh j h').1; rw [hj] at this; cases this
  have hs := (quiet_iff s).mp hq j hlt
  simp only [settled, Bool.and_eq_true, Bool.or_eq_true, Bool.not_eq_true', Option.isNone_iff_eq_none] at hs
  refine ⟨?_, hs.1⟩
  rcases hs.2 with h1 | h1
  · exact h.live j h1
  · rw [hj] at h1; cases h1

theorem quiet_credit_zero (s : St) (h : Inv s) (hq : quiet s = true) (k j : Nat) (hk : (s.strm k).exited = false)
    (hjk : j ≠ k) : credit (s.strm j) = 0 := by
  have hcur := (quiet_credit s h hq k hk).1
  cases hje : (s.strm j).exited with
  | false =>
    have := (quiet_credit s h hq j hje).1
    rw [hcur] at this; injection this with this; exact absurd this.symm hjk
  | true =>
    have hin : (s.strm j).inflight = none := by
      cases Nat.lt_or_ge j s.next with
      | inr h' => exact (h.fresh j h').2
      | inl h' =>
        have hs := (quiet_iff s).mp hq j h'
        simp only [settled, Bool.and_eq_true, Option.isNone_iff_eq_none] at hs
        exact hs.1
    simp [credit, hje, hin]

theorem tick_inv (s : St) (k : Nat) (h : Inv s) (hq : quiet s = true) : Inv (doTick s k) := by
  unfold doTick
  cases hk : (s.strm k).exited with
  | true => simpa using h
  | false =>
    simp only [Bool.false_eq_true, if_false]
    obtain ⟨hcur, hin⟩ := quiet_credit s h hq k hk
    have hck : credit ({ s.strm k with ready := true }) = 1 := by simp [credit, hin, hk]
    have hcr : ∀ j, credit (set s.strm k { s.strm k with ready := true } j) = if j = k then 1 else 0 := by
      intro j
      by_cases hj : j = k
      · subst hj; rw [set_same, hck]; simp
      · rw [set_other _ _ _ _ hj, quiet_credit_zero s h hq k j hk hj]; simp [hj]
    refine ⟨?_, ?_, ?_, ?_, ?_, h.markLe, ?_, h.sorted, h.le, ?_⟩
    · intro j hj
      have hne : j ≠ k := by
        intro he; subst he; have := (h.fresh j hj).1; rw [hk] at this; cases this
      simp only; rw [set_other _ _ _ _ hne]; exact h.fresh j hj
    · intro c hc
      have := h.curLt c hc
      refine ⟨this.1, ?_⟩
      simp only
      by_cases hck' : c = k
      · subst hck'; rw [set_same]; exact this.2
      · rw [set_other _ _ _ _ hck']; exact this.2
    · intro j hj
      simp only at hj ⊢
      by_cases hjk : j = k
      · subst hjk; exact hcur
      · rw [set_other _ _ _ _ hjk] at hj; exact h.live j hj
    · intro j; simp only; rw [hcr]; split <;> omega
    · intro i j hij; simp only; rw [hcr, hcr]
      by_cases hi : i = k
      · have hj : j ≠ k := fun he => hij (hi.trans he.symm)
        simp [hj]
      · simp [hi]
    · intro hc; simp only at hc; rw [hcur] at hc; cases hc
    · intro j v hv
      simp only at hv ⊢
      by_cases hjk : j = k
      · subst hjk; rw [set_same] at hv; simp only at hv; exact h.fl j v hv
      · rw [set_other _ _ _ _ hjk] at hv; exact h.fl j v hv

theorem take_inv (s : St) (k : Nat) (h : Inv s) : Inv (doTake s k) := by
  unfold doTake
  split
  · rename_i hg
    simp only [Bool.and_eq_true, Bool.not_eq_true', Option.isNone_iff_eq_none] at hg
    obtain ⟨⟨hr, hin⟩, hex⟩ := hg
    have hk1 : credit (s.strm k) = 1 := by simp [credit, hr, hin, hex]
    have hothers : ∀ j, j ≠ k → credit (s.strm j) = 0 := by
      intro j hj
      rcases h.excl j k hj with h0 | h0
      · exact h0
      · rw [hk1] at h0; cases h0
    have hck : credit ({ s.strm k with ready := false, inflight := some (s.num + 1) }) = 1 := by simp [credit]
    refine ⟨?_, ?_, ?_, ?_, ?_, h.markLe, ?_, h.sorted, ?_, ?_⟩
    · intro j hj
      have hne : j ≠ k := by
        intro he; subst he; have := (h.fresh j hj).1; rw [hex] at this; cases this
      simp only; rw [set_other _ _ _ _ hne]; exact h.fresh j hj
    · intro c hc
      have := h.curLt c hc
      refine ⟨this.1, ?_⟩
      simp only
      by_cases hck' : c = k
      · subst hck'; rw [set_same]; exact this.2
      · rw [set_other _ _ _ _ hck']; exact this.2
    · intro j hj
      simp only at hj ⊢
      by_cases hjk : j = k
      · subst hjk; rw [set_same] at hj; exact h.live j hj
      · rw [set_other _ _ _ _ hjk] at hj; exact h.live j hj
    · intro j; simp only
      by_cases hjk : j = k
      · subst hjk; rw [set_same, hck]; exact Nat.le_refl _
      · rw [set_other _ _ _ _ hjk]; exact h.one j
    · intro i j hij; simp only
      by_cases hi : i = k
      · have hj : j ≠ k := fun he => hij (hi.trans he.symm)
        right; rw [set_other _ _ _ _ hj]; exact hothers j hj
      · left; rw [set_other _ _ _ _ hi]; exact hothers i hi
    · intro hc
      obtain ⟨h1, h2⟩ := h.fin hc
      refine ⟨h1, fun he => ?_⟩
      have := h2 he k; rw [hk1] at this; cases this
    · intro v hv; exact Nat.le_succ_of_le (h.le v hv)
    · intro j v hv
      simp only at hv ⊢
      by_cases hjk : j = k
      · subst hjk; rw [set_same] at hv; simp only at hv
        injection hv with hv
        exact ⟨hv.symm, fun w hw => Nat.lt_succ_of_le (h.le w hw)⟩
      · rw [set_other _ _ _ _ hjk] at hv
        have := hothers j hjk
        simp [credit, hv] at this
  · exact h

theorem store_inv (s : St) (k : Nat) (h : Inv s) : Inv (doStore s k) := by
  unfold doStore
  cases hin : (s.strm k).inflight with
  | none => exact h
  | some v =>
    simp only
    have hk1 : credit (s.strm k) = 1 := by
      have h1 := h.one k
      have : 1 ≤ credit (s.strm k) := by simp [credit, hin]
      omega
    have hothers : ∀ j, j ≠ k → credit (s.strm j) = 0 := by
      intro j hj
      rcases h.excl j k hj with h0 | h0
      · exact h0
      · rw [hk1] at h0; cases h0
    have hck : credit ({ s.strm k with inflight := none }) = 0 := by
      have : credit (s.strm k) = 1 := hk1
      simp only [credit, hin, Option.isSome_some, if_true] at this
      simp only [credit, Option.isSome_none, Bool.false_eq_true, if_false]
      omega
    obtain ⟨hv, hlt⟩ := h.fl k v hin
    refine ⟨?_, ?_, ?_, ?_, ?_, ?_, ?_, ?_, ?_, ?_⟩
    · intro j hj
      simp only
      by_cases hjk : j = k
      · subst hjk; rw [set_same]; exact ⟨(h.fresh j hj).1, rfl⟩
      · rw [set_other _ _ _ _ hjk]; exact h.fresh j hj
    · intro c hc
      have := h.curLt c hc
      refine ⟨this.1, ?_⟩
      simp only
      by_cases hck' : c = k
      · subst hck'; rw [set_same]; exact this.2
      · rw [set_other _ _ _ _ hck']; exact this.2
    · intro j hj
      simp only at hj ⊢
      by_cases hjk : j = k
      · subst hjk; rw [set_same] at hj; exact h.live j hj
      · rw [set_other _ _ _ _ hjk] at hj; exact h.live j hj
    · intro j; simp only
      by_cases hjk : j = k
      · subst hjk; rw [set_same, hck]; exact Nat.zero_le _
      · rw [set_other _ _ _ _ hjk]; exact h.one j
    · intro i j hij; simp only
      by_cases hi : i = k
      · subst hi; left; rw [set_same, hck]
      · left; rw [set_other _ _ _ _ hi]; exact hothers i hi
    · simp only [List.length_append, List.length_singleton]; exact Nat.le_succ_of_le h.markLe
    · intro hc
      obtain ⟨h1, h2⟩ := h.fin hc
      have hne : s.stored.length ≠ s.mark + 1 := by
        intro he; have := h2 he k; rw [hk1] at this; cases this
      simp only [List.length_append, List.length_singleton]
      refine ⟨by omega, fun _ j => ?_⟩
      by_cases hjk : j = k
      · subst hjk; rw [set_same, hck]
      · rw [set_other _ _ _ _ hjk]; exact hothers j hjk
    · rw [List.pairwise_append]
      refine ⟨h.sorted, by simp, fun a ha b hb => ?_⟩
      simp only [List.mem_singleton] at hb; subst hb; rw [hv]; exact hlt a ha
    · intro w hw
      rcases List.mem_append.mp hw with hw | hw
      · exact h.le w hw
      · simp only [List.mem_singleton] at hw; subst hw; rw [hv]; exact Nat.le_refl _
    · intro j w hw
      simp only at hw
      by_cases hjk : j = k
      · subst hjk; rw [set_same] at hw; cases hw
      · rw [set_other _ _ _ _ hjk] at hw
        have := hothers j hjk
        simp [credit, hw] at this

theorem exit_inv (s : St) (k : Nat) (h : Inv s) : Inv (doExit s k) := by
  unfold doExit
  split
  · rename_i hg
    simp only [Bool.and_eq_true, Option.isNone_iff_eq_none] at hg
    obtain ⟨hst, hin⟩ := hg
    have hck : credit ({ s.strm k with exited := true }) = 0 := by simp [credit, hin]
    have hcr : ∀ j, credit (set s.strm k { s.strm k with exited := true } j) ≤ credit (s.strm j) := by
      intro j
      by_cases hjk : j = k
      · subst hjk; rw [set_same, hck]; exact Nat.zero_le _
      · rw [set_other _ _ _ _ hjk]; exact Nat.le_refl _
    refine ⟨?_, ?_, ?_, ?_, ?_, h.markLe, ?_, h.sorted, h.le, ?_⟩
    · intro j hj
      simp only
      by_cases hjk : j = k
      · subst hjk; rw [set_same]; exact ⟨rfl, (h.fresh j hj).2⟩
      · rw [set_other _ _ _ _ hjk]; exact h.fresh j hj
    · intro c hc
      have := h.curLt c hc
      refine ⟨this.1, ?_⟩
      simp only
      by_cases hck' : c = k
      · subst hck'; rw [set_same]; exact this.2
      · rw [set_other _ _ _ _ hck']; exact this.2
    · intro j hj
      simp only at hj ⊢
      by_cases hjk : j = k
      · subst hjk; rw [set_same] at hj; exact h.live j hj
      · rw [set_other _ _ _ _ hjk] at hj; exact h.live j hj
    · intro j; exact Nat.le_trans (hcr j) (h.one j)
    · intro i j hij
      rcases h.excl i j hij with h0 | h0
      · left; have := hcr i; simp only at this ⊢; omega
      · right; have := hcr j; simp only at this ⊢; omega
    · intro hc
      obtain ⟨h1, h2⟩ := h.fin hc
      refine ⟨h1, fun he j => ?_⟩
      have := hcr j; have := h2 he j; simp only at *; omega
    · intro j v hv
      simp only at hv ⊢
      by_cases hjk : j = k
      · subst hjk; rw [set_same] at hv; exact h.fl j v hv
      · rw [set_other _ _ _ _ hjk] at hv; exact h.fl j v hv
  · exact h

/-- the invariant holds along every schedule in which tickers fire only when nothing is pending -/
theorem run_inv (evs : List Ev) : ∀ s, Inv s → promptAll s evs = true → Inv (evs.foldl step s) := by
  induction evs with
  | nil => intro s h _; exact h
  | cons e es ih =>
    intro s h hp
    simp only [List.foldl_cons]
    cases e with
    | start => exact ih _ (start_inv s h) hp
    | stop => exact ih _ (stop_inv s h) hp
    | tick k =>
      simp only [promptAll, Bool.and_eq_true] at hp
      exact ih _ (tick_inv s k h hp.1) hp.2
    | take k => exact ih _ (take_inv s k h) hp
    | store k => exact ih _ (store_inv s k h) hp
    | exit k => exact ih _ (exit_inv s k h) hp

theorem promptAll_append (es fs : List Ev) : ∀ s, promptAll s (es ++ fs) = true →
    promptAll s es = true ∧ promptAll (es.foldl step s) fs = true := by
  induction es with
  | nil => intro s h; exact ⟨rfl, h⟩
  | cons e es ih =>
    intro s h
    cases e with
    | tick k =>
      simp only [List.cons_append, promptAll, Bool.and_eq_true, List.foldl_cons] at h ⊢
      have := ih _ h.2
      exact ⟨⟨h.1, this.1⟩, this.2⟩
    | start => simpa [promptAll] using ih _ (by simpa [promptAll] using h)
    | stop => simpa [promptAll] using ih _ (by simpa [promptAll] using h)
    | take k => simpa [promptAll] using ih _ (by simpa [promptAll] using h)
    | store k => simpa [promptAll] using ih _ (by simpa [promptAll] using h)
    | exit k => simpa [promptAll] using ih _ (by simpa [promptAll] using h)

def isStart : Ev → Bool
  | .start => true
  | _ => false

/-- without a start the heartbeat stays stopped and the mark stays where the stop left it -/
theorem stays_stopped (es : List Ev) : ∀ s, s.cur = none → (∀ e ∈ es, isStart e = false) →
    (es.foldl step s).cur = none ∧ (es.foldl step s).mark = s.mark := by
  induction es with
  | nil => intro s h _; exact ⟨h, rfl⟩
  | cons e es ih =>
    intro s h hn
    have he := hn e List.mem_cons_self
    have hrest : ∀ e' ∈ es, isStart e' = false := fun e' h' => hn e' (List.mem_cons_of_mem _ h')
    have hstep : (step s e).cur = none ∧ (step s e).mark = s.mark := by
      cases e with
      | start => simp [isStart] at he
      | stop => simp [step, doStop, h]
      | tick k => simp only [step, doTick]; split <;> exact ⟨h, rfl⟩
      | take k => simp only [step, doTake]; split <;> exact ⟨h, rfl⟩
      | store k => simp only [step, doStore]; split <;> exact ⟨h, rfl⟩
      | exit k => simp only [step, doExit]; split <;> exact ⟨h, rfl⟩
    simp only [List.foldl_cons]
    have := ih (step s e) hstep.1 hrest
    exact ⟨this.1, this.2.trans hstep.2⟩

end Spine.HBM
