import Spine.Header
/-! C05, the `Except PanicSite` layers below the header layer (DESIGN §8 C05 **M**), as families indexed by repair flags.

    * **Discovery layer**: `processReplyDetailedDiscoveryData` / `processNotifyDetailedDiscoveryData` →
      `provideDetailedDiscoveryDiffForFullNotify`, `AddEntityAndFeatures`, `CheckEntityInformation`, `unmarshalFeature`,
      `NewEntity`, `NewFeatureRemote` → `CreateFunctionData`, `SetOperations`, over an abstract discovery payload in
      which every field these functions dereference is optional.
    * **Request-body layer**: the four node-management call handlers and `AddSubscription` / `RemoveSubscription` /
      `AddBinding` / `RemoveBinding`, over a request body with optional parts, in both connection states
      (peer device address known / unknown).

    "As written" = every flag `false` = the pinned commit a1767d0 (tree of 5099313 plus the add-only hooks);
    "repaired" = every flag `true` = the `fix:` commits named at each flag. Only what decides *panic / no panic*
    (and, where it feeds that decision, which entities the peer's tree holds) is modelled; error numbers, events,
    registry contents are C01/C06/C08/C09's models. -/
namespace Spine.Rob

/-- the catalogued panic sites of the two layers (key `panic:<file>:<function>` of the harness in the comment) -/
inductive Site
  | replyDeviceInformation   -- nodemanagement_detaileddiscovery.go:processReplyDetailedDiscoveryData
  | addEntityAndFeatures     -- device_remote.go:AddEntityAndFeatures
  | newEntity                -- entity.go:NewEntity
  | unmarshalFeature         -- device_remote.go:unmarshalFeature
  | createFunctionData       -- function_data_factory.go:CreateFunctionData
  | setOperations            -- feature_remote.go:SetOperations
  | subRequestCall           -- nodemanagement_subscription.go:handleMsgSubscriptionRequestCall
  | subDeleteCall            -- nodemanagement_subscription.go:handleMsgSubscriptionDeleteCall
  | bindRequestCall          -- nodemanagement_binding.go:handleMsgBindingRequestCall
  | bindDeleteCall           -- nodemanagement_binding.go:handleMsgBindingDeleteCall
  | featureByAddressLocal    -- device_local.go:FeatureByAddress
  | featureByAddressRemote   -- device_remote.go:FeatureByAddress
  | addSubscription          -- subscription_manager.go:AddSubscription
  | removeSubscription       -- subscription_manager.go:RemoveSubscription
  | addBinding               -- binding_manager.go:AddBinding
  | removeBinding            -- binding_manager.go:RemoveBinding
deriving DecidableEq, Repr

/-- outcome of a layer: the handler panics at a site, or returns (with or without an error) -/
inductive Out | panic (s : Site) | done deriving DecidableEq, Repr

/-! ## discovery layer -/

/-- one `supportedFunction` element -/
structure Fn where
  function : Bool            -- `function` present
  ops : Bool                 -- `possibleOperations` present
deriving DecidableEq, Repr

/-- an announced feature type: one with a function table, or one without (unknown / empty string) -/
inductive FT | known | unknown deriving DecidableEq, Repr

/-- one `featureInformation` element -/
structure Feat where
  description : Bool                 -- `description` present
  featureAddress : Bool              -- … and carries `featureAddress`
  entity : Option (List Nat)         -- `featureAddress.entity` (`none` = nil slice, `some []` = empty list)
  feature : Option Nat               -- `featureAddress.feature`
  ftype : Option FT                  -- `featureType`
  role : Bool                        -- `role` present
  fns : List Fn                      -- `supportedFunction`
deriving DecidableEq, Repr

inductive Chg | added | removed | other deriving DecidableEq, Repr

/-- one `entityInformation` element -/
structure Ent where
  description : Bool                 -- `description` present
  entityAddress : Bool               -- … and carries `entityAddress`
  entity : Option (List Nat)         -- `entityAddress.entity`
  etype : Bool                       -- `entityType` present
  chg : Option Chg                   -- `lastStateChange`
  devMismatch : Bool                 -- `entityAddress.device` present, the peer's device address known, and they differ
deriving DecidableEq, Repr

structure Payload where
  deviceInformation : Bool           -- `deviceInformation` present
  deviceDescription : Bool           -- … and carries `description`
  ents : List Ent
  feats : List Feat
deriving Repr

/-- the repairs of the discovery layer (`fix:` commit in /repo) -/
structure DCfg where
  devInfo : Bool     -- reply without deviceInformation is rejected (fixes/02)
  descr : Bool       -- entityType of a new entity is checked; malformed feature elements are skipped (fixes/03)
  emptyAddr : Bool   -- an empty entity address is rejected like a missing one (fixes/04)
  unkType : Bool     -- a remote feature of an unknown type holds no function data (fixes/05)
  fnNil : Bool       -- a supportedFunction element without function is skipped (fixes/06)
  perEntry : Bool    -- each notification entry is handled on its own (437adab, repair of C06)
  keep0 : Bool       -- the removal loop skips entity [0] (fixes/08)
deriving DecidableEq, Repr

def DCfg.asWritten : DCfg := ⟨false, false, false, false, false, false, false⟩
def DCfg.repaired : DCfg := ⟨true, true, true, true, true, true, true⟩

/-- `SetOperations`: an element without possibleOperations is skipped, then `*sf.Function` -/
def fnPanics (c : DCfg) (fn : Fn) : Bool := !c.fnNil && fn.ops && !fn.function

def setOps (c : DCfg) (fns : List Fn) : Option Site :=
  if fns.any (fnPanics c) then some .setOperations else none

/-- `unmarshalFeature` followed by `NewFeatureRemote` and the setters -/
def unmarshal (c : DCfg) (f : Feat) : Option Site :=
  if !f.description then none else
  if !f.featureAddress || f.feature.isNone || f.ftype.isNone || !f.role then
    (if c.descr then none else some .unmarshalFeature) else
  if f.ftype = some .unknown && !c.unkType then some .createFunctionData else
  setOps c f.fns

/-- one iteration of the feature loop of `AddEntityAndFeatures` for the entity with address `a` -/
def featStep (c : DCfg) (a : Option (List Nat)) (f : Feat) : Option Site :=
  if !f.description || !f.featureAddress then (if c.descr then none else some .addEntityAndFeatures) else
  if f.entity = a then unmarshal c f else none

/-- the feature loop: the first element that panics decides -/
def featLoop (c : DCfg) (a : Option (List Nat)) : List Feat → Option Site
  | [] => none
  | f :: rest => match featStep c a f with
    | some s => some s
    | none => featLoop c a rest

/-- one step of a loop over entity entries: panic, early return with an error, or go on with the (possibly grown
    or shrunk) list of entity addresses the peer's tree holds -/
inductive Step
  | panic (s : Site)
  | stop
  | next (known : List (List Nat))
deriving DecidableEq, Repr

/-- a loop over entries with early exit: the first entry that panics or returns an error decides, otherwise the
    state (the entity addresses of the peer's tree) is threaded through -/
def runLoop {α : Type} (step : List (List Nat) → α → Step) : List α → List (List Nat) → Step
  | [], known => .next known
  | x :: rest, known => match step known x with
    | .next k => runLoop step rest k
    | r => r

/-- the continuation after the feature loop of an entity -/
def afterFeats (r : Option Site) (known : List (List Nat)) : Step :=
  match r with
  | some s => .panic s
  | none => .next known

/-- the part of `entStep` after `CheckEntityInformation` passed, for the non-nil entity address `l` -/
def entBody (c : DCfg) (feats : List Feat) (known : List (List Nat)) (e : Ent) (l : List Nat) : Step :=
  if known.contains l then afterFeats (featLoop c (some l) feats) known else
  if !e.etype then (if c.descr then .stop else .panic .addEntityAndFeatures) else
  if l.isEmpty then .panic .newEntity else
  afterFeats (featLoop c (some l) feats) (known ++ [l])

/-- `CheckEntityInformation`: does the entry pass (and with which entity address)? -/
def checkEnt (c : DCfg) (initial : Bool) (e : Ent) : Option (List Nat) :=
  if !e.description || !e.entityAddress then none else
  match e.entity with
  | none => none
  | some l =>
    if c.emptyAddr && l.isEmpty then none else
    if !initial && e.devMismatch then none else some l

/-- one iteration of `AddEntityAndFeatures` -/
def entStep (c : DCfg) (initial : Bool) (feats : List Feat) (known : List (List Nat)) (e : Ent) : Step :=
  match checkEnt c initial e with
  | none => .stop
  | some l => entBody c feats known e l

/-- `AddEntityAndFeatures` over a list of entries -/
def entLoop (c : DCfg) (initial : Bool) (feats : List Feat) : List Ent → List (List Nat) → Step :=
  runLoop (entStep c initial feats)

def outOf (s : Step) : Out :=
  match s with
  | .panic x => .panic x
  | _ => .done

/-- `processReplyDetailedDiscoveryData` -/
def reply (c : DCfg) (known : List (List Nat)) (p : Payload) : Out :=
  if !p.deviceInformation then (if c.devInfo then .done else .panic .replyDeviceInformation) else
  if !p.deviceDescription then .done else
  outOf (entLoop c true p.feats p.ents known)

/-- one iteration of the removal loop of the notification handler -/
def remStep (c : DCfg) (known : List (List Nat)) (e : Ent) : Step :=
  match checkEnt c false e with
  | none => .stop
  | some l => if c.keep0 && l = [0] then .next known else .next (known.filter (· ≠ l))

def remLoop (c : DCfg) : List Ent → List (List Nat) → Step := runLoop (remStep c)

/-- one iteration of the loop of `processNotifyDetailedDiscoveryData` over the entries `all` of the message:
    as written an `added` entry adds the whole message and a `removed` entry removes the whole message -/
def notifyStep (c : DCfg) (all : List Ent) (feats : List Feat) (known : List (List Nat)) (e : Ent) : Step :=
  if !e.description || !e.entityAddress then .stop else
  match e.chg with
  | none => .stop
  | some .added => entLoop c false feats (if c.perEntry then [e] else all) known
  | some .removed => remLoop c (if c.perEntry then [e] else all) known
  | some .other => .next known

def notifyLoop (c : DCfg) (all : List Ent) (feats : List Feat) : List Ent → List (List Nat) → Step :=
  runLoop (notifyStep c all feats)

/-- `processNotifyDetailedDiscoveryData` on a message with a partial filter -/
def notifyPartial (c : DCfg) (known : List (List Nat)) (p : Payload) : Out :=
  if p.ents.isEmpty then .done else outOf (notifyLoop c p.ents p.feats p.ents known)

/-- `slices.Equal` does not tell a nil slice from an empty one -/
def norm (a : Option (List Nat)) : List Nat := a.getD []

def isKnown (known : List (List Nat)) (a : Option (List Nat)) : Bool :=
  match a with
  | some l => known.contains l
  | none => false

/-- `provideDetailedDiscoveryDiffForFullNotify`: entries without description or address are dropped, unknown ones are
    marked added, known ones dropped, every known entity that is not listed gets a synthesised `removed` entry;
    feature elements without description or address are dropped, the rest kept if their entity was added -/
def fullDiff (known : List (List Nat)) (p : Payload) : Payload :=
  let usable := p.ents.filter fun e => e.description && e.entityAddress
  let added := usable.filter fun e => !isKnown known e.entity
  let existing := (usable.filter fun e => isKnown known e.entity).map fun e => norm e.entity
  let removed := (known.filter fun k => !existing.contains k).map fun k =>
    ({ description := true, entityAddress := true, entity := some k, etype := true, chg := some .removed,
       devMismatch := false } : Ent)
  let addedAddrs := added.map fun e => norm e.entity
  { p with
    ents := (added.map fun e => { e with chg := some .added }) ++ removed,
    feats := p.feats.filter fun f => f.description && f.featureAddress && addedAddrs.contains (norm f.entity) }

/-- `processNotifyDetailedDiscoveryData` on a message without partial filter -/
def notifyFull (c : DCfg) (known : List (List Nat)) (p : Payload) : Out :=
  notifyPartial c known (fullDiff known p)

/-! ## request-body layer -/

inductive RKind | subRequest | subDelete | bindRequest | bindDelete deriving DecidableEq, Repr

/-- a subscription / binding request or delete call, with what the lookups the managers perform would yield -/
structure Req where
  kind : RKind
  body : Bool            -- the inner element (subscriptionRequest, …) is present
  serverAddr : Bool      -- `serverAddress` present
  serverFound : Bool     -- … and names an existing local feature
  sft : Bool             -- `serverFeatureType` present
  serverOk : Bool        -- the server feature passes the role / type check
  bound : Bool           -- the server feature already has a binding (binding request, as written checked before the client lookup)
  clientAddr : Bool      -- `clientAddress` present
  clientFound : Bool     -- … and names a feature the peer has announced
  devKnown : Bool        -- the peer's device address is known (its detailed discovery reply has arrived)
deriving DecidableEq, Repr

/-- the repairs of the request-body layer -/
structure RCfg where
  body : Bool        -- the four call handlers reject a call without its inner element (fixes/01)
  fba : Bool         -- `FeatureByAddress` (local and remote) returns nil for a nil address (fixes/07)
  errTxt : Bool      -- the "client feature not found" texts do not dereference the unknown device address (fixes/10)
  sft : Bool         -- `AddSubscription` rejects a request without serverFeatureType (fixes/11)
  clientAddr : Bool  -- the delete calls reject a call without clientAddress (fixes/12)
deriving DecidableEq, Repr

def RCfg.asWritten : RCfg := ⟨false, false, false, false, false⟩
def RCfg.repaired : RCfg := ⟨true, true, true, true, true⟩

def bodySite : RKind → Site
  | .subRequest => .subRequestCall
  | .subDelete => .subDeleteCall
  | .bindRequest => .bindRequestCall
  | .bindDelete => .bindDeleteCall

def managerSite : RKind → Site
  | .subRequest => .addSubscription
  | .subDelete => .removeSubscription
  | .bindRequest => .addBinding
  | .bindDelete => .removeBinding

/-- the client-feature lookup of all four manager functions: nil address, then the "not found" error text -/
def clientLookup (c : RCfg) (r : Req) : Out :=
  if !r.clientAddr then (if c.fba then .done else .panic .featureByAddressRemote) else
  if !r.clientFound then (if c.errTxt || r.devKnown then .done else .panic (managerSite r.kind)) else
  .done

/-- the server-feature lookup: nil address, not found (the local device address is never nil) -/
def serverLookup (c : RCfg) (r : Req) : Option Out :=
  if !r.serverAddr then (if c.fba then some .done else some (.panic .featureByAddressLocal)) else
  if !r.serverFound then some .done else none

/-- `AddSubscription` / `AddBinding` -/
def addReq (c : RCfg) (r : Req) : Out :=
  match serverLookup c r with
  | some o => o
  | none =>
    if !r.sft then
      (if r.kind = .subRequest && !c.sft then .panic .addSubscription else .done) else
    if !r.serverOk then .done else
    if r.kind = .bindRequest && r.bound then .done else
    clientLookup c r

/-- `RemoveSubscription` / `RemoveBinding` -/
def delReq (c : RCfg) (r : Req) : Out :=
  if !r.clientAddr then (if c.clientAddr then .done else .panic (managerSite r.kind)) else
  match clientLookup c r with
  | .panic s => .panic s
  | .done =>
    if !r.clientFound then .done else
    match serverLookup c r with
    | some o => o
    | none => .done

/-- the call handler and the manager function behind it -/
def request (c : RCfg) (r : Req) : Out :=
  if !r.body then (if c.body then .done else .panic (bodySite r.kind)) else
  match r.kind with
  | .subRequest => addReq c r
  | .bindRequest => addReq c r
  | .subDelete => delReq c r
  | .bindDelete => delReq c r

/-! ## composition with the header layer -/

/-- what the node-management feature does with `cmd[0]` of a datagram that passed the header layer -/
inductive Body
  | discReply (p : Payload)
  | discNotify (partialFilter : Bool) (p : Payload)
  | call (r : Req)
  | quiet        -- a branch of the two layers that dereferences nothing optional (discovery read, a discovery
                 -- or call payload under a classifier the handler refuses)
  | outside      -- any other payload or destination: not covered by these two layers
deriving Repr

structure Dgram where
  hdr : Hdr.Raw                  -- `responds` as in the header layer: the stack answers with a reply or result
  known : List (List Nat)        -- entity addresses the peer's tree holds
  body : Body
deriving Repr

inductive Res
  | panicHdr (site : String)
  | panic (s : Site)
  | ok
  | outside
deriving DecidableEq, Repr

def layer (dc : DCfg) (rc : RCfg) (known : List (List Nat)) : Body → Option Out
  | .discReply p => some (reply dc known p)
  | .discNotify true p => some (notifyPartial dc known p)
  | .discNotify false p => some (notifyFull dc known p)
  | .call r => some (request rc r)
  | .quiet => some .done
  | .outside => none

/-- the answer (success or error result, reply) goes through the sender's `PrintMessageOverview` -/
def answered (hc : Hdr.Cfg) (d : Hdr.Raw) : Res :=
  match Hdr.answerWith hc d .proceed with
  | .panic s => .panicHdr s
  | _ => .ok

/-- header layer, then the layer the payload belongs to, then the answer -/
def handle (hc : Hdr.Cfg) (dc : DCfg) (rc : RCfg) (d : Dgram) : Res :=
  match Hdr.pre hc { d.hdr with responds := false } with
  | .panic s => .panicHdr s
  | .dropped => .ok
  | .errorResult => .ok
  | .proceed =>
    match layer dc rc d.known d.body with
    | none => .outside
    | some (.panic s) => .panic s
    | some .done => if d.hdr.responds then answered hc d.hdr else .ok

end Spine.Rob
