/-! The local device tree (spine/device_local.go, entity_local.go, entity.go, feature_local.go, operations.go,
    nodemanagement_detaileddiscovery.go), sequential semantics.

    Entity objects live in a pool indexed by a slot number; the slot number stands for the entity address (the
    harness maps slots to distinct addresses, slot 0 is the device-information entity [0]). `attached` is
    `DeviceLocal.entities`. The reply to a detailed-discovery read and the notifications of AddEntity / RemoveEntity
    are pure functions of the state. Numbers are interned names (feature types, roles 0 = client, 1 = server,
    2 = special, functions, descriptions). -/
namespace Spine.LTree

structure Fn where
  fn : Nat
  read : Bool
  write : Bool
  wpart : Bool := false   -- partial write announced (`NewOperations(read, false, write, writePartial)`)
deriving DecidableEq, Repr

/-- what `Operations.Information` renders for a function: (read, read.partial, write, write.partial).
    `possibleOperations.read` is present iff read; its `partial` tag iff readPartial, which AddFunctionType never
    sets ("partial reads are currently not supported"); `write` is present iff write; its `partial` tag iff
    writePartial. -/
def Fn.info (x : Fn) : Bool × Bool × Bool × Bool := (x.read, false, x.write, x.write && x.wpart)

/-- the constructor arguments of the local device that reach the wire: device address, device type and network
    feature set (interned; feature set 0 = none given, 4 = simple) -/
structure DevCfg where
  addr : Nat := 0
  dtype : Nat := 0
  fset : Nat := 3
deriving DecidableEq, Repr

structure Feat where
  id : Nat
  typ : Nat
  role : Nat
  descr : Nat          -- 0 = no description
  fns : List Fn        -- Go: a map; order is not observable
deriving DecidableEq, Repr

structure Ent where
  etype : Nat := 0
  nextId : Nat := 1
  feats : List Feat := []
deriving DecidableEq, Repr

structure St where
  dev : DevCfg := {}
  pool : Nat → Ent
  attached : List Nat := [0]
  subs : List Nat := []       -- peers subscribed to node management, in subscription order
  ucData : Bool := false      -- node-management use-case data was set at least once

/-- GetOrAddFeature sets "<type> Client" / "<type> Server" / "<type>" as description -/
def descrOf (typ role : Nat) : Nat := 1 + 3 * typ + role

/-- the functions NewNodeManagement registers; codes 100.. are node-management functions; the destination list (108)
    is registered only if a feature set is given and it is not `simple` -/
def nmFns (fset : Nat) : List Fn :=
  [⟨100, true, false, false⟩, ⟨101, true, false, false⟩, ⟨102, true, false, false⟩, ⟨103, false, false, false⟩,
   ⟨104, false, false, false⟩, ⟨105, true, false, false⟩, ⟨106, false, false, false⟩, ⟨107, false, false, false⟩] ++
  (if fset = 0 ∨ fset = 4 then [] else [⟨108, true, false, false⟩])

def nmType : Nat := 90
def dcType : Nat := 91

/-- addDeviceInformation: entity [0] with NodeManagement (feature 0, special) and DeviceClassification (feature 1,
    server, manufacturer data readable); its feature numbers start at 0 -/
def devInfo (cfg : DevCfg) : Ent :=
  { etype := 0, nextId := 2,
    feats := [⟨0, nmType, 2, 0, nmFns cfg.fset⟩, ⟨1, dcType, 1, 0, [⟨109, true, false, false⟩]⟩] }

def init (cfg : DevCfg) : St := { dev := cfg, pool := fun k => if k = 0 then devInfo cfg else {} }

def upd (pool : Nat → Ent) (k : Nat) (e : Ent) : Nat → Ent := fun j => if j = k then e else pool j

/-! ### entity and feature level -/

def findTR (e : Ent) (typ role : Nat) : Option Feat := e.feats.find? fun f => f.typ = typ && f.role = role

/-- GetOrAddFeature (no overlapping call): the existing feature of that type and role, else a new one with the
    next feature number -/
def entGetOrAdd (e : Ent) (typ role : Nat) : Ent × Nat :=
  match findTR e typ role with
  | some f => (e, f.id)
  | none => ({ e with nextId := e.nextId + 1, feats := e.feats ++ [⟨e.nextId, typ, role, descrOf typ role, []⟩] }, e.nextId)

/-- AddFunctionType: ignored for client features and for a function that is already registered (first wins);
    partial write is announced only if write is and the function's data type supports partial updates on this
    feature (`cap` = the function is in the feature type's factory table and its payload implements `Updater`) -/
def featAddFn (f : Feat) (fn : Nat) (r w cap : Bool) : Feat :=
  if f.role = 0 then f
  else if f.fns.any (·.fn = fn) then f
  else { f with fns := f.fns ++ [⟨fn, r, w, w && cap⟩] }

/-- apply g to the first feature with that number (FeatureOfAddress returns the first match) -/
def updFeat : List Feat → Nat → (Feat → Feat) → List Feat
  | [], _, _ => []
  | f :: fs, id, g => if f.id = id then g f :: fs else f :: updFeat fs id g

/-! ### observations -/

inductive Obs
  | notify (p : Nat) (added : Bool) (k etype : Nat) (feats : List Feat)   -- partial detailed-discovery notify
  | ucNotify (p : Nat)                                                      -- use-case data notify
  | reply (p : Nat) (dev : DevCfg) (ents : List (Nat × Nat)) (feats : List (Nat × Feat))   -- detailed-discovery reply
  | destList (p : Nat) (entries : List DevCfg)                             -- destination-list reply
  | ret (id : Nat)
deriving DecidableEq, Repr

/-- the peer an observation is sent to -/
def peerOf : Obs → Option Nat
  | .notify q _ _ _ _ => some q
  | .ucNotify q => some q
  | .reply q _ _ _ => some q
  | .destList q _ => some q
  | .ret _ => none

/-- What actually arrives when the connections of the peers in `failing` cannot be written to (their `Sender`
    returns an error — e.g. no writer): `DeviceLocal.NotifySubscribers` ignores the error of one send and goes on
    with the next subscription, so exactly the messages to failing peers are missing and nothing else changes. -/
def delivered (failing : List Nat) (os : List Obs) : List Obs :=
  os.filter fun o => match peerOf o with
    | some q => !failing.contains q
    | none => true

/-- processReadDetailedDiscoveryData: entities in list order, features per entity in creation order -/
def replyEnts (s : St) : List (Nat × Nat) := s.attached.map fun k => (k, (s.pool k).etype)
def replyFeats (s : St) : List (Nat × Feat) := s.attached.flatMap fun k => (s.pool k).feats.map fun f => (k, f)

/-- DeviceLocal.FeatureByAddress: first attached entity with the address, first feature with the number -/
def resolve (s : St) (k id : Nat) : Option Feat :=
  if k ∈ s.attached then (s.pool k).feats.find? (·.id = id) else none

/-- processReadDestinationListData: one entry, the local device's own `DestinationData()` — device address, device
    type and feature set as given to the constructor; filters of the read are ignored -/
def destEntries (s : St) : List DevCfg := [s.dev]

def notifyAll (s : St) (added : Bool) (k : Nat) : List Obs :=
  s.subs.map fun p => .notify p added k (s.pool k).etype (if added then (s.pool k).feats else [])

def ucNotifyAll (s : St) : List Obs := s.subs.map .ucNotify

/-! ### operations -/

inductive Op
  | attach (k : Nat)                         -- DeviceLocal.AddEntity
  | detach (k : Nat)                         -- DeviceLocal.RemoveEntity
  | renew (k et : Nat)                       -- NewEntityLocal for slot k (a fresh object, fresh numbering)
  | feat (k typ role : Nat)                  -- GetOrAddFeature
  | nextId (k : Nat)                         -- NextFeatureId
  | addFn (k fid fn : Nat) (r w cap : Bool)  -- AddFunctionType on the feature FeatureOfAddress(fid) returns
                                             --   (cap: the function's data supports partial updates on that feature)
  | setDescr (k fid d : Nat)                 -- SetDescriptionString
  | sub (p : Nat)                            -- peer p subscribes to node management
  | unsub (p : Nat)
  | addUc (k : Nat)                          -- some AddUseCaseSupport on entity k (sets use-case data)
  | read (p : Nat)                           -- peer p reads nodeManagementDetailedDiscoveryData
  | destRead (p : Nat) (known : Bool)        -- peer p reads nodeManagementDestinationListData (with or without a
                                             --   filter); known = the datagram's source is a feature p announced
deriving DecidableEq, Repr

def step (s : St) : Op → St × List Obs
  | .attach k => let s' := { s with attached := s.attached ++ [k] }; (s', notifyAll s' true k)
  | .detach k =>
    let s' := { s with attached := s.attached.filter (· ≠ k) }
    (s', (if s.ucData then ucNotifyAll s else []) ++ notifyAll s' false k)
  | .renew k et => ({ s with pool := upd s.pool k { etype := et } }, [])
  | .feat k typ role =>
    let (e, id) := entGetOrAdd (s.pool k) typ role
    ({ s with pool := upd s.pool k e }, [.ret id])
  | .nextId k =>
    ({ s with pool := upd s.pool k { s.pool k with nextId := (s.pool k).nextId + 1 } }, [.ret (s.pool k).nextId])
  | .addFn k fid fn r w cap =>
    ({ s with pool := upd s.pool k { s.pool k with feats := updFeat (s.pool k).feats fid fun f => featAddFn f fn r w cap } }, [])
  | .setDescr k fid d =>
    ({ s with pool := upd s.pool k { s.pool k with feats := updFeat (s.pool k).feats fid fun f => { f with descr := d } } }, [])
  | .sub p => (if p ∈ s.subs then s else { s with subs := s.subs ++ [p] }, [])
  | .unsub p => ({ s with subs := s.subs.filter (· ≠ p) }, [])
  | .addUc _ => ({ s with ucData := true }, ucNotifyAll s)
  | .read p => (s, [.reply p s.dev (replyEnts s) (replyFeats s)])
  | .destRead p known => (s, if known then [.destList p (destEntries s)] else [])

def run (cfg : DevCfg) (ops : List Op) : St := ops.foldl (fun s o => (step s o).1) (init cfg)

/-- A detailed-discovery read of peer p that has taken the entity list and is rendering it while the application
    performs `o` (an AddEntity or RemoveEntity). `Entities()` hands out the slice header, AddEntity appends behind
    it and RemoveEntity builds a new slice, neither touches the features: the reply is the reply of the state before
    `o`; the notifications of `o` go out as usual. -/
def heldRead (s : St) (p : Nat) (o : Op) : St × List Obs :=
  ((step s o).1, .reply p s.dev (replyEnts s) (replyFeats s) :: (step s o).2)

/-- the domain of the property: an entity is added only while it is not part of the device (entity addresses in the
    device are distinct), a fresh object replaces a slot only while detached, entity [0] is left alone -/
def Op.ok (s : St) : Op → Prop
  | .attach k => k ∉ s.attached
  | .renew k _ => k ∉ s.attached
  | _ => True

def validFrom (s : St) : List Op → Prop
  | [] => True
  | o :: os => o.ok s ∧ validFrom (step s o).1 os

end Spine.LTree
