import Spine.EventsOrder
/-! C15, re-entrancy clause: the event bus with its two locks (spine/events.go).

    `mu` guards the handler list. It is taken and released inside `subscribe`, inside `unsubscribe` and inside the
    first section of `Publish` (the snapshot) — each of these is ONE event of the model, so `mu` is free between any
    two events and no event ever waits for it. `muHandle` is held by a publication from `acquire` (`muHandle.Lock()`)
    over `deliver` (the core handlers run synchronously on the publishing goroutine, one goroutine is spawned per
    application handler) to `release` (`muHandle.Unlock()`, `Publish` returns). Application handlers run in their own
    goroutines (`appRun`) and hold no lock of the bus.

    An event of an operation that is not at that program point is a no-op (DESIGN §4.5); `Enabled` says whether a
    lock lets the event proceed. All schedules = all event lists.

    Assumption of this model (the two edges outside the quantifier of C15, DESIGN §8 C15): a CORE handler does not
    publish — it runs inside `deliver`, on the goroutine that holds `muHandle`, so its `acquire` could never be
    enabled (`core_publish_blocks_witness`); handlers are comparable values. -/
namespace Spine.Bus

structure LSt where
  bus : St := {}
  holder : Option Nat := none      -- the publication that holds muHandle
  trace : List Ev := []            -- the events of the lock-free model `Spine.Bus.step` that took effect

inductive LEv
  | subscribe (h : H) | unsubscribe (h : H)     -- by any goroutine: application code or a handler of either level
  | snapshot (p : Nat)                           -- Publish(p), section under mu
  | acquire (p : Nat)                            -- Publish(p), muHandle.Lock()
  | deliver (p : Nat)                            -- Publish(p), core handlers run, application goroutines spawned
  | release (p : Nat)                            -- Publish(p), muHandle.Unlock() and return
  | appRun (p : Nat) (h : H)                     -- the goroutine of application handler h for publication p runs

/-- does a lock let the event proceed? -/
def Enabled (s : LSt) : LEv → Prop
  | .subscribe _ => True
  | .unsubscribe _ => True
  | .snapshot _ => True
  | .appRun _ _ => True
  | .acquire _ => s.holder = none
  | .deliver p => s.holder = some p
  | .release p => s.holder = some p

instance (s : LSt) (e : LEv) : Decidable (Enabled s e) := by
  cases e <;> simp only [Enabled] <;> exact inferInstance

def phaseOf (s : LSt) (p : Nat) : Option Nat := (findPub s.bus p).map (·.phase)

def apply (s : LSt) (e : Ev) : LSt := { s with bus := step s.bus e, trace := s.trace ++ [e] }

def lstep (s : LSt) : LEv → LSt
  | .subscribe h => apply s (.subscribe h)
  | .unsubscribe h => apply s (.unsubscribe h)
  | .snapshot p => apply s (.snapshot p)
  | .appRun p h => apply s (.appRun p h)
  | .acquire p => if s.holder = none ∧ phaseOf s p = some 0 then { s with holder := some p } else s
  | .deliver p => if s.holder = some p ∧ phaseOf s p = some 0 then apply s (.handle p) else s
  | .release p => if s.holder = some p ∧ phaseOf s p = some 1 then { apply s (.ret p) with holder := none } else s

def lrun (evs : List LEv) : LSt := evs.foldl lstep {}

/-- the lock-aware model refines the lock-free one: its bus state is the state the lock-free model reaches on the
    events that took effect — every theorem about `Spine.Bus.run` holds for the bus of every reachable state -/
theorem lstep_refines (s : LSt) (e : LEv) (h : s.bus = run s.trace) : (lstep s e).bus = run (lstep s e).trace := by
  have ap : ∀ ev, (apply s ev).bus = run (apply s ev).trace := by
    intro ev; simp [apply, run, List.foldl_append] at h ⊢; rw [h]
  cases e with
  | subscribe x => exact ap _
  | unsubscribe x => exact ap _
  | snapshot p => exact ap _
  | appRun p x => exact ap _
  | acquire p => simp only [lstep]; split <;> exact h
  | deliver p => simp only [lstep]; split; exact ap _; exact h
  | release p =>
    simp only [lstep]; split
    · show (apply s (.ret p)).bus = run (apply s (.ret p)).trace
      exact ap _
    · exact h

theorem lrun_refines (evs : List LEv) : (lrun evs).bus = run (lrun evs).trace := by
  unfold lrun
  suffices ∀ s : LSt, s.bus = run s.trace → (evs.foldl lstep s).bus = run (evs.foldl lstep s).trace from
    this {} rfl
  induction evs with
  | nil => intro s h; exact h
  | cons e es ih => intro s h; exact ih _ (lstep_refines s e h)

/-- the publication that holds `muHandle` has taken its snapshot and has not returned -/
def LInv (s : LSt) : Prop := ∀ q, s.holder = some q → phaseOf s q = some 0 ∨ phaseOf s q = some 1

theorem phaseOf_step_keep (s : LSt) (e : Ev) (q ph : Nat) (hq : phaseOf s q = some ph)
    (hne : ∀ p, e ≠ .handle p ∧ e ≠ .ret p) : phaseOf (apply s e) q = some ph := by
  unfold phaseOf apply at *
  cases e with
  | subscribe x => simp only [step]; split <;> exact hq
  | unsubscribe x => exact hq
  | appRun p x => simp only [step]; split <;> exact hq
  | handle p => exact absurd rfl (hne p).1
  | ret p => exact absurd rfl (hne p).2
  | snapshot p =>
    simp only [step]
    split
    · exact hq
    · rename_i hnone
      have hnone' : findPub s.bus p = none := by
        cases hf : findPub s.bus p with
        | none => rfl
        | some x => rw [hf] at hnone; simp at hnone
      have := findPub_append_new s.bus ⟨p, s.bus.handlers, 0⟩ q hnone'
      simp only [findPub] at this hq ⊢
      rw [this]
      by_cases hpq : q = p
      · subst hpq; simp only [findPub] at hnone'; rw [hnone'] at hq; cases hq
      · simp only [hpq, if_false]; exact hq

theorem phaseOf_setPhase (s : St) (p ph q : Nat) :
    ((setPhase s p ph).find? (·.id = q)).map (·.phase) =
      if q = p then ((s.pubs.find? (·.id = q)).map fun _ => ph) else (s.pubs.find? (·.id = q)).map (·.phase) := by
  rw [findPub_setPhase]
  cases hf : s.pubs.find? (·.id = q) with
  | none => simp
  | some x =>
    have hx : x.id = q := by simpa using List.find?_some hf
    by_cases hpq : q = p
    · subst hpq; simp [hx]
    · have : ¬ x.id = p := by rw [hx]; exact hpq
      simp [hpq, this]

theorem phase_after_handle (s : St) (p : Nat) (x : Pub) (hf : findPub s p = some x) (hx0 : x.phase = 0) :
    (findPub (step s (.handle p)) p).map (·.phase) = some 1 := by
  simp only [step]
  rw [hf]
  simp only [hx0, if_true]
  show ((setPhase s p 1).find? (·.id = p)).map (·.phase) = some 1
  rw [phaseOf_setPhase]
  simp only [if_true]
  unfold findPub at hf
  rw [hf]; rfl

theorem linv_step (s : LSt) (e : LEv) (h : LInv s) : LInv (lstep s e) := by
  have keep : ∀ ev : Ev, (∀ p, ev ≠ .handle p ∧ ev ≠ .ret p) → LInv (apply s ev) := by
    intro ev hne q hq
    have hq' : s.holder = some q := hq
    rcases h q hq' with h0 | h1
    · exact Or.inl (phaseOf_step_keep s ev q 0 h0 hne)
    · exact Or.inr (phaseOf_step_keep s ev q 1 h1 hne)
  cases e with
  | subscribe x => exact keep _ (fun p => ⟨by simp, by simp⟩)
  | unsubscribe x => exact keep _ (fun p => ⟨by simp, by simp⟩)
  | snapshot p => exact keep _ (fun p' => ⟨by simp, by simp⟩)
  | appRun p x => exact keep _ (fun p' => ⟨by simp, by simp⟩)
  | acquire p =>
    simp only [lstep]
    split
    · rename_i hc
      intro q hq
      have : p = q := by simpa using hq
      subst this
      exact Or.inl hc.2
    · exact h
  | deliver p =>
    simp only [lstep]
    split
    · rename_i hc
      intro q hq
      have hq' : s.holder = some q := hq
      have : p = q := by rw [hc.1] at hq'; simpa using hq'
      subst this
      right
      have hph := hc.2
      unfold phaseOf at hph ⊢
      cases hf : findPub s.bus p with
      | none => rw [hf] at hph; cases hph
      | some x =>
        rw [hf] at hph
        have hx0 : x.phase = 0 := by simpa using hph
        exact phase_after_handle s.bus p x hf hx0
    · exact h
  | release p =>
    simp only [lstep]
    split
    · intro q hq; cases hq
    · exact h

theorem lrun_inv (evs : List LEv) : LInv (lrun evs) := by
  unfold lrun
  suffices ∀ s : LSt, LInv s → LInv (evs.foldl lstep s) from this {} (by intro q hq; cases hq)
  induction evs with
  | nil => intro s h; exact h
  | cons e es ih => intro s h; exact ih _ (linv_step s e h)

/-- the holder of `muHandle` gives it up by its own next events, which no lock holds back: after `deliver q`
    (a no-op if the core handlers have run already) and `release q` the lock is free -/
theorem holder_releases (s : LSt) (q : Nat) (hinv : LInv s) (hq : s.holder = some q) :
    Enabled s (.deliver q) ∧ Enabled (lstep s (.deliver q)) (.release q) ∧
    (lstep (lstep s (.deliver q)) (.release q)).holder = none := by
  rcases hinv q hq with h0 | h1
  · -- snapshot taken, core handlers not yet run
    have hd : lstep s (.deliver q) = apply s (.handle q) := by simp [lstep, hq, h0]
    have hph1 : phaseOf (apply s (.handle q)) q = some 1 := by
      unfold phaseOf at h0 ⊢
      cases hf : findPub s.bus q with
      | none => rw [hf] at h0; cases h0
      | some x =>
        rw [hf] at h0
        have hx0 : x.phase = 0 := by simpa using h0
        exact phase_after_handle s.bus q x hf hx0
    have hh : (apply s (.handle q)).holder = some q := hq
    refine ⟨hq, ?_, ?_⟩
    · rw [hd]; exact hh
    · rw [hd]; simp [lstep, hh, hph1]
  · have hd : lstep s (.deliver q) = s := by simp [lstep, hq, h1]
    refine ⟨hq, ?_, ?_⟩
    · rw [hd]; exact hq
    · rw [hd]; simp [lstep, hq, h1]

theorem phase_after_ret (s : St) (p : Nat) (x : Pub) (hf : findPub s p = some x) (hx1 : x.phase = 1) :
    (findPub (step s (.ret p)) p).map (·.phase) = some 2 := by
  simp only [step]
  rw [hf]
  simp only [hx1, if_true]
  show ((setPhase s p 2).find? (·.id = p)).map (·.phase) = some 2
  rw [phaseOf_setPhase]
  simp only [if_true]
  unfold findPub at hf
  rw [hf]; rfl

theorem phaseOf_some (s : LSt) (p n : Nat) (h : phaseOf s p = some n) : ∃ x, findPub s.bus p = some x ∧ x.phase = n := by
  unfold phaseOf at h
  cases hf : findPub s.bus p with
  | none => rw [hf] at h; cases h
  | some x => rw [hf] at h; exact ⟨x, rfl, by simpa using h⟩

/-- `Publish` never waits for an application handler: from any state in which `muHandle` is free, a new publication
    runs through all four of its sections — each enabled when its turn comes — and returns, without a single `appRun`
    event, whatever application handlers of earlier publications are still pending (`s.bus.pending` is arbitrary). -/
theorem publish_completes_without_appRun (s : LSt) (p : Nat) (hfree : s.holder = none) (hnew : findPub s.bus p = none) :
    let s1 := lstep s (.snapshot p)
    let s2 := lstep s1 (.acquire p)
    let s3 := lstep s2 (.deliver p)
    let s4 := lstep s3 (.release p)
    Enabled s (.snapshot p) ∧ Enabled s1 (.acquire p) ∧ Enabled s2 (.deliver p) ∧ Enabled s3 (.release p) ∧
    phaseOf s4 p = some 2 ∧ s4.holder = none := by
  intro s1 s2 s3 s4
  have hst : step s.bus (.snapshot p) = { s.bus with pubs := s.bus.pubs ++ [⟨p, s.bus.handlers, 0⟩] } := by
    simp only [step]; rw [hnew]; simp
  have h1f : findPub s1.bus p = some ⟨p, s.bus.handlers, 0⟩ := by
    have := findPub_append_new s.bus ⟨p, s.bus.handlers, 0⟩ p hnew
    show findPub (step s.bus (.snapshot p)) p = _
    rw [hst]
    show (s.bus.pubs ++ [(⟨p, s.bus.handlers, 0⟩ : Pub)]).find? (fun x : Pub => decide (x.id = p)) = _
    rw [this]; simp
  have h1h : s1.holder = none := hfree
  have h1p : phaseOf s1 p = some 0 := by unfold phaseOf; rw [h1f]; rfl
  have e2 : s2 = { s1 with holder := some p } := by
    show lstep s1 (.acquire p) = _
    simp [lstep, h1h, h1p]
  have h2h : s2.holder = some p := by rw [e2]
  have h2f : findPub s2.bus p = some ⟨p, s.bus.handlers, 0⟩ := by rw [e2]; exact h1f
  have h2p : phaseOf s2 p = some 0 := by unfold phaseOf; rw [h2f]; rfl
  have e3 : s3 = apply s2 (.handle p) := by
    show lstep s2 (.deliver p) = _
    simp [lstep, h2h, h2p]
  have h3h : s3.holder = some p := by rw [e3]; exact h2h
  have h3p : phaseOf s3 p = some 1 := by
    rw [e3]
    exact phase_after_handle s2.bus p _ h2f rfl
  obtain ⟨x3, h3f, hx3⟩ := phaseOf_some s3 p 1 h3p
  have e4 : s4 = { apply s3 (.ret p) with holder := none } := by
    show lstep s3 (.release p) = _
    simp [lstep, h3h, h3p]
  refine ⟨trivial, h1h, h2h, h3h, ?_, by rw [e4]⟩
  rw [e4]
  exact phase_after_ret s3.bus p x3 h3f hx3

/-- the member in which the dispatch section of `Publish` waits until no application handler of an earlier
    publication is unfinished (a WaitGroup "to keep application handlers in publication order") — NOT the code as
    written; `Spine/Props/C15Gen.lean` checks that `Publish` contains no blocking call besides its two mutexes -/
def WEnabled (s : LSt) : LEv → Prop
  | .deliver p => s.holder = some p ∧ s.bus.pending = []
  | .subscribe _ => True
  | .unsubscribe _ => True
  | .snapshot _ => True
  | .appRun _ _ => True
  | .acquire _ => s.holder = none
  | .release p => s.holder = some p

instance (s : LSt) (e : LEv) : Decidable (WEnabled s e) := by
  cases e <;> simp only [WEnabled] <;> exact inferInstance

/-! ## The member with a lock hand-over (NOT the code as written)

    If `Publish` released `mu` only after `muHandle.Lock()` ("hand-over"), a publisher queued on `muHandle` would hold
    `mu`. `Spine/Props/C15Gen.lean` checks on every run, on a fact regenerated from spine/events.go, that the tree
    under test is not this member. Here: what goes wrong in it. -/

structure HSt where
  l : LSt := {}
  muHolder : Option Nat := none     -- the publication that took its snapshot and keeps `mu` until it gets `muHandle`

def HEnabled (s : HSt) : LEv → Prop
  | .subscribe _ => s.muHolder = none
  | .unsubscribe _ => s.muHolder = none
  | .snapshot _ => s.muHolder = none
  | .appRun _ _ => True
  | .acquire _ => s.l.holder = none
  | .deliver p => s.l.holder = some p
  | .release p => s.l.holder = some p

instance (s : HSt) (e : LEv) : Decidable (HEnabled s e) := by
  cases e <;> simp only [HEnabled] <;> exact inferInstance

def hstep (s : HSt) : LEv → HSt
  | .subscribe h => if s.muHolder = none then { s with l := lstep s.l (.subscribe h) } else s
  | .unsubscribe h => if s.muHolder = none then { s with l := lstep s.l (.unsubscribe h) } else s
  | .snapshot p =>
    if s.muHolder = none ∧ phaseOf s.l p = none then { l := lstep s.l (.snapshot p), muHolder := some p } else s
  | .acquire p =>
    if s.muHolder = some p ∧ s.l.holder = none then { l := lstep s.l (.acquire p), muHolder := none } else s
  | .deliver p => { s with l := lstep s.l (.deliver p) }
  | .release p => { s with l := lstep s.l (.release p) }
  | .appRun p h => { s with l := lstep s.l (.appRun p h) }

def hrun (evs : List LEv) : HSt := evs.foldl hstep {}

end Spine.Bus
