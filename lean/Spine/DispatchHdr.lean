import Spine.Header
import Spine.DispatchThm
/-! The header layer of C05 (`Spine.Hdr.pre`, a family over `addr / filter / pmo / noResOnRes`) and the dispatch
    model (`Spine.Disp.processCmd`, a family over `overviewPanics / resultOnResult / …`) describe the same code from
    two sides. On the shared part — a datagram with source, destination, classifier, one cmd and regular filters,
    which is all a `Disp.Dg` can express — they agree: `Hdr.pre` says *dropped / error result / panic / proceed*
    exactly when `processCmd` emits nothing for that reason / exactly the unknown-destination error / a panic /
    reaches the feature layer. Not shared (only in `Hdr`): absent addresses or classifier, empty cmd list, a filter
    without cmdControl; (only in `Disp`): everything behind `proceed`. -/
namespace Spine.Disp

def toCls : Cls → Hdr.Cls
  | .read => .read | .reply => .reply | .notify => .notify | .write => .write | .call => .call | .result => .result

/-- the header-layer member that corresponds to a dispatch member; the two guards the dispatch model cannot see are
    free -/
def hdrCfg (c : Cfg) (addr filter : Bool) : Hdr.Cfg :=
  { addr := addr, filter := filter, pmo := !c.overviewPanics, noResOnRes := !c.resultOnResult }

/-- does the feature layer answer with a reply or result -/
def respondsTo (w : W) (p : Nat) (d : Dg) : Bool :=
  match srcF w p d, dstF w d with
  | some rf, some lf => !(responses w p lf rf d).isEmpty
  | _, _ => false

/-- the header-layer view of a dispatch datagram in a world -/
def toRaw (w : W) (p : Nat) (d : Dg) : Hdr.Raw :=
  { src := some d.src, dst := some d.dst, cls := some (toCls d.cls), ref := d.ref, msgCounter := d.ctr.isSome,
    cmds := 1, filterWithoutCmdControl := false, resultData := d.fn = 900, errorNumber := !d.noErr,
    srcKnown := (srcF w p d).isSome, dstKnown := (dstF w d).isSome, responds := respondsTo w p d }

theorem toCls_result (c : Cls) : (toCls c = .result) ↔ c = .result := by cases c <;> simp [toCls]
theorem toCls_reply (c : Cls) : (toCls c = .reply) ↔ c = .reply := by cases c <;> simp [toCls]

def sitePMO (d : Dg) : String :=
  if (d.cls = .reply || d.cls = .result) && d.ref.isNone then "PrintMessageOverview(nil reference)"
  else if d.cls = .result && (d.fn ≠ 900 || d.noErr) then "PrintMessageOverview(nil result data)"
  else "PrintMessageOverview(nil reference, outgoing)"

/-- the header-layer outcome class of a dispatch step, read off `processCmd`'s own case distinction -/
def preOf (w : W) (p : Nat) (d : Dg) : Hdr.Pre :=
  match srcF w p d with
  | none => .dropped
  | some rf =>
    match dstF w d with
    | none =>
      if d.cls = .result && !w.cfg.resultOnResult then .dropped
      else if w.cfg.overviewPanics && d.ctr.isNone then .panic "PrintMessageOverview(nil reference, outgoing)"
      else .errorResult
    | some lf => if crashes w p lf rf d then .panic (sitePMO d) else .proceed

/-- the two models agree on the shared part: `Hdr.pre` of the corresponding member on the image of the datagram is
    the outcome class of the dispatch step, panic site included — whatever the two guards the dispatch model cannot
    see are set to -/
theorem pre_agrees (w : W) (p : Nat) (d : Dg) (a f : Bool) :
    Hdr.pre (hdrCfg w.cfg a f) (toRaw w p d) = preOf w p d := by
  unfold preOf
  cases hsrc : srcF w p d with
  | none =>
    unfold Hdr.pre hdrCfg toRaw
    simp [hsrc]
  | some rf =>
    cases hdst : dstF w d with
    | none =>
      unfold Hdr.pre Hdr.answerWith hdrCfg toRaw
      simp only [hsrc, hdst, Option.isNone_some, Option.isSome_some, Option.isSome_none, Bool.or_false, Bool.and_false,
        Bool.false_eq_true, if_false, Bool.not_true, Bool.not_false, Bool.true_and, Bool.not_not, Option.some.injEq,
        toCls_result, Nat.succ_ne_zero, Bool.false_and]
      cases w.cfg.resultOnResult <;> cases w.cfg.overviewPanics <;> cases d.ctr <;> by_cases hc : d.cls = .result <;>
        simp [hc]
    | some lf =>
      have hresp : respondsTo w p d = !(responses w p lf rf d).isEmpty := by simp [respondsTo, hsrc, hdst]
      unfold Hdr.pre Hdr.answerWith hdrCfg toRaw crashes inPanics sitePMO
      rw [hresp]
      simp only [hsrc, hdst, Option.isNone_some, Option.isSome_some, Bool.or_false, Bool.and_false,
        Bool.false_eq_true, if_false, Bool.not_true, Bool.not_false, Bool.true_and, Bool.not_not, Option.some.injEq,
        toCls_result, toCls_reply, Nat.succ_ne_zero, Bool.false_and]
      cases w.cfg.overviewPanics
      · simp
      · cases hr : (responses w p lf rf d).isEmpty <;> cases hc : d.ctr <;> cases href : d.ref <;>
          cases hn : d.noErr <;> by_cases hfn : d.fn = 900 <;> cases hcls : d.cls <;> simp [hfn]

/-- *dropped*: nothing at all is written -/
theorem pre_dropped (w : W) (p : Nat) (d : Dg) (h : preOf w p d = .dropped) : (processCmd w p d).2 = [] := by
  unfold preOf at h
  unfold processCmd
  cases hsrc : srcF w p d with
  | none => rfl
  | some rf =>
    simp only [hsrc] at h
    cases hdst : dstF w d with
    | none =>
      simp only [hdst] at h
      simp only []
      cases hA : (decide (d.cls = Cls.result) && !w.cfg.resultOnResult) <;>
        cases hB : (w.cfg.overviewPanics && d.ctr.isNone) <;> simp_all
    | some lf =>
      simp only [hdst] at h
      cases hC : crashes w p lf rf d <;> simp_all

/-- *error result*: exactly the unknown-destination error, echoing the destination as sent, on the sender's
    connection -/
theorem pre_errorResult (w : W) (p : Nat) (d : Dg) (h : preOf w p d = .errorResult) :
    (processCmd w p d).2 = [(p, resU d)] := by
  unfold preOf at h
  unfold processCmd
  cases hsrc : srcF w p d with
  | none => simp [hsrc] at h
  | some rf =>
    simp only [hsrc] at h
    cases hdst : dstF w d with
    | none =>
      simp only [hdst] at h
      simp only []
      cases hA : (decide (d.cls = Cls.result) && !w.cfg.resultOnResult) <;>
        cases hB : (w.cfg.overviewPanics && d.ctr.isNone) <;> simp_all
    | some lf =>
      simp only [hdst] at h
      cases hC : crashes w p lf rf d <;> simp_all

/-- *panic*: the step is the panic, nothing else is written -/
theorem pre_panic (w : W) (p : Nat) (d : Dg) (s : String) (h : preOf w p d = .panic s) :
    (processCmd w p d).2 = [(p, .panic)] := by
  unfold preOf at h
  unfold processCmd
  cases hsrc : srcF w p d with
  | none => simp [hsrc] at h
  | some rf =>
    simp only [hsrc] at h
    cases hdst : dstF w d with
    | none =>
      simp only [hdst] at h
      simp only []
      cases hA : (decide (d.cls = Cls.result) && !w.cfg.resultOnResult) <;>
        cases hB : (w.cfg.overviewPanics && d.ctr.isNone) <;> simp_all
    | some lf =>
      simp only [hdst] at h
      simp only []
      cases hC : crashes w p lf rf d <;> simp_all

/-- *proceed*: source and destination are known and the step reaches the write gate and the feature -/
theorem pre_proceed (w : W) (p : Nat) (d : Dg) (h : preOf w p d = .proceed) :
    ∃ rf lf, srcF w p d = some rf ∧ dstF w d = some lf ∧ crashes w p lf rf d = false := by
  unfold preOf at h
  cases hsrc : srcF w p d with
  | none => simp [hsrc] at h
  | some rf =>
    simp only [hsrc] at h
    cases hdst : dstF w d with
    | none =>
      simp only [hdst] at h
      cases hA : (decide (d.cls = Cls.result) && !w.cfg.resultOnResult) <;>
        cases hB : (w.cfg.overviewPanics && d.ctr.isNone) <;> simp_all
    | some lf =>
      simp only [hdst] at h
      refine ⟨rf, lf, rfl, rfl, ?_⟩
      cases hc : crashes w p lf rf d with
      | false => rfl
      | true => simp [hc] at h

end Spine.Disp
