import Spine.TeardownServe
/-! C10 — "continues to be served", lifted from ONE request to every HISTORY of requests of the other peers.

    `TdS.Frame k w w'` (the dispatch world after a clean-up about connection `k`) is preserved by every datagram and every
    own-entry node-management call of every connection `q ≠ k`, and by every data change of the local application, executed
    on both worlds; hence the outputs on every connection other than `k`'s agree along the whole history.
    Lemma module (nothing a driver imports). -/
namespace Spine.TdS
open Spine Spine.Disp

theorem frame_setPeer {k : Nat} {w w' : W} (hf : Frame k w w') (q : Nat) (pr : Peer) :
    Frame k (setPeer w q pr) (setPeer w' q pr) := by
  refine ⟨hf.loc, hf.data, hf.cfg, ?_, hf.binds, hf.subs⟩
  intro r hr
  simp only [setPeer]
  split
  · rfl
  · exact hf.peers r hr

theorem frame_record {k : Nat} {w w' : W} (hf : Frame k w w') (b : Bool) (d : Dg) :
    Frame k (record w b d) (record w' b d) := by
  unfold record
  split
  · refine ⟨hf.loc, ?_, hf.cfg, hf.peers, hf.binds, hf.subs⟩
    show setData w'.data d.dst d.fn d.val = setData w.data d.dst d.fn d.val
    rw [hf.data]
  · exact hf

theorem count_filter (k r : Nat) (hr : r ≠ k) (outs : List (Nat × Out)) :
    count r (outs.filter (fun o => o.1 ≠ k)) = count r outs := by
  unfold count
  rw [List.filter_filter]
  congr 1
  apply TdK.filter_congr_mem
  intro o _
  by_cases h : o.1 = r
  · simp [h, hr]
  · simp [h]

theorem frame_bump {k : Nat} {w w' : W} (hf : Frame k w w') (outs outs' : List (Nat × Out))
    (ho : outs'.filter (fun o => o.1 ≠ k) = outs.filter (fun o => o.1 ≠ k)) : Frame k (bump w outs) (bump w' outs') := by
  refine ⟨hf.loc, hf.data, hf.cfg, ?_, hf.binds, hf.subs⟩
  intro r hr
  simp only [bump]
  rw [hf.peers r hr, ← count_filter k r hr outs', ho, count_filter k r hr outs]

/-- a datagram of another connection keeps the two worlds in the frame relation -/
theorem frame_processCmd_state {k : Nat} {w w' : W} (hf : Frame k w w') (q : Nat) (hq : q ≠ k) (d : Dg) :
    Frame k (processCmd w q d).1 (processCmd w' q d).1 := by
  have h0 : Frame k (setPeer w q (answered (w.peers q) d.ref)) (setPeer w' q (answered (w.peers q) d.ref)) :=
    frame_setPeer hf q _
  unfold processCmd
  rw [srcF_frame hf hq, hf.peers q hq]
  cases srcF w q d with
  | none => exact h0
  | some rf =>
    have hd : dstF w' d = dstF w d := by unfold dstF; rw [hf.loc]
    rw [hd]
    cases dstF w d with
    | none =>
      dsimp only
      rw [hf.cfg.1]
      split
      · exact h0
      · split
        · exact h0
        · exact frame_bump h0 _ _ rfl
    | some lf =>
      dsimp only
      rw [crashes_frame hf hq, applies_frame hf hq, responses_frame hf hq, wantsRead_frame hf hq]
      split
      · exact h0
      · have houts : ((if applies w q lf d = true then notifs w' d else []) ++ tag q (responses w q lf rf d)).filter (fun o => o.1 ≠ k) =
            ((if applies w q lf d = true then notifs w d else []) ++ tag q (responses w q lf rf d)).filter (fun o => o.1 ≠ k) := by
          simp only [List.filter_append]
          congr 1
          split
          · exact notifs_frame hf d
          · rfl
        have h1 := frame_bump (frame_record h0 (applies w q lf d) d) _ _ houts
        split
        · rw [h1.peers q hq]
          exact frame_setPeer h1 q _
        · exact h1

theorem filter_append_keep (l : List Entry) (keep : Entry → Bool) (e : Entry) (he : keep e = true) :
    (l.filter keep) ++ [e] = (l ++ [e]).filter keep := by
  rw [List.filter_append]
  simp [List.filter_cons, he]

/-- an own-entry call of another connection keeps the two worlds in the frame relation -/
theorem frame_processCall_state {k : Nat} {w w' : W} (hf : Frame k w w') (q : Nat) (hq : q ≠ k) (ctr : Nat) (ack : Bool)
    (c : Call) (hc : Call.own c = true) : Frame k (processCall w q ctr ack c).1 (processCall w' q ctr ack c).1 := by
  unfold processCall
  rw [connected_frame hf q hq, callOk_frame hf q hq c hc]
  split
  · exact hf
  · split
    · apply frame_bump _ _ _ rfl
      obtain ⟨keepB, hkB, hB⟩ := hf.binds
      obtain ⟨keepS, hkS, hS⟩ := hf.subs
      cases c with
      | bind c s t => simp [Call.own] at hc
      | unbind c s =>
        refine ⟨hf.loc, hf.data, hf.cfg, hf.peers, ⟨keepB, hkB, ?_⟩, hf.subs⟩
        simp only [callApply]
        rw [hB, hf.cfg.1, List.filter_filter, List.filter_filter]
        apply TdK.filter_congr_mem
        intro b _
        exact Bool.and_comm _ _
      | sub c s t =>
        refine ⟨hf.loc, hf.data, hf.cfg, hf.peers, hf.binds, ⟨keepS, hkS, ?_⟩⟩
        simp only [callApply]
        rw [hS]
        exact filter_append_keep _ _ _ (hkS _ hq)
      | unsub c s =>
        refine ⟨hf.loc, hf.data, hf.cfg, hf.peers, hf.binds, ⟨keepS, hkS, ?_⟩⟩
        simp only [callApply]
        rw [hS, List.filter_filter, List.filter_filter]
        apply TdK.filter_congr_mem
        intro b _
        exact Bool.and_comm _ _
    · exact frame_bump hf _ _ rfl

/-- a data change by the local application: notifications on every connection but `k`'s as before, frame kept -/
theorem frame_localSet {k : Nat} {w w' : W} (hf : Frame k w w') (a : Addr) (fn v : Nat) :
    Frame k (localSet w a fn v).1 (localSet w' a fn v).1 ∧
    (localSet w' a fn v).2.filter (fun o => o.1 ≠ k) = (localSet w a fn v).2.filter (fun o => o.1 ≠ k) := by
  have hn : (notifsAt w' a fn v).filter (fun o => o.1 ≠ k) = (notifsAt w a fn v).filter (fun o => o.1 ≠ k) :=
    notifs_frame hf { src := a, dst := a, ctr := none, ref := none, cls := .notify, ack := false, fn := fn, val := v }
  have hl : locF w' a = locF w a := by unfold locF; rw [hf.loc]
  unfold localSet
  rw [hl]
  cases locF w a with
  | none => exact ⟨hf, rfl⟩
  | some lf =>
    dsimp only
    split
    · refine ⟨frame_bump ?_ _ _ hn, hn⟩
      refine ⟨hf.loc, ?_, hf.cfg, hf.peers, hf.binds, hf.subs⟩
      show setData w'.data a fn v = setData w.data a fn v
      rw [hf.data]
    · exact ⟨hf, rfl⟩

/-! ## histories of requests -/

/-- what the peers other than `k` and the local application do after the teardown -/
inductive Req
  | dg (q : Nat) (d : Dg)                              -- an inbound datagram of connection q
  | call (q ctr : Nat) (ack : Bool) (c : Call)         -- a node-management request / delete call of connection q
  | setData (a : Addr) (fn v : Nat)                    -- the local application changes data (subscribers are notified)
deriving Repr

def Req.okFor (k : Nat) : Req → Bool
  | .dg q _ => q ≠ k
  | .call q _ _ c => q ≠ k && Call.own c
  | .setData _ _ _ => true

def reqStep (w : W) : Req → W × List (Nat × Out)
  | .dg q d => processCmd w q d
  | .call q ctr ack c => processCall w q ctr ack c
  | .setData a fn v => localSet w a fn v

/-- the outputs of every step of the history, restricted to the connections other than `k`'s -/
def reqRun (k : Nat) : W → List Req → List (List (Nat × Out))
  | _, [] => []
  | w, r :: rs => (reqStep w r).2.filter (fun o => o.1 ≠ k) :: reqRun k (reqStep w r).1 rs

theorem reqStep_frame {k : Nat} {w w' : W} (hf : Frame k w w') (r : Req) (hr : r.okFor k = true) :
    Frame k (reqStep w r).1 (reqStep w' r).1 ∧
    (reqStep w' r).2.filter (fun o => o.1 ≠ k) = (reqStep w r).2.filter (fun o => o.1 ≠ k) := by
  cases r with
  | dg q d =>
    have hq : q ≠ k := by simpa [Req.okFor] using hr
    exact ⟨frame_processCmd_state hf q hq d, serve_cmd_frame hf q hq d⟩
  | call q ctr ack c =>
    simp only [Req.okFor, Bool.and_eq_true, decide_eq_true_eq] at hr
    refine ⟨frame_processCall_state hf q hr.1 ctr ack c hr.2, ?_⟩
    show (processCall w' q ctr ack c).2.filter _ = (processCall w q ctr ack c).2.filter _
    rw [serve_call_frame hf q hr.1 ctr ack c hr.2]
  | setData a fn v => exact frame_localSet hf a fn v

/-- FRAME OVER RESPONSES, histories: after a clean-up about connection `k`, along EVERY history of datagrams and own-entry
    calls of the other connections and of data changes by the local application, every step's outputs on every connection
    other than `k`'s are those of the same history without the clean-up. -/
theorem serve_history_frame {k : Nat} : ∀ (rs : List Req) {w w' : W}, Frame k w w' → (∀ r ∈ rs, r.okFor k = true) →
    reqRun k w' rs = reqRun k w rs := by
  intro rs
  induction rs with
  | nil => intro _ _ _ _; rfl
  | cons r rs ih =>
    intro w w' hf hok
    have h := reqStep_frame hf r (hok r List.mem_cons_self)
    simp only [reqRun]
    rw [h.2, ih h.1 (fun r' hr' => hok r' (List.mem_cons_of_mem _ hr'))]

end Spine.TdS
