import Spine.Approval
/-! C12 across connections: `RemoveRemoteDevice` → `CleanWriteApprovalCaches(ski)` stops the timers of the peer's
    pending writes and forgets its pending map and its tally map; a peer that connects again (same SKI) starts its
    message counters over, so counters are reused. `dropConn` is that clean-up on the one-peer model; verdict
    operations that have already looked a write up (`lookups`) and timeouts already in flight (`fired`) go on. -/
namespace Spine.Appr

def dropConn (s : St) : St := { s with pending := [], armed := [], tally := none, seen := [] }

/-- events of a peer over several connections -/
inductive CEv
  | ev (e : Ev)
  | drop

def cstep (c : Cfg) (s : St) : CEv → St
  | .ev e => step c s e
  | .drop => dropConn s

def crun (c : Cfg) (n : Nat) (evs : List CEv) : St := evs.foldl (cstep c) { nCb := n }

/-- after the clean-up nothing is pending, no timer is armed and no approval is remembered: a reused counter starts
    from nothing — provided no verdict operation is between its lookup and its commit at that moment -/
theorem dropConn_clean (s : St) :
    (dropConn s).pending = [] ∧ (dropConn s).armed = [] ∧ (dropConn s).tally = none ∧ (dropConn s).seen = [] :=
  ⟨rfl, rfl, rfl, rfl⟩

/-- the code as it is (both earlier repairs in place): a verdict that looked the write up before the connection was
    removed and commits after it leaves its approval in a fresh tally map; the peer connects again, reuses the
    counter, and ONE further approval applies the write although two callbacks are registered -/
theorem stale_tally_after_disconnect_witness :
    (crun Cfg.clean 2 [.ev (.arrive 5), .ev (.lookup 10 5), .drop, .ev (.commit 10 true),
      .ev (.arrive 5), .ev (.lookup 11 5), .ev (.commit 11 true)]).outcomes = [(5, .applied)] := by decide

/-- without a verdict in flight at the disconnect the reused counter needs both approvals -/
example :
    (crun Cfg.clean 2 [.ev (.arrive 5), .ev (.lookup 10 5), .ev (.commit 10 true), .drop,
      .ev (.arrive 5), .ev (.lookup 11 5), .ev (.commit 11 true)]).outcomes = [] ∧
    (crun Cfg.clean 2 [.ev (.arrive 5), .ev (.lookup 10 5), .ev (.commit 10 true), .drop,
      .ev (.arrive 5), .ev (.lookup 11 5), .ev (.commit 11 true), .ev (.lookup 12 5), .ev (.commit 12 false)]).outcomes
      = [(5, .error)] := by decide

end Spine.Appr
