import Spine.Approval
/-! C12 across connections, as the code keys its maps: by the peer's SKI and the MESSAGE COUNTER. A peer that is
    disconnected and connects again (same SKI) starts its counters over, so a counter names different write
    instances over time. An instance is `(epoch, counter)`; `pending`, the tally and the timeout closure's deletes are
    keyed by the counter alone, timers and messages are objects of their instance.

    `Cfg` is the defect family (all `false`/`true` as noted = the fully repaired member):
    * `tallyReset`, `ignoreStop` — the two defects of `Spine/Approval.lean` (repaired in /repo since);
    * `recheck` — `ApproveOrDenyWrite` re-checks, before it counts, that the pending entry of the counter still holds
      the timer it looked up (`false` = as written before that repair: it counts first and asks `timer.Stop()` later);
    * `msgId` — the pending lookup requires the pending MESSAGE of the counter to be the verdict's own message
      (`false`: a verdict for a message of an earlier connection is taken for the write that reuses its counter).

    The instance-keyed model `Spine.Appr` (with its `drop` event) is what the all-schedule theorems are about; the
    driver runs both side by side for the fully repaired member and reports any divergence of their outcomes. -/
namespace Spine.ApprE
open Spine.Appr (Out)

abbrev Inst := Nat × Nat      -- (epoch of the connection, message counter)

structure Cfg where
  tallyReset : Bool := false
  ignoreStop : Bool := false
  recheck : Bool := true
  msgId : Bool := true
deriving Repr

structure St where
  nCb : Nat
  ep : Nat := 0                                  -- the peer's current connection
  seen : List Inst := []
  pending : List Inst := []                      -- pendingWriteApprovals[ski]: counter ↦ timer (the instance's)
  armed : List Inst := []                        -- timers neither fired nor stopped
  tally : Option (List (Nat × Nat)) := none      -- writeApprovalReceived[ski]: counter ↦ approvals
  lookups : List (Nat × Inst × Inst) := []       -- verdict op ↦ (its message, the timer it looked up)
  fired : List Inst := []
  outcomes : List (Inst × Out) := []
  presented : Nat := 0

inductive Ev
  | arrive (c : Nat)
  | lookup (op : Nat) (m : Inst)
  | commit (op : Nat) (approve : Bool)
  | timeoutTake (t : Inst)
  | timeoutSend (t : Inst)
  | drop

def byCtr (l : List Inst) (c : Nat) : Option Inst := l.find? (·.2 = c)

def bump (cf : Cfg) (t : Option (List (Nat × Nat))) (c : Nat) : List (Nat × Nat) × Nat :=
  match t with
  | some m => match m.find? (·.1 = c) with
    | some (_, n) => ((m.filter (·.1 ≠ c)) ++ [(c, n + 1)], n + 1)
    | none => if cf.tallyReset then ([(c, 1)], 1) else (m ++ [(c, 1)], 1)
  | none => ([(c, 1)], 1)

/-- the tail of ApproveOrDenyWrite once the verdict is final: `m` the verdict's message, `t` the timer looked up -/
def finish (cf : Cfg) (s : St) (m t : Inst) (approve : Bool) : St :=
  let stopped := s.armed.contains t
  let s := { s with armed := s.armed.filter (· ≠ t), tally := s.tally.map (·.filter (·.1 ≠ m.2)) }
  if cf.ignoreStop || stopped then
    { s with pending := s.pending.filter (·.2 ≠ m.2),
             outcomes := s.outcomes ++ [(m, if approve then .applied else .error)] }
  else s

def step (cf : Cfg) (s : St) : Ev → St
  | .arrive c =>
    if s.seen.contains (s.ep, c) then s
    else { s with seen := (s.ep, c) :: s.seen, pending := (s.ep, c) :: s.pending.filter (·.2 ≠ c),
                  armed := (s.ep, c) :: s.armed, presented := s.presented + s.nCb }
  | .lookup op m =>
    match byCtr s.pending m.2 with
    | none => s
    | some t => if cf.msgId && t != m then s else { s with lookups := (op, m, t) :: s.lookups }
  | .commit op approve =>
    match s.lookups.find? (·.1 = op) with
    | none => s
    | some (_, m, t) =>
      let s := { s with lookups := s.lookups.filter (·.1 ≠ op) }
      if cf.recheck && byCtr s.pending m.2 != some t then s
      else if s.nCb > 1 && approve then
        let (tl, n) := bump cf s.tally m.2
        let s := { s with tally := some tl }
        if n < s.nCb then s else finish cf s m t approve
      else finish cf s m t approve
  | .timeoutTake t =>
    if s.armed.contains t then
      { s with armed := s.armed.filter (· ≠ t), pending := s.pending.filter (·.2 ≠ t.2), fired := t :: s.fired }
    else s
  | .timeoutSend t =>
    if s.fired.contains t then
      { s with fired := s.fired.filter (· ≠ t), outcomes := s.outcomes ++ [(t, .error)] }
    else s
  | .drop => { s with pending := [], armed := [], tally := none, ep := s.ep + 1 }

def run (cf : Cfg) (n : Nat) (evs : List Ev) : St := evs.foldl (step cf) { nCb := n }

/-- /repo before the repair (`recheck = false`): a verdict past its lookup when the connection is removed commits
    after the clean-up and leaves its approval in a fresh tally map; the peer reconnects, reuses counter 5, and ONE
    further approval applies the new write although two callbacks are registered -/
theorem stale_tally_after_disconnect_witness :
    (run { recheck := false, msgId := false } 2 [.arrive 5, .lookup 10 (0, 5), .drop, .commit 10 true,
      .arrive 5, .lookup 11 (1, 5), .commit 11 true]).outcomes = [((1, 5), .applied)] := by decide

/-- with the re-check the verdict that commits after the clean-up is a no-op, and so is a verdict that looked up
    before the disconnect and commits after the counter has been reused (another timer is pending then) -/
theorem recheck_repairs :
    (run { msgId := false } 2 [.arrive 5, .lookup 10 (0, 5), .drop, .commit 10 true,
      .arrive 5, .lookup 11 (1, 5), .commit 11 true]).outcomes = [] ∧
    (run { msgId := false } 2 [.arrive 5, .lookup 10 (0, 5), .drop, .arrive 5, .commit 10 true,
      .lookup 11 (1, 5), .commit 11 true, .lookup 12 (1, 5), .commit 12 true]).outcomes = [((1, 5), .applied)] := by
  decide

/-- the re-check alone (`msgId = false`) does not know whose verdict it is: a verdict for the message of the EARLIER
    connection, delivered entirely after the counter has been reused, finds the new write's timer, passes the
    re-check, stops that timer and applies the OLD message; the new write never gets an outcome -/
theorem old_verdict_after_reuse_witness :
    let s := run { msgId := false } 1 [.arrive 5, .drop, .arrive 5, .lookup 10 (0, 5), .commit 10 true,
      .timeoutTake (1, 5), .timeoutSend (1, 5)]
    s.outcomes = [((0, 5), .applied)] ∧ s.pending = [] ∧ s.armed = [] := by decide

/-- the fully repaired member: that verdict is not taken for the new write, which times out on its own -/
theorem old_verdict_after_reuse_repaired :
    (run {} 1 [.arrive 5, .drop, .arrive 5, .lookup 10 (0, 5), .commit 10 true,
      .timeoutTake (1, 5), .timeoutSend (1, 5)]).outcomes = [((1, 5), .error)] := by decide

end Spine.ApprE
