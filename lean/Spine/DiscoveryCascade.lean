import Spine.DiscoveryFixed
/-! C06, cascade clause: the world around the remote trees — the two registries of the local device (subscriptions and
    bindings held by remote client features on local server features) and the client-side bookkeeping of local client
    features (remote addresses they subscribed / bound to) — and what a discovery message of peer `p` does to it:
    the tree of `p` is updated, and for every entity-removed event the handler calls
    `RemoveSubscriptionsForEntity`, `RemoveBindingsForEntity`, `CleanRemoteEntityCaches`
    (spine/nodemanagement_detaileddiscovery.go:263-298).

    `Cfg` selects, per defect, the code as written (`true`) or the minimal repair (`false`):
    * `wholeMessage`   — a notification entry is handled by adding / removing the whole message (C06 defect);
    * `bindEntityOnly` — `RemoveBindingsForEntity` compares the entity address only, not the device
                         (binding_manager.go:176; the C10 defect seen from the entity-removal side).
    "As written" = the pinned commit a1767d0; the repairs are 437adab (`wholeMessage`), d78a414 (`bindEntityOnly`),
    711ee79 (`removesDevInfo`), 6fceef1 (`refreshUnguarded`). `treeStep` / `World.step` of this file are the members
    WITHOUT the two device-information guards and for well-formed messages only; the member of the repaired tree,
    with the guards and with the rejection of malformed entries, is `treeStepG` / `World.stepG` in
    `Spine/DiscoveryGuard.lean`. -/
namespace Spine.Disc

/-- a registry entry: client feature (peer, entity, feature) of a remote device on a server feature (entity, feature)
    of the local device -/
structure RE where
  peer : Nat
  cEnt : List Nat
  cFeat : Nat
  sEnt : List Nat
  sFeat : Nat
deriving DecidableEq, Repr

/-- client-side bookkeeping: the local client feature (entity, feature) remembers the remote feature address
    (peer's device, entity, feature) it subscribed or bound to -/
structure CE where
  lEnt : List Nat
  lFeat : Nat
  peer : Nat
  rEnt : List Nat
  rFeat : Nat
deriving DecidableEq, Repr

structure Cfg where
  wholeMessage : Bool := true
  bindEntityOnly : Bool := true
  /-- a `removed` entry about the device-information entity [0] removes it (pinned commit); `false`: the entry is
      skipped (711ee79). Read by the guarded member only (`Spine/DiscoveryGuard.lean`). -/
  removesDevInfo : Bool := true
  /-- a re-announcement of [0] whose feature list lacks feature 0 replaces the features (pinned commit); `false`: it is
      ignored while the stored entity has feature 0 (6fceef1). Read by the guarded member only. -/
  refreshUnguarded : Bool := true
deriving Repr, DecidableEq

def Cfg.clean : Cfg :=
  { wholeMessage := false, bindEntityOnly := false, removesDevInfo := false, refreshUnguarded := false }

structure World where
  trees : Nat → Tree
  subs : List RE := []
  binds : List RE := []
  csubs : List CE := []
  cbinds : List CE := []

def keepSub (p : Nat) (a : List Nat) (e : RE) : Bool := !(e.peer = p && e.cEnt = a)
def keepBind (c : Cfg) (p : Nat) (a : List Nat) (e : RE) : Bool := !((c.bindEntityOnly || e.peer = p) && e.cEnt = a)
def keepCE (p : Nat) (a : List Nat) (e : CE) : Bool := !(e.peer = p && e.rEnt = a)

/-- the three clean-up calls after entity `a` of peer `p` was removed -/
def dropEntity (c : Cfg) (w : World) (p : Nat) (a : List Nat) : World :=
  { w with subs := w.subs.filter (keepSub p a), binds := w.binds.filter (keepBind c p a),
           csubs := w.csubs.filter (keepCE p a), cbinds := w.cbinds.filter (keepCE p a) }

def cascadeStep (c : Cfg) (p : Nat) (w : World) (ev : Evt) : World :=
  match ev with
  | .rem a => dropEntity c w p a
  | .add _ => w

def cascade (c : Cfg) (w : World) (p : Nat) (evs : List Evt) : World := evs.foldl (cascadeStep c p) w

inductive Kind | reply | part | full deriving DecidableEq, Repr

/-- the tree part of one discovery message, member selected by `c` -/
def treeStep (c : Cfg) (k : Kind) (m : Msg) (t : Tree) : Tree × List Evt :=
  match k with
  | .reply => reply m t
  | .part => if c.wholeMessage then ((notifyPartial m t).1, (notifyPartial m t).2.1)
                else ((notifyPartialFixed m t).1, (notifyPartialFixed m t).2.1)
  | .full => if c.wholeMessage then ((notifyFull m t).1, (notifyFull m t).2.1)
             else ((notifyFullFixed m t).1, (notifyFullFixed m t).2.1)

def setTree (w : World) (p : Nat) (t : Tree) : World := { w with trees := fun q => if q = p then t else w.trees q }

/-- one discovery message of peer `p`; second component: the entity events of the step -/
def World.step (c : Cfg) (w : World) (p : Nat) (k : Kind) (m : Msg) : World × List Evt :=
  let r := treeStep c k m (w.trees p)
  (cascade c (setTree w p r.1) p r.2, r.2)

/-- the entity addresses the step removed -/
def removed : List Evt → List (List Nat)
  | [] => []
  | .rem a :: l => a :: removed l
  | .add _ :: l => removed l

/-! ### what the cascade does, for every world and every event list -/

theorem cascade_trees (c : Cfg) (p : Nat) : ∀ (evs : List Evt) (w : World), (cascade c w p evs).trees = w.trees
  | [], _ => rfl
  | ev :: evs, w => by
    unfold cascade
    rw [List.foldl_cons]
    have := cascade_trees c p evs (cascadeStep c p w ev)
    unfold cascade at this
    rw [this]
    cases ev <;> rfl

theorem filter_filter_keep {α : Type} (f g h : α → Bool) (l : List α) (hh : ∀ x, (g x && f x) = h x) :
    (l.filter f).filter g = l.filter h := by
  rw [List.filter_filter]
  congr 1
  funext x
  exact hh x

theorem cascade_subs (c : Cfg) (p : Nat) : ∀ (evs : List Evt) (w : World),
    (cascade c w p evs).subs = w.subs.filter fun e => !(e.peer = p && (removed evs).contains e.cEnt)
  | [], w => by
    simp only [cascade, removed, List.foldl_nil, List.contains_nil, Bool.and_false, Bool.not_false]
    exact (List.filter_eq_self.mpr (fun _ _ => rfl)).symm
  | ev :: evs, w => by
    unfold cascade
    rw [List.foldl_cons]
    have ih := cascade_subs c p evs (cascadeStep c p w ev)
    unfold cascade at ih
    rw [ih]
    cases ev with
    | add a => simp [cascadeStep, removed]
    | rem a =>
      simp only [cascadeStep, dropEntity, removed]
      apply filter_filter_keep
      intro e
      simp only [keepSub, List.contains_cons]
      by_cases h1 : e.peer = p <;> by_cases h2 : e.cEnt = a <;> simp [h1, h2]

theorem cascade_binds (c : Cfg) (p : Nat) : ∀ (evs : List Evt) (w : World),
    (cascade c w p evs).binds
      = w.binds.filter fun e => !((c.bindEntityOnly || e.peer = p) && (removed evs).contains e.cEnt)
  | [], w => by
    simp only [cascade, removed, List.foldl_nil, List.contains_nil, Bool.and_false, Bool.not_false]
    exact (List.filter_eq_self.mpr (fun _ _ => rfl)).symm
  | ev :: evs, w => by
    unfold cascade
    rw [List.foldl_cons]
    have ih := cascade_binds c p evs (cascadeStep c p w ev)
    unfold cascade at ih
    rw [ih]
    cases ev with
    | add a => simp [cascadeStep, removed]
    | rem a =>
      simp only [cascadeStep, dropEntity, removed]
      apply filter_filter_keep
      intro e
      simp only [keepBind, List.contains_cons]
      by_cases h0 : c.bindEntityOnly = true <;> by_cases h1 : e.peer = p <;> by_cases h2 : e.cEnt = a <;>
        simp [h0, h1, h2]

theorem cascade_csubs (c : Cfg) (p : Nat) : ∀ (evs : List Evt) (w : World),
    (cascade c w p evs).csubs = w.csubs.filter fun e => !(e.peer = p && (removed evs).contains e.rEnt)
  | [], w => by
    simp only [cascade, removed, List.foldl_nil, List.contains_nil, Bool.and_false, Bool.not_false]
    exact (List.filter_eq_self.mpr (fun _ _ => rfl)).symm
  | ev :: evs, w => by
    unfold cascade
    rw [List.foldl_cons]
    have ih := cascade_csubs c p evs (cascadeStep c p w ev)
    unfold cascade at ih
    rw [ih]
    cases ev with
    | add a => simp [cascadeStep, removed]
    | rem a =>
      simp only [cascadeStep, dropEntity, removed]
      apply filter_filter_keep
      intro e
      simp only [keepCE, List.contains_cons]
      by_cases h1 : e.peer = p <;> by_cases h2 : e.rEnt = a <;> simp [h1, h2]

theorem cascade_cbinds (c : Cfg) (p : Nat) : ∀ (evs : List Evt) (w : World),
    (cascade c w p evs).cbinds = w.cbinds.filter fun e => !(e.peer = p && (removed evs).contains e.rEnt)
  | [], w => by
    simp only [cascade, removed, List.foldl_nil, List.contains_nil, Bool.and_false, Bool.not_false]
    exact (List.filter_eq_self.mpr (fun _ _ => rfl)).symm
  | ev :: evs, w => by
    unfold cascade
    rw [List.foldl_cons]
    have ih := cascade_cbinds c p evs (cascadeStep c p w ev)
    unfold cascade at ih
    rw [ih]
    cases ev with
    | add a => simp [cascadeStep, removed]
    | rem a =>
      simp only [cascadeStep, dropEntity, removed]
      apply filter_filter_keep
      intro e
      simp only [keepCE, List.contains_cons]
      by_cases h1 : e.peer = p <;> by_cases h2 : e.rEnt = a <;> simp [h1, h2]

/-- `a` is among the removed addresses iff the step published an entity-removed event for it -/
theorem mem_removed (a : List Nat) : ∀ (evs : List Evt), a ∈ removed evs ↔ Evt.rem a ∈ evs
  | [] => by simp [removed]
  | .rem b :: l => by
    simp only [removed, List.mem_cons, mem_removed a l]
    constructor
    · rintro (h | h)
      · exact Or.inl (by rw [h])
      · exact Or.inr h
    · rintro (h | h)
      · exact Or.inl (by injection h)
      · exact Or.inr h
  | .add b :: l => by
    simp only [removed, List.mem_cons, mem_removed a l]
    constructor
    · exact Or.inr
    · rintro (h | h)
      · exact absurd h (by simp)
      · exact h

end Spine.Disc
