import Spine.DiscoveryGuardThm
/-! C06, addresses and resolution (spine/device_remote.go `Entity`, `FeatureByAddress`, `AddEntityAndFeatures`;
    entity_remote.go `NewEntityRemote`, `UpdateDeviceAddress`, `FeatureOfAddress`; entity.go `NewEntity`, `Address`;
    feature_remote.go `NewFeatureRemote`; feature.go `featureAddressType`, `Address`; device.go `Address`).

    What the API reports as an address:
      `EntityRemote.Address()`  = (device part, `e.addr`)
      `FeatureRemote.Address()` = (device part, `f.ent`, `f.id`)   — built by `featureAddressType(id, entity.Address())`
    What the API resolves:
      `DeviceRemote.Entity(a)`              = the FIRST entity of the list whose entity address equals `a`
                                              (`reflect.DeepEqual(id, e.Address().Entity)`, the device part is not looked at)
      `DeviceRemote.FeatureByAddress(d,a,i)` = `Entity(a)`, then `FeatureOfAddress(i)`: the FIRST feature of that entity
                                              whose number equals `i` (device and entity part of the feature's address are
                                              not looked at)
    The device part (`Dev`): `DeviceRemote.address` is unknown (`none`) until a reply's `UpdateDevice` stores the
    announced one; an entity takes the device's address at creation (`NewEntity(eType, device.Address(), …)`); in every
    accepted add / reply entry about an entity whose device part is still unknown the announced device address of THAT
    message is stored (`UpdateDeviceAddress`) — before the re-announcement guard, so also when the entry is then skipped;
    the features created by that entry take the entity's device part of that moment (`featureAddressType`), the
    features kept by a skipped entry keep theirs. Removal does not touch device parts. One more writer:
    `DeviceLocal.HandleEvent` (device_local.go) writes the device's address INTO the address object of the source
    feature of an accepted reply when that has no device part (`devSource`).
    All features of one entity are created by one iteration, so they share one device part (`Dev.feat`); this is exact
    as long as every message announces a device address (the harness always does).
    Device names are interned to numbers; the empty device name (treated like `nil` by the code) is not modelled. -/
namespace Spine.Disc

/-! ### resolution -/

/-- `EntityRemote.FeatureOfAddress` -/
def featOf (e : E) (i : Nat) : Option F := e.feats.find? (·.id = i)

/-- `DeviceRemote.Entity` is `findE`; `DeviceRemote.FeatureByAddress` -/
def resolveF (t : Tree) (a : List Nat) (i : Nat) : Option F := (findE t a).bind (featOf · i)

/-- one entity is coherent: its features carry its entity address and no feature number twice -/
def EOK (e : E) : Prop := (∀ f ∈ e.feats, f.ent = e.addr) ∧ (e.feats.map (·.id)).Nodup

instance (e : E) : Decidable (EOK e) := by unfold EOK; infer_instance

/-- the tree is a finite map: no entity address twice, every entity coherent -/
def ResInv (t : Tree) : Prop := (addrs t).Nodup ∧ ∀ e ∈ t, EOK e

instance (t : Tree) : Decidable (ResInv t) := by unfold ResInv; infer_instance

/-- a message announces no feature address twice -/
def FeatsDistinct (feats : List F) : Prop := (feats.map fun f => (f.ent, f.id)).Nodup

instance (feats : List F) : Decidable (FeatsDistinct feats) := by unfold FeatsDistinct; infer_instance

theorem find?_of_nodup {α β} [DecidableEq β] (key : α → β) : ∀ (l : List α) (x : α), (l.map key).Nodup → x ∈ l →
    l.find? (fun y => key y = key x) = some x
  | [], _, _, h => absurd h List.not_mem_nil
  | y :: l, x, hn, hx => by
    rw [List.map_cons, List.nodup_cons] at hn
    rw [List.find?_cons]
    by_cases hy : key y = key x
    · simp only [hy, decide_true]
      cases List.mem_cons.mp hx with
      | inl h => rw [h]
      | inr h => exact absurd (hy ▸ List.mem_map_of_mem (f := key) h) hn.1
    · simp only [hy, decide_false]
      cases List.mem_cons.mp hx with
      | inl h => exact absurd (h ▸ rfl) hy
      | inr h => exact find?_of_nodup key l x hn.2 h

/-- a listed entity resolves to itself -/
theorem findE_self (t : Tree) (e : E) (hn : (addrs t).Nodup) (he : e ∈ t) : findE t e.addr = some e :=
  find?_of_nodup (fun x : E => x.addr) t e hn he

theorem findE_some_mem (t : Tree) (a : List Nat) (e : E) (h : findE t a = some e) : e ∈ t ∧ e.addr = a := by
  unfold findE at h
  exact ⟨List.mem_of_find?_eq_some h, by simpa using List.find?_some h⟩

/-- `Entity()` is exactly the reported list, read as a map from addresses -/
theorem findE_iff (t : Tree) (hn : (addrs t).Nodup) (a : List Nat) (e : E) : findE t a = some e ↔ e ∈ t ∧ e.addr = a :=
  ⟨findE_some_mem t a e, fun ⟨he, ha⟩ => ha ▸ findE_self t e hn he⟩

theorem featOf_self (e : E) (f : F) (hn : (e.feats.map (·.id)).Nodup) (hf : f ∈ e.feats) : featOf e f.id = some f :=
  find?_of_nodup (fun x : F => x.id) e.feats f hn hf

theorem featOf_some_mem (e : E) (i : Nat) (f : F) (h : featOf e i = some f) : f ∈ e.feats ∧ f.id = i := by
  unfold featOf at h
  exact ⟨List.mem_of_find?_eq_some h, by simpa using List.find?_some h⟩

/-- `FeatureByAddress()` is exactly the set of reported feature addresses, read as a map -/
theorem resolveF_iff (t : Tree) (hi : ResInv t) (a : List Nat) (i : Nat) (f : F) :
    resolveF t a i = some f ↔ ∃ e ∈ t, f ∈ e.feats ∧ f.ent = a ∧ f.id = i := by
  unfold resolveF
  constructor
  · intro h
    cases he : findE t a with
    | none => rw [he] at h; exact absurd h (by simp)
    | some e =>
      rw [he] at h
      obtain ⟨hm, ha⟩ := findE_some_mem t a e he
      obtain ⟨hf, hid⟩ := featOf_some_mem e i f h
      exact ⟨e, hm, hf, ((hi.2 e hm).1 f hf).trans ha, hid⟩
  · rintro ⟨e, hm, hf, ha, hid⟩
    have hea : e.addr = a := ((hi.2 e hm).1 f hf).symm.trans ha
    rw [(findE_iff t hi.1 a e).mpr ⟨hm, hea⟩]
    show featOf e i = some f
    rw [← hid]
    exact featOf_self e f (hi.2 e hm).2 hf

/-- an address that is not reported resolves to nothing -/
theorem resolveF_none_iff (t : Tree) (hi : ResInv t) (a : List Nat) (i : Nat) :
    resolveF t a i = none ↔ ¬ ∃ e ∈ t, ∃ f ∈ e.feats, f.ent = a ∧ f.id = i := by
  constructor
  · rintro h ⟨e, hm, f, hf, ha, hid⟩
    have := (resolveF_iff t hi a i f).mpr ⟨e, hm, hf, ha, hid⟩
    rw [h] at this
    exact absurd this (by simp)
  · intro h
    cases hr : resolveF t a i with
    | none => rfl
    | some f =>
      obtain ⟨e, hm, hf, ha, hid⟩ := (resolveF_iff t hi a i f).mp hr
      exact absurd ⟨e, hm, f, hf, ha, hid⟩ h

/-! ### the invariant is kept by every message of the repaired tree -/

theorem filter_ids_nodup (a : List Nat) : ∀ (feats : List F), FeatsDistinct feats →
    ((feats.filter (·.ent = a)).map (·.id)).Nodup
  | [], _ => List.nodup_nil
  | f :: l, h => by
    unfold FeatsDistinct at h
    rw [List.map_cons, List.nodup_cons] at h
    have ih := filter_ids_nodup a l h.2
    rw [List.filter_cons]
    split
    · rename_i hfa
      have hfa' : f.ent = a := by simpa using hfa
      rw [List.map_cons, List.nodup_cons]
      refine ⟨?_, ih⟩
      intro hmem
      obtain ⟨g, hg, hgid⟩ := List.mem_map.mp hmem
      have hg' := List.mem_filter.mp hg
      have hga : g.ent = a := by simpa using hg'.2
      apply h.1
      exact List.mem_map.mpr ⟨g, hg'.1, by rw [hga, hgid, hfa']⟩
    · exact ih

theorem eok_filter (feats : List F) (hd : FeatsDistinct feats) (a : List Nat) (ty : Nat) (d : Option Nat) :
    EOK ⟨a, ty, d, feats.filter (·.ent = a)⟩ :=
  ⟨fun f hf => by simpa using (List.mem_filter.mp hf).2, filter_ids_nodup a feats hd⟩

theorem eok_addOne (feats : List F) (hd : FeatsDistinct feats) (acc : Tree × List Evt) (ei : EI)
    (h : ∀ e ∈ acc.1, EOK e) : ∀ e ∈ (addOne ⟨[], feats⟩ acc ei).1, EOK e := by
  obtain ⟨t, evs⟩ := acc
  simp only [addOne]
  split
  · intro e he
    obtain ⟨e0, h0, rfl⟩ := List.mem_map.mp he
    split
    · rename_i heq
      have := eok_filter feats hd ei.addr e0.typ ei.desc
      rw [← heq] at this ⊢
      exact this
    · exact h e0 h0
  · intro e he
    cases List.mem_append.mp he with
    | inl h0 => exact h e h0
    | inr h1 =>
      rw [List.mem_singleton] at h1
      rw [h1]
      exact eok_filter feats hd ei.addr ei.typ ei.desc

theorem eok_remOne (acc : Tree × List Evt) (ei : EI) (h : ∀ e ∈ acc.1, EOK e) : ∀ e ∈ (remOne acc ei).1, EOK e := by
  obtain ⟨t, evs⟩ := acc
  simp only [remOne]
  split
  · intro e he; exact h e (List.mem_filter.mp he).1
  · exact h

theorem resInv_addOneG (c : Cfg) (feats : List F) (hd : FeatsDistinct feats) (acc : Tree × List Evt) (ei : EI)
    (h : ResInv acc.1) : ResInv (addOneG c feats acc ei).1 := by
  unfold addOneG
  split
  · exact h
  · exact ⟨nodup_addOne _ acc ei h.1, eok_addOne feats hd acc ei h.2⟩

theorem resInv_remOneG (c : Cfg) (acc : Tree × List Evt) (ei : EI) (h : ResInv acc.1) : ResInv (remOneG c acc ei).1 := by
  unfold remOneG
  split
  · exact h
  · exact ⟨nodup_remOne acc ei h.1, eok_remOne acc ei h.2⟩

theorem resInv_entryG (c : Cfg) (feats : List F) (hd : FeatsDistinct feats) (acc acc' : Tree × List Evt) (e : EW)
    (h : ResInv acc.1) (he : entryG c feats acc e = some acc') : ResInv acc'.1 := by
  unfold entryG at he
  cases hc : e.chg with
  | none => simp [hc] at he
  | added =>
    simp only [hc] at he
    split at he
    · exact absurd he (by simp)
    · injection he with he; rw [← he]; exact resInv_addOneG c feats hd acc _ h
  | removed =>
    simp only [hc] at he
    split at he
    · exact absurd he (by simp)
    · injection he with he; rw [← he]; exact resInv_remOneG c acc _ h

theorem resInv_replyEntryG (c : Cfg) (feats : List F) (hd : FeatsDistinct feats) (acc acc' : Tree × List Evt) (e : EW)
    (h : ResInv acc.1) (he : replyEntryG c feats acc e = some acc') : ResInv acc'.1 := by
  unfold replyEntryG at he
  split at he
  · exact absurd he (by simp)
  · injection he with he; rw [← he]; exact resInv_addOneG c feats hd acc _ h

theorem resInv_runG (body : Tree × List Evt → EW → Option (Tree × List Evt))
    (hb : ∀ acc acc' e, ResInv acc.1 → body acc e = some acc' → ResInv acc'.1) :
    ∀ (l : List EW) (acc : Tree × List Evt), ResInv acc.1 → ResInv (runG body l acc).1.1
  | [], _, h => h
  | e :: l, acc, h => by
    unfold runG
    cases hbe : body acc e with
    | none => exact h
    | some acc' => exact resInv_runG body hb l acc' (hb acc acc' e h hbe)

theorem featsDistinct_filter (p : F → Bool) (feats : List F) (h : FeatsDistinct feats) : FeatsDistinct (feats.filter p) :=
  List.Nodup.sublist (List.Sublist.map _ List.filter_sublist) h

/-- one message of the repaired tree of any kind and shape (malformed entries included) that announces no feature
    address twice keeps the tree a finite map -/
theorem resInv_step (k : Kind) (m : MsgG) (hd : FeatsDistinct m.feats) (t : Tree) (h : ResInv t) :
    ResInv (treeStepG Cfg.clean k m t).1 := by
  unfold treeStepG
  simp only [Cfg.clean, Bool.false_eq_true, if_false]
  cases k with
  | reply => exact resInv_runG _ (resInv_replyEntryG _ m.feats hd) m.ents (t, []) h
  | part =>
    simp only [notifyG]
    split
    · exact h
    · exact resInv_runG _ (resInv_entryG _ m.feats hd) m.ents (t, []) h
  | full =>
    simp only [notifyFullG, notifyG]
    split
    · exact h
    · exact resInv_runG _ (resInv_entryG _ (fullDiffG m t).feats (featsDistinct_filter _ _ hd)) (fullDiffG m t).ents (t, []) h

theorem resInv_history : ∀ (h : List AnnG) (t : Tree), (∀ x ∈ h, FeatsDistinct x.msg.feats) → ResInv t →
    ResInv (treeRunG Cfg.clean t h)
  | [], _, _, ht => ht
  | x :: h, t, hd, ht => by
    unfold treeRunG
    rw [List.foldl_cons]
    exact resInv_history h _ (fun y hy => hd y (List.mem_cons_of_mem _ hy))
      (resInv_step x.kind x.msg (hd x (List.mem_cons_self ..)) t ht)

/-! ### the device part of the addresses -/

/-- device parts: `DeviceRemote.Address()` and, per entity address, the device part of the entity's address and the
    device part its features' addresses carry -/
structure Dev where
  addr : Option Nat := none
  ent : List Nat → Option Nat := fun _ => none
  feat : List Nat → Option Nat := fun _ => none
  /-- have the features of [0] been re-created by the message being processed? (then the message's source feature
      object is no longer the one in the tree) -/
  fresh0 : Bool := false

def Dev.set (d : Dev) (a : List Nat) (e f : Option Nat) : Dev :=
  { d with ent := fun x => if x = a then e else d.ent x, feat := fun x => if x = a then f else d.feat x }

/-- "make sure the device address is set": an unknown device part takes the announced one -/
def devFill (cur md : Option Nat) : Option Nat :=
  match cur with
  | some x => some x
  | none => md

/-- one accepted `added` / reply entry (one iteration of AddEntityAndFeatures); `md` = the device address the message
    announces in `deviceInformation` -/
def devAdd (c : Cfg) (feats : List F) (md : Option Nat) (t : Tree) (d : Dev) (ei : EI) : Dev :=
  { d with fresh0 := d.fresh0 || (decide (ei.addr = [0]) && !refreshSkipped c feats t ei) }.set ei.addr
    (devFill (if (findE t ei.addr).isSome then d.ent ei.addr else d.addr) md)
    (if refreshSkipped c feats t ei then d.feat ei.addr
     else devFill (if (findE t ei.addr).isSome then d.ent ei.addr else d.addr) md)

def devEntry (c : Cfg) (feats : List F) (md : Option Nat) (acc : Tree × List Evt) (d : Dev) (e : EW) : Dev :=
  match e.chg with
  | .added => devAdd c feats md acc.1 d e.toEI
  | _ => d

def devReplyEntry (c : Cfg) (feats : List F) (md : Option Nat) (acc : Tree × List Evt) (d : Dev) (e : EW) : Dev :=
  devAdd c feats md acc.1 d e.toEI

/-- the device parts along the loop `runG`: a rejected entry stops it before anything is stored -/
def devRun (body : Tree × List Evt → EW → Option (Tree × List Evt)) (df : Tree × List Evt → Dev → EW → Dev) :
    List EW → Tree × List Evt → Dev → Dev
  | [], _, d => d
  | e :: l, acc, d =>
    match body acc e with
    | none => d
    | some acc' => devRun body df l acc' (df acc d e)

/-- `UpdateDevice` -/
def devUpdate (d : Dev) (md : Option Nat) : Dev :=
  match md with
  | some x => { d with addr := some x }
  | none => d

/-- `DeviceLocal.HandleEvent` on the device-change event an ACCEPTED reply publishes: the address object of the
    message's source feature (feature 0 of [0] as it was when the message arrived) gets the device's address written
    into it if it has no device part. Visible in the tree only if that object is still there, i.e. the reply did not
    re-create the features of [0]. -/
def devSource (accepted : Bool) (d : Dev) : Dev :=
  if accepted && !d.fresh0 && (d.feat [0]).isNone then { d with feat := fun x => if x = [0] then d.addr else d.feat x }
  else d

/-- the device parts after one discovery message (members with per-entry handling, `wholeMessage = false`) whose source
    is feature 0 of entity [0] -/
def devStepG (c : Cfg) (k : Kind) (md : Option Nat) (m : MsgG) (t : Tree) (d : Dev) : Dev :=
  match k with
  | .reply => devSource (runG (replyEntryG c m.feats) m.ents (t, [])).2
      (devRun (replyEntryG c m.feats) (devReplyEntry c m.feats md) m.ents (t, []) { devUpdate d md with fresh0 := false })
  | .part => devRun (entryG c m.feats) (devEntry c m.feats md) m.ents (t, []) d
  | .full => devRun (entryG c (fullDiffG m t).feats) (devEntry c (fullDiffG m t).feats md) (fullDiffG m t).ents (t, []) d

end Spine.Disc
