/-! C19, relative end time of a `TimePeriodType` (`model/commondatatypes_additions.go:17-102`), in
    integer nanoseconds. `NewTimePeriodTypeWithRelativeEndTime d` stores `Round_s(now + d)` as an
    absolute instant (formatting and parsing of the instant: assumption A-time); `GetDuration` reads
    `Round_s(end - now')`. JSON: `MarshalJSON` writes the remaining duration (whole seconds, through
    `NewDurationType`), `UnmarshalJSON` turns a relative end time back into `Round_s(now'' + D)`.
    Core Lean only (imported by `Drivers/Num.lean`). -/
namespace Spine.TP

def second : Int := 1000000000

/-- `time.Time.Round(time.Second)`: halfway values round up (instants counted from a whole second) -/
def roundUp (t : Int) : Int := (t + 500000000) / 1000000000 * 1000000000

/-- `time.Duration.Round(time.Second)`: halfway values round away from zero -/
def durRound (x : Int) : Int :=
  if x < 0 then -((-x + 500000000) / 1000000000 * 1000000000) else (x + 500000000) / 1000000000 * 1000000000

/-- the end time stored by `NewTimePeriodTypeWithRelativeEndTime d` at instant `now`
    (also: the end time `UnmarshalJSON` stores at instant `now` for a relative end time `d`) -/
def endOf (now d : Int) : Int := roundUp (now + d)

/-- `GetDuration` at instant `now'` for an absolute end time -/
def remaining (endT now' : Int) : Int := durRound (endT - now')

/-- C19: a relative end time set at `now` is read back at `now'` as the remaining duration
    `now + d - now'` to the second -/
theorem c19_period_le_second (now d now' : Int) :
    remaining (endOf now d) now' - (now + d - now') ≤ second ∧
    (now + d - now') - remaining (endOf now d) now' ≤ second := by
  unfold remaining endOf roundUp durRound second
  split <;> omega

/-- … and the value read back is a whole number of seconds -/
theorem remaining_whole (e n : Int) : remaining e n % second = 0 := by
  unfold remaining durRound second
  split <;> omega

/-- read back at once (same instant) a whole-second duration is returned unchanged, unless the
    instant sits exactly on a half second -/
theorem c19_period_at_once (now d : Int) (hd : d % second = 0) (hh : now % second ≠ 500000000) :
    remaining (endOf now d) now = d := by
  unfold remaining endOf roundUp durRound second at *
  split <;> omega

/-- JSON round trip: marshalled at `tm` (remaining duration `D`), unmarshalled at `tu` (absolute
    again), read at `tr`: each of the three conversions is off by at most half a second -/
theorem c19_period_json (endT tm tu tr : Int) :
    let D := remaining endT tm
    let E' := endOf tu D
    2 * (D - (endT - tm)) ≤ second ∧ 2 * ((endT - tm) - D) ≤ second ∧
    2 * (E' - (tu + D)) ≤ second ∧ 2 * ((tu + D) - E') ≤ second ∧
    2 * (remaining E' tr - (E' - tr)) ≤ second ∧ 2 * ((E' - tr) - remaining E' tr) ≤ second := by
  unfold remaining endOf roundUp durRound second
  simp only
  refine ⟨?_, ?_, ?_, ?_, ?_, ?_⟩ <;> (try split) <;> (try split) <;> omega

/-! ### The period as a value, and its JSON decoder / encoder as functions

`UnmarshalJSON` decodes into a fresh helper value and assigns the result: what a `TimePeriodType` holds
after a decode is a function of the document (and of the clock), never of what it held before. -/

/-- an end (or start) time as it stands in a document or in a value -/
inductive T where
  | none
  | rel (d : Int)      -- a duration text, `d` nanoseconds
  | abs (t : Int)      -- an instant text, `t` nanoseconds since the epoch
deriving DecidableEq, Repr

/-- a `TimePeriodType` value / a JSON document for one -/
structure Period where
  start : T
  endT : T
deriving DecidableEq, Repr

/-- `UnmarshalJSON` of `doc` at instant `now` into a value holding `prev`: a relative end time without
    start time becomes the absolute instant `Round_s(now + d)`; everything else is taken over as written;
    fields absent from the document are absent from the result -/
def decode (_prev : Period) (doc : Period) (now : Int) : Period :=
  match doc.start, doc.endT with
  | .none, .rel d => ⟨.none, .abs (endOf now d)⟩
  | _, _ => doc

/-- `GetDuration` at instant `now'` (`none` = the error "invalid data format") -/
def getDuration (p : Period) (now' : Int) : Option Int :=
  match p.start, p.endT with
  | .none, .rel d => some d
  | .none, .abs t => some (remaining t now')
  | _, _ => none

/-- `MarshalJSON` at instant `now'`: an end time without start time is written as the remaining duration -/
def encode (p : Period) (now' : Int) : Period :=
  match getDuration p now' with
  | some d => ⟨p.start, .rel d⟩
  | none => p

/-- the result of decoding a document does not depend on what the value held before -/
theorem period_decode_history_independent (p q doc : Period) (now : Int) :
    decode p doc now = decode q doc now := rfl

/-- after decoding a document with only a relative end time `d`, the value has no start time and
    `GetDuration` is the remaining duration to the second (clause (e)), whatever the value held before -/
theorem decode_relative_then_duration (prev : Period) (d now now' : Int) :
    (decode prev ⟨.none, .rel d⟩ now).start = .none ∧
    getDuration (decode prev ⟨.none, .rel d⟩ now) now' = some (remaining (endOf now d) now') := ⟨rfl, rfl⟩

/-- decoding never leaves a relative end time without start time behind (it would not count down) -/
theorem decode_no_static_relative_end (prev doc : Period) (now d : Int) :
    ¬ ((decode prev doc now).start = .none ∧ (decode prev doc now).endT = .rel d) := by
  unfold decode
  rcases doc with ⟨s, e⟩
  cases s <;> cases e <;> simp

end Spine.TP
