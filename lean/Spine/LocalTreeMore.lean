import Spine.LocalTreeThm
/-! Feature numbers over HISTORIES of the tree model (`Spine.LTree`): the numbers an entity object hands out —
    through `NextFeatureId` or for a feature `GetOrAddFeature` creates — are strictly increasing over any history
    that does not replace the object (`renew`), whatever else happens in between: the entity being removed from the
    device and added again, other entities' operations, functions, descriptions, subscriptions, reads. -/
namespace Spine.LTree

/-- the number operation `o` draws from the generator of the entity object in slot `k`, if any -/
def drawnAt (k : Nat) (s : St) : Op → Option Nat
  | .nextId j => if j = k then some (s.pool k).nextId else none
  | .feat j typ role => if j = k ∧ findTR (s.pool k) typ role = none then some (s.pool k).nextId else none
  | _ => none

/-- all numbers drawn on slot `k` over a history starting in `s`, oldest first -/
def drawnOn (k : Nat) : St → List Op → List Nat
  | _, [] => []
  | s, o :: os => (drawnAt k s o).toList ++ drawnOn k (step s o).1 os

def noRenew (k : Nat) (ops : List Op) : Prop := ∀ et, Op.renew k et ∉ ops

theorem nextId_step_le (k : Nat) (s : St) (o : Op) (h : ∀ et, o ≠ .renew k et) :
    (s.pool k).nextId ≤ ((step s o).1.pool k).nextId := by
  cases o with
  | renew j et =>
    simp only [step]
    by_cases hj : k = j
    · subst hj; exact absurd rfl (h et)
    · rw [upd_other _ _ _ _ hj]; exact Nat.le_refl _
  | feat j typ role =>
    simp only [step]
    by_cases hj : k = j
    · subst hj
      simp only [upd_same, entGetOrAdd]
      split <;> simp
    · rw [upd_other _ _ _ _ hj]; exact Nat.le_refl _
  | nextId j =>
    simp only [step]
    by_cases hj : k = j
    · subst hj; simp [upd_same]
    · rw [upd_other _ _ _ _ hj]; exact Nat.le_refl _
  | addFn j fid fn r w cap =>
    simp only [step]
    by_cases hj : k = j
    · subst hj; simp [upd_same]
    · rw [upd_other _ _ _ _ hj]; exact Nat.le_refl _
  | setDescr j fid d =>
    simp only [step]
    by_cases hj : k = j
    · subst hj; simp [upd_same]
    · rw [upd_other _ _ _ _ hj]; exact Nat.le_refl _
  | attach j => simp [step]
  | detach j => simp [step]
  | sub p => simp only [step]; split <;> exact Nat.le_refl _
  | unsub p => simp [step]
  | addUc j => simp [step]
  | read p => simp [step]
  | destRead p kn => simp only [step]; exact Nat.le_refl _

/-- an operation that draws a number draws the generator's current value and moves the generator past it -/
theorem drawnAt_spec (k : Nat) (s : St) (o : Op) (n : Nat) (h : drawnAt k s o = some n) :
    n = (s.pool k).nextId ∧ ((step s o).1.pool k).nextId = (s.pool k).nextId + 1 ∧ (step s o).2 = [.ret n] := by
  cases o with
  | nextId j =>
    simp only [drawnAt] at h
    split at h
    · rename_i hj; subst hj
      simp only [Option.some.injEq] at h
      subst h
      simp [step, upd_same]
    · simp at h
  | feat j typ role =>
    simp only [drawnAt] at h
    split at h
    · rename_i hj
      obtain ⟨hj, hn⟩ := hj
      subst hj
      simp only [Option.some.injEq] at h
      subst h
      simp [step, entGetOrAdd, hn, upd_same]
    · simp at h
  | _ => simp [drawnAt] at h

theorem drawnOn_ge (k : Nat) (ops : List Op) : ∀ s : St, noRenew k ops →
    ∀ n ∈ drawnOn k s ops, (s.pool k).nextId ≤ n := by
  induction ops with
  | nil => intro s _ n hn; simp [drawnOn] at hn
  | cons o os ih =>
    intro s hr n hn
    have hro : ∀ et, o ≠ .renew k et := fun et he => hr et (he ▸ List.mem_cons_self)
    have hros : noRenew k os := fun et hm => hr et (List.mem_cons_of_mem _ hm)
    simp only [drawnOn, List.mem_append] at hn
    rcases hn with hn | hn
    · cases hd : drawnAt k s o with
      | none => simp [hd] at hn
      | some m =>
        simp only [hd, Option.toList_some, List.mem_singleton] at hn
        rw [hn, (drawnAt_spec k s o m hd).1]; exact Nat.le_refl _
    · exact Nat.le_trans (nextId_step_le k s o hro) (ih _ hros n hn)

theorem drawnOn_increasing (k : Nat) (ops : List Op) : ∀ s : St, noRenew k ops →
    (drawnOn k s ops).Pairwise (· < ·) := by
  induction ops with
  | nil => intro s _; simp [drawnOn]
  | cons o os ih =>
    intro s hr
    have hros : noRenew k os := fun et hm => hr et (List.mem_cons_of_mem _ hm)
    simp only [drawnOn]
    rw [List.pairwise_append]
    refine ⟨?_, ih _ hros, ?_⟩
    · cases drawnAt k s o <;> simp
    · intro a ha b hb
      cases hd : drawnAt k s o with
      | none => simp [hd] at ha
      | some m =>
        simp only [hd, Option.toList_some, List.mem_singleton] at ha
        obtain ⟨h1, h2, _⟩ := drawnAt_spec k s o m hd
        have := drawnOn_ge k os _ hros b hb
        omega

end Spine.LTree
