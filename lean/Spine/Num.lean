/-! C19: bit-exact integer model of the binary64 operations used by `NewScaledNumberType` / `GetValue`
    (`model/commondatatypes_additions.go:266-304`). Core Lean only (imported by `Drivers/Num.lean`).

    The model is a family (`Cfg`): as written, `NewScaledNumberType` truncates the binary product
    (`math.Trunc`) and `GetValue` multiplies by the inexact `math.Pow(10, scale)`; the repaired member
    rounds (`math.Round`) and divides by the exact `math.Pow(10, -scale)` for negative scales. -/
namespace Spine.Num

/-- defect flags of C19 (DESIGN §4.7); the default is the code as written -/
structure Cfg where
  /-- `number = Trunc(value * 10^d)` (as written) instead of `Round(value * 10^d)` -/
  truncScaled : Bool := true
  /-- `GetValue = number * Pow(10, scale)` also for negative scales (as written) instead of
      `number / Pow(10, -scale)` -/
  inexactPower : Bool := true
deriving DecidableEq, Repr

def Cfg.asWritten : Cfg := {}
def Cfg.repaired : Cfg := { truncScaled := false, inexactPower := false }

/-- number of bits of n (0 for 0). `Nat.log2` is evaluated natively by the compiler and by the kernel
    (`decide +kernel`), and core has its two characteristic inequalities. -/
def bitLen (n : Nat) : Nat := if n = 0 then 0 else Nat.log2 n + 1

/-- a finite binary64 in normal range: value = (-1)^neg * m * 2^e with m = 0 or 2^52 ≤ m < 2^53 -/
structure Dbl where
  neg : Bool
  m : Nat
  e : Int
deriving DecidableEq, Repr

/-- `2^52` and `2^53` as named constants: the compiled code evaluates a closed constant once, a
    literal of this size at every use -/
@[noinline] def p52 : Nat := 2 ^ 52
@[noinline] def p53 : Nat := 2 ^ 53

/-- `10^n`; the compiled code takes the five powers the conversions use from a table -/
def tenPow (n : Nat) : Nat := 10 ^ n

def tenPowTable (n : Nat) : Nat :=
  match n with
  | 0 => 1 | 1 => 10 | 2 => 100 | 3 => 1000 | 4 => 10000
  | n => 10 ^ n

@[csimp] theorem tenPow_eq_table : @tenPow = @tenPowTable := by
  funext n
  match n with
  | 0 | 1 | 2 | 3 | 4 => rfl
  | n + 5 => rfl

/-- quotient, remainder and divisor of `n / (d * 2^e)` (e ≥ 0) resp. `(n * 2^-e) / d` (e < 0) -/
def quo (n d : Nat) (e : Int) : Nat × Nat × Nat :=
  if e ≥ 0 then (n / (d <<< e.toNat), n % (d <<< e.toNat), d <<< e.toNat)
  else (n <<< (-e).toNat / d, n <<< (-e).toNat % d, d)

/-- round the quotient `q` with remainder `r` (divisor `dd`) to nearest, ties to even; a carry out of
    53 bits moves to the next binade -/
def roundQ (q r dd : Nat) (e : Int) : Nat × Int :=
  let q' := if 2 * r > dd || (2 * r == dd && q % 2 == 1) then q + 1 else q
  if q' = p53 then (p52, e + 1) else (q', e)

/-- round-to-nearest-even of the rational n/d (d > 0) to 53 significant bits: with
    `e0 = bitLen n - bitLen d - 53` the quotient `n / d * 2^-e0` lies in `(2^52, 2^54)`, so the exponent
    is `e0` or `e0 + 1` -/
def rnd (n d : Nat) : Nat × Int :=
  if n = 0 then (0, 0) else
  let e0 : Int := (bitLen n : Int) - (bitLen d : Int) - 53
  let q0 := quo n d e0
  if q0.1 < p53 then roundQ q0.1 q0.2.1 q0.2.2 e0
  else let q1 := quo n d (e0 + 1); roundQ q1.1 q1.2.1 q1.2.2 (e0 + 1)

/-- the double nearest to ±n/d (a zero keeps its sign as an IEEE product or quotient does; a parsed or
    converted zero is +0 because `k < 0` is false for `k = 0`) -/
def ofRat (neg : Bool) (n d : Nat) : Dbl := ⟨neg, (rnd n d).1, (rnd n d).2⟩

/-- strconv.ParseFloat of the decimal k * 10^-d -/
def parseDec (k : Int) (d : Nat) : Dbl := ofRat (k < 0) k.natAbs (tenPow d)

/-- float64(k) for an int64 k -/
def ofInt (k : Int) : Dbl := ofRat (k < 0) k.natAbs 1

/-- the exact rational (numerator, denominator) of |a * b| -/
def mulRat (a b : Dbl) : Nat × Nat :=
  let e := a.e + b.e
  if e ≥ 0 then ((a.m * b.m) <<< e.toNat, 1) else (a.m * b.m, 1 <<< (-e).toNat)

/-- correctly rounded product -/
def mul (a b : Dbl) : Dbl := ofRat (a.neg != b.neg) (mulRat a b).1 (mulRat a b).2

/-- the exact rational of |a / b| (b ≠ 0) -/
def divRat (a b : Dbl) : Nat × Nat :=
  let e := a.e - b.e
  if e ≥ 0 then (a.m <<< e.toNat, b.m) else (a.m, b.m <<< (-e).toNat)

/-- correctly rounded quotient (b ≠ 0) -/
def div (a b : Dbl) : Dbl := ofRat (a.neg != b.neg) (divRat a b).1 (divRat a b).2

/-- math.Pow(10, s) for -4 ≤ s ≤ 4 (Go computes 10^|s| exactly and takes the reciprocal for s<0) -/
def pow10 (s : Int) : Dbl := if s ≥ 0 then ofInt (tenPow s.toNat) else ofRat false 1 (tenPow (-s).toNat)

/-- magnitude of math.Trunc (toward zero) -/
def truncMag (a : Dbl) : Nat := if a.e ≥ 0 then a.m <<< a.e.toNat else a.m >>> (-a.e).toNat

/-- magnitude of math.Round (half away from zero) -/
def roundMag (a : Dbl) : Nat :=
  if a.e ≥ 0 then a.m <<< a.e.toNat else (2 * a.m + 1 <<< (-a.e).toNat) >>> ((-a.e).toNat + 1)

def withSign (neg : Bool) (mag : Nat) : Int := if neg then -(mag : Int) else mag

/-- math.Trunc followed by conversion to int64 (|value| < 2^63 assumed) -/
def truncToInt (a : Dbl) : Int := withSign a.neg (truncMag a)

/-- math.Round followed by conversion to int64 (|value| < 2^63 assumed) -/
def roundToInt (a : Dbl) : Int := withSign a.neg (roundMag a)

/-- the integer nearest to |v| * 10^n (half up) -/
def nearestJ (v : Dbl) (n : Nat) : Nat :=
  if v.e ≥ 0 then (v.m * tenPow n) <<< v.e.toNat
  else (2 * (v.m * tenPow n) + 1 <<< (-v.e).toNat) >>> ((-v.e).toNat + 1)

/-- does some j/10^n round to v?  (j must be the integer nearest to v*10^n) -/
def roundTrips (v : Dbl) (n : Nat) : Bool :=
  let w := rnd (nearestJ v n) (tenPow n)
  w.1 == v.m && (w.1 == 0 || w.2 == v.e)

/-- number of decimals of FormatFloat(v,'f',-1,64), capped at 4 as NewScaledNumberType does -/
def decimalsCapped (v : Dbl) : Nat :=
  if roundTrips v 0 then 0 else if roundTrips v 1 then 1 else if roundTrips v 2 then 2
  else if roundTrips v 3 then 3 else 4

/-- `value * math.Pow(10, numberOfDecimals)` -/
def scaledProduct (v : Dbl) : Dbl := mul v (pow10 (decimalsCapped v))

def toInt (cfg : Cfg) (a : Dbl) : Int := if cfg.truncScaled then truncToInt a else roundToInt a

/-- NewScaledNumberType: (number, scale) -/
def newScaled (cfg : Cfg) (v : Dbl) : Int × Int :=
  let number := toInt cfg (scaledProduct v)
  (number, if number != 0 then -(decimalsCapped v : Int) else 0)

/-- GetValue -/
def getValue (cfg : Cfg) (number scale : Int) : Dbl :=
  if scale < 0 && !cfg.inexactPower then div (ofInt number) (pow10 (-scale))
  else mul (ofInt number) (pow10 scale)

/-- the exact rational whose rounding `getValue` returns -/
def getValueRat (cfg : Cfg) (number scale : Int) : Nat × Nat :=
  if scale < 0 && !cfg.inexactPower then divRat (ofInt number) (pow10 (-scale))
  else mulRat (ofInt number) (pow10 scale)

theorem getValue_rnd (cfg : Cfg) (number scale : Int) :
    ((getValue cfg number scale).m, (getValue cfg number scale).e) =
      rnd (getValueRat cfg number scale).1 (getValueRat cfg number scale).2 := by
  unfold getValue getValueRat
  split <;> rfl

/-- a binary64 from its IEEE bits; `none` for subnormals, infinities and NaN (outside the model) -/
def ofBits (b : Nat) : Option Dbl :=
  let neg := b >>> 63 % 2 == 1
  let ex : Nat := b >>> 52 % 2048
  let fr : Nat := b % p52
  if ex = 0 then (if fr = 0 then some ⟨neg, 0, 0⟩ else none)
  else if ex = 2047 then none
  else some ⟨neg, p52 + fr, (ex : Int) - 1075⟩

/-- is the value zero or a normal binary64 (exponent in range)? -/
def inRange (a : Dbl) : Bool := a.m == 0 || (p52 ≤ a.m && a.m < p53 && -1074 ≤ a.e && a.e ≤ 971)

/-- IEEE bits without the sign bit (normal numbers and zero only) -/
def bitsMag (a : Dbl) : Nat := if a.m = 0 then 0 else (a.e + 1075).toNat <<< 52 + (a.m - p52)

/-- IEEE bits, for comparison with math.Float64bits (normal numbers and zero only) -/
def bits (a : Dbl) : Nat := (if a.neg then 1 <<< 63 else 0) + bitsMag a

/-- the same magnitude with the opposite sign -/
def Dbl.negate (a : Dbl) : Dbl := ⟨!a.neg, a.m, a.e⟩

/-- everything the harness can observe about one value: bits of the value, decimals count, bits of
    `value * 10^decimals`, number, scale, bits of `GetValue` -/
structure Obs where
  vbits : Nat
  decimals : Nat
  pbits : Nat
  number : Int
  scale : Int
  gbits : Nat
  inRange : Bool        -- every double involved is zero or normal
deriving DecidableEq, Repr

def observe (cfg : Cfg) (v : Dbl) : Obs :=
  let nd := decimalsCapped v
  let prod := mul v (pow10 nd)
  let number := toInt cfg prod
  let scale : Int := if number != 0 then -(nd : Int) else 0
  let g := getValue cfg number scale
  ⟨bits v, nd, bits prod, number, scale, bits g, inRange v && inRange prod && inRange g && inRange (ofInt number)⟩

/-- `observe` is `newScaled` followed by `getValue` -/
theorem observe_spec (cfg : Cfg) (v : Dbl) :
    ((observe cfg v).number, (observe cfg v).scale) = newScaled cfg v ∧
    (observe cfg v).gbits = bits (getValue cfg (newScaled cfg v).1 (newScaled cfg v).2) := ⟨rfl, rfl⟩

/-- a rounding the computation took: the rational `n / d` and the result `(m, e)` that was used -/
structure Rounding where
  n : Nat
  d : Nat
  m : Nat
  e : Int
deriving DecidableEq, Repr

def Rounding.of (nd : Nat × Nat) : Rounding := ⟨nd.1, nd.2, (rnd nd.1 nd.2).1, (rnd nd.1 nd.2).2⟩
def Rounding.used (nd : Nat × Nat) (r : Dbl) : Rounding := ⟨nd.1, nd.2, r.m, r.e⟩

/-- one step of the decimals search: does `nearestJ v n / 10^n` round to `v`, and the rounding taken -/
def tryDec (v : Dbl) (n : Nat) : Bool × Rounding :=
  let j := nearestJ v n
  let w := rnd j (tenPow n)
  (w.1 == v.m && (w.1 == 0 || w.2 == v.e), ⟨j, tenPow n, w.1, w.2⟩)

/-- `decimalsCapped` together with the roundings the search takes -/
def decimalsR (v : Dbl) : Nat × List Rounding :=
  let t0 := tryDec v 0
  if t0.1 then (0, [t0.2]) else
  let t1 := tryDec v 1
  if t1.1 then (1, [t0.2, t1.2]) else
  let t2 := tryDec v 2
  if t2.1 then (2, [t0.2, t1.2, t2.2]) else
  let t3 := tryDec v 3
  if t3.1 then (3, [t0.2, t1.2, t2.2, t3.2]) else (4, [t0.2, t1.2, t2.2, t3.2])

theorem tryDec_fst (v : Dbl) (n : Nat) : (tryDec v n).1 = roundTrips v n := rfl

theorem tryDec_rnd (v : Dbl) (n : Nat) :
    ((tryDec v n).2.m, (tryDec v n).2.e) = rnd (tryDec v n).2.n (tryDec v n).2.d := rfl

theorem decimalsR_fst (v : Dbl) : (decimalsR v).1 = decimalsCapped v := by
  unfold decimalsR decimalsCapped
  simp only [tryDec_fst]
  by_cases h0 : roundTrips v 0 = true
  · simp [h0]
  · by_cases h1 : roundTrips v 1 = true
    · simp [h0, h1]
    · by_cases h2 : roundTrips v 2 = true
      · simp [h0, h1, h2]
      · by_cases h3 : roundTrips v 3 = true
        · simp [h0, h1, h2, h3]
        · simp [h0, h1, h2, h3]

theorem decimalsR_roundings (v : Dbl) : ∀ r ∈ (decimalsR v).2, (r.m, r.e) = rnd r.n r.d := by
  intro r hr
  unfold decimalsR at hr
  simp only at hr
  repeat' split at hr
  all_goals
    simp only [List.mem_cons, List.not_mem_nil, or_false] at hr
    rcases hr with rfl | rfl | rfl | rfl <;> exact tryDec_rnd _ _

/-- `observe` together with the roundings it takes (the decimals search, the product, `float64(number)`
    and the final product or quotient); the driver asserts `Rnd.IsRnd` of each -/
def observeR (cfg : Cfg) (v : Dbl) : Obs × List Rounding :=
  let dr := decimalsR v
  let nd := dr.1
  let p := pow10 nd
  let prod := mul v p
  let number := toInt cfg prod
  let scale : Int := if number != 0 then -(nd : Int) else 0
  let fn := ofInt number
  let g := getValue cfg number scale
  (⟨bits v, nd, bits prod, number, scale, bits g, inRange v && inRange prod && inRange g && inRange fn⟩,
   dr.2 ++
   [Rounding.used (mulRat v p) prod, Rounding.used (number.natAbs, 1) fn,
    Rounding.used (getValueRat cfg number scale) g])

theorem observeR_obs (cfg : Cfg) (v : Dbl) : (observeR cfg v).1 = observe cfg v := by
  unfold observeR observe
  simp only [decimalsR_fst]

/-- every recorded rounding is a call of the executable `rnd` -/
theorem observeR_roundings (cfg : Cfg) (v : Dbl) :
    ∀ r ∈ (observeR cfg v).2, (r.m, r.e) = rnd r.n r.d := by
  intro r hr
  unfold observeR at hr
  simp only [List.mem_append, List.mem_cons, List.not_mem_nil, or_false] at hr
  rcases hr with hr | rfl | rfl | rfl
  · exact decimalsR_roundings v r hr
  · rfl
  · rfl
  · simp only [Rounding.used]
    exact getValue_rnd _ _ _

/-! Sign symmetry: the conversions treat a value and its negation alike (`math.Trunc` rounds toward
    zero, `math.Round` away from zero, everything else is sign-magnitude). The harness uses it to
    derive the model's answer for `-k * 10^-d` from that for `k * 10^-d` in the largest sweeps. -/

theorem withSign_not (b : Bool) (mag : Nat) : withSign (!b) mag = -withSign b mag := by
  cases b <;> simp [withSign]

theorem toInt_negate (cfg : Cfg) (a : Dbl) : toInt cfg a.negate = -toInt cfg a := by
  unfold toInt truncToInt roundToInt
  split
  · exact withSign_not a.neg (truncMag a)
  · exact withSign_not a.neg (roundMag a)

theorem decimalsCapped_negate (v : Dbl) : decimalsCapped v.negate = decimalsCapped v := rfl

theorem mul_negate (a b : Dbl) : mul a.negate b = (mul a b).negate := by
  unfold mul ofRat Dbl.negate
  cases a.neg <;> cases b.neg <;> rfl

theorem div_negate (a b : Dbl) : div a.negate b = (div a b).negate := by
  unfold div ofRat Dbl.negate
  cases a.neg <;> cases b.neg <;> rfl

theorem ofInt_neg (k : Int) (hk : k ≠ 0) : ofInt (-k) = (ofInt k).negate := by
  unfold ofInt ofRat Dbl.negate
  have h1 : (-k).natAbs = k.natAbs := Int.natAbs_neg k
  have h2 : decide (-k < 0) = !decide (k < 0) := by
    by_cases h : k < 0
    · have : ¬ (-k < 0) := by omega
      simp only [h, this, decide_true, decide_false, Bool.not_true]
    · have : -k < 0 := by omega
      simp only [h, this, decide_true, decide_false, Bool.not_false]
  simp only [h1, h2]

theorem scaledProduct_negate (v : Dbl) : scaledProduct v.negate = (scaledProduct v).negate := by
  unfold scaledProduct
  rw [decimalsCapped_negate]
  exact mul_negate _ _

/-- `NewScaledNumberType(-v) = -NewScaledNumberType(v)` (number negated, same scale), both members -/
theorem newScaled_negate (cfg : Cfg) (v : Dbl) :
    newScaled cfg v.negate = (-(newScaled cfg v).1, (newScaled cfg v).2) := by
  unfold newScaled
  simp only [scaledProduct_negate, toInt_negate, decimalsCapped_negate]
  by_cases h : toInt cfg (scaledProduct v) = 0
  · simp [h]
  · have : -toInt cfg (scaledProduct v) ≠ 0 := by omega
    simp [h, this]

/-- `GetValue` of the negated number is the negated double (for a non-zero number), both members -/
theorem getValue_neg (cfg : Cfg) (number scale : Int) (hn : number ≠ 0) :
    getValue cfg (-number) scale = (getValue cfg number scale).negate := by
  unfold getValue
  rw [ofInt_neg number hn]
  split
  · exact div_negate _ _
  · exact mul_negate _ _

/-- the bits of a negated double: the other sign bit over the same magnitude bits -/
theorem bits_negate (a : Dbl) : bits a.negate = (if a.neg then 0 else 1 <<< 63) + bitsMag a := by
  unfold bits Dbl.negate bitsMag
  cases a.neg <;> rfl

/-- the defect, kernel-checked: 0.29 comes back as 28 * 10^-2 -/
theorem trunc_loses_029 : newScaled .asWritten (parseDec 29 2) = (28, -2) := by decide +kernel

/-- the repaired member keeps it -/
theorem round_keeps_029 : newScaled .repaired (parseDec 29 2) = (29, -2) := by decide +kernel

/-- the second defect, kernel-checked: -199998 * 10^-1 read back through the inexact power is
    -19999.800000000003 (0xC0D387F333333334), one unit in the last place away from -19999.8 -/
theorem getvalue_inexact_199998 :
    newScaled .asWritten (parseDec (-199998) 1) = (-199998, -1) ∧
    bits (parseDec (-199998) 1) = 0xC0D387F333333333 ∧
    bits (getValue .asWritten (-199998) (-1)) = 0xC0D387F333333334 := by decide +kernel

/-- division by the exact power returns the parsed double -/
theorem getvalue_div_199998 : getValue .repaired (-199998) (-1) = parseDec (-199998) 1 := by
  decide +kernel

end Spine.Num
