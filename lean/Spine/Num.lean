/-! Prototype: bit-exact integer model of the binary64 operations used by NewScaledNumberType / GetValue -/
namespace Spine.Num

/-- number of bits of n (0 for 0); structural on fuel so that `decide` can evaluate it -/
def bitLenF : Nat → Nat → Nat
  | 0, _ => 0
  | fuel+1, n => if n = 0 then 0 else bitLenF fuel (n / 2) + 1
def bitLen (n : Nat) : Nat := bitLenF 2200 n

/-- a finite binary64 in normal range: value = (-1)^neg * m * 2^e with m = 0 or 2^52 ≤ m < 2^53 -/
structure Dbl where
  neg : Bool
  m : Nat
  e : Int
deriving DecidableEq, Repr

/-- round-to-nearest-even of the rational n/d (d > 0) to 53 significant bits -/
def rnd (n d : Nat) : Nat × Int :=
  if n = 0 then (0, 0) else
  let e0 : Int := (bitLen n : Int) - (bitLen d : Int) - 53
  let quo (e : Int) : Nat × Nat × Nat :=       -- quotient, remainder, divisor
    if e ≥ 0 then let dd := d * 2 ^ e.toNat; (n / dd, n % dd, dd)
    else let nn := n * 2 ^ (-e).toNat; (nn / d, nn % d, d)
  let (q0, _, _) := quo e0
  let e : Int := if q0 ≥ 2 ^ 53 then e0 + 1 else if q0 < 2 ^ 52 then e0 - 1 else e0
  let (q, r, dd) := quo e
  let up : Bool := 2 * r > dd || (2 * r == dd && q % 2 == 1)
  let q' := if up then q + 1 else q
  if q' = 2 ^ 53 then (2 ^ 52, e + 1) else (q', e)

def ofRat (neg : Bool) (n d : Nat) : Dbl := let (m, e) := rnd n d; ⟨neg && m != 0, m, e⟩

/-- strconv.ParseFloat of the decimal k * 10^-d -/
def parseDec (k : Int) (d : Nat) : Dbl := ofRat (k < 0) k.natAbs (10 ^ d)

def ofInt (k : Int) : Dbl := ofRat (k < 0) k.natAbs 1

/-- correctly rounded product -/
def mul (a b : Dbl) : Dbl :=
  let e := a.e + b.e
  if e ≥ 0 then ofRat (a.neg != b.neg) (a.m * b.m * 2 ^ e.toNat) 1
  else ofRat (a.neg != b.neg) (a.m * b.m) (2 ^ (-e).toNat)

/-- math.Pow(10, s) for -4 ≤ s ≤ 4 (Go computes 10^|s| exactly and takes the reciprocal for s<0) -/
def pow10 (s : Int) : Dbl := if s ≥ 0 then ofInt (10 ^ s.toNat) else ofRat false 1 (10 ^ (-s).toNat)

/-- math.Trunc followed by conversion to int64 (|value| < 2^63 assumed) -/
def truncToInt (a : Dbl) : Int :=
  let mag : Nat := if a.e ≥ 0 then a.m * 2 ^ a.e.toNat else a.m / 2 ^ (-a.e).toNat
  if a.neg then -(mag : Int) else mag

/-- does some j/10^n round to v?  (j must be the integer nearest to v*10^n) -/
def roundTrips (v : Dbl) (n : Nat) : Bool :=
  -- v*10^n = m*10^n*2^e ; nearest integer j
  let num := v.m * 10 ^ n
  let j : Nat := if v.e ≥ 0 then num * 2 ^ v.e.toNat
                 else let d := 2 ^ (-v.e).toNat; (2 * num + d) / (2 * d)
  let w := ofRat v.neg j (10 ^ n)
  w.m == v.m && (w.m == 0 || w.e == v.e)

/-- number of decimals of FormatFloat(v,'f',-1,64), capped at 4 as NewScaledNumberType does -/
def decimalsCapped (v : Dbl) : Nat :=
  if roundTrips v 0 then 0 else if roundTrips v 1 then 1 else if roundTrips v 2 then 2
  else if roundTrips v 3 then 3 else 4

/-- NewScaledNumberType: (number, scale) -/
def newScaled (v : Dbl) : Int × Int :=
  let nd := decimalsCapped v
  let number := truncToInt (mul v (pow10 nd))
  (number, if number != 0 then -(nd : Int) else 0)

/-- GetValue -/
def getValue (number scale : Int) : Dbl := mul (ofInt number) (pow10 scale)

/-- IEEE bits, for comparison with math.Float64bits (normal numbers and zero only) -/
def bits (a : Dbl) : Nat :=
  if a.m = 0 then (if a.neg then 2 ^ 63 else 0) else
  (if a.neg then 2 ^ 63 else 0) + ((a.e + 1075).toNat) * 2 ^ 52 + (a.m - 2 ^ 52)

/-- the defect, kernel-checked: 0.29 comes back as 28 * 10^-2 -/
theorem trunc_loses_029 : newScaled (parseDec 29 2) = (28, -2) := by decide +kernel

end Spine.Num
