import Spine.Discovery
import Spine.DiscoveryThm
/-! C05, "still serves": the peer's node-management feature (entity `[0]`, feature `0`) is the source feature of every
    datagram the peer sends on node-management level, in particular of its detailed-discovery read. `ProcessCmd`
    drops a datagram whose source feature is unknown without any answer (`Spine.Disp.processCmd`, branch
    `srcF = none`). So "a discovery read is still answered" needs the invariant "entity `[0]` keeps feature `0`
    under every inbound discovery message". Lemmas about the remote-tree model `Spine.Disc` (as written) and about
    the member with the two guards that restore the invariant. -/
namespace Spine.Disc

/-- entry and feature literals for the witnesses (the only place to touch when `EI` / `F` gain fields) -/
def mkEI (addr : List Nat) (typ : Nat) (chg : Chg) : EI := { addr := addr, typ := typ, chg := chg, desc := none }

/-- the source-feature lookup of a node-management datagram succeeds: `DeviceRemote.FeatureByAddress([0], 0)` -/
def nmPresent (t : Tree) : Bool :=
  match findE t [0] with
  | some e => e.feats.any (·.id = 0)
  | none => false

/-! ### what a message that does not name an address leaves alone (code as written) -/

/-- refreshing the entities with address `b` (by any function that keeps the address) does not touch the lookup of
    another address -/
theorem find_map_other (t : Tree) (a b : List Nat) (g : E → E) (hg : ∀ e, (g e).addr = e.addr) (h : b ≠ a) :
    findE (t.map fun e => if e.addr = b then g e else e) a = findE t a := by
  unfold findE
  induction t with
  | nil => rfl
  | cons e rest ih =>
    simp only [List.map_cons, List.find?_cons]
    by_cases hb : e.addr = b
    · have hne : ¬ e.addr = a := fun h' => h (hb ▸ h')
      have hne' : ¬ (g e).addr = a := by rw [hg]; exact hne
      simp only [hb, if_true, hne', h, decide_false]
      exact ih
    · simp only [hb, if_false]
      by_cases ha : e.addr = a
      · simp [ha]
      · simp only [ha, decide_false]
        exact ih

theorem find_append_other (t : Tree) (a : List Nat) (x : E) (h : x.addr ≠ a) : findE (t ++ [x]) a = findE t a := by
  unfold findE
  rw [List.find?_append]
  have : List.find? (fun e : E => decide (e.addr = a)) [x] = none := by simp [h]
  rw [this]
  cases List.find? (fun e : E => decide (e.addr = a)) t <;> rfl

theorem find_filter_other (t : Tree) (a b : List Nat) (h : b ≠ a) :
    findE (t.filter (·.addr ≠ b)) a = findE t a := by
  unfold findE
  induction t with
  | nil => rfl
  | cons e rest ih =>
    by_cases hb : e.addr = b
    · have hne : ¬ e.addr = a := fun h' => h (hb ▸ h')
      have hf : List.filter (fun x : E => decide (x.addr ≠ b)) (e :: rest) = List.filter (fun x : E => decide (x.addr ≠ b)) rest := by
        simp [hb]
      rw [hf, ih, List.find?_cons]
      simp [hne]
    · have hf : List.filter (fun x : E => decide (x.addr ≠ b)) (e :: rest) = e :: List.filter (fun x : E => decide (x.addr ≠ b)) rest := by
        simp [hb]
      rw [hf, List.find?_cons, List.find?_cons, ih]

/-- one iteration of `AddEntityAndFeatures` touches only the entity it is about -/
theorem addOne_other (m : Msg) (acc : Tree × List Evt) (ei : EI) (a : List Nat) (h : ei.addr ≠ a) :
    findE (addOne m acc ei).1 a = findE acc.1 a := by
  obtain ⟨t, evs⟩ := acc
  simp only [addOne]
  split
  · refine find_map_other t a ei.addr _ ?_ h
    intro _; rfl
  · exact find_append_other t a _ h

/-- one iteration of the removal loop touches only the entity it is about -/
theorem remOne_other (acc : Tree × List Evt) (ei : EI) (a : List Nat) (h : ei.addr ≠ a) :
    findE (remOne acc ei).1 a = findE acc.1 a := by
  obtain ⟨t, evs⟩ := acc
  simp only [remOne]
  split
  · exact find_filter_other t a ei.addr h
  · rfl

/-- an invariant of the accumulator survives a fold whose every step keeps it -/
theorem foldl_keeps {α β : Type} (P : β → Prop) (f : β → α → β) :
    ∀ (l : List α) (b : β), (∀ b x, x ∈ l → P b → P (f b x)) → P b → P (l.foldl f b)
  | [], _, _, hb => hb
  | x :: l, b, h, hb => by
    rw [List.foldl_cons]
    exact foldl_keeps P f l (f b x) (fun b' y hy => h b' y (List.mem_cons_of_mem _ hy)) (h b x (List.mem_cons_self ..) hb)

theorem addAll_other (m : Msg) (t : Tree) (a : List Nat) (h : ∀ ei ∈ m.ents, ei.addr ≠ a) :
    findE (addAll m t).1 a = findE t a := by
  unfold addAll
  exact foldl_keeps (fun acc : Tree × List Evt => findE acc.1 a = findE t a) (addOne m) m.ents (t, [])
    (fun b x hx hb => by rw [addOne_other m b x a (h x hx)]; exact hb) rfl

theorem remAll_other (m : Msg) (t : Tree) (a : List Nat) (h : ∀ ei ∈ m.ents, ei.addr ≠ a) :
    findE (remAll m t).1 a = findE t a := by
  unfold remAll
  exact foldl_keeps (fun acc : Tree × List Evt => findE acc.1 a = findE t a) remOne m.ents (t, [])
    (fun b x hx hb => by rw [remOne_other b x a (h x hx)]; exact hb) rfl

/-- the per-entry step of the notification handler as written: the whole message is added or removed
    (the C06 check names the same function `Disc.stepWritten` inside `notifyPartial`; `notifyPartial_tree` below
    holds by `rfl` for either formulation) -/
def stepWhole (m : Msg) (acc : Tree × List Evt) (ei : EI) : Tree × List Evt :=
  match ei.chg with
  | .added => ((addAll m acc.1).1, acc.2 ++ (addAll m acc.1).2)
  | .removed => ((remAll m acc.1).1, acc.2 ++ (remAll m acc.1).2)
  | .none => acc

theorem stepWhole_other (m : Msg) (acc : Tree × List Evt) (ei : EI) (a : List Nat)
    (h : ∀ ei ∈ m.ents, ei.addr ≠ a) : findE (stepWhole m acc ei).1 a = findE acc.1 a := by
  unfold stepWhole
  cases ei.chg with
  | added => exact addAll_other m acc.1 a h
  | removed => exact remAll_other m acc.1 a h
  | none => rfl

/-- the tree after `notifyPartial` is a fold of `stepWhole` over a prefix of the entries -/
theorem notifyPartial_tree (m : Msg) (t : Tree) :
    ∃ l : List EI, (∀ ei ∈ l, ei ∈ m.ents) ∧ (notifyPartial m t).1 = (l.foldl (stepWhole m) (t, [])).1 := by
  unfold notifyPartial
  split
  · exact ⟨[], by simp, rfl⟩
  · split
    · exact ⟨m.ents.takeWhile (·.chg ≠ .none), fun ei h => List.takeWhile_subset _ h, rfl⟩
    · exact ⟨m.ents, fun _ h => h, rfl⟩

/-- C05 (partial, as written): a partial notification that does not name an address leaves that entity alone -/
theorem notifyPartial_other (m : Msg) (t : Tree) (a : List Nat) (h : ∀ ei ∈ m.ents, ei.addr ≠ a) :
    findE (notifyPartial m t).1 a = findE t a := by
  obtain ⟨l, hl, heq⟩ := notifyPartial_tree m t
  rw [heq]
  exact foldl_keeps (fun acc : Tree × List Evt => findE acc.1 a = findE t a) (stepWhole m) l (t, [])
    (fun b x _ hb => by rw [stepWhole_other m b x a h]; exact hb) rfl

/-- … and so does a reply -/
theorem reply_other (m : Msg) (t : Tree) (a : List Nat) (h : ∀ ei ∈ m.ents, ei.addr ≠ a) :
    findE (reply m t).1 a = findE t a := addAll_other m t a h

/-- the diff computed for a full notification does not name an entity that is known and listed -/
theorem fullDiff_not_named (m : Msg) (t : Tree) (a : List Nat) (hk : (findE t a).isSome = true)
    (hl : a ∈ m.ents.map (·.addr)) : ∀ ei ∈ (fullDiff m t).ents, ei.addr ≠ a := by
  intro ei hei
  simp only [fullDiff, List.mem_append, List.mem_map, List.mem_filter] at hei
  rcases hei with ⟨x, ⟨_, hx⟩, rfl⟩ | ⟨e, ⟨_, he⟩, rfl⟩
  · intro heq
    simp only at heq
    rw [heq, Option.isNone_iff_eq_none] at hx
    rw [hx] at hk
    exact absurd hk (by simp)
  · intro heq
    simp only at heq
    obtain ⟨x, hx, hxa⟩ := List.mem_map.mp hl
    have : (List.map (fun x => x.addr) (List.filter (fun ei => (findE t ei.addr).isSome) m.ents)).contains e.addr = true := by
      rw [List.contains_iff_mem, heq]
      exact List.mem_map.mpr ⟨x, List.mem_filter.mpr ⟨hx, by rw [hxa]; exact hk⟩, hxa⟩
    rw [this] at he
    exact absurd he (by simp)

/-- C05 (partial, as written): a full notification that lists a known entity leaves it alone -/
theorem notifyFull_listed (m : Msg) (t : Tree) (a : List Nat) (hk : (findE t a).isSome = true)
    (hl : a ∈ m.ents.map (·.addr)) : findE (notifyFull m t).1 a = findE t a :=
  notifyPartial_other (fullDiff m t) t a (fullDiff_not_named m t a hk hl)

/-! ### the member with the two guards -/

/-- guard 1 (DESIGN §9): the removal loop skips the device-information entity -/
def remOneKeep (acc : Tree × List Evt) (ei : EI) : Tree × List Evt :=
  if ei.addr = [0] then acc else remOne acc ei

/-- guard 2: a re-announcement of entity `[0]` that lacks the node-management feature does not replace its features -/
def addOneKeep (m : Msg) (acc : Tree × List Evt) (ei : EI) : Tree × List Evt :=
  if ei.addr = [0] ∧ (findE acc.1 [0]).isSome ∧ ¬ (m.feats.filter (·.ent = ei.addr)).any (·.id = 0) then acc
  else addOne m acc ei

def stepKeep (m : Msg) (acc : Tree × List Evt) (ei : EI) : Tree × List Evt :=
  match ei.chg with
  | .added => ((m.ents.foldl (addOneKeep m) (acc.1, [])).1, acc.2 ++ (m.ents.foldl (addOneKeep m) (acc.1, [])).2)
  | .removed => ((m.ents.foldl remOneKeep (acc.1, [])).1, acc.2 ++ (m.ents.foldl remOneKeep (acc.1, [])).2)
  | .none => acc

/-- the notification handler with the two guards, otherwise as written (whole message per entry) -/
def notifyPartialKeep (m : Msg) (t : Tree) : Tree × List Evt × Bool :=
  if m.ents.isEmpty then (t, [], false) else
  if m.ents.any (·.chg = .none) then
    let r := (m.ents.takeWhile (·.chg ≠ .none)).foldl (stepKeep m) (t, [])
    (r.1, r.2, false)
  else
    let r := m.ents.foldl (stepKeep m) (t, [])
    (r.1, r.2, true)

def notifyFullKeep (m : Msg) (t : Tree) : Tree × List Evt × Bool := notifyPartialKeep (fullDiff m t) t

def replyKeep (m : Msg) (t : Tree) : Tree × List Evt := m.ents.foldl (addOneKeep m) (t, [])

theorem nmPresent_of_find (t t' : Tree) (h : findE t' [0] = findE t [0]) : nmPresent t' = nmPresent t := by
  unfold nmPresent; rw [h]

theorem find_map_self (t : Tree) (a : List Nat) (g : E → E) (hg : ∀ e, (g e).addr = e.addr) (e : E)
    (h : findE t a = some e) : findE (t.map fun e => if e.addr = a then g e else e) a = some (g e) := by
  unfold findE at *
  induction t with
  | nil => simp at h
  | cons x rest ih =>
    by_cases hx : x.addr = a
    · have hxe : x = e := by
        simp only [List.find?_cons, hx, decide_true] at h
        exact Option.some.inj h
      subst hxe
      have : (g x).addr = a := by rw [hg]; exact hx
      simp [hx, this]
    · simp only [List.find?_cons, hx, decide_false] at h
      simp only [List.map_cons, List.find?_cons, hx, if_false, decide_false]
      exact ih h

theorem addOneKeep_nm (m : Msg) (acc : Tree × List Evt) (ei : EI) (h : nmPresent acc.1 = true) :
    nmPresent (addOneKeep m acc ei).1 = true := by
  unfold addOneKeep
  split
  · exact h
  · rename_i hg
    by_cases ha : ei.addr = [0]
    · -- entity [0] is refreshed: it exists (the invariant), so the new feature list carries feature 0
      obtain ⟨t, evs⟩ := acc
      have hsome : ∃ e, findE t [0] = some e := by
        unfold nmPresent at h
        cases hf : findE t [0] with
        | none => simp [hf] at h
        | some e => exact ⟨e, rfl⟩
      obtain ⟨e, he⟩ := hsome
      have hfs : (m.feats.filter (·.ent = ei.addr)).any (·.id = 0) = true := by
        apply Classical.byContradiction
        intro hn
        exact hg ⟨ha, by simp [he], hn⟩
      -- after the refresh the lookup yields an entity whose features are the announced ones
      have hnew : ∃ e', findE (addOne m (t, evs) ei).1 [0] = some e' ∧
          e'.feats = m.feats.filter (·.ent = ei.addr) := by
        simp only [addOne, ha, he]
        refine ⟨_, find_map_self t [0] _ ?_ e he, ?_⟩
        · intro _; rfl
        · rfl
      obtain ⟨e', he', hf'⟩ := hnew
      unfold nmPresent
      rw [he']
      show e'.feats.any (fun x => decide (x.id = 0)) = true
      rw [hf']
      exact hfs
    · rw [nmPresent_of_find _ _ (addOne_other m acc ei [0] ha)]
      exact h

theorem remOneKeep_nm (acc : Tree × List Evt) (ei : EI) (h : nmPresent acc.1 = true) :
    nmPresent (remOneKeep acc ei).1 = true := by
  unfold remOneKeep
  split
  · exact h
  · rename_i ha
    rw [nmPresent_of_find _ _ (remOne_other acc ei [0] ha)]
    exact h

theorem stepKeep_nm (m : Msg) (acc : Tree × List Evt) (ei : EI) (h : nmPresent acc.1 = true) :
    nmPresent (stepKeep m acc ei).1 = true := by
  unfold stepKeep
  cases ei.chg with
  | added =>
    exact foldl_keeps (fun b : Tree × List Evt => nmPresent b.1 = true) (addOneKeep m) m.ents (acc.1, [])
      (fun b x _ hb => addOneKeep_nm m b x hb) h
  | removed =>
    exact foldl_keeps (fun b : Tree × List Evt => nmPresent b.1 = true) remOneKeep m.ents (acc.1, [])
      (fun b x _ hb => remOneKeep_nm b x hb) h
  | none => exact h

theorem notifyPartialKeep_nm (m : Msg) (t : Tree) (h : nmPresent t = true) :
    nmPresent (notifyPartialKeep m t).1 = true := by
  unfold notifyPartialKeep
  split
  · exact h
  · split
    · exact foldl_keeps (fun b : Tree × List Evt => nmPresent b.1 = true) (stepKeep m) _ (t, [])
        (fun b x _ hb => stepKeep_nm m b x hb) h
    · exact foldl_keeps (fun b : Tree × List Evt => nmPresent b.1 = true) (stepKeep m) _ (t, [])
        (fun b x _ hb => stepKeep_nm m b x hb) h

theorem replyKeep_nm (m : Msg) (t : Tree) (h : nmPresent t = true) : nmPresent (replyKeep m t).1 = true :=
  foldl_keeps (fun b : Tree × List Evt => nmPresent b.1 = true) (addOneKeep m) m.ents (t, [])
    (fun b x _ hb => addOneKeep_nm m b x hb) h

end Spine.Disc
