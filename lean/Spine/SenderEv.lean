import Spine.Sender
import Spine.SenderSpec
/-!
# Event-sourced model of `Sender.Request` against the response path (spine/send.go)

`Sender.Request` is one critical section under `muxRequestSend` — with respect to OTHER CALLERS OF `Request`.
`ProcessResponseForMsgCounterReference` (called by the connection's reader goroutine for every inbound
`msgCounterReference`) does not take that mutex, only the cache lock `muxReadCache`, which `Request` holds during
the lookup and during the insertion but NOT while the datagram is written. So a response can be processed between
"the request is on the connection" and "the request is remembered". This model splits `Request` there:

* `reqBegin op h` : `muxRequestSend.Lock`; look `h` up (hit: return the remembered counter, unlock — one event);
                    miss: draw the counter, write the datagram               — the request is on the wire
* `reqEnd op`     : remember (counter, h) (`addMsgCounterHashToCache`, evicting the lowest counter beyond `limit`),
                    `muxRequestSend.Unlock`
* `plain o`       : every other operation of the sequential model `Spine.Snd` (response, other sends, notify, lookup),
                    each one critical section of its own

`reqBegin` of a second caller while the mutex is held is not enabled (a no-op of the model: the caller waits).
All interleavings of any number of `Request` callers with the reader goroutine = all event lists.

The family has one flag: `insertFirst = false` is the code as written (remember AFTER the write), `insertFirst = true`
is the repaired member (remember BEFORE the write, as `Notify` does with its datagram cache; forget again if the write
fails). Sequentially the two members are the same function (`SndEv.seq_request`).
-/
namespace Spine.SndEv
open Spine.Snd

structure St where
  base : Snd.St := {}
  /-- holder of `muxRequestSend` between write and insertion: (operation, counter drawn, hash) -/
  held : Option (Nat × Nat × Nat) := none

inductive Ev
  | reqBegin (op h : Nat)
  | reqEnd (op : Nat)
  | plain (o : Snd.Op)

/-- `addMsgCounterHashToCache` -/
def remember (b : Snd.St) (c h : Nat) : Snd.St := { b with req := Snd.evict b ++ [(c, h)] }

/-- the miss branch of `reqBegin`: draw, (remember first in the repaired member,) write -/
def beginMiss (insertFirst : Bool) (s : St) (op h : Nat) : St :=
  let c := s.base.msgNum + 1
  let b : Snd.St := { s.base with msgNum := c }
  { base := if insertFirst then remember b c h else b, held := some (op, c, h) }

def beginFree (insertFirst : Bool) (s : St) (op h : Nat) : St :=
  match s.base.req.find? (·.2 = h) with
  | some _ => s
  | none => beginMiss insertFirst s op h

def endHeld (insertFirst : Bool) (s : St) (op : Nat) (x : Nat × Nat × Nat) : St :=
  if x.1 = op then { base := if insertFirst then s.base else remember s.base x.2.1 x.2.2, held := none } else s

def plainStep (s : St) : Snd.Op → St
  | .request _ => s            -- requests are the two events above
  | o => { s with base := Snd.step s.base o }

def step (insertFirst : Bool) (s : St) : Ev → St
  | .reqBegin op h => match s.held with
    | some _ => s
    | none => beginFree insertFirst s op h
  | .reqEnd op => match s.held with
    | some x => endHeld insertFirst s op x
    | none => s
  | .plain o => plainStep s o

def run (insertFirst : Bool) (s : St) (evs : List Ev) : St := evs.foldl (step insertFirst) s

/-- what an observer of the connection and of `Request`'s return values sees of one event
    (the vocabulary of the SPEC monitor `Snd.Spec`) -/
def observe (s : St) : Ev → List Spec.Obs
  | .reqBegin _ h => match s.held with
    | some _ => []
    | none => match s.base.req.find? (·.2 = h) with
      | some e => [.req h e.1 false]
      | none => [.req h (s.base.msgNum + 1) true]
  | .reqEnd _ => []
  | .plain (.response r) => [.resp r]
  | .plain _ => []

def observations (insertFirst : Bool) : St → List Ev → List Spec.Obs
  | _, [] => []
  | s, ev :: evs => observe s ev ++ observations insertFirst (step insertFirst s ev) evs

/-- no response references the counter of the request that is in flight (between write and insertion) -/
def calmEv (s : St) : Ev → Bool
  | .plain (.response r) => match s.held with
    | some x => x.2.1 != r
    | none => true
  | _ => true

def calm (insertFirst : Bool) : St → List Ev → Bool
  | _, [] => true
  | s, ev :: evs => calmEv s ev && calm insertFirst (step insertFirst s ev) evs

end Spine.SndEv
