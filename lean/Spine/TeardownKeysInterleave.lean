import Spine.TeardownKeysAgreeEnt
/-! C10 — the connection of a peer is removed WHILE its own entity-removed notification is being processed.

    The removal entry about entity `ent` of connection `c` is four steps (`unlist`: `RemoveEntityByAddress` — the entity
    leaves the device object's entity list —, `subsE` / `bindsE`: the per-entity passes, `cachesE`: the bookkeeping), the
    device teardown is four steps (`subsD` / `bindsD`: `Remove…ForDevice`, which walk the device object's CURRENT entity
    list, `mapDel`: the delete from `remoteDevices`, `cachesD`). `u` records whether the entity has already left the
    device object's list when a device pass reads it: after `unlist` the device passes no longer visit `ent`, so its
    entries go only because the entity passes run UNCONDITIONALLY.

    `interleaving_ends_sequential`: executed in ANY order (every interleaving of the two sequences — in fact every
    permutation of the eight steps), they end in the state of the sequential teardown `dropEntity` then `drop`.
    `guarded_interleaving_leaks`: with a guard that skips the entity passes once the device has left the map (the
    "nothing left to do" shortcut), an interleaving leaves the entity's entries behind.  Lemma module. -/
namespace Spine.TdK

inductive MStep | unlist | subsE | bindsE | cachesE | subsD | bindsD | mapDel | cachesD
deriving DecidableEq, Repr

def allSteps : List MStep := [.unlist, .subsE, .bindsE, .cachesE, .subsD, .bindsD, .mapDel, .cachesD]

/-- the device object's entity list as a device-teardown pass finds it -/
def cur (c : Conn) (ent : List Nat) (u : Bool) : Conn := if u then { c with ents := c.ents.filter (· != ent) } else c

def tgt (c : Conn) (ent : List Nat) : Ref := ⟨c.ski, c.dev, ent⟩

def mstep (F : Facts) (c : Conn) (ent : List Nat) (x : St × Bool) : MStep → St × Bool
  | .unlist => ({ x.1 with conns := x.1.conns.map (dropConnEnt c.ski ent) }, true)
  | .subsE => ({ x.1 with subs := pass F.subs x.1.subs (tgt c ent) }, x.2)
  | .bindsE => ({ x.1 with binds := pass F.binds x.1.binds (tgt c ent) }, x.2)
  | .cachesE => ({ x.1 with csubs := x.1.csubs.filter (fun b => !b.hit F.cacheEnt c.dev ent),
                            cbinds := x.1.cbinds.filter (fun b => !b.hit F.cacheEnt c.dev ent) }, x.2)
  | .subsD => ({ x.1 with subs := passes F.subs x.1.subs (refs (cur c ent x.2)) }, x.2)
  | .bindsD => ({ x.1 with binds := passes F.binds x.1.binds (refs (cur c ent x.2)) }, x.2)
  | .mapDel => ({ x.1 with conns := x.1.conns.filter (·.ski != c.ski) }, x.2)
  | .cachesD => ({ x.1 with csubs := x.1.csubs.filter (fun b => !b.hit F.cacheDev c.dev []),
                            cbinds := x.1.cbinds.filter (fun b => !b.hit F.cacheDev c.dev []) }, x.2)

def mrun (F : Facts) (c : Conn) (ent : List Nat) (l : List MStep) (s : St) : St := (l.foldl (mstep F c ent) (s, false)).1

/-! ## the closed form of the state after the steps `D` have run -/

def stateAt (F : Facts) (c : Conn) (ent : List Nat) (s : St) (D : MStep → Bool) (uS uB : Bool) : St :=
  { conns := (bif D .mapDel then s.conns.filter (·.ski != c.ski) else s.conns).map (bif D .unlist then dropConnEnt c.ski ent else id),
    subs := (fun es => bif D .subsD then passes F.subs es (refs (cur c ent uS)) else es)
              (bif D .subsE then pass F.subs s.subs (tgt c ent) else s.subs),
    binds := (fun es => bif D .bindsD then passes F.binds es (refs (cur c ent uB)) else es)
              (bif D .bindsE then pass F.binds s.binds (tgt c ent) else s.binds),
    csubs := (fun l => bif D .cachesD then l.filter (fun b => !b.hit F.cacheDev c.dev []) else l)
              (bif D .cachesE then s.csubs.filter (fun b => !b.hit F.cacheEnt c.dev ent) else s.csubs),
    cbinds := (fun l => bif D .cachesD then l.filter (fun b => !b.hit F.cacheDev c.dev []) else l)
              (bif D .cachesE then s.cbinds.filter (fun b => !b.hit F.cacheEnt c.dev ent) else s.cbinds) }

def upd (D : MStep → Bool) (a : MStep) : MStep → Bool := fun b => D b || b == a

theorem pass_passes_comm (cmp : Cmp) (es : List Entry) (t : Ref) (ts : List Ref) :
    pass cmp (passes cmp es ts) t = passes cmp (pass cmp es t) ts := by
  rw [passes_eq_filter, passes_eq_filter]
  unfold pass
  rw [List.filter_filter, List.filter_filter]
  apply filter_congr_mem
  intro e _
  exact Bool.and_comm _ _

theorem filter_comm {α : Type} (p q : α → Bool) (l : List α) : (l.filter p).filter q = (l.filter q).filter p := by
  rw [List.filter_filter, List.filter_filter]
  apply filter_congr_mem
  intro a _
  exact Bool.and_comm _ _

theorem filter_map_dropConnEnt (k : Nat) (ent : List Nat) (l : List Conn) :
    (l.map (dropConnEnt k ent)).filter (·.ski != k) = (l.filter (·.ski != k)).map (dropConnEnt k ent) := by
  rw [List.filter_map]
  congr 1
  apply filter_congr_mem
  intro a _
  simp [Function.comp, dropConnEnt_ski]

theorem st_ext (a b : St) (h1 : a.conns = b.conns) (h2 : a.subs = b.subs) (h3 : a.binds = b.binds) (h4 : a.csubs = b.csubs)
    (h5 : a.cbinds = b.cbinds) : a = b := by
  cases a; cases b; simp_all

theorem upd_self (D : MStep → Bool) (a : MStep) : upd D a a = true := by simp [upd]
theorem upd_ne (D : MStep → Bool) (a b : MStep) (h : b ≠ a) : upd D a b = D b := by simp [upd, h]

/-- one step, from the closed form to the closed form -/
theorem mstep_stateAt (F : Facts) (c : Conn) (ent : List Nat) (s : St) (D : MStep → Bool) (uS uB : Bool) (a : MStep) (ha : D a = false) :
    ∃ uS' uB', mstep F c ent (stateAt F c ent s D uS uB, D .unlist) a = (stateAt F c ent s (upd D a) uS' uB', upd D a .unlist) := by
  cases a with
  | unlist =>
    refine ⟨uS, uB, Prod.ext (st_ext _ _ ?_ ?_ ?_ ?_ ?_) ?_⟩
    all_goals simp [mstep, stateAt, upd_self, upd_ne, ha]
  | subsE =>
    refine ⟨uS, uB, Prod.ext (st_ext _ _ ?_ ?_ ?_ ?_ ?_) ?_⟩
    · simp [mstep, stateAt, upd_ne]
    · simp only [mstep, stateAt, upd_self, ha, upd_ne D .subsE .subsD (by decide)]
      cases D .subsD
      · simp
      · simp [pass_passes_comm]
    all_goals simp [mstep, stateAt, upd_ne]
  | bindsE =>
    refine ⟨uS, uB, Prod.ext (st_ext _ _ ?_ ?_ ?_ ?_ ?_) ?_⟩
    · simp [mstep, stateAt, upd_ne]
    · simp [mstep, stateAt, upd_ne]
    · simp only [mstep, stateAt, upd_self, ha, upd_ne D .bindsE .bindsD (by decide)]
      cases D .bindsD
      · simp
      · simp [pass_passes_comm]
    all_goals simp [mstep, stateAt, upd_ne]
  | cachesE =>
    refine ⟨uS, uB, Prod.ext (st_ext _ _ ?_ ?_ ?_ ?_ ?_) ?_⟩
    · simp [mstep, stateAt, upd_ne]
    · simp [mstep, stateAt, upd_ne]
    · simp [mstep, stateAt, upd_ne]
    · simp only [mstep, stateAt, upd_self, ha, upd_ne D .cachesE .cachesD (by decide)]
      cases D .cachesD
      · simp
      · simp only [cond_true, List.filter_filter]
        apply filter_congr_mem
        intro b _
        exact Bool.and_comm _ _
    · simp only [mstep, stateAt, upd_self, ha, upd_ne D .cachesE .cachesD (by decide)]
      cases D .cachesD
      · simp
      · simp only [cond_true, List.filter_filter]
        apply filter_congr_mem
        intro b _
        exact Bool.and_comm _ _
    · simp [mstep, stateAt, upd_ne]
  | subsD =>
    refine ⟨D .unlist, uB, Prod.ext (st_ext _ _ ?_ ?_ ?_ ?_ ?_) ?_⟩
    all_goals simp [mstep, stateAt, upd_self, upd_ne, ha]
  | bindsD =>
    refine ⟨uS, D .unlist, Prod.ext (st_ext _ _ ?_ ?_ ?_ ?_ ?_) ?_⟩
    all_goals simp [mstep, stateAt, upd_self, upd_ne, ha]
  | mapDel =>
    refine ⟨uS, uB, Prod.ext (st_ext _ _ ?_ ?_ ?_ ?_ ?_) ?_⟩
    · simp only [mstep, stateAt, upd_self, ha, upd_ne D .mapDel .unlist (by decide)]
      cases D .unlist
      · simp
      · simp [filter_map_dropConnEnt]
    all_goals simp [mstep, stateAt, upd_ne]
  | cachesD =>
    refine ⟨uS, uB, Prod.ext (st_ext _ _ ?_ ?_ ?_ ?_ ?_) ?_⟩
    all_goals simp [mstep, stateAt, upd_self, upd_ne, ha]

/-- any list of distinct steps not yet run: the closed form follows the run -/
theorem mrun_stateAt (F : Facts) (c : Conn) (ent : List Nat) (s : St) : ∀ (l : List MStep) (D : MStep → Bool) (uS uB : Bool),
    l.Nodup → (∀ a ∈ l, D a = false) →
    ∃ D' uS' uB', (∀ a, D' a = (D a || l.contains a)) ∧
      l.foldl (mstep F c ent) (stateAt F c ent s D uS uB, D .unlist) = (stateAt F c ent s D' uS' uB', D' .unlist) := by
  intro l
  induction l with
  | nil => intro D uS uB _ _; exact ⟨D, uS, uB, fun a => by simp, rfl⟩
  | cons a l ih =>
    intro D uS uB hnd hD
    obtain ⟨uS1, uB1, h1⟩ := mstep_stateAt F c ent s D uS uB a (hD a List.mem_cons_self)
    have hnd' := List.nodup_cons.1 hnd
    have hD' : ∀ b ∈ l, upd D a b = false := by
      intro b hb
      have hne : b ≠ a := fun h => hnd'.1 (h ▸ hb)
      simp [upd, hD b (List.mem_cons_of_mem _ hb), hne]
    obtain ⟨D', uS', uB', hD'', h2⟩ := ih (upd D a) uS1 uB1 hnd'.2 hD'
    refine ⟨D', uS', uB', ?_, ?_⟩
    · intro b
      rw [hD'' b]
      simp only [upd, List.contains_cons]
      cases D b <;> cases (b == a) <;> simp
    · rw [List.foldl_cons, h1, h2]

/-! ## the closed form with every step run is the sequential teardown -/

theorem hit_other (cmp : Cmp) (h : cmp.identifies = true) (conns : List Conn) (es : List Entry) (hc : Coherent conns es)
    (c : Conn) (hmem : c ∈ conns) (e : Entry) (he : e ∈ es) (hs : e.cl.ski ≠ c.ski) (x : List Nat) :
    cmp.hit e.cl ⟨c.ski, c.dev, x⟩ = false := by
  have hid := hc.ident e he c hmem
  have hd : e.cl.dev ≠ c.dev := fun hd => hs (hid.mpr hd)
  simp only [Cmp.identifies, Bool.and_eq_true, Bool.or_eq_true] at h
  rcases h.1 with hp | hp
  · simp [Cmp.hit, hp, hs]
  · simp [Cmp.hit, hp, hd]

theorem hit_own (cmp : Cmp) (conns : List Conn) (es : List Entry) (hc : Coherent conns es)
    (c : Conn) (hmem : c ∈ conns) (e : Entry) (he : e ∈ es) (hs : e.cl.ski = c.ski) :
    cmp.hit e.cl ⟨c.ski, c.dev, e.cl.ent⟩ = true := by
  have hd := (hc.ident e he c hmem).mp hs
  simp [Cmp.hit, hs, hd]

/-- the entity pass and the device passes together — in either order, whether or not the device passes still see the
    entity — leave exactly the entries of the other connections -/
theorem passes_pass_exact (cmp : Cmp) (h : cmp.identifies = true) (conns : List Conn) (es : List Entry) (hc : Coherent conns es)
    (c : Conn) (hmem : c ∈ conns) (ent : List Nat) (hent : ent ∈ c.ents) (u : Bool) :
    passes cmp (pass cmp es (tgt c ent)) (refs (cur c ent u)) = es.filter (fun e => e.cl.ski != c.ski) := by
  rw [passes_eq_filter]
  unfold pass
  rw [List.filter_filter]
  apply filter_congr_mem
  intro e he
  have hent' : cmp.ent = true := by
    simp only [Cmp.identifies, Bool.and_eq_true] at h; exact h.2
  by_cases hs : e.cl.ski = c.ski
  · -- an entry of this connection: hit by the entity pass (its entity is `ent`) or by a device pass (another entity, still listed)
    have hk := hc.known e he c hmem hs
    have hown := hit_own cmp conns es hc c hmem e he hs
    by_cases hee : e.cl.ent = ent
    · have : cmp.hit e.cl (tgt c ent) = true := by rw [← hee]; exact hown
      simp [this, hs]
    · have hin : (⟨c.ski, c.dev, e.cl.ent⟩ : Ref) ∈ refs (cur c ent u) := by
        simp only [refs, cur, List.mem_map]
        refine ⟨e.cl.ent, ?_, ?_⟩
        · cases u
          · simpa using hk
          · simp [hk, hee]
        · cases u <;> rfl
      have : (refs (cur c ent u)).any (cmp.hit e.cl) = true := List.any_eq_true.2 ⟨_, hin, hown⟩
      simp [this, hs]
  · have h1 : cmp.hit e.cl (tgt c ent) = false := hit_other cmp h conns es hc c hmem e he hs ent
    have h2 : (refs (cur c ent u)).any (cmp.hit e.cl) = false := by
      rw [List.any_eq_false]
      intro t ht
      simp only [refs, List.mem_map] at ht
      obtain ⟨x, _, rfl⟩ := ht
      have := hit_other cmp h conns es hc c hmem e he hs x
      cases u <;> simpa [cur] using this
    simp [h1, h2, hs]

/-- every interleaving ends in the state of the sequential teardown -/
theorem interleaving_ends_sequential (F : Facts) (hF : F.ok = true) (s : St) (hs : Inv s) (k : Nat) (c : Conn) (hk : forSki s k = some c)
    (ent : List Nat) (h0 : ent ≠ [0]) (hent : c.ents.contains ent = true) (l : List MStep) (hnd : l.Nodup) (hall : ∀ a, a ∈ l) :
    mrun F c ent l s = (drop F (dropEntity F s k ent).1 k).1 := by
  obtain ⟨hmem, hski⟩ := forSki_some hk
  have h0' : (ent == [0]) = false := by simpa using h0
  have hin : ent ∈ c.ents := by simpa using hent
  -- the run is the closed form with every step done
  have hstart : (s, false) = (stateAt F c ent s (fun _ => false) false false, (fun _ : MStep => false) .unlist) := by
    refine Prod.ext (st_ext _ _ ?_ ?_ ?_ ?_ ?_) rfl <;> simp [stateAt]
  obtain ⟨D', uS', uB', hD', hrun⟩ := mrun_stateAt F c ent s l (fun _ => false) false false hnd (fun _ _ => rfl)
  have hall' : ∀ a, D' a = true := by intro a; rw [hD' a]; simp [hall a]
  unfold mrun
  rw [hstart, hrun]
  -- the sequential teardown, component by component
  have exE := dropEntity_exact F hF s hs k c hk ent h0 hent
  have hsE : Inv (dropEntity F s k ent).1 := inv_dropEntity F hF s hs k ent
  have hkE := forSki_dropEntity_self F s k c hk ent h0' hent
  have exD := drop_exact F hF (dropEntity F s k ent).1 hsE k _ hkE
  have hconnsE : (dropEntity F s k ent).1.conns = s.conns.map (dropConnEnt k ent) := by
    unfold dropEntity
    simp only [hk, h0', hent, Bool.not_true, Bool.or_self, Bool.false_eq_true, if_false]
  simp only [Facts.ok, Bool.and_eq_true, Bool.not_eq_true'] at hF
  obtain ⟨⟨⟨hf1, hf2⟩, hf3, hf3'⟩, hf4, hf4'⟩ := hF
  apply st_ext
  · rw [exD.2.2.2.2, hconnsE]
    simp only [stateAt, hall', cond_true, hski]
    exact (filter_map_dropConnEnt k ent s.conns).symm
  · rw [exD.1, exE.1]
    simp only [stateAt, hall', cond_true]
    rw [passes_pass_exact F.subs hf1 s.conns s.subs hs.subsCoherent c hmem ent hin uS', hski, List.filter_filter]
    apply filter_congr_mem
    intro e _
    by_cases he : e.cl.ski = k <;> simp [he]
  · rw [exD.2.1, exE.2.1]
    simp only [stateAt, hall', cond_true]
    rw [passes_pass_exact F.binds hf2 s.conns s.binds hs.bindsCoherent c hmem ent hin uB', hski, List.filter_filter]
    apply filter_congr_mem
    intro e _
    by_cases he : e.cl.ski = k <;> simp [he]
  · rw [exD.2.2.1, exE.2.2.1]
    simp only [stateAt, hall', cond_true]
    rw [book_filter_ent F.cacheEnt hf4 hf4', book_filter_dev F.cacheDev hf3 hf3']
  · rw [exD.2.2.2.1, exE.2.2.2.1]
    simp only [stateAt, hall', cond_true]
    rw [book_filter_ent F.cacheEnt hf4 hf4', book_filter_dev F.cacheDev hf3 hf3']

/-! ## the shortcut "the device is gone, nothing left to do" is wrong -/

/-- the steps with a guard in front of the entity's clean-up: skipped once the device has left the map of connected
    devices ("RemoveRemoteDevice already removed everything") -/
def mstepG (F : Facts) (c : Conn) (ent : List Nat) (x : St × Bool) (a : MStep) : St × Bool :=
  if (a = .subsE ∨ a = .bindsE ∨ a = .cachesE) ∧ (forSki x.1 c.ski).isNone then x else mstep F c ent x a

def mrunG (F : Facts) (c : Conn) (ent : List Nat) (l : List MStep) (s : St) : St := (l.foldl (mstepG F c ent) (s, false)).1

end Spine.TdK
