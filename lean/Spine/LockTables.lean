import Spine.Lock
import Spine.Race
import Spine.RaceRW
/-!
# Bridge between the regenerated lock tables (G8) and the abstract theorems (C17)

Hand-written, independent of `Spine.Generated.*` (must build whatever the tables say).

* `RespectsEdges edges thrs` — the *trusted-translator assumption* in the abstract thread/lock
  model of `Spine.Lock`: whenever a thread waits for mutex `m` while holding `h`, the pair `(h, m)`
  is one of the extracted lock-order edges (the analyser over-approximates the real acquisitions).
* `ranked_edges_no_deadlock` — a rank that increases along every edge excludes deadlock in every
  state that respects the edges.
* `Guarded m x tr` — in the trace model of `Spine.Race`: every access to location `x` is made by a
  thread that owns mutex `m` at that moment (what a guarded-by row with a common lock claims).
* `guarded_trace_ordered` — in a trace respecting mutual exclusion, any two accesses to `x` by
  different threads, anywhere in the trace, are separated by `rel t₁ m … acq t₂ m`, i.e. ordered by
  happens-before (program order, release→acquire edge of the Go memory model, program order).
* `GuardedRW`, `guardedRW_trace_ordered` — the same over the reader/writer trace model of
  `Spine.RaceRW` (writes under the exclusive hold, reads under any hold; conflicting pairs only).
-/
namespace Spine.LockTables
open Spine

/-! ## lock order -/

/-- one thread respects the edge table: what it waits for is reachable by an edge from everything it holds -/
def thrRespects (edges : List (Nat × Nat)) (t : Lock.Thr) : Prop :=
  match t.waiting with
  | some m => ∀ h ∈ t.held, (h, m) ∈ edges
  | none => True

instance (edges : List (Nat × Nat)) (t : Lock.Thr) : Decidable (thrRespects edges t) := by
  unfold thrRespects
  cases t.waiting <;> infer_instance

/-- every thread of the state respects the edge table (assumption: the analyser's edges
    over-approximate the real "holds h, asks for m" pairs) -/
def RespectsEdges (edges : List (Nat × Nat)) (thrs : List Lock.Thr) : Prop :=
  ∀ t ∈ thrs, thrRespects edges t

instance (edges : List (Nat × Nat)) (thrs : List Lock.Thr) : Decidable (RespectsEdges edges thrs) := by
  unfold RespectsEdges; infer_instance

/-- the rank strictly increases along every edge -/
def Ranked (rank : Nat → Nat) (edges : List (Nat × Nat)) : Prop :=
  ∀ e ∈ edges, rank e.1 < rank e.2

theorem respects_ranked_disciplined (rank : Nat → Nat) (edges : List (Nat × Nat))
    (hr : Ranked rank edges) (thrs : List Lock.Thr) (he : RespectsEdges edges thrs) :
    Lock.Disciplined rank thrs := by
  intro t ht m hm h hh
  have := he t ht
  unfold thrRespects at this
  rw [hm] at this
  exact hr (h, m) (this h hh)

/-- ranked edges ⇒ no state that respects the edges is deadlocked -/
theorem ranked_edges_no_deadlock (rank : Nat → Nat) (edges : List (Nat × Nat))
    (hr : Ranked rank edges) (thrs : List Lock.Thr) (he : RespectsEdges edges thrs) :
    ¬ Lock.Deadlocked thrs :=
  Lock.ranked_no_deadlock rank thrs (respects_ranked_disciplined rank edges hr thrs he)

/-- conversely a self-edge or a two-cycle in the table admits a deadlocked state that respects it
    (so the ranking condition is not stronger than needed for these shapes) -/
theorem two_cycle_deadlocks (a b : Nat) (edges : List (Nat × Nat))
    (hab : (a, b) ∈ edges) (hba : (b, a) ∈ edges) :
    ∃ thrs, RespectsEdges edges thrs ∧ Lock.Deadlocked thrs := by
  refine ⟨[⟨[a], some b⟩, ⟨[b], some a⟩], ?_, ?_⟩
  · intro t ht
    simp only [List.mem_cons, List.not_mem_nil, or_false] at ht
    rcases ht with rfl | rfl
    · intro h hh; simp only [List.mem_singleton] at hh; subst hh; exact hab
    · intro h hh; simp only [List.mem_singleton] at hh; subst hh; exact hba
  · refine ⟨[⟨[a], some b⟩, ⟨[b], some a⟩], by simp, fun t ht => ht, ?_⟩
    intro t ht
    simp only [List.mem_cons, List.not_mem_nil, or_false] at ht
    rcases ht with rfl | rfl
    · exact ⟨b, rfl, ⟨[b], some a⟩, by simp, by simp⟩
    · exact ⟨a, rfl, ⟨[a], some b⟩, by simp, by simp⟩

/-- **Progress.** In a state that is not deadlocked, whenever some thread waits there is a waiting
    thread whose wanted mutex is free or held only by threads that are NOT waiting (running
    holders): the wait of that thread ends as soon as those holders release — which, with no lock
    leak, they do before they return. (Classical: the proof picks the set of all waiting threads.) -/
theorem some_waiter_can_proceed (thrs : List Lock.Thr) (h : ¬ Lock.Deadlocked thrs)
    (hw : ∃ t ∈ thrs, t.waiting ≠ none) :
    ∃ t ∈ thrs, ∃ m, t.waiting = some m ∧ ∀ t' ∈ thrs, m ∈ t'.held → t'.waiting = none := by
  apply Classical.byContradiction
  intro hno
  apply h
  refine ⟨thrs.filter (fun t => t.waiting.isSome), ?_, ?_, ?_⟩
  · obtain ⟨t, ht, hne⟩ := hw
    intro hnil
    have hmem : t ∈ thrs.filter (fun t => t.waiting.isSome) :=
      List.mem_filter.mpr ⟨ht, by cases h' : t.waiting with
        | none => exact absurd h' hne
        | some _ => rfl⟩
    rw [hnil] at hmem
    exact absurd hmem List.not_mem_nil
  · intro t ht
    exact (List.mem_filter.mp ht).1
  · intro t ht
    obtain ⟨htm, hs⟩ := List.mem_filter.mp ht
    cases hwt : t.waiting with
    | none => rw [hwt] at hs; exact Bool.noConfusion hs
    | some m =>
      refine ⟨m, rfl, ?_⟩
      apply Classical.byContradiction
      intro hnone
      apply hno
      refine ⟨t, htm, m, hwt, ?_⟩
      intro t' ht' hheld
      apply Classical.byContradiction
      intro hwait
      apply hnone
      refine ⟨t', List.mem_filter.mpr ⟨ht', ?_⟩, hheld⟩
      cases h' : t'.waiting with
      | none => exact absurd h' hwait
      | some _ => rfl

/-! ## guarded-by -/

/-- every access to `x` in the (latest-first) trace is made by a thread that owns `m` at that moment -/
def Guarded (m x : Nat) : List Race.Ev → Prop
  | [] => True
  | .acc t y _ :: past => (y = x → Race.owner past m = some t) ∧ Guarded m x past
  | .acq .. :: past => Guarded m x past
  | .rel .. :: past => Guarded m x past

theorem Guarded_tail {m x : Nat} {e : Race.Ev} {l : List Race.Ev} (h : Guarded m x (e :: l)) :
    Guarded m x l := by
  cases e <;> simp [Guarded] at h <;> first | exact h.2 | exact h

theorem Guarded_suffix {m x : Nat} : ∀ (l1 l2 : List Race.Ev), Guarded m x (l1 ++ l2) → Guarded m x l2
  | [], _, h => h
  | _ :: l1, l2, h => Guarded_suffix l1 l2 (Guarded_tail h)

theorem WF_suffix : ∀ (l1 l2 : List Race.Ev), Race.WF (l1 ++ l2) → Race.WF l2
  | [], _, h => h
  | _ :: l1, l2, h => WF_suffix l1 l2 (Race.WF_tail h)

/-- In a trace that respects mutual exclusion and in which every access to `x` is made under `m`,
    any two accesses to `x` by different threads — wherever they are in the trace — are separated
    by a release of `m` by the earlier thread and a later acquisition of `m` by the later thread. -/
theorem guarded_trace_ordered (m x t1 t2 : Nat) (w1 w2 : Bool) (hne : t1 ≠ t2)
    (later mid earlier : List Race.Ev)
    (hwf : Race.WF (later ++ Race.Ev.acc t2 x w2 :: (mid ++ Race.Ev.acc t1 x w1 :: earlier)))
    (hg : Guarded m x (later ++ Race.Ev.acc t2 x w2 :: (mid ++ Race.Ev.acc t1 x w1 :: earlier))) :
    ∃ mid2 mid1 mid0, mid = mid2 ++ Race.Ev.acq t2 m :: (mid1 ++ Race.Ev.rel t1 m :: mid0) := by
  have hwf2 := WF_suffix later _ hwf
  have hg2 := Guarded_suffix later _ hg
  have h2 : Race.owner (mid ++ Race.Ev.acc t1 x w1 :: earlier) m = some t2 :=
    (show (x = x → Race.owner (mid ++ Race.Ev.acc t1 x w1 :: earlier) m = some t2) ∧ _ from hg2).1 rfl
  have hg1 := Guarded_suffix mid _ (Guarded_tail hg2)
  have h1 : Race.owner earlier m = some t1 :=
    (show (x = x → Race.owner earlier m = some t1) ∧ _ from hg1).1 rfl
  exact Race.guarded_accesses_ordered m x t1 t2 w1 w2 hne earlier mid hwf2 h1 h2

/-! ## guarded-by with reader/writer locks -/

/-- every access to `x` in the trace is protected by `m`: a write under the exclusive hold, a read
    under some hold (what a guarded-by row with a common `sync.RWMutex` claims) -/
def GuardedRW (m x : Nat) : List RaceRW.Ev → Prop
  | [] => True
  | .acc t y w :: past => (y = x → RaceRW.Protected past m t w) ∧ GuardedRW m x past
  | .acq .. :: past => GuardedRW m x past
  | .rel .. :: past => GuardedRW m x past
  | .racq .. :: past => GuardedRW m x past
  | .rrel .. :: past => GuardedRW m x past

theorem GuardedRW_tail {m x : Nat} {e : RaceRW.Ev} {l : List RaceRW.Ev} (h : GuardedRW m x (e :: l)) :
    GuardedRW m x l := by
  cases e <;> simp [GuardedRW] at h <;> first | exact h.2 | exact h

theorem GuardedRW_suffix {m x : Nat} :
    ∀ (l1 l2 : List RaceRW.Ev), GuardedRW m x (l1 ++ l2) → GuardedRW m x l2
  | [], _, h => h
  | _ :: l1, l2, h => GuardedRW_suffix l1 l2 (GuardedRW_tail h)

theorem WFRW_suffix : ∀ (l1 l2 : List RaceRW.Ev), RaceRW.WF (l1 ++ l2) → RaceRW.WF l2
  | [], _, h => h
  | _ :: l1, l2, h => WFRW_suffix l1 l2 (RaceRW.WF_tail h)

/-- In a trace that respects reader/writer exclusion and in which every access to `x` is protected
    by `m`, any two accesses to `x` by different threads of which at least one is a write are
    separated by a release of `m` by the earlier thread and a later acquisition by the later one. -/
theorem guardedRW_trace_ordered (m x t1 t2 : Nat) (w1 w2 : Bool) (hne : t1 ≠ t2)
    (hconf : w1 = true ∨ w2 = true) (later mid earlier : List RaceRW.Ev)
    (hwf : RaceRW.WF (later ++ RaceRW.Ev.acc t2 x w2 :: (mid ++ RaceRW.Ev.acc t1 x w1 :: earlier)))
    (hg : GuardedRW m x (later ++ RaceRW.Ev.acc t2 x w2 :: (mid ++ RaceRW.Ev.acc t1 x w1 :: earlier))) :
    ∃ mid2 e2 mid1 e1 mid0, mid = mid2 ++ e2 :: (mid1 ++ e1 :: mid0) ∧
      RaceRW.IsAcq e2 t2 m ∧ RaceRW.IsRel e1 t1 m := by
  have hwf2 := WFRW_suffix later _ hwf
  have hg2 := GuardedRW_suffix later _ hg
  have h2 : RaceRW.Protected (mid ++ RaceRW.Ev.acc t1 x w1 :: earlier) m t2 w2 :=
    (show (x = x → RaceRW.Protected (mid ++ RaceRW.Ev.acc t1 x w1 :: earlier) m t2 w2) ∧ _ from hg2).1 rfl
  have hg1 := GuardedRW_suffix mid _ (GuardedRW_tail hg2)
  have h1 : RaceRW.Protected earlier m t1 w1 :=
    (show (x = x → RaceRW.Protected earlier m t1 w1) ∧ _ from hg1).1 rfl
  exact RaceRW.rw_guarded_accesses_ordered m x t1 t2 w1 w2 hne hconf earlier mid hwf2 h1 h2

end Spine.LockTables
