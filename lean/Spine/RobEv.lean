import Spine.Rob
/-! C05, event layer: a crash can surface in a *different* layer than the one that parses the message — the handlers of
    the events an arrival publishes (`DeviceLocal.HandleEvent` on the core level, run synchronously inside
    `Events.Publish` on the reader goroutine; application handlers) dereference `payload.Device`, `payload.Entity`,
    `payload.Feature`. This file models, for the detailed-discovery arrivals, which events are published and whether
    these fields are present, on top of the repaired discovery member of `Spine/Rob.lean` (= /repo HEAD), and the
    event-shape table recorded on HEAD for every event an inbound message can publish.

    One flag: `late = false` is the code (pinned commit and HEAD alike): the `Feature` of the device-change event is the
    object the datagram's source address was resolved to *before* the tree update (`message.FeatureRemote`, never nil
    past `ProcessCmd`). `late = true` resolves it again *after* the update — nil as soon as the reply does not announce
    the feature it was sent from any more (seeded change C05-r3-2). -/
namespace Spine.Rob

/-- the peer's tree as the event layer needs it: entity address and the ids of its features -/
abbrev Tree := List (List Nat × List Nat)

def Tree.feats (t : Tree) (a : List Nat) : Option (List Nat) := (t.find? (·.1 = a)).map (·.2)

/-- every kind of event an inbound message publishes (`EventType` / `ChangeType`; a data change published by node
    management for use-case data carries no local feature) -/
inductive EvKind
  | deviceAdd | entityAdd | entityRemove | subscriptionAdd | subscriptionRemove | bindingAdd | bindingRemove
  | dataUpdate | dataUpdateNM
deriving DecidableEq, Repr

/-- which of `Device`, `Entity`, `Feature`, `LocalFeature` of an `EventPayload` are non-nil -/
structure Shape where
  device : Bool
  entity : Bool
  feature : Bool
  localFeature : Bool
deriving DecidableEq, Repr

/-- the event-shape table, recorded on /repo HEAD (and compared with every event of every run) -/
def shapeOf : EvKind → Shape
  | .deviceAdd => ⟨true, false, true, false⟩
  | .entityAdd => ⟨true, true, false, false⟩
  | .entityRemove => ⟨true, true, false, false⟩
  | .subscriptionAdd => ⟨true, true, true, true⟩
  | .subscriptionRemove => ⟨true, true, true, true⟩
  | .bindingAdd => ⟨true, true, true, true⟩
  | .bindingRemove => ⟨true, true, true, true⟩
  | .dataUpdate => ⟨true, true, true, true⟩
  | .dataUpdateNM => ⟨true, true, true, false⟩

/-- what the core handler `DeviceLocal.HandleEvent` dereferences: `payload.Feature.Address()`, `payload.Device.Ski()`
    and `.Sender()` of a device-change/add event; nothing of any other event -/
def coreDerefs : EvKind → Shape
  | .deviceAdd => ⟨true, false, true, false⟩
  | _ => ⟨false, false, false, false⟩

/-- what an application handler may dereference: every field the table promises -/
def appDerefs (k : EvKind) : Shape := shapeOf k

structure Ev where
  kind : EvKind
  device : Bool
  entity : Option (List Nat)
  feature : Option (List Nat × Nat)
  localFeature : Bool
deriving DecidableEq, Repr

def Ev.shape (e : Ev) : Shape := ⟨e.device, e.entity.isSome, e.feature.isSome, e.localFeature⟩

def Shape.covers (have_ need : Shape) : Bool :=
  (!need.device || have_.device) && (!need.entity || have_.entity) && (!need.feature || have_.feature) &&
  (!need.localFeature || have_.localFeature)

/-- no handler dereferences a nil field of the event -/
def Ev.safe (e : Ev) : Bool := e.shape.covers (coreDerefs e.kind) && e.shape.covers (appDerefs e.kind)

/-- the ids of the features of entity `l` the payload announces and `unmarshalFeature` accepts (HEAD) -/
def announced (feats : List Feat) (l : List Nat) : List Nat :=
  feats.filterMap fun f =>
    if f.description && f.featureAddress && f.entity = some l && f.ftype.isSome && f.role then f.feature else none

def setFeats (t : Tree) (l : List Nat) (fs : List Nat) : Tree := t.map fun e => if e.1 = l then (l, fs) else e

/-- one iteration of `AddEntityAndFeatures` on HEAD: `none` = returns an error; otherwise the tree and the entities
    added so far -/
def applyEnt (initial : Bool) (feats : List Feat) (acc : Tree × List (List Nat)) (e : Ent) :
    Option (Tree × List (List Nat)) :=
  match checkEnt DCfg.repaired initial e with
  | none => none
  | some l =>
    match acc.1.feats l with
    | some old =>
      if l = [0] && old.contains 0 && !(announced feats l).contains 0 then some acc
      else some (setFeats acc.1 l (announced feats l), acc.2)
    | none => if !e.etype then none else some (acc.1 ++ [(l, announced feats l)], acc.2 ++ [l])

def applyAll (initial : Bool) (feats : List Feat) : List Ent → Tree × List (List Nat) → Option (Tree × List (List Nat))
  | [], acc => some acc
  | e :: rest, acc => match applyEnt initial feats acc e with
    | none => none
    | some acc' => applyAll initial feats rest acc'

/-- the `Feature` of the device-change event -/
def resolve (late : Bool) (t' : Tree) (src : List Nat × Nat) : Option (List Nat × Nat) :=
  if late then (if ((t'.feats src.1).getD []).contains src.2 then some src else none) else some src

def entityAdd (l : List Nat) : Ev := ⟨.entityAdd, true, some l, none, false⟩
def entityRemove (l : List Nat) : Ev := ⟨.entityRemove, true, some l, none, false⟩

/-- the events `processReplyDetailedDiscoveryData` publishes for a reply sent from the (known) feature `src` -/
def replyEvents (late : Bool) (t : Tree) (src : List Nat × Nat) (p : Payload) : List Ev :=
  if !p.deviceInformation || !p.deviceDescription then [] else
  match applyAll true p.feats p.ents (t, []) with
  | none => []
  | some (t', added) => ⟨.deviceAdd, true, none, resolve late t' src, false⟩ :: added.map entityAdd

/-- one entry of a notification (HEAD: each entry on its own, entity `[0]` is never removed): the tree, the events
    published so far, and whether the handler goes on -/
def notifyEnt (feats : List Feat) (acc : Tree × List Ev) (e : Ent) : (Tree × List Ev) × Bool :=
  if !e.description || !e.entityAddress then (acc, false) else
  match e.chg with
  | none => (acc, false)
  | some .added =>
    match applyEnt false feats (acc.1, []) e with
    | none => (acc, false)
    | some (t', added) => ((t', acc.2 ++ added.map entityAdd), true)
  | some .removed =>
    match checkEnt DCfg.repaired false e with
    | none => (acc, false)
    | some l =>
      if l = [0] then (acc, true) else
      match acc.1.feats l with
      | some _ => ((acc.1.filter (·.1 ≠ l), acc.2 ++ [entityRemove l]), true)
      | none => (acc, true)
  | some .other => (acc, true)

def notifyAll (feats : List Feat) : List Ent → Tree × List Ev → Tree × List Ev
  | [], acc => acc
  | e :: rest, acc => match notifyEnt feats acc e with
    | (acc', true) => notifyAll feats rest acc'
    | (acc', false) => acc'

def notifyPartialEvents (t : Tree) (p : Payload) : List Ev := (notifyAll p.feats p.ents (t, [])).2

def notifyFullEvents (t : Tree) (p : Payload) : List Ev :=
  notifyPartialEvents t (fullDiff (t.map (·.1)) p)

/-! ### event-shape totality -/

theorem entityAdd_shape (l : List Nat) : (entityAdd l).shape = shapeOf (entityAdd l).kind := rfl
theorem entityRemove_shape (l : List Nat) : (entityRemove l).shape = shapeOf (entityRemove l).kind := rfl

/-- an event of the table's shape is safe for both handler levels -/
theorem safe_of_shape (e : Ev) (h : e.shape = shapeOf e.kind) : e.safe = true := by
  unfold Ev.safe appDerefs
  rw [h]
  cases e.kind <;> rfl

/-- the code (early resolution): every event of a reply has the shape the table promises, whatever the tree, the
    source feature and the payload -/
theorem replyEvents_shaped (t : Tree) (src : List Nat × Nat) (p : Payload) :
    ∀ e ∈ replyEvents false t src p, e.shape = shapeOf e.kind := by
  intro e he
  unfold replyEvents at he
  split at he
  · simp at he
  · split at he
    · simp at he
    · rename_i t' added _
      rcases List.mem_cons.mp he with rfl | he
      · rfl
      · obtain ⟨l, _, rfl⟩ := List.mem_map.mp he
        rfl

def AllShaped (l : List Ev) : Prop := ∀ e ∈ l, e.shape = shapeOf e.kind

theorem allShaped_append {a b : List Ev} (ha : AllShaped a) (hb : AllShaped b) : AllShaped (a ++ b) := by
  intro e he
  rcases List.mem_append.mp he with h | h
  · exact ha e h
  · exact hb e h

theorem allShaped_adds (added : List (List Nat)) : AllShaped (added.map entityAdd) := by
  intro e he
  obtain ⟨l, _, rfl⟩ := List.mem_map.mp he
  rfl

theorem notifyEnt_shaped (feats : List Feat) (acc : Tree × List Ev) (e : Ent) (h : AllShaped acc.2) :
    AllShaped (notifyEnt feats acc e).1.2 := by
  unfold notifyEnt
  split
  · exact h
  · split
    · exact h
    · split
      · exact h
      · exact allShaped_append h (allShaped_adds _)
    · split
      · exact h
      · split
        · exact h
        · split
          · refine allShaped_append h ?_
            intro x hx
            simp only [List.mem_singleton] at hx
            subst hx; rfl
          · exact h
    · exact h

theorem notifyAll_shaped (feats : List Feat) : ∀ (ents : List Ent) (acc : Tree × List Ev),
    AllShaped acc.2 → AllShaped (notifyAll feats ents acc).2
  | [], acc, h => h
  | e :: rest, acc, h => by
    have hs := notifyEnt_shaped feats acc e h
    unfold notifyAll
    split
    · rename_i acc' heq
      rw [heq] at hs
      exact notifyAll_shaped feats rest acc' hs
    · rename_i acc' heq
      rw [heq] at hs
      exact hs

theorem notifyPartialEvents_shaped (t : Tree) (p : Payload) : AllShaped (notifyPartialEvents t p) :=
  notifyAll_shaped p.feats p.ents (t, []) (by intro e he; simp at he)

theorem notifyFullEvents_shaped (t : Tree) (p : Payload) : AllShaped (notifyFullEvents t p) :=
  notifyPartialEvents_shaped t _

end Spine.Rob
