import Spine.Registry
namespace Spine.Reg

/-! ### C08: subscriptions -/

/-- a subscription request is granted exactly when both features exist with the right roles and type and the
    pair is not subscribed already -/
theorem c08_granted_iff (s : St) (p : Nat) (cEnt : List Nat) (cFeat : Nat) (sEnt : List Nat) (sFeat typ : Nat) :
    (addSub s p cEnt cFeat sEnt sFeat typ).2 = true ↔
      requestOk s p cEnt cFeat sEnt sFeat typ = true ∧ s.subs.any (·.is p cEnt cFeat sEnt sFeat) = false := by
  unfold addSub
  by_cases h1 : requestOk s p cEnt cFeat sEnt sFeat typ = true
  · by_cases h2 : s.subs.any (·.is p cEnt cFeat sEnt sFeat) = true
    · simp [h1, h2]
    · have h2' : s.subs.any (·.is p cEnt cFeat sEnt sFeat) = false := by simpa using h2
      simp [h1, h2']
  · have h1' : requestOk s p cEnt cFeat sEnt sFeat typ = false := by simpa using h1
    simp [h1']

/-- … and then exactly that pair is added, with a fresh id; otherwise the registry is unchanged -/
theorem c08_add_effect (s : St) (p : Nat) (cEnt : List Nat) (cFeat : Nat) (sEnt : List Nat) (sFeat typ : Nat) :
    (addSub s p cEnt cFeat sEnt sFeat typ).1.subs =
      if (addSub s p cEnt cFeat sEnt sFeat typ).2 then s.subs ++ [⟨s.subNum + 1, sEnt, sFeat, p, cEnt, cFeat⟩]
      else s.subs := by
  unfold addSub
  by_cases h1 : requestOk s p cEnt cFeat sEnt sFeat typ = true
  · by_cases h2 : s.subs.any (·.is p cEnt cFeat sEnt sFeat) = true
    · simp [h1, h2]
    · have h2' : s.subs.any (·.is p cEnt cFeat sEnt sFeat) = false := by simpa using h2
      simp [h1, h2']
  · have h1' : requestOk s p cEnt cFeat sEnt sFeat typ = false := by simpa using h1
    simp [h1']

theorem target_clean (p cDev : Nat) :
    target false p cDev = if (cDev = 0 || cDev = p) = true then some p else none := by
  unfold target
  by_cases hd : (cDev = 0 || cDev = p) = true <;> simp [hd]

theorem clean_delSub : Cfg.clean.delSubByDevice = false := rfl
theorem clean_delBind : Cfg.clean.delBindByDevice = false := rfl
theorem clean_disjunct : Cfg.clean.unbindDisjunct = false := rfl
theorem clean_dropAny : Cfg.clean.dropBindsAnyPeer = false := rfl

/-- repaired code: a delete request removes exactly the addressed pair of the requesting peer, or nothing -/
theorem c08_delete_exact (s : St) (p cDev : Nat) (cEnt : List Nat) (cFeat : Nat) (sEnt : List Nat) (sFeat : Nat) :
    (delSub Cfg.clean s p cDev cEnt cFeat sEnt sFeat).1.subs = s.subs ∨
    (delSub Cfg.clean s p cDev cEnt cFeat sEnt sFeat).1.subs = s.subs.filter (fun e => !e.is p cEnt cFeat sEnt sFeat) := by
  unfold delSub
  rw [clean_delSub, target_clean]
  split
  · by_cases hd : (cDev = 0 || cDev = p) = true
    · rw [if_pos hd]
      dsimp only
      split
      · exact Or.inl rfl
      · exact Or.inr rfl
    · rw [if_neg hd]
      exact Or.inl rfl
  · exact Or.inl rfl

/-- repaired code: whatever peer `p` asks to delete, every other peer's subscriptions stay as they are -/
theorem c08_delete_other_peers (s : St) (p q cDev : Nat) (hq : q ≠ p) (cEnt : List Nat) (cFeat : Nat)
    (sEnt : List Nat) (sFeat : Nat) :
    (delSub Cfg.clean s p cDev cEnt cFeat sEnt sFeat).1.subs.filter (·.peer = q) = s.subs.filter (·.peer = q) := by
  rcases c08_delete_exact s p cDev cEnt cFeat sEnt sFeat with h | h
  · rw [h]
  · rw [h, List.filter_filter]
    apply List.filter_congr
    intro e _
    by_cases he : e.peer = q
    · have : e.peer ≠ p := fun h' => hq (he ▸ h')
      simp [Entry.is, he, this, hq]
    · simp [he]

/-- the code as written: peer 2 deletes peer 1's subscription by naming peer 1's device address -/
theorem c08_delete_by_device_refutes :
    let fs : List Feat := [⟨[1], 1, 1, .client⟩]
    let s : St := { loc := [⟨[1], 1, 1, .server⟩], rem := fun _ => fs, subs := [⟨1, [1], 1, 1, [1], 1⟩] }
    (delSub {} s 2 1 [1] 1 [1] 1).1.subs.filter (·.peer = 1) ≠ s.subs.filter (·.peer = 1) := by decide

/-! ### C09: bindings -/

def onServer (s : St) (sEnt : List Nat) (sFeat : Nat) : List Entry :=
  s.binds.filter fun e => e.sEnt = sEnt && e.sFeat = sFeat

def AtMostOne (s : St) : Prop := ∀ sEnt sFeat, (onServer s sEnt sFeat).length ≤ 1

theorem atMostOne_filter (s : St) (h : AtMostOne s) (f : Entry → Bool) (s' : St) (hb : s'.binds = s.binds.filter f) :
    AtMostOne s' := by
  intro sEnt sFeat
  have := h sEnt sFeat
  simp only [onServer, hb] at this ⊢
  exact Nat.le_trans (List.Sublist.filter _ List.filter_sublist).length_le this

theorem addBind_atMostOne (s : St) (h : AtMostOne s) (p : Nat) (cEnt : List Nat) (cFeat : Nat) (sEnt : List Nat)
    (sFeat typ : Nat) : AtMostOne (addBind s p cEnt cFeat sEnt sFeat typ).1 := by
  unfold addBind
  split
  · exact h
  · split
    · exact h
    · rename_i hnone
      intro sE sF
      simp only [onServer, List.filter_append, List.length_append]
      have hprev := h sE sF
      simp only [onServer] at hprev
      by_cases hs : sEnt = sE ∧ sFeat = sF
      · obtain ⟨rfl, rfl⟩ := hs
        have hz : (s.binds.filter fun e => decide (e.sEnt = sEnt) && decide (e.sFeat = sFeat)).length = 0 := by
          have hn : s.binds.any (fun e => decide (e.sEnt = sEnt) && decide (e.sFeat = sFeat)) = false := by simpa using hnone
          rw [List.length_eq_zero_iff, List.filter_eq_nil_iff]
          intro e he
          have := List.any_eq_false.mp hn e he
          simpa using this
        simp [hz]
      · have : (decide (sEnt = sE) && decide (sFeat = sF)) = false := by
          simp only [Bool.and_eq_false_imp, decide_eq_true_eq, decide_eq_false_iff_not]
          intro h1 h2; exact hs ⟨h1, h2⟩
        simp [this]; exact hprev

theorem delBind_atMostOne (c : Cfg) (s : St) (h : AtMostOne s) (p cDev : Nat) (cEnt : List Nat) (cFeat : Nat)
    (sEnt : List Nat) (sFeat : Nat) : AtMostOne (delBind c s p cDev cEnt cFeat sEnt sFeat).1 := by
  unfold delBind
  dsimp only
  repeat' split
  all_goals first | exact h | exact atMostOne_filter s h _ _ rfl

theorem removePeer_atMostOne (c : Cfg) (s : St) (h : AtMostOne s) (p : Nat) : AtMostOne (removePeer c s p) :=
  atMostOne_filter s h _ _ rfl

theorem dropEntity_atMostOne (c : Cfg) (s : St) (h : AtMostOne s) (p : Nat) (ent : List Nat) :
    AtMostOne (dropEntity c s p ent) := by
  unfold dropEntity
  split
  · exact h
  · exact atMostOne_filter s h _ _ rfl

theorem removeEntity_atMostOne (c : Cfg) (s : St) (h : AtMostOne s) (p : Nat) (ent : List Nat) :
    AtMostOne (removeEntity c s p ent) := by
  unfold removeEntity
  split
  · exact h
  · split
    · intro a b
      exact dropEntity_atMostOne c s h p ent a b
    · split
      · exact atMostOne_filter s h _ _ rfl
      · exact h

theorem binds_sub (s : St) (p : Nat) (ce : List Nat) (cf : Nat) (se : List Nat) (sf t : Nat) :
    (addSub s p ce cf se sf t).1.binds = s.binds := by
  unfold addSub; repeat' split
  all_goals rfl

theorem binds_unsub (c : Cfg) (s : St) (p cd : Nat) (ce : List Nat) (cf : Nat) (se : List Nat) (sf : Nat) :
    (delSub c s p cd ce cf se sf).1.binds = s.binds := by
  unfold delSub
  repeat' split
  all_goals first | rfl | (dsimp only; split <;> rfl)

/-- C09 (sequential histories, any member of the family): at no time does a local server feature have more than
    one binding -/
theorem c09_at_most_one (c : Cfg) (loc : List Feat) (rem : Nat → List Feat) (ops : List Op) :
    AtMostOne (ops.foldl (step c) { loc := loc, rem := rem }) := by
  suffices ∀ s, AtMostOne s → AtMostOne (ops.foldl (step c) s) from
    this _ (by intro a b; simp [onServer])
  induction ops with
  | nil => intro s h; exact h
  | cons op ops ih =>
    intro s h
    apply ih
    cases op with
    | bind p ce cf se sf t => exact addBind_atMostOne s h p ce cf se sf t
    | unbind p cd ce cf se sf => exact delBind_atMostOne c s h p cd ce cf se sf
    | sub p ce cf se sf t =>
      intro a b; have := h a b; simp only [step, onServer, binds_sub] at this ⊢; exact this
    | unsub p cd ce cf se sf =>
      intro a b; have := h a b; simp only [step, onServer, binds_unsub] at this ⊢; exact this
    | drop p => exact removePeer_atMostOne c s h p
    | dropEnt p ent => exact removeEntity_atMostOne c s h p ent
    | bareEnt p ent => intro a b; exact h a b
    | subsPass p ent => intro a b; exact h a b
    | bindsPass p ent => exact atMostOne_filter s h _ _ rfl

theorem unbindKeep_clean (p cDev : Nat) (cEnt : List Nat) (cFeat : Nat) (sEnt : List Nat) (sFeat : Nat) (e : Entry) :
    unbindKeep Cfg.clean p cDev cEnt cFeat sEnt sFeat e =
      if (cDev = 0 || cDev = p) = true then !e.is p cEnt cFeat sEnt sFeat else true := by
  unfold unbindKeep
  rw [clean_disjunct, clean_delBind, target_clean]
  by_cases hd : (cDev = 0 || cDev = p) = true <;> simp [hd]

/-- repaired code: a binding delete removes exactly the addressed binding of the requesting peer, or nothing -/
theorem c09_delete_exact (s : St) (p cDev : Nat) (cEnt : List Nat) (cFeat : Nat) (sEnt : List Nat) (sFeat : Nat) :
    (delBind Cfg.clean s p cDev cEnt cFeat sEnt sFeat).1.binds = s.binds ∨
    (delBind Cfg.clean s p cDev cEnt cFeat sEnt sFeat).1.binds =
      s.binds.filter (fun e => !e.is p cEnt cFeat sEnt sFeat) := by
  unfold delBind
  split
  · split
    · exact Or.inl rfl
    · split
      · exact Or.inl rfl
      · dsimp only
        split
        · exact Or.inl rfl
        · rename_i hne
          by_cases hd : (cDev = 0 || cDev = p) = true
          · right
            apply List.filter_congr
            intro e _
            rw [unbindKeep_clean, if_pos hd]
          · exfalso
            apply hne
            congr 1
            rw [List.filter_eq_self]
            intro e _
            rw [unbindKeep_clean, if_neg hd]
  · exact Or.inl rfl

/-- the code as written: deleting one binding of a client deletes its other binding too -/
theorem c09_unbind_disjunct_refutes :
    let fs : List Feat := [⟨[1], 3, 0, .client⟩]
    let s : St := { loc := [⟨[1], 1, 1, .server⟩, ⟨[1], 2, 2, .server⟩], rem := fun _ => fs,
                    binds := [⟨1, [1], 1, 1, [1], 3⟩, ⟨2, [1], 2, 1, [1], 3⟩] }
    (delBind {} s 1 0 [1] 3 [1] 1).1.binds = [] := by decide

/-! ### C10: teardown of a peer -/

/-- every entry's client entity belongs to the tree its peer announced -/
def Sane (s : St) : Prop :=
  (∀ e ∈ s.subs, (knownEnts s e.peer).contains e.cEnt = true) ∧
  (∀ e ∈ s.binds, (knownEnts s e.peer).contains e.cEnt = true)

/-- repaired code: dropping a peer removes all and only that peer's entries -/
theorem c10_drop_exact (s : St) (hs : Sane s) (p : Nat) :
    (removePeer Cfg.clean s p).subs = s.subs.filter (·.peer ≠ p) ∧
    (removePeer Cfg.clean s p).binds = s.binds.filter (·.peer ≠ p) := by
  constructor
  · simp only [removePeer]
    apply List.filter_congr
    intro e he
    by_cases hp : e.peer = p
    · have := hs.1 e he; rw [hp] at this
      rw [this]
      simp [hp]
    · simp [hp]
  · simp only [removePeer, Cfg.clean, Bool.false_or]
    apply List.filter_congr
    intro e he
    by_cases hp : e.peer = p
    · have := hs.2 e he; rw [hp] at this
      rw [this]
      simp [hp]
    · simp [hp]

/-- the code as written: dropping peer 1 deletes peer 2's binding because both use entity [1] -/
theorem c10_drop_any_peer_refutes :
    let fs : List Feat := [⟨[1], 1, 1, .client⟩]
    let s : St := { loc := [⟨[1], 1, 1, .server⟩], rem := fun _ => fs, binds := [⟨1, [1], 1, 2, [1], 1⟩] }
    (removePeer {} s 1).binds = [] := by decide

end Spine.Reg
