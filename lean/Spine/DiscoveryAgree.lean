import Spine.DiscoveryGuardThm
import Spine.RobEv
import Spine.Dispatch
import Spine.Teardown
import Spine.DiscoveryCascadeReg
/-! Agreement of the C06 tree model (`Spine.Disc`, member of the repaired tree `Cfg.clean`) with the small copies of
    "what a discovery message does to the set of known entities / features" that other models carry:
    * the C05 event layer `Spine.Rob` (`RobEv.lean`: `replyEvents`, `notifyPartialEvents`, `notifyFullEvents`,
      trees of (entity, feature ids));
    * the dispatch world `Spine.Disp` (`Dispatch.lean`: ops `full`, `entAdd`, `entRem`; a flat list of remote features);
    * teardown `Spine.Td` / registry `Spine.Reg` (`dropEntity`).
    All of them are read here, none is changed. Lemma module: nothing a driver imports. -/
namespace Spine.Disc

/-! ## 1. the C05 event layer -/

/-- the tree as the event layer sees it: entity address and the ids of its features -/
def absR (t : Tree) : Rob.Tree := t.map fun e => (e.addr, e.feats.map (·.id))

def toRobChg : Chg → Option Rob.Chg
  | .none => none
  | .added => some .added
  | .removed => some .removed

/-- an entity element of this model as an element of the event layer: description and address always present, the
    address possibly empty, no device mismatch -/
def toRobEnt (e : EW) : Rob.Ent := ⟨true, true, some e.addr, e.typ.isSome, toRobChg e.chg, false⟩

/-- an (unmarshalled, hence complete) feature of this model as a feature element of the event layer -/
def toRobFeat (f : F) : Rob.Feat := ⟨true, true, some f.ent, some f.id, some .known, true, []⟩

def toPayload (m : MsgG) : Rob.Payload := ⟨true, true, m.ents.map toRobEnt, m.feats.map toRobFeat⟩

def toRobEv : Evt → Rob.Ev
  | .add a => Rob.entityAdd a
  | .rem a => Rob.entityRemove a

theorem announced_toRob (l : List Nat) : ∀ (feats : List F),
    Rob.announced (feats.map toRobFeat) l = (feats.filter (·.ent = l)).map (·.id)
  | [] => rfl
  | f :: feats => by
    have ih := announced_toRob l feats
    unfold Rob.announced at ih ⊢
    rw [List.map_cons, List.filterMap_cons, ih, List.filter_cons]
    by_cases h : f.ent = l
    · simp [toRobFeat, h]
    · have : ¬ (some f.ent = some l) := fun h' => h (Option.some.inj h')
      simp [toRobFeat, h]

theorem feats_absR (t : Tree) (l : List Nat) :
    Rob.Tree.feats (absR t) l = (findE t l).map fun e => e.feats.map (·.id) := by
  unfold Rob.Tree.feats absR findE
  rw [List.find?_map]
  cases h : List.find? ((fun x : List Nat × List Nat => decide (x.1 = l)) ∘ fun e : E => (e.addr, e.feats.map (·.id))) t with
  | none =>
    have : List.find? (fun x : E => decide (x.addr = l)) t = none := by
      rw [← h]; rfl
    rw [this]; rfl
  | some e =>
    have : List.find? (fun x : E => decide (x.addr = l)) t = some e := by
      rw [← h]; rfl
    rw [this]; rfl

theorem contains_ids (fs : List F) : (fs.map (·.id)).contains 0 = hasNM fs := by
  rw [Bool.eq_iff_iff]
  simp [hasNM]

theorem absR_append (t : Tree) (e : E) : absR (t ++ [e]) = absR t ++ [(e.addr, e.feats.map (·.id))] := by
  simp [absR]

theorem absR_refresh (t : Tree) (l : List Nat) (d : Option Nat) (fs : List F) :
    absR (t.map fun e => if e.addr = l then { e with desc := d, feats := fs } else e)
      = Rob.setFeats (absR t) l (fs.map (·.id)) := by
  unfold absR Rob.setFeats
  rw [List.map_map, List.map_map]
  apply List.map_congr_left
  intro e _
  simp only [Function.comp]
  by_cases h : e.addr = l <;> simp [h]

theorem absR_remove (t : Tree) (l : List Nat) :
    absR (t.filter (·.addr ≠ l)) = (absR t).filter (·.1 ≠ l) := by
  unfold absR
  rw [List.filter_map]
  rfl

/-- the events `addOneG` appends: one entity-added event iff the address was unknown -/
theorem addOneG_evs (c : Cfg) (feats : List F) (t : Tree) (evs : List Evt) (ei : EI) :
    (addOneG c feats (t, evs) ei).2 = evs ++ (if (findE t ei.addr).isNone then [.add ei.addr] else []) := by
  unfold addOneG
  split
  · rename_i hs
    -- skipped: [0] is known
    have hk : storedNM t = true := by
      simp only [refreshSkipped, Bool.and_eq_true] at hs
      exact hs.1.2
    have h0 : ei.addr = [0] := by
      simp only [refreshSkipped, Bool.and_eq_true, decide_eq_true_eq] at hs
      exact hs.1.1.2
    unfold storedNM at hk
    rw [h0]
    cases hf : findE t [0] with
    | none => rw [hf] at hk; exact absurd hk (by decide)
    | some _ => simp
  · simp only [addOne]
    cases hf : findE t ei.addr <;> simp

theorem checkEnt_toRob (ini : Bool) (e : EW) :
    Rob.checkEnt Rob.DCfg.repaired ini (toRobEnt e) = if e.addr = [] then none else some e.addr := by
  unfold Rob.checkEnt
  by_cases hne : e.addr = []
  · simp [toRobEnt, Rob.DCfg.repaired, hne]
  · have hemp : e.addr.isEmpty = false := by cases h : e.addr with | nil => exact absurd h hne | cons _ _ => rfl
    simp [toRobEnt, Rob.DCfg.repaired, hne, hemp]

theorem refreshSkipped_toRob (feats : List F) (t : Tree) (e : EW) (e0 : E) (hf : findE t e.addr = some e0) :
    refreshSkipped Cfg.clean feats t e.toEI
      = (decide (e.addr = [0]) && (e0.feats.map (·.id)).contains 0 &&
          !(Rob.announced (feats.map toRobFeat) e.addr).contains 0) := by
  by_cases h0 : e.addr = [0]
  · have hs : storedNM t = hasNM e0.feats := by
      unfold storedNM; rw [← h0, hf]
    rw [contains_ids, announced_toRob, contains_ids]
    simp [refreshSkipped, Cfg.clean, EW.toEI, h0, hs]
  · simp [refreshSkipped, EW.toEI, h0]

/-- one iteration of `AddEntityAndFeatures`: the event layer's `applyEnt` is this model's `addRejected` / `addOneG` -/
theorem applyEnt_agree (ini : Bool) (feats : List F) (t : Tree) (evs : List Evt) (adds : List (List Nat)) (e : EW) :
    Rob.applyEnt ini (feats.map toRobFeat) (absR t, adds) (toRobEnt e) =
      if addRejected t e then none
      else some (absR (addOneG Cfg.clean feats (t, evs) e.toEI).1,
                 adds ++ (if (findE t e.addr).isNone then [e.addr] else [])) := by
  unfold Rob.applyEnt
  rw [checkEnt_toRob]
  by_cases hne : e.addr = []
  · simp [hne, addRejected]
  · simp only [hne, if_false, feats_absR]
    cases hf : findE t e.addr with
    | some e0 =>
      have hrej : addRejected t e = false := by simp [addRejected, hne, hf]
      rw [hrej]
      simp only [Option.map_some, Bool.false_eq_true, if_false, Option.isNone_some, List.append_nil]
      rw [← refreshSkipped_toRob feats t e e0 hf]
      unfold addOneG
      split
      · rfl
      · have := absR_refresh t e.addr e.desc (feats.filter (·.ent = e.addr))
        simp only [addOne, EW.toEI, hf, announced_toRob]
        exact congrArg (fun x => some (x, adds)) this.symm
    | none =>
      have hsk : refreshSkipped Cfg.clean feats t e.toEI = false := by
        by_cases h0 : e.addr = [0]
        · have : storedNM t = false := by unfold storedNM; rw [← h0, hf]
          simp [refreshSkipped, this]
        · simp [refreshSkipped, EW.toEI, h0]
      cases ht : e.typ with
      | none => simp [addRejected, hne, hf, ht, toRobEnt]
      | some ty =>
        have hrej : addRejected t e = false := by simp [addRejected, hne, hf, ht]
        rw [hrej]
        simp only [Option.map_none, toRobEnt, ht, Option.isSome_some, Bool.not_true, Bool.false_eq_true, if_false,
          Option.isNone_none, if_true]
        unfold addOneG
        rw [hsk]
        simp only [Bool.false_eq_true, if_false, addOne, EW.toEI, hf, announced_toRob, ht, Option.getD_some]
        rw [absR_append]

theorem remOneG_evs (t : Tree) (evs : List Evt) (ei : EI) :
    (remOneG Cfg.clean (t, evs) ei).2 = evs ++ (if ei.addr ≠ [0] ∧ (findE t ei.addr).isSome then [.rem ei.addr] else []) := by
  unfold remOneG
  by_cases h0 : ei.addr = [0]
  · simp [removalSkipped, Cfg.clean, h0]
  · simp only [removalSkipped, Cfg.clean, h0, decide_false, Bool.and_false, Bool.false_eq_true, if_false, remOne]
    cases hf : findE t ei.addr <;> simp [h0]

/-- one notification entry: the event layer's `notifyEnt` is this model's `entryG` -/
theorem notifyEnt_agree (feats : List F) (t : Tree) (evs : List Evt) (e : EW) :
    Rob.notifyEnt (feats.map toRobFeat) (absR t, evs.map toRobEv) (toRobEnt e) =
      match entryG Cfg.clean feats (t, evs) e with
      | none => ((absR t, evs.map toRobEv), false)
      | some acc' => ((absR acc'.1, acc'.2.map toRobEv), true) := by
  unfold Rob.notifyEnt entryG
  cases hc : e.chg with
  | none => simp [toRobEnt, toRobChg, hc]
  | added =>
    simp only [toRobEnt, toRobChg, hc, Bool.not_true, Bool.or_self, Bool.false_eq_true, if_false]
    have := applyEnt_agree false feats t evs [] e
    simp only [toRobEnt, hc, toRobChg] at this
    rw [this]
    by_cases hr : addRejected t e = true
    · simp [hr]
    · have hr' : addRejected t e = false := by simpa using hr
      simp only [hr', Bool.false_eq_true, if_false, List.nil_append]
      rw [addOneG_evs]
      cases hf : findE t e.addr <;> simp [EW.toEI, hf, toRobEv]
  | removed =>
    simp only [toRobEnt, toRobChg, hc, Bool.not_true, Bool.or_self, Bool.false_eq_true, if_false]
    have hck := checkEnt_toRob false e
    simp only [toRobEnt, hc, toRobChg] at hck
    rw [hck]
    by_cases hne : e.addr = []
    · simp [hne]
    · simp only [hne, if_false, decide_false]
      by_cases h0 : e.addr = [0]
      · simp [h0, remOneG, removalSkipped, Cfg.clean, EW.toEI]
      · simp only [h0, if_false, feats_absR]
        have hrem : remOneG Cfg.clean (t, evs) e.toEI = remOne (t, evs) e.toEI := by
          simp [remOneG, removalSkipped, EW.toEI, h0]
        rw [hrem]
        cases hf : findE t e.addr with
        | none => simp [remOne, EW.toEI, hf]
        | some e0 =>
          simp only [Option.map_some, remOne, EW.toEI, hf, List.map_append, List.map_cons, List.map_nil, toRobEv]
          have := absR_remove t e.addr
          exact congrArg (fun x => ((x, List.map toRobEv evs ++ [Rob.entityRemove e.addr]), true)) this.symm

/-- the loop over the entries: same tree (through `absR`), same events, same stopping point -/
theorem notifyAll_agree (feats : List F) : ∀ (ents : List EW) (t : Tree) (evs : List Evt),
    Rob.notifyAll (feats.map toRobFeat) (ents.map toRobEnt) (absR t, evs.map toRobEv) =
      (absR (runG (entryG Cfg.clean feats) ents (t, evs)).1.1,
        (runG (entryG Cfg.clean feats) ents (t, evs)).1.2.map toRobEv)
  | [], _, _ => rfl
  | e :: ents, t, evs => by
    rw [List.map_cons, Rob.notifyAll, notifyEnt_agree, runG]
    cases h : entryG Cfg.clean feats (t, evs) e with
    | none => rfl
    | some acc' => exact notifyAll_agree feats ents acc'.1 acc'.2

/-- PARTIAL NOTIFICATION: the events the C05 event layer publishes are the events of this model (kind, entity), and
    the trees agree, for every tree and every message this model can express — entries with an empty address, without
    entity type or without state change, entries about [0] included -/
theorem robEv_partial_agrees (m : MsgG) (t : Tree) :
    Rob.notifyPartialEvents (absR t) (toPayload m) = (notifyG Cfg.clean m t).2.1.map toRobEv ∧
    (Rob.notifyAll (toPayload m).feats (toPayload m).ents (absR t, [])).1 = absR (notifyG Cfg.clean m t).1 := by
  unfold Rob.notifyPartialEvents
  have := notifyAll_agree m.feats m.ents t []
  simp only [List.map_nil] at this
  simp only [toPayload, this, notifyG]
  cases h : m.ents with
  | nil => simp [runG]
  | cons _ _ => simp

/-! ### full notification and reply -/

theorem absR_addrs (t : Tree) : (absR t).map (·.1) = addrs t := by
  simp [absR, addrs]

theorem findE_isSome_contains (t : Tree) (a : List Nat) : (findE t a).isSome = (addrs t).contains a := by
  rw [Bool.eq_iff_iff, findE_isSome_iff]
  simp

theorem findE_isNone_contains (t : Tree) (a : List Nat) : (findE t a).isNone = !(addrs t).contains a := by
  rw [← findE_isSome_contains]
  cases findE t a <;> rfl

/-- the diff of a full notification is the same message in both models -/
theorem fullDiff_agree (m : MsgG) (t : Tree) :
    Rob.fullDiff ((absR t).map (·.1)) (toPayload m) = toPayload (fullDiffG m t) := by
  rw [absR_addrs]
  unfold Rob.fullDiff fullDiffG toPayload
  simp only [List.filter_map, List.map_map, List.map_append, List.filter_filter]
  congr 1
  · congr 1
    · -- added entries
      congr 1
      · apply List.filter_congr
        intro e _
        simp [toRobEnt, Rob.isKnown, findE_isNone_contains]
    · -- removed entries, synthesised from the tree
      simp only [addrs, List.filter_map, List.map_map]
      congr 1
      apply List.filter_congr
      intro x _
      simp only [Function.comp, toRobEnt, Bool.and_self, Rob.isKnown, Rob.norm, Option.getD_some, Bool.true_and]
      congr 2
      congr 1
      apply List.filter_congr
      intro e _
      simp [findE_isSome_contains, addrs]
  · -- features of added entities
    congr 1
    apply List.filter_congr
    intro f _
    simp only [Function.comp, toRobFeat, Bool.and_self, Bool.true_and, toRobEnt, Rob.norm, Option.getD_some, Rob.isKnown]
    congr 2
    congr 1
    funext e
    simp [findE_isNone_contains]

/-- FULL NOTIFICATION: same events, same tree -/
theorem robEv_full_agrees (m : MsgG) (t : Tree) :
    Rob.notifyFullEvents (absR t) (toPayload m) = (notifyFullG Cfg.clean m t).2.1.map toRobEv := by
  unfold Rob.notifyFullEvents notifyFullG
  rw [fullDiff_agree]
  exact (robEv_partial_agrees (fullDiffG m t) t).1

/-- the entities a list of events reports as added -/
def addedOf : List Evt → List (List Nat)
  | [] => []
  | .add a :: l => a :: addedOf l
  | .rem _ :: l => addedOf l

theorem addedOf_append (a b : List Evt) : addedOf (a ++ b) = addedOf a ++ addedOf b := by
  induction a with
  | nil => rfl
  | cons x a ih => cases x <;> simp [addedOf, ih]

theorem applyAll_agree (feats : List F) : ∀ (ents : List EW) (t : Tree) (evs : List Evt),
    Rob.applyAll true (feats.map toRobFeat) (ents.map toRobEnt) (absR t, addedOf evs) =
      if (runG (replyEntryG Cfg.clean feats) ents (t, evs)).2
      then some (absR (runG (replyEntryG Cfg.clean feats) ents (t, evs)).1.1,
                 addedOf (runG (replyEntryG Cfg.clean feats) ents (t, evs)).1.2)
      else none
  | [], _, _ => rfl
  | e :: ents, t, evs => by
    rw [List.map_cons, Rob.applyAll, applyEnt_agree true feats t evs, runG]
    unfold replyEntryG
    by_cases hr : addRejected t e = true
    · simp [hr]
    · have hr' : addRejected t e = false := by simpa using hr
      simp only [hr', Bool.false_eq_true, if_false]
      have hadds : addedOf evs ++ (if (findE t e.addr).isNone then [e.addr] else [])
          = addedOf (addOneG Cfg.clean feats (t, evs) e.toEI).2 := by
        rw [addOneG_evs, addedOf_append]
        cases hf : findE t e.addr <;> simp [EW.toEI, hf, addedOf]
      rw [hadds]
      exact applyAll_agree feats ents _ _

/-- REPLY: the event layer publishes the device event followed by one entity-added event per entity this model reports
    as added — and nothing when an entry is rejected (this model's `replyG` then reports no event either) -/
theorem robEv_reply_agrees (m : MsgG) (t : Tree) (src : List Nat × Nat) :
    Rob.replyEvents false (absR t) src (toPayload m) =
      if (runG (replyEntryG Cfg.clean m.feats) m.ents (t, [])).2
      then ⟨.deviceAdd, true, none, some src, false⟩ :: (addedOf (replyG Cfg.clean m t).2).map Rob.entityAdd
      else [] := by
  unfold Rob.replyEvents
  have := applyAll_agree m.feats m.ents t []
  simp only [addedOf] at this
  simp only [toPayload, Bool.not_true, Bool.or_self, Bool.false_eq_true, if_false, this, replyG, Rob.resolve]
  cases h : (runG (replyEntryG Cfg.clean m.feats) m.ents (t, [])).2 <;> simp

/-- … and the events of a reply are entity-added events only, so `addedOf` loses nothing -/
theorem addOneG_onlyAdds (c : Cfg) (feats : List F) (acc : Tree × List Evt) (ei : EI)
    (h : acc.2.map toRobEv = (addedOf acc.2).map Rob.entityAdd) :
    (addOneG c feats acc ei).2.map toRobEv = (addedOf (addOneG c feats acc ei).2).map Rob.entityAdd := by
  obtain ⟨t, evs⟩ := acc
  rw [addOneG_evs, List.map_append, addedOf_append, List.map_append, h]
  cases findE t ei.addr <;> simp [addedOf, toRobEv]

theorem runReply_onlyAdds (c : Cfg) (feats : List F) : ∀ (ents : List EW) (acc : Tree × List Evt),
    acc.2.map toRobEv = (addedOf acc.2).map Rob.entityAdd →
    (runG (replyEntryG c feats) ents acc).1.2.map toRobEv
      = (addedOf (runG (replyEntryG c feats) ents acc).1.2).map Rob.entityAdd
  | [], _, h => h
  | e :: ents, acc, h => by
    rw [runG]
    cases hb : replyEntryG c feats acc e with
    | none => exact h
    | some acc' =>
      have : acc' = addOneG c feats acc e.toEI := by
        unfold replyEntryG at hb
        split at hb
        · exact absurd hb (by simp)
        · injection hb with hb; exact hb.symm
      subst this
      exact runReply_onlyAdds c feats ents _ (addOneG_onlyAdds c feats acc e.toEI h)

theorem replyG_onlyAdds (m : MsgG) (t : Tree) :
    (replyG Cfg.clean m t).2.map toRobEv = (addedOf (replyG Cfg.clean m t).2).map Rob.entityAdd := by
  unfold replyG
  simp only
  split
  · exact runReply_onlyAdds Cfg.clean m.feats m.ents (t, []) rfl
  · rfl

/-! ## 2. events of a full notification of the repaired tree (needed to compare cascades) -/

theorem appearances_append (a : List Nat) : ∀ (l1 l2 : List EI) (b : Bool),
    appearances a b (l1 ++ l2) =
      ((appearances a b l1).1 + (appearances a (l1.foldl (applyTo a) b) l2).1,
       (appearances a b l1).2 + (appearances a (l1.foldl (applyTo a) b) l2).2)
  | [], l2, b => by simp [appearances]
  | ei :: l1, l2, b => by
    simp only [List.cons_append, appearances, List.foldl_cons, appearances_append a l1 l2]
    apply Prod.ext <;> simp only [] <;> omega

theorem appearances_added_rem (a : List Nat) : ∀ (l : List EI) (b : Bool), (∀ ei ∈ l, ei.chg = .added) →
    (appearances a b l).2 = 0
  | [], _, _ => rfl
  | ei :: l, b, h => by
    have h1 : ei.chg = .added := h ei (List.mem_cons_self ..)
    simp only [appearances, appearances_added_rem a l _ (fun x hx => h x (List.mem_cons_of_mem _ hx))]
    by_cases ha : ei.addr = a <;> cases b <;> simp [applyTo, ha, h1]

theorem appearances_removed_rem (a : List Nat) : ∀ (l : List EI) (b : Bool), (∀ ei ∈ l, ei.chg = .removed) →
    (appearances a b l).2 = if b = true ∧ a ∈ l.map (·.addr) then 1 else 0
  | [], b, _ => by simp [appearances]
  | ei :: l, b, h => by
    have h1 : ei.chg = .removed := h ei (List.mem_cons_self ..)
    simp only [appearances, appearances_removed_rem a l _ (fun x hx => h x (List.mem_cons_of_mem _ hx))]
    by_cases ha : ei.addr = a
    · subst ha; cases b <;> simp [applyTo, h1]
    · have : ¬ a = ei.addr := fun h' => ha h'.symm
      cases b <;> simp [applyTo, ha, this]

def diffAdded (M : Msg) (t : Tree) : List EI :=
  (M.ents.filter fun ei => (findE t ei.addr).isNone).map fun ei => { ei with chg := Chg.added }

def diffRemoved (M : Msg) (t : Tree) : List EI :=
  (t.filter fun e => !((M.ents.filter fun ei => (findE t ei.addr).isSome).map (·.addr)).contains e.addr).map
    fun e => ({ addr := e.addr, typ := e.typ, chg := .removed, desc := none } : EI)

theorem fullDiff_ents (M : Msg) (t : Tree) : (fullDiff M t).ents = diffAdded M t ++ diffRemoved M t := rfl

theorem mem_diffRemoved (M : Msg) (t : Tree) (a : List Nat) :
    a ∈ (diffRemoved M t).map (·.addr) ↔ a ∈ addrs t ∧ a ∉ M.ents.map (·.addr) := mem_removedPart M t a

/-- events of a full notification of the repaired tree: an entity-removed event for `a` iff `a` was known, is not
    listed and is not the device-information entity -/
theorem full_rem_event_iff (m : MsgG) (t : Tree) (a : List Nat) (hw : m.WFfull) (hn : NoEmpty t) (hd : DevInfoOK t) :
    Evt.rem a ∈ (notifyFullG Cfg.clean m t).2.1 ↔ (a ∈ addrs t ∧ a ∉ m.ents.map (·.addr) ∧ a ≠ [0]) := by
  rw [(notifyFullG_tree m t hw hn).2]
  have hlisted : m.toMsg.ents.map (·.addr) = m.ents.map (·.addr) := by
    simp [MsgG.toMsg, EW.toEI, List.map_map, Function.comp]
  rw [← List.count_pos_iff]
  by_cases h0 : a = [0]
  · subst h0
    have := (guard_events_devInfo (fullDiff m.toMsg t).feats (fullDiff m.toMsg t).ents (t, []) hd).2
    simp only [List.count_nil] at this
    rw [this]
    simp
  · have := (guard_events_refine (fullDiff m.toMsg t).feats a h0 (fullDiff m.toMsg t).ents (t, [])).2
    simp only [List.count_nil, Nat.zero_add] at this
    rw [this, fullDiff_ents, appearances_append]
    simp only
    rw [appearances_added_rem a _ _ (by intro ei h; obtain ⟨e, _, rfl⟩ := List.mem_map.mp h; rfl),
      appearances_removed_rem a _ _ (by intro ei h; obtain ⟨e, _, rfl⟩ := List.mem_map.mp h; rfl)]
    have hrem := mem_diffRemoved m.toMsg t a
    rw [hlisted] at hrem
    by_cases hR : a ∈ (diffRemoved m.toMsg t).map (·.addr)
    · obtain ⟨hk, hl⟩ := hrem.mp hR
      have hfold : (diffAdded m.toMsg t).foldl (applyTo a) (decide (a ∈ addrs t)) = true := by
        rw [applyTo_fold_added a _ _ (by intro ei h; obtain ⟨e, _, rfl⟩ := List.mem_map.mp h; rfl)]
        simp [hk]
      rw [if_pos ⟨hfold, hR⟩]
      exact ⟨fun _ => ⟨hk, hl, h0⟩, fun _ => by decide⟩
    · rw [if_neg (fun h => hR h.2)]
      constructor
      · intro h; exact absurd h (by decide)
      · rintro ⟨hk, hl, _⟩; exact absurd (hrem.mpr ⟨hk, hl⟩) hR

theorem mem_removed_full (m : MsgG) (t : Tree) (a : List Nat) (hw : m.WFfull) (hn : NoEmpty t) (hd : DevInfoOK t) :
    a ∈ removed (notifyFullG Cfg.clean m t).2.1 ↔ (a ∈ addrs t ∧ a ∉ m.ents.map (·.addr) ∧ a ≠ [0]) := by
  rw [mem_removed, full_rem_event_iff m t a hw hn hd]

/-! ## 3. the dispatch world: `full`, `entAdd`, `entRem` -/

/-- the feature numbers this model knows at entity address `a` -/
def idsAt (t : Tree) (a : List Nat) : List Nat :=
  match findE t a with
  | some e => e.feats.map (·.id)
  | none => []

/-- … and the ones the dispatch world holds for the peer -/
def dispAt (fs : List Disp.RF) (a : List Nat) : List Nat := (fs.filter fun f => f.ent = a).map (·.feat)

/-- the abstraction relation: at every entity address the same set of feature numbers -/
def AgreeD (t : Tree) (fs : List Disp.RF) : Prop := ∀ a i, i ∈ idsAt t a ↔ i ∈ dispAt fs a

/-- the domain of the dispatch world (`Disp.entsOf`: "every announced entity carries a feature") -/
def Featured (t : Tree) : Prop := ∀ e ∈ t, e.feats ≠ []

def keepOf (m : MsgG) : List (List Nat) := m.ents.map (·.addr)

/-- the features the dispatch world adds for a new entity (`w.fresh`) are the ones the message announces for it -/
def FreshAgrees (m : MsgG) (fresh : List Disp.RF) (t : Tree) : Prop :=
  ∀ a, a ∈ keepOf m → a ∉ addrs t → ∀ i, i ∈ (m.feats.filter (·.ent = a)).map (·.id) ↔ i ∈ dispAt fresh a

theorem mem_dispAt (fs : List Disp.RF) (a : List Nat) (i : Nat) :
    i ∈ dispAt fs a ↔ ∃ f ∈ fs, f.ent = a ∧ f.feat = i := by
  simp only [dispAt, List.mem_map, List.mem_filter, decide_eq_true_eq]
  constructor
  · rintro ⟨f, ⟨hf, he⟩, hi⟩; exact ⟨f, hf, he, hi⟩
  · rintro ⟨f, hf, he, hi⟩; exact ⟨f, ⟨hf, he⟩, hi⟩

theorem known_iff (t : Tree) (fs : List Disp.RF) (hA : AgreeD t fs) (hF : Featured t) (a : List Nat) :
    a ∈ addrs t ↔ ∃ f ∈ fs, f.ent = a := by
  constructor
  · intro ha
    have hs : (findE t a).isSome = true := (findE_isSome_iff t a).mpr ha
    cases hf : findE t a with
    | none => rw [hf] at hs; exact absurd hs (by decide)
    | some e =>
      have he : e ∈ t := List.mem_of_find?_eq_some hf
      have hne := hF e he
      cases hfe : e.feats with
      | nil => exact absurd hfe hne
      | cons f0 _ =>
        have : f0.id ∈ idsAt t a := by simp [idsAt, hf, hfe]
        obtain ⟨f, hf1, hf2, _⟩ := (mem_dispAt fs a f0.id).mp ((hA a f0.id).mp this)
        exact ⟨f, hf1, hf2⟩
  · rintro ⟨f, hf, he⟩
    have : f.feat ∈ idsAt t a := (hA a f.feat).mpr ((mem_dispAt fs a f.feat).mpr ⟨f, hf, he, rfl⟩)
    unfold idsAt at this
    cases hfa : findE t a with
    | none => rw [hfa] at this; exact absurd this List.not_mem_nil
    | some e => exact (findE_isSome_iff t a).mp (by rw [hfa]; rfl)

theorem mem_entsOf (w : Disp.W) (p : Nat) (a : List Nat) :
    a ∈ Disp.entsOf w p ↔ ∃ f ∈ (w.peers p).feats, f.ent = a := by
  simp [Disp.entsOf]

/-- what a created entity holds: the features the message lists for it -/
theorem fold_added_feats (M : Msg) (a : List Nat) : ∀ (l : List EI) (cur : Option E), (∀ ei ∈ l, ei.addr = a) →
    (l.foldl (fun c ei => specEntity M a c { ei with chg := .added }) cur).map (·.feats)
      = if l.isEmpty then cur.map (·.feats) else some (M.feats.filter (·.ent = a))
  | [], _, _ => rfl
  | ei :: l, cur, h => by
    have ha : ei.addr = a := h ei (List.mem_cons_self ..)
    rw [List.foldl_cons, fold_added_feats M a l _ (fun x hx => h x (List.mem_cons_of_mem _ hx))]
    simp only [specEntity, ha, if_true, List.isEmpty_cons, Bool.false_eq_true, if_false, Option.map_some]
    split <;> rfl

/-- the feature numbers at every address after a well-formed full notification of the repaired tree -/
theorem idsAt_full (m : MsgG) (t : Tree) (a : List Nat) (hw : m.WFfull) (hn : NoEmpty t) (h0 : [0] ∈ addrs t) :
    idsAt (notifyFullG Cfg.clean m t).1 a =
      if a ∈ addrs t then (if a ∈ keepOf m ∨ a = [0] then idsAt t a else [])
      else (if a ∈ keepOf m then (m.feats.filter (·.ent = a)).map (·.id) else []) := by
  have hlisted : m.toMsg.ents.map (·.addr) = keepOf m := by
    simp [MsgG.toMsg, EW.toEI, List.map_map, Function.comp, keepOf]
  unfold idsAt
  by_cases ha0 : a = [0]
  · subst ha0
    rw [guard_full_devInfo m t h0 hw hn]
    simp [h0]
  · rw [guard_full_tree m t a ha0 hw hn]
    unfold specFull
    cases hf : findE t a with
    | some e =>
      have hk : a ∈ addrs t := (findE_isSome_iff t a).mp (by rw [hf]; rfl)
      rw [hlisted]
      by_cases hl : a ∈ keepOf m <;> simp [hk, hl, ha0]
    | none =>
      have hk : a ∉ addrs t := (findE_none_iff t a).mp hf
      simp only [hk, if_false]
      have := fold_added_feats m.toMsg a (m.toMsg.ents.filter (·.addr = a)) none
        (by intro ei h; simpa using (List.mem_filter.mp h).2)
      by_cases hl : a ∈ keepOf m
      · have hne : (m.toMsg.ents.filter (·.addr = a)).isEmpty = false := by
          rw [← hlisted] at hl
          obtain ⟨ei, hei, hea⟩ := List.mem_map.mp hl
          cases hfl : m.toMsg.ents.filter (·.addr = a) with
          | nil =>
            have : ei ∈ m.toMsg.ents.filter (·.addr = a) := List.mem_filter.mpr ⟨hei, by simpa using hea⟩
            rw [hfl] at this; exact absurd this List.not_mem_nil
          | cons _ _ => rfl
        rw [hne] at this
        simp only [Bool.false_eq_true, if_false] at this
        cases hres : (m.toMsg.ents.filter (·.addr = a)).foldl (fun c ei => specEntity m.toMsg a c { ei with chg := .added }) none with
        | none => rw [hres] at this; exact absurd this (by simp)
        | some e =>
          rw [hres] at this
          simp only [Option.map_some, Option.some.injEq] at this
          simp [hl, this, MsgG.toMsg]
      · have hemp : m.toMsg.ents.filter (·.addr = a) = [] := by
          rw [List.filter_eq_nil_iff]
          intro ei hei hea
          apply hl
          rw [← hlisted]
          exact List.mem_map.mpr ⟨ei, hei, by simpa using hea⟩
        rw [hemp]
        simp [hl]

/-- THE DISPATCH `full` STEP, tree part: on a well-formed full notification the dispatch world and this model end at
    the same feature numbers at every entity address -/
theorem dispatch_full_tree (w : Disp.W) (p : Nat) (m : MsgG) (t : Tree) (hw : m.WFfull) (hn : NoEmpty t)
    (h0 : [0] ∈ addrs t) (hA : AgreeD t (w.peers p).feats) (hF : Featured t) (hfr : FreshAgrees m w.fresh.feats t) :
    AgreeD (notifyFullG Cfg.clean m t).1 ((Disp.applyFull w p (keepOf m)).peers p).feats := by
  intro a i
  rw [idsAt_full m t a hw hn h0]
  have hfe : ((Disp.applyFull w p (keepOf m)).peers p).feats
      = ((w.peers p).feats.filter fun f => !(Disp.fullRemoved w p (keepOf m)).contains f.ent) ++
        (w.fresh.feats.filter fun f => (Disp.fullAdded w p (keepOf m)).contains f.ent) := by
    simp [Disp.applyFull, Disp.setPeer]
  rw [hfe, mem_dispAt]
  have hkn := known_iff t (w.peers p).feats hA hF
  have hrem : ∀ x, x ∈ Disp.fullRemoved w p (keepOf m) ↔ (x ∈ addrs t ∧ x ∉ keepOf m ∧ x ≠ [0]) := by
    intro x
    simp only [Disp.fullRemoved, List.mem_filter, mem_entsOf, ← hkn, Bool.and_eq_true, Bool.not_eq_true',
      List.contains_eq_mem, decide_eq_false_iff_not, decide_eq_true_eq, ne_eq]
  have hadd : ∀ x, x ∈ Disp.fullAdded w p (keepOf m) ↔ (x ∈ keepOf m ∧ x ∉ addrs t) := by
    intro x
    simp only [Disp.fullAdded, List.mem_filter, Bool.not_eq_true', List.contains_eq_mem, decide_eq_false_iff_not,
      mem_entsOf, ← hkn]
  simp only [List.mem_append, List.mem_filter, Bool.not_eq_true', List.contains_eq_mem, decide_eq_false_iff_not,
    decide_eq_true_eq, hrem, hadd]
  by_cases hk : a ∈ addrs t
  · simp only [hk, if_true]
    by_cases hl : a ∈ keepOf m ∨ a = [0]
    · simp only [hl, if_true]
      rw [hA a i, mem_dispAt]
      constructor
      · rintro ⟨f, hf, he, hi⟩
        refine ⟨f, Or.inl ⟨hf, ?_⟩, he, hi⟩
        rw [he]; rintro ⟨_, h1, h2⟩
        exact hl.elim h1 h2
      · rintro ⟨f, hf | hf, he, hi⟩
        · exact ⟨f, hf.1, he, hi⟩
        · rw [he] at hf; exact absurd hk hf.2.2
    · simp only [hl, if_false, List.not_mem_nil, false_iff]
      rintro ⟨f, hf | hf, he, hi⟩
      · rw [he] at hf
        exact hf.2 ⟨hk, fun h => hl (Or.inl h), fun h => hl (Or.inr h)⟩
      · rw [he] at hf; exact hf.2.2 hk
  · simp only [hk, if_false]
    by_cases hl : a ∈ keepOf m
    · simp only [hl, if_true]
      rw [hfr a hl hk i, mem_dispAt]
      constructor
      · rintro ⟨f, hf, he, hi⟩
        exact ⟨f, Or.inr ⟨hf, by rw [he]; exact ⟨hl, hk⟩⟩, he, hi⟩
      · rintro ⟨f, hf | hf, he, hi⟩
        · exact absurd ((hkn a).mpr ⟨f, hf.1, he⟩) hk
        · exact ⟨f, hf.1, he, hi⟩
    · simp only [hl, if_false, List.not_mem_nil, false_iff]
      rintro ⟨f, hf | hf, he, hi⟩
      · exact hk ((hkn a).mpr ⟨f, hf.1, he⟩)
      · rw [he] at hf; exact hl hf.2.1

def toRED (b : Disp.Entry) : RE := ⟨b.2.1, b.2.2.1, b.2.2.2, b.1.1, b.1.2⟩

theorem contains_congr {α : Type} [BEq α] [LawfulBEq α] (l1 l2 : List α) (h : ∀ x, x ∈ l1 ↔ x ∈ l2) (c : α) :
    l1.contains c = l2.contains c := by
  rw [Bool.eq_iff_iff]
  simp [h c]

/-- THE DISPATCH `full` STEP, registries: the subscriptions and bindings the dispatch world keeps are exactly the ones
    this model's cascade keeps -/
theorem dispatch_full_registries (w : Disp.W) (p : Nat) (m : MsgG) (W : World)
    (hcfg : w.cfg.entRemovalAnyPeer = false) (hsub : W.subs = w.subs.map toRED) (hbind : W.binds = w.binds.map toRED)
    (hw : m.WFfull) (hn : NoEmpty (W.trees p)) (hd : DevInfoOK (W.trees p))
    (hA : AgreeD (W.trees p) (w.peers p).feats) (hF : Featured (W.trees p)) :
    (W.stepG Cfg.clean p .full m).1.subs = (Disp.applyFull w p (keepOf m)).subs.map toRED ∧
    (W.stepG Cfg.clean p .full m).1.binds = (Disp.applyFull w p (keepOf m)).binds.map toRED := by
  have hkn := known_iff (W.trees p) (w.peers p).feats hA hF
  have hmem : ∀ x, x ∈ removed (W.stepG Cfg.clean p .full m).2 ↔ x ∈ Disp.fullRemoved w p (keepOf m) := by
    intro x
    have : (W.stepG Cfg.clean p .full m).2 = (notifyFullG Cfg.clean m (W.trees p)).2.1 := rfl
    rw [this, mem_removed_full m (W.trees p) x hw hn hd]
    simp only [Disp.fullRemoved, List.mem_filter, mem_entsOf, ← hkn, Bool.and_eq_true, Bool.not_eq_true',
      List.contains_eq_mem, decide_eq_false_iff_not, decide_eq_true_eq, ne_eq, keepOf]
  have hc := contains_congr _ _ hmem
  constructor
  · rw [stepG_subs, hsub, List.filter_map]
    simp only [Disp.applyFull]
    congr 1
    apply List.filter_congr
    intro b _
    show (!(decide ((toRED b).peer = p) && (removed (W.stepG Cfg.clean p .full m).2).contains (toRED b).cEnt)) = _
    rw [hc]
    rfl
  · rw [stepG_binds, hbind, List.filter_map]
    simp only [Disp.applyFull]
    congr 1
    apply List.filter_congr
    intro b _
    show (!((Cfg.clean.bindEntityOnly || decide ((toRED b).peer = p)) &&
        (removed (W.stepG Cfg.clean p .full m).2).contains (toRED b).cEnt)) = _
    rw [hc]
    have key : ((Disp.fullRemoved w p (keepOf m)).any fun e => Disp.entDrops w.cfg p e b)
        = (decide (b.2.1 = p) && (Disp.fullRemoved w p (keepOf m)).contains b.2.2.1) := by
      rw [Bool.eq_iff_iff]
      simp only [Disp.entDrops, hcfg, Bool.false_eq_true, if_false, List.any_eq_true, Bool.and_eq_true,
        decide_eq_true_eq, List.contains_eq_mem]
      constructor
      · rintro ⟨e, he, hp, hce⟩; exact ⟨hp, hce ▸ he⟩
      · rintro ⟨hp, hin⟩; exact ⟨_, hin, hp, rfl⟩
    rw [key]
    rfl

/-! ### from `applyFull` to the op `Disp.step w (.full …)` -/

theorem filter_true' {α : Type} (l : List α) : l.filter (fun _ => true) = l :=
  List.filter_eq_self.mpr (fun _ _ => rfl)

theorem filter_false' {α : Type} (l : List α) : l.filter (fun _ => false) = [] :=
  List.filter_eq_nil_iff.mpr (fun _ _ h => absurd h (by decide))

theorem request_feats (pr : Disp.Peer) (dst : Disp.Addr) (fn : Nat) : (Disp.request pr dst fn).1.feats = pr.feats := by
  unfold Disp.request
  split
  · rfl
  · rfl

/-- the op `full` of a connected peer leaves feature lists and registries exactly as `applyFull` does — also on its
    error path (empty diff), where `applyFull` changes nothing -/
theorem dispatch_step_full_proj (w : Disp.W) (p : Nat) (keep : List (List Nat)) (ctr : Nat) (ack : Bool)
    (hc : Disp.connected w p = true) :
    (∀ q, ((Disp.step w (.full p keep ctr ack)).1.peers q).feats = ((Disp.applyFull w p keep).peers q).feats) ∧
    (Disp.step w (.full p keep ctr ack)).1.subs = (Disp.applyFull w p keep).subs ∧
    (Disp.step w (.full p keep ctr ack)).1.binds = (Disp.applyFull w p keep).binds := by
  simp only [Disp.step, Disp.processFull, hc, Bool.not_true, Bool.false_eq_true, if_false]
  by_cases he : Disp.fullEmpty w p keep = true
  · simp only [he, if_true]
    have hadd : Disp.fullAdded w p keep = [] := by
      simp only [Disp.fullEmpty, Bool.and_eq_true, List.isEmpty_iff] at he
      exact he.1
    have hrem : Disp.fullRemoved w p keep = [] := by
      simp only [Disp.fullEmpty, Bool.and_eq_true, List.isEmpty_iff] at he
      have h2 := he.2
      rw [List.filter_eq_nil_iff] at h2
      unfold Disp.fullRemoved
      rw [List.filter_eq_nil_iff]
      intro e hin hcon
      apply h2 e hin
      simp only [Bool.and_eq_true] at hcon
      exact hcon.1
    refine ⟨fun q => ?_, ?_, ?_⟩
    · by_cases hq : q = p
      · subst hq
        simp [Disp.setPeer, Disp.applyFull, hadd, hrem, request_feats, Disp.sendN, filter_true', filter_false']
      · simp [Disp.setPeer, Disp.applyFull, hq]
    · simp [Disp.setPeer, Disp.applyFull, hrem, filter_true']
    · simp [Disp.setPeer, Disp.applyFull, hrem, filter_true']
  · simp only [he, Bool.false_eq_true, if_false]
    refine ⟨fun q => ?_, rfl, rfl⟩
    simp [Disp.bump, Disp.sendN]

/-! ### the exclusion of `Disp.full`, as a decidable predicate -/

/-- what the dispatch world's `full` op does not take: a notification that omits [0], or one with an entry the handler
    rejects (empty address, no entity type) -/
def dispFullExcluded (m : MsgG) : Bool :=
  !(keepOf m).contains [0] || m.ents.any fun e => e.addr = [] || e.typ.isNone

/-- the complement of the exclusion is exactly "lists [0] and is well formed" -/
theorem dispFull_domain (m : MsgG) : dispFullExcluded m = false ↔ ([0] ∈ keepOf m ∧ m.WFfull) := by
  simp only [dispFullExcluded, Bool.or_eq_false_iff, Bool.not_eq_false', List.contains_eq_mem, decide_eq_true_eq,
    List.any_eq_false, Bool.or_eq_true, not_or, MsgG.WFfull]
  constructor
  · rintro ⟨h0, h⟩
    refine ⟨h0, fun e he => ⟨?_, ?_⟩⟩
    · simpa using (h e he).1
    · have := (h e he).2
      cases ht : e.typ with
      | none => rw [ht] at this; exact absurd rfl this
      | some _ => rfl
  · rintro ⟨h0, h⟩
    refine ⟨h0, fun e he => ⟨?_, ?_⟩⟩
    · simpa using (h e he).1
    · have := (h e he).2
      cases ht : e.typ with
      | none => rw [ht] at this; exact absurd this (by decide)
      | some _ => simp

/-- the excluded inputs are of two kinds: omits [0], or not well formed -/
theorem dispFull_excluded_cases (m : MsgG) : dispFullExcluded m = true ↔ ([0] ∉ keepOf m ∨ ¬ m.WFfull) := by
  have h := dispFull_domain m
  cases hx : dispFullExcluded m with
  | false =>
    have := h.mp hx
    constructor
    · intro h'; exact absurd h' (by decide)
    · rintro (h1 | h1)
      · exact absurd this.1 h1
      · exact absurd this.2 h1
  | true =>
    refine ⟨fun _ => ?_, fun _ => rfl⟩
    apply Classical.byContradiction
    intro hcon
    have : [0] ∈ keepOf m ∧ m.WFfull := by
      constructor
      · apply Classical.byContradiction; intro h1; exact hcon (Or.inl h1)
      · apply Classical.byContradiction; intro h1; exact hcon (Or.inr h1)
    have := h.mpr this
    rw [hx] at this
    exact absurd this (by decide)

/-! ## 4. one entity removed / added: dispatch `entRem` / `entAdd`, registry and teardown `dropEntity` -/

/-- the partial notification "entity `e` removed" -/
def remMsg (e : List Nat) : MsgG := ⟨[⟨e, none, .removed, none⟩], []⟩

theorem notifyG_remMsg (t : Tree) (e : List Nat) (he : e ≠ []) (h0 : e ≠ [0]) :
    notifyG Cfg.clean (remMsg e) t =
      if (findE t e).isSome then (t.filter (·.addr ≠ e), [.rem e], true) else (t, [], true) := by
  simp only [notifyG, remMsg, List.isEmpty_cons, Bool.false_eq_true, if_false, runG, entryG, he, remOneG,
    removalSkipped, EW.toEI, h0, decide_false, Bool.and_false, remOne]
  cases hf : findE t e with
  | none => simp
  | some _ =>
    simp only [Option.isSome_some, if_true, List.nil_append]
    congr 2

theorem idsAt_remove (t : Tree) (e a : List Nat) :
    idsAt (t.filter (·.addr ≠ e)) a = if a = e then [] else idsAt t a := by
  have := findE_remOne (t, []) ⟨e, 0, .removed, none⟩ a
  unfold idsAt
  by_cases hk : (findE t e).isSome
  · have hr : (remOne (t, []) ⟨e, 0, .removed, none⟩).1 = t.filter (·.addr ≠ e) := by
      simp only [remOne]
      cases hf : findE t e with
      | none => rw [hf] at hk; exact absurd hk (by decide)
      | some _ => rfl
    rw [hr] at this
    rw [this]
    by_cases hae : a = e
    · simp [hae]
    · have : ¬ e = a := fun h => hae h.symm
      simp [hae, this]
  · have hnone : findE t e = none := by cases hf : findE t e with | none => rfl | some _ => rw [hf] at hk; exact absurd rfl hk
    have hfil : t.filter (·.addr ≠ e) = t := by
      rw [List.filter_eq_self]
      intro x hx
      have hnot : e ∉ addrs t := (findE_none_iff t e).mp hnone
      have : x.addr ≠ e := fun h => hnot (h ▸ List.mem_map.mpr ⟨x, hx, rfl⟩)
      simpa using this
    rw [hfil]
    by_cases hae : a = e
    · subst hae; simp [hnone]
    · simp [hae]

/-- DISPATCH `entRem p e` (e ≠ [0]): same feature numbers at every address, same registries -/
theorem dispatch_entRem_agrees (w : Disp.W) (p : Nat) (e : List Nat) (W : World) (he : e ≠ []) (h0 : e ≠ [0])
    (hcfg : w.cfg.entRemovalAnyPeer = false) (hsub : W.subs = w.subs.map toRED) (hbind : W.binds = w.binds.map toRED)
    (hA : AgreeD (W.trees p) (w.peers p).feats) (hF : Featured (W.trees p)) :
    let w' := if Disp.hasEnt w p e then Disp.removeEnt w p e else w
    AgreeD ((W.stepG Cfg.clean p .part (remMsg e)).1.trees p) (w'.peers p).feats ∧
    (W.stepG Cfg.clean p .part (remMsg e)).1.subs = w'.subs.map toRED ∧
    (W.stepG Cfg.clean p .part (remMsg e)).1.binds = w'.binds.map toRED := by
  have hkn := known_iff (W.trees p) (w.peers p).feats hA hF e
  have hhas : Disp.hasEnt w p e = (findE (W.trees p) e).isSome := by
    rw [Bool.eq_iff_iff, findE_isSome_iff, hkn]
    simp [Disp.hasEnt]
  have hstep : W.stepG Cfg.clean p .part (remMsg e)
      = (cascade Cfg.clean (setTree W p (notifyG Cfg.clean (remMsg e) (W.trees p)).1) p
          (notifyG Cfg.clean (remMsg e) (W.trees p)).2.1, (notifyG Cfg.clean (remMsg e) (W.trees p)).2.1) := rfl
  rw [hstep, notifyG_remMsg _ e he h0, hhas]
  cases hk : (findE (W.trees p) e).isSome with
  | false =>
    simp only [Bool.false_eq_true, if_false]
    refine ⟨?_, ?_, ?_⟩
    · simp only [cascade, List.foldl_nil, setTree, if_true]; exact hA
    · simp [cascade, setTree, hsub]
    · simp [cascade, setTree, hbind]
  | true =>
    simp only [if_true]
    refine ⟨?_, ?_, ?_⟩
    · intro a i
      simp only [cascade, List.foldl_cons, List.foldl_nil, cascadeStep, dropEntity, setTree, if_true]
      rw [idsAt_remove]
      have hfe : ((Disp.removeEnt w p e).peers p).feats = (w.peers p).feats.filter fun f => f.ent ≠ e := by
        simp [Disp.removeEnt, Disp.setPeer]
      rw [hfe, mem_dispAt]
      by_cases hae : a = e
      · subst hae
        simp only [if_true, List.not_mem_nil, false_iff]
        rintro ⟨f, hf, hfe', _⟩
        have := (List.mem_filter.mp hf).2
        simp [hfe'] at this
      · simp only [hae, if_false]
        rw [hA a i, mem_dispAt]
        constructor
        · rintro ⟨f, hf, hfe', hi⟩
          exact ⟨f, List.mem_filter.mpr ⟨hf, by simp [hfe', hae]⟩, hfe', hi⟩
        · rintro ⟨f, hf, hfe', hi⟩
          exact ⟨f, (List.mem_filter.mp hf).1, hfe', hi⟩
    · simp only [cascade, List.foldl_cons, List.foldl_nil, cascadeStep, dropEntity, setTree, hsub, List.filter_map,
        Disp.removeEnt]
      congr 1
    · simp only [cascade, List.foldl_cons, List.foldl_nil, cascadeStep, dropEntity, setTree, hbind, List.filter_map,
        Disp.removeEnt]
      congr 1
      apply List.filter_congr
      intro b _
      simp only [Function.comp, keepBind, toRED, Cfg.clean, Disp.entDrops, hcfg, Bool.false_or, Bool.false_eq_true,
        if_false]
      rfl

/-- the partial notification "entity `e` added" with the announced features -/
def addMsg (e : List Nat) (ty : Nat) (d : Option Nat) (feats : List F) : MsgG := ⟨[⟨e, some ty, .added, d⟩], feats⟩

theorem notifyG_addMsg (t : Tree) (e : List Nat) (ty : Nat) (d : Option Nat) (feats : List F) (he : e ≠ [])
    (h0 : e ≠ [0]) :
    (notifyG Cfg.clean (addMsg e ty d feats) t).1 = (addOne ⟨[], feats⟩ (t, []) ⟨e, ty, .added, d⟩).1 ∧
    removed (notifyG Cfg.clean (addMsg e ty d feats) t).2.1 = [] := by
  have hrun : runG (entryG Cfg.clean feats) [⟨e, some ty, .added, d⟩] (t, [])
      = (addOne ⟨[], feats⟩ (t, []) ⟨e, ty, .added, d⟩, true) := by
    simp [runG, entryG, addRejected, he, addOneG, refreshSkipped, EW.toEI, h0]
  simp only [notifyG, addMsg, List.isEmpty_cons, Bool.false_eq_true, if_false, hrun, true_and]
  simp only [addOne]
  cases findE t e <;> simp [removed]

/-- DISPATCH `entAdd p e` (e ≠ [0]): the features of `e` are replaced by the announced ones, everything else and the
    registries stay -/
theorem dispatch_entAdd_agrees (w : Disp.W) (p : Nat) (e : List Nat) (ty : Nat) (d : Option Nat) (feats : List F)
    (W : World) (he : e ≠ []) (h0 : e ≠ [0]) (hsub : W.subs = w.subs.map toRED) (hbind : W.binds = w.binds.map toRED)
    (hA : AgreeD (W.trees p) (w.peers p).feats)
    (hfr : ∀ i, i ∈ (feats.filter (·.ent = e)).map (·.id) ↔ i ∈ dispAt w.fresh.feats e) :
    let r := W.stepG Cfg.clean p .part (addMsg e ty d feats)
    AgreeD (r.1.trees p) ((w.peers p).feats.filter (fun f => f.ent ≠ e) ++ w.fresh.feats.filter (fun f => f.ent = e)) ∧
    r.1.subs = w.subs.map toRED ∧ r.1.binds = w.binds.map toRED := by
  have hstep : W.stepG Cfg.clean p .part (addMsg e ty d feats)
      = (cascade Cfg.clean (setTree W p (notifyG Cfg.clean (addMsg e ty d feats) (W.trees p)).1) p
          (notifyG Cfg.clean (addMsg e ty d feats) (W.trees p)).2.1,
         (notifyG Cfg.clean (addMsg e ty d feats) (W.trees p)).2.1) := rfl
  obtain ⟨htree, hrem⟩ := notifyG_addMsg (W.trees p) e ty d feats he h0
  refine ⟨?_, ?_, ?_⟩
  · intro a i
    simp only [hstep, cascade_trees, setTree, if_true, htree]
    unfold idsAt
    rw [findE_addOne, mem_dispAt]
    by_cases hae : e = a
    · subst hae
      simp only [if_true]
      rw [show (List.map (fun x => x.id) (List.filter (fun x => decide (x.ent = e)) feats)) =
        (feats.filter (·.ent = e)).map (·.id) from rfl, hfr i, mem_dispAt]
      constructor
      · rintro ⟨f, hf, hfe, hi⟩
        exact ⟨f, List.mem_append_right _ (List.mem_filter.mpr ⟨hf, by simp [hfe]⟩), hfe, hi⟩
      · rintro ⟨f, hf, hfe, hi⟩
        rcases List.mem_append.mp hf with hf | hf
        · have := (List.mem_filter.mp hf).2; simp [hfe] at this
        · exact ⟨f, (List.mem_filter.mp hf).1, hfe, hi⟩
    · simp only [hae, if_false]
      have := hA a i
      unfold idsAt at this
      rw [this, mem_dispAt]
      have hae' : ¬ a = e := fun h => hae h.symm
      constructor
      · rintro ⟨f, hf, hfe, hi⟩
        exact ⟨f, List.mem_append_left _ (List.mem_filter.mpr ⟨hf, by simp [hfe, hae']⟩), hfe, hi⟩
      · rintro ⟨f, hf, hfe, hi⟩
        rcases List.mem_append.mp hf with hf | hf
        · exact ⟨f, (List.mem_filter.mp hf).1, hfe, hi⟩
        · have := (List.mem_filter.mp hf).2; simp [hfe, hae'] at this
  · rw [stepG_subs, hsub]
    have : removed (W.stepG Cfg.clean p .part (addMsg e ty d feats)).2 = [] := hrem
    rw [this]
    simp [filter_true']
  · rw [stepG_binds, hbind]
    have : removed (W.stepG Cfg.clean p .part (addMsg e ty d feats)).2 = [] := hrem
    rw [this]
    simp [filter_true']

/-- `Disp.processEntAdd` does exactly that to a connected peer -/
theorem dispatch_entAdd_proj (w : Disp.W) (p : Nat) (e : List Nat) (ctr : Nat) (ack : Bool)
    (hc : Disp.connected w p = true) :
    ((Disp.step w (.entAdd p e ctr ack)).1.peers p).feats
      = (w.peers p).feats.filter (fun f => f.ent ≠ e) ++ w.fresh.feats.filter (fun f => f.ent = e) ∧
    (Disp.step w (.entAdd p e ctr ack)).1.subs = w.subs ∧ (Disp.step w (.entAdd p e ctr ack)).1.binds = w.binds := by
  simp [Disp.step, Disp.processEntAdd, hc, Disp.bump, Disp.setPeer, Disp.sendN]

theorem dispatch_entRem_proj (w : Disp.W) (p : Nat) (e : List Nat) (ctr : Nat) (ack : Bool)
    (hc : Disp.connected w p = true) (h0 : e ≠ [0]) :
    let w' := if Disp.hasEnt w p e then Disp.removeEnt w p e else w
    ((Disp.step w (.entRem p e ctr ack)).1.peers p).feats = (w'.peers p).feats ∧
    (Disp.step w (.entRem p e ctr ack)).1.subs = w'.subs ∧ (Disp.step w (.entRem p e ctr ack)).1.binds = w'.binds := by
  -- (`Disp.processEntRem` skips a removal entry for [0], as the code does: `Disp.remGo`)
  have hgo : Disp.remGo w p e = Disp.hasEnt w p e := by simp [Disp.remGo, h0]
  simp only [Disp.step, Disp.processEntRem, hc, Bool.not_true, Bool.false_eq_true, if_false, hgo]
  refine ⟨?_, rfl, rfl⟩
  simp [Disp.bump, Disp.sendN]

/-- REGISTRY / TEARDOWN `dropEntity p ent` (ent ≠ [0], announced): the subscriptions and bindings the registry model
    keeps are the ones this model's partial-notification step keeps -/
theorem reg_dropEntity_agrees (s : Reg.St) (p : Nat) (ent : List Nat) (W : World) (he : ent ≠ []) (h0 : ent ≠ [0])
    (hsub : W.subs = s.subs.map toRE) (hbind : W.binds = s.binds.map toRE)
    (hknown : (findE (W.trees p) ent).isSome = ((s.rem p).map (·.ent)).contains ent) :
    (W.stepG Cfg.clean p .part (remMsg ent)).1.subs = (Reg.dropEntity Reg.Cfg.clean s p ent).subs.map toRE ∧
    (W.stepG Cfg.clean p .part (remMsg ent)).1.binds = (Reg.dropEntity Reg.Cfg.clean s p ent).binds.map toRE := by
  have hstep : W.stepG Cfg.clean p .part (remMsg ent)
      = (cascade Cfg.clean (setTree W p (notifyG Cfg.clean (remMsg ent) (W.trees p)).1) p
          (notifyG Cfg.clean (remMsg ent) (W.trees p)).2.1, (notifyG Cfg.clean (remMsg ent) (W.trees p)).2.1) := rfl
  rw [hstep, notifyG_remMsg _ ent he h0, hknown]
  unfold Reg.dropEntity
  cases hk : ((s.rem p).map (·.ent)).contains ent with
  | false => simp [cascade, setTree, hsub, hbind]
  | true =>
    simp only [if_true, Bool.not_true, Bool.false_eq_true, if_false, cascade, List.foldl_cons, List.foldl_nil,
      cascadeStep, dropEntity, setTree, hsub, hbind, List.filter_map]
    constructor
    · congr 1
    · congr 1

/-- the client-side bookkeeping of teardown (`Td.Book`) seen from this model's entries -/
def toBook (x : CE) : Td.Book := ⟨x.peer, x.rEnt, x.rFeat⟩

/-- TEARDOWN `Td.dropEntity` of a connected peer (ent ≠ [0], announced): registries and client-side bookkeeping are
    the ones this model's step leaves -/
theorem teardown_dropEntity_agrees (s : Td.St) (p : Nat) (ent : List Nat) (W : World) (he : ent ≠ []) (h0 : ent ≠ [0])
    (halive : s.alive.contains p = true)
    (hsub : W.subs = s.reg.subs.map toRE) (hbind : W.binds = s.reg.binds.map toRE)
    (hcs : W.csubs.map toBook = s.csubs) (hcb : W.cbinds.map toBook = s.cbinds)
    (hknown : (findE (W.trees p) ent).isSome = ((s.reg.rem p).map (·.ent)).contains ent) :
    let s' := Td.dropEntity Td.Cfg.clean s p ent
    let r := W.stepG Cfg.clean p .part (remMsg ent)
    r.1.subs = s'.reg.subs.map toRE ∧ r.1.binds = s'.reg.binds.map toRE ∧
    r.1.csubs.map toBook = s'.csubs ∧ r.1.cbinds.map toBook = s'.cbinds := by
  have hreg := reg_dropEntity_agrees s.reg p ent W he h0 hsub hbind hknown
  have hstep : W.stepG Cfg.clean p .part (remMsg ent)
      = (cascade Cfg.clean (setTree W p (notifyG Cfg.clean (remMsg ent) (W.trees p)).1) p
          (notifyG Cfg.clean (remMsg ent) (W.trees p)).2.1, (notifyG Cfg.clean (remMsg ent) (W.trees p)).2.1) := rfl
  simp only [Td.dropEntity, halive, Bool.not_true, Bool.false_eq_true, if_false]
  cases hk : ((s.reg.rem p).map (·.ent)).contains ent with
  | false =>
    have hkf : (findE (W.trees p) ent).isSome = false := by rw [hknown, hk]
    have hd : Reg.dropEntity Reg.Cfg.clean s.reg p ent = s.reg := by
      unfold Reg.dropEntity
      rw [hk]
      rfl
    rw [hd] at hreg
    refine ⟨hreg.1, hreg.2, ?_, ?_⟩
    · rw [hstep, notifyG_remMsg _ ent he h0, hkf]; simp [cascade, setTree, hcs]
    · rw [hstep, notifyG_remMsg _ ent he h0, hkf]; simp [cascade, setTree, hcb]
  | true =>
    have hkt : (findE (W.trees p) ent).isSome = true := by rw [hknown, hk]
    simp only [Bool.not_true, Bool.false_eq_true, if_false, Td.Cfg.clean]
    refine ⟨hreg.1, hreg.2, ?_, ?_⟩
    · rw [hstep, notifyG_remMsg _ ent he h0, hkt, ← hcs]
      simp only [if_true, cascade, List.foldl_cons, List.foldl_nil, cascadeStep, dropEntity, setTree, List.filter_map]
      congr 1
    · rw [hstep, notifyG_remMsg _ ent he h0, hkt, ← hcb]
      simp only [if_true, cascade, List.foldl_cons, List.foldl_nil, cascadeStep, dropEntity, setTree, List.filter_map]
      congr 1

/-! ## 5. decidable checks for the abstraction relations (for concrete instances) -/

def sameSet (l1 l2 : List Nat) : Bool := l1.all l2.contains && l2.all l1.contains

theorem sameSet_iff (l1 l2 : List Nat) (h : sameSet l1 l2 = true) (i : Nat) : i ∈ l1 ↔ i ∈ l2 := by
  simp only [sameSet, Bool.and_eq_true, List.all_eq_true, List.contains_eq_mem, decide_eq_true_eq] at h
  exact ⟨h.1 i, h.2 i⟩

def checkAgreeD (t : Tree) (fs : List Disp.RF) : Bool :=
  (addrs t ++ fs.map (·.ent)).all fun a => sameSet (idsAt t a) (dispAt fs a)

theorem agreeD_of_check (t : Tree) (fs : List Disp.RF) (h : checkAgreeD t fs = true) : AgreeD t fs := by
  intro a i
  by_cases ha : a ∈ addrs t ++ fs.map (·.ent)
  · simp only [checkAgreeD, List.all_eq_true] at h
    exact sameSet_iff _ _ (h a ha) i
  · have h1 : a ∉ addrs t := fun h' => ha (List.mem_append_left _ h')
    have h2 : a ∉ fs.map (·.ent) := fun h' => ha (List.mem_append_right _ h')
    have e1 : idsAt t a = [] := by
      unfold idsAt
      rw [(findE_none_iff t a).mpr h1]
    have e2 : dispAt fs a = [] := by
      unfold dispAt
      rw [List.map_eq_nil_iff, List.filter_eq_nil_iff]
      intro f hf hfe
      exact h2 (List.mem_map.mpr ⟨f, hf, by simpa using hfe⟩)
    rw [e1, e2]

def checkFresh (m : MsgG) (fresh : List Disp.RF) (t : Tree) : Bool :=
  (keepOf m).all fun a => (addrs t).contains a || sameSet ((m.feats.filter (·.ent = a)).map (·.id)) (dispAt fresh a)

theorem freshAgrees_of_check (m : MsgG) (fresh : List Disp.RF) (t : Tree) (h : checkFresh m fresh t = true) :
    FreshAgrees m fresh t := by
  intro a ha hk i
  simp only [checkFresh, List.all_eq_true, Bool.or_eq_true, List.contains_eq_mem, decide_eq_true_eq] at h
  rcases h a ha with h1 | h1
  · exact absurd h1 hk
  · exact sameSet_iff _ _ h1 i

instance (t : Tree) : Decidable (Featured t) := by unfold Featured; infer_instance

end Spine.Disc
