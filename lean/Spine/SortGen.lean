import Spine.SortThm
/-!
# `SortData` on ARBITRARY items (missing identifier parts, string / struct parts included)

`SortThm.lean` proves that `sortData` sorts (pairwise) when every item carries complete numeric identifiers.
Here: what holds with no assumption on the items at all — the comparator is asymmetric, the output is a
permutation (SortThm), no item of the output is less than its LEFT NEIGHBOUR, and sorting again changes nothing.
With missing or non-numeric parts the comparator is not a weak order any more (kernel-checked witness), so
"pairwise ordered" cannot be had; for the up to 12 items Go sorts by insertion the model is the code's result
exactly, beyond that only the permutation is the code's promise (the harness compares multisets there).
-/
namespace Spine

theorem less_go_asymm (a b : Item) : ∀ (ks : List (Nat × KeyKind)), less.go a b ks = true → less.go b a ks = false
  | [], h => by simp [less.go] at h
  | (i, kind) :: ks, h => by
    simp only [less.go] at h ⊢
    cases ha : a.get i with
    | none => simp [ha] at h
    | some x =>
      cases hb : b.get i with
      | none => simp [ha, hb] at h
      | some y =>
        rw [ha, hb] at h
        simp only at h ⊢
        by_cases hk : (kind != .uint) = true
        · simp [hk] at h
        · simp only [hk, Bool.false_eq_true, if_false] at h ⊢
          by_cases hxy : x = y
          · subst hxy
            simp only [bne_self_eq_false, Bool.false_eq_true, if_false] at h ⊢
            exact less_go_asymm a b ks h
          · have hyx : ¬ y = x := fun e => hxy e.symm
            have h1 : (x != y) = true := by simp [hxy]
            have h2 : (y != x) = true := by simp [hyx]
            simp only [h1, if_true] at h
            simp only [h2, if_true]
            have hlt : x < y := by simpa using h
            exact decide_eq_false (Nat.lt_asymm hlt)

/-- the comparator is asymmetric for ALL items -/
theorem less_asymm_all (sh : Shape) (a b : Item) (h : less sh a b = true) : less sh b a = false :=
  less_go_asymm a b sh.keys h

/-- no item is less than its left neighbour -/
def Adj (sh : Shape) : List Item → Prop
  | [] => True
  | [_] => True
  | y :: x :: r => less sh x y = false ∧ Adj sh (x :: r)

theorem adj_snoc (sh : Shape) (x : Item) : ∀ (l : List Item),
    Adj sh (l ++ [x]) ↔ Adj sh l ∧ (∀ z, l.getLast? = some z → less sh x z = false)
  | [] => by simp [Adj]
  | [y] => by simp [Adj]
  | y :: y2 :: r => by
    have ih := adj_snoc sh x (y2 :: r)
    simp only [List.cons_append] at ih ⊢
    simp only [Adj, ih, List.getLast?_cons_cons]
    constructor
    · rintro ⟨h1, h2, h3⟩; exact ⟨⟨h1, h2⟩, h3⟩
    · rintro ⟨⟨h1, h2⟩, h3⟩; exact ⟨h1, h2, h3⟩

theorem adj_mid (sh : Shape) (x : Item) (B : List Item) : ∀ (A : List Item), Adj sh (A ++ x :: B) →
    Adj sh (A ++ [x]) ∧ Adj sh (x :: B)
  | [], h => ⟨by simp [Adj], h⟩
  | [y], h => by
    simp only [List.cons_append, List.nil_append, Adj] at h ⊢
    exact ⟨⟨h.1, trivial⟩, h.2⟩
  | y :: y2 :: r, h => by
    simp only [List.cons_append, Adj] at h ⊢
    have ih := adj_mid sh x B (y2 :: r) h.2
    exact ⟨⟨h.1, ih.1⟩, ih.2⟩

theorem head_go (sh : Shape) (x : Item) : ∀ (r : List Item),
    (sortData.insertRight.go sh x r).head? = some x ∨
      (∃ z r', r = z :: r' ∧ less sh x z = true ∧ (sortData.insertRight.go sh x r).head? = some z)
  | [] => Or.inl rfl
  | z :: r' => by
    simp only [sortData.insertRight.go]
    by_cases h : less sh x z = true
    · exact Or.inr ⟨z, r', rfl, h, by simp [h]⟩
    · exact Or.inl (by simp [h])

/-- inserting keeps the invariant (only asymmetry of the comparator is used) -/
theorem adj_go (sh : Shape) (x : Item) : ∀ (r : List Item), Adj sh r.reverse →
    Adj sh (sortData.insertRight.go sh x r).reverse
  | [], _ => by simp [sortData.insertRight.go, Adj]
  | z :: r', h => by
    simp only [sortData.insertRight.go]
    by_cases hxz : less sh x z = true
    · simp only [hxz, if_true, List.reverse_cons]
      rw [List.reverse_cons] at h
      have h' := (adj_snoc sh z r'.reverse).mp h
      rw [adj_snoc]
      refine ⟨adj_go sh x r' h'.1, ?_⟩
      intro w hw
      rw [List.getLast?_reverse] at hw
      rcases head_go sh x r' with hx | ⟨z', r'', hr, _, hz'⟩
      · rw [hx] at hw; injection hw with hw; subst hw
        exact less_asymm_all sh x z hxz
      · rw [hz'] at hw; injection hw with hw; subst hw
        apply h'.2
        rw [List.getLast?_reverse, hr]; rfl
    · simp only [hxz, Bool.false_eq_true, if_false]
      have : (x :: z :: r').reverse = (z :: r').reverse ++ [x] := by simp
      rw [this, adj_snoc]
      refine ⟨h, ?_⟩
      intro w hw
      rw [List.getLast?_reverse] at hw
      simp only [List.head?_cons, Option.some.injEq] at hw
      subst hw
      simpa using hxz

theorem adj_insertRight (sh : Shape) (acc : List Item) (x : Item) (h : Adj sh acc) :
    Adj sh (sortData.insertRight sh acc x) := by
  unfold sortData.insertRight
  apply adj_go
  simpa using h

theorem less_nokeys (sh : Shape) (hk : sh.keys.isEmpty = true) (a b : Item) : less sh a b = false := by
  unfold less
  have : sh.keys = [] := by cases h : sh.keys with
    | nil => rfl
    | cons _ _ => rw [h] at hk; cases hk
  rw [this]; rfl

theorem adj_of_nokeys (sh : Shape) (hk : sh.keys.isEmpty = true) : ∀ (l : List Item), Adj sh l
  | [] => trivial
  | [_] => trivial
  | y :: x :: r => ⟨less_nokeys sh hk x y, adj_of_nokeys sh hk (x :: r)⟩

/-- **for ALL inputs**: in the output of `SortData` no item is less than its left neighbour -/
theorem sortData_adj (sh : Shape) (l : List Item) : Adj sh (sortData sh l) := by
  unfold sortData
  split
  · rename_i hk; exact adj_of_nokeys sh hk l
  · suffices ∀ (l acc : List Item), Adj sh acc → Adj sh (l.foldl (fun a x => sortData.insertRight sh a x) acc) from
      this l [] trivial
    intro l
    induction l with
    | nil => intro acc h; exact h
    | cons x xs ih => intro acc h; exact ih _ (adj_insertRight sh acc x h)

theorem insertRight_of_last (sh : Shape) (acc : List Item) (x : Item)
    (h : ∀ z, acc.getLast? = some z → less sh x z = false) : sortData.insertRight sh acc x = acc ++ [x] := by
  unfold sortData.insertRight
  cases hr : acc.reverse with
  | nil =>
    have : acc = [] := by simpa using hr
    subst this; rfl
  | cons z r' =>
    have hz : less sh x z = false := by
      apply h
      rw [← List.head?_reverse, hr]; rfl
    simp only [sortData.insertRight.go, hz, Bool.false_eq_true, if_false]
    have : acc = (z :: r').reverse := by rw [← hr]; simp
    rw [this]; simp

theorem foldl_insertRight_adj (sh : Shape) : ∀ (l acc : List Item), Adj sh (acc ++ l) →
    l.foldl (fun a x => sortData.insertRight sh a x) acc = acc ++ l
  | [], acc, _ => by simp
  | x :: xs, acc, h => by
    have hm := adj_mid sh x xs acc h
    have hlast := ((adj_snoc sh x acc).mp hm.1).2
    rw [List.foldl_cons, insertRight_of_last sh acc x hlast]
    have h' : Adj sh ((acc ++ [x]) ++ xs) := by simpa using h
    rw [foldl_insertRight_adj sh xs (acc ++ [x]) h']
    simp

/-- a list in which no item is less than its left neighbour is a fixpoint of `SortData` -/
theorem sortData_of_adj (sh : Shape) (l : List Item) (h : Adj sh l) : sortData sh l = l := by
  unfold sortData
  split
  · rfl
  · have := foldl_insertRight_adj sh l [] (by simpa using h)
    simpa using this

/-- **for ALL inputs**: sorting twice is sorting once -/
theorem sortData_idem (sh : Shape) (l : List Item) : sortData sh (sortData sh l) = sortData sh l :=
  sortData_of_adj sh _ (sortData_adj sh l)

end Spine
