import Spine.Update
namespace Spine

/-! ### C02: a selector confines the update; a delete filter removes the matching items -/

/-- the selector path never changes the number of items, and an item the selector does not match stays as it is -/
theorem copyToSelected_confines (sh : Shape) (remote : Bool) (sel nw : Item) :
    ∀ (ex r : List Item) (b : Bool), copyToSelected.go sh remote sel nw ex = .ok (r, b) →
      r.length = ex.length ∧
      ∀ (i : Nat) (h1 : i < ex.length) (h2 : i < r.length), selectorMatch sh sel ex[i] = .ok false → r[i] = ex[i]
  | [], r, b, h => by
    simp only [copyToSelected.go, Outcome.ok.injEq, Prod.mk.injEq] at h
    obtain ⟨rfl, _⟩ := h
    exact ⟨rfl, fun i h1 => absurd h1 (by simp)⟩
  | x :: xs, r, b, h => by
    simp only [copyToSelected.go] at h
    cases hm : selectorMatch sh sel x with
    | panic s => rw [hm] at h; simp at h
    | ok m =>
      rw [hm] at h
      cases m with
      | false =>
        simp only at h
        cases hrec : copyToSelected.go sh remote sel nw xs with
        | panic s => rw [hrec] at h; simp at h
        | ok rb =>
          obtain ⟨r', b'⟩ := rb
          rw [hrec] at h
          simp only [Outcome.ok.injEq, Prod.mk.injEq] at h
          obtain ⟨rfl, _⟩ := h
          have ih := copyToSelected_confines sh remote sel nw xs r' b' hrec
          refine ⟨by simp [ih.1], ?_⟩
          intro i h1 h2 hsel
          cases i with
          | zero => rfl
          | succ k =>
            simp only [List.getElem_cons_succ] at hsel ⊢
            exact ih.2 k (by simpa using h1) (by simpa using h2) hsel
      | true =>
        simp only at h
        split at h
        · cases hrec : copyToSelected.go sh remote sel nw xs with
          | panic s => rw [hrec] at h; simp at h
          | ok rb =>
            obtain ⟨r', b'⟩ := rb
            rw [hrec] at h
            simp only [Outcome.ok.injEq, Prod.mk.injEq] at h
            obtain ⟨rfl, _⟩ := h
            have ih := copyToSelected_confines sh remote sel nw xs r' b' hrec
            refine ⟨by simp [ih.1], ?_⟩
            intro i h1 h2 hsel
            cases i with
            | zero => rfl
            | succ k =>
              simp only [List.getElem_cons_succ] at hsel ⊢
              exact ih.2 k (by simpa using h1) (by simpa using h2) hsel
        · simp only [Outcome.ok.injEq, Prod.mk.injEq] at h
          obtain ⟨rfl, _⟩ := h
          refine ⟨by simp, ?_⟩
          intro i h1 h2 hsel
          cases i with
          | zero => simp only [List.getElem_cons_zero] at hsel; rw [hm] at hsel; cases hsel
          | succ k => rfl

/-- a local delete with a selector only keeps exactly the items the selector does not match, in order -/
theorem deleteFiltered_selector_local (sh : Shape) (sel : Item) :
    ∀ (ex ip out : List Item) (ok : Bool),
      deleteFiltered.go sh false ⟨some sel, none⟩ ex = .ok (ip, out, ok) →
      ip = ex ∧ ok = true ∧ out = ex.filter (fun x => selectorMatch sh sel x matches .ok false)
  | [], ip, out, ok, h => by
    simp only [deleteFiltered.go, Outcome.ok.injEq, Prod.mk.injEq] at h
    obtain ⟨rfl, rfl, rfl⟩ := h
    exact ⟨rfl, rfl, rfl⟩
  | x :: xs, ip, out, ok, h => by
    simp only [deleteFiltered.go, Bool.and_false, Bool.false_eq_true, if_false] at h
    cases hm : selectorMatch sh sel x with
    | panic s => rw [hm] at h; simp at h
    | ok hit =>
      rw [hm] at h
      simp only at h
      cases hrec : deleteFiltered.go sh false ⟨some sel, none⟩ xs with
      | panic s => rw [hrec] at h; simp at h
      | ok t =>
        obtain ⟨ip', out', ok'⟩ := t
        rw [hrec] at h
        have ih := deleteFiltered_selector_local sh sel xs ip' out' ok' hrec
        obtain ⟨rfl, rfl, rfl⟩ := ih
        cases hit with
        | true =>
          simp only [if_true, Outcome.ok.injEq, Prod.mk.injEq] at h
          obtain ⟨rfl, rfl, rfl⟩ := h
          simp [List.filter_cons, hm]
        | false =>
          simp only [Bool.false_eq_true, if_false, Outcome.ok.injEq, Prod.mk.injEq] at h
          obtain ⟨rfl, rfl, rfl⟩ := h
          simp [List.filter_cons, hm]

end Spine
