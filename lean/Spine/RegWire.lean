import Spine.RegistryMore
/-! The list of a peer's subscriptions / bindings AS SENT OVER THE WIRE (C08 / C09, clause "the list reported for a peer
    contains exactly that peer's entries, each with a distinct id"): `spine/nodemanagement_subscription.go`
    `processReadSubscriptionData` and `nodemanagement_binding.go` `processReadBindingData` build the reply from the
    manager's per-peer list, ONE wire entry per registry entry, with that entry's OWN id, server address and client
    address. `aliasId = true` is the member in which one id variable is shared by all entries of the reply (every entry
    carries the id of the last one): a seeded regression of the binding reply, no committed tree.

    Static face, regenerated from the source (`Generated/WireReply.lean`, generator `wirereply`): from which value
    each field of a wire entry is taken. -/
namespace Spine.RegWire
open Spine

structure WEntry where
  id : Nat
  sEnt : List Nat
  sFeat : Nat
  /-- device part of the client address: the device of the connection the entry belongs to -/
  cDev : Nat
  cEnt : List Nat
  cFeat : Nat
deriving DecidableEq, Repr

/-- one wire entry from one registry entry: `SubscriptionId: s.Id, ServerAddress: s.ServerFeature.Address(),
    ClientAddress: s.ClientFeature.Address()` -/
def entryOf (e : Reg.Entry) : WEntry := ⟨e.id, e.sEnt, e.sFeat, e.peer, e.cEnt, e.cFeat⟩

def buildReply (aliasId : Bool) (l : List Reg.Entry) : List WEntry :=
  if aliasId then
    match l.getLast? with
    | some z => l.map fun e => { entryOf e with id := z.id }
    | none => []
  else l.map entryOf

/-- the reply to a read of the subscription data by peer `p` -/
def readSubs (aliasId : Bool) (s : Reg.St) (p : Nat) : List WEntry := buildReply aliasId (Reg.subsOf s p)
/-- the reply to a read of the binding data by peer `p` -/
def readBinds (aliasId : Bool) (s : Reg.St) (p : Nat) : List WEntry := buildReply aliasId (Reg.bindsOf s p)

/-- what the receiving peer reads out of a wire entry -/
def decode (w : WEntry) : Reg.Entry := ⟨w.id, w.sEnt, w.sFeat, w.cDev, w.cEnt, w.cFeat⟩

theorem decode_entryOf (e : Reg.Entry) : decode (entryOf e) = e := rfl

/-- The list sent over the wire IS the manager's list of that peer: same length, same order, entry by entry the
    entry's own id and addresses. -/
theorem wire_eq_list (l : List Reg.Entry) : (buildReply false l).map decode = l := by
  simp [buildReply, List.map_map, Function.comp_def, decode_entryOf]

theorem wire_entrywise (l : List Reg.Entry) (i : Nat) : (buildReply false l)[i]? = (l[i]?).map entryOf := by
  simp [buildReply]

theorem wire_ids (l : List Reg.Entry) : (buildReply false l).map (·.id) = l.map (·.id) := by
  simp [buildReply, List.map_map, Function.comp_def, entryOf]

/-- the aliased member: two entries with different ids go out with one id -/
theorem wire_alias_refuted :
    (buildReply true [⟨1, [1], 1, 1, [1], 1⟩, ⟨2, [1], 2, 1, [1], 2⟩]).map (·.id) = [2, 2] := by decide

end Spine.RegWire
