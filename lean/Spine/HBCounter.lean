/-! C16, heartbeat counter: a refresh is two steps — draw the counter (atomic add), then store the data under the
    manager's lock. Streams are goroutines; an old stream may still have a refresh in flight when it is told to stop. -/
namespace Spine.HBC

structure St where
  num : Nat := 0                       -- heartBeatNum
  inflight : List (Nat × Nat) := []    -- (stream, drawn counter) between the two steps
  stored : List Nat := []              -- counters stored into the feature, oldest first

inductive Ev
  | draw (stream : Nat)
  | store (stream : Nat)

def step (s : St) : Ev → St
  | .draw k =>
    if s.inflight.any (·.1 = k) then s            -- a stream is sequential
    else { s with num := s.num + 1, inflight := (k, s.num + 1) :: s.inflight }
  | .store k =>
    match s.inflight.find? (·.1 = k) with
    | some (_, v) => { s with inflight := s.inflight.filter (·.1 ≠ k), stored := s.stored ++ [v] }
    | none => s

def run (evs : List Ev) : St := evs.foldl step {}

/-- without any assumption on the schedule the stored counter can go down: the old stream's refresh is in flight
    while the new stream completes one -/
theorem overtaking_witness : (run [.draw 1, .draw 2, .store 2, .store 1]).stored = [2, 1] := by decide

/-- the schedules in which no refresh is drawn while another one is in flight (a refresh in flight completes within
    one period — assumption A-inflight) -/
def Calm : St → List Ev → Prop
  | _, [] => True
  | s, .draw k :: es => s.inflight = [] ∧ Calm (step s (.draw k)) es
  | s, .store k :: es => Calm (step s (.store k)) es

structure Inv (s : St) : Prop where
  sorted : s.stored.Pairwise (· < ·)
  le : ∀ v ∈ s.stored, v ≤ s.num
  fl : s.inflight = [] ∨ (∃ k, s.inflight = [(k, s.num)] ∧ ∀ v ∈ s.stored, v < s.num)

theorem step_inv (s : St) (e : Ev) (h : Inv s) (hc : ∀ k, e = .draw k → s.inflight = []) : Inv (step s e) := by
  cases e with
  | draw k =>
    have hnil := hc k rfl
    simp only [step, hnil, List.any_nil, Bool.false_eq_true, if_false]
    refine ⟨h.sorted, fun v hv => Nat.le_succ_of_le (h.le v hv), Or.inr ⟨k, rfl, fun v hv => Nat.lt_succ_of_le (h.le v hv)⟩⟩
  | store k =>
    simp only [step]
    split
    · rename_i v hf
      rcases h.fl with hnil | ⟨k', hk', hlt⟩
      · rw [hnil] at hf; cases hf
      · rw [hk'] at hf
        have hkk : k' = k ∧ s.num = v := by
          simp only [List.find?_cons, List.find?_nil] at hf
          split at hf
          · rename_i hd; injection hf with hf; injection hf with h1 h2
            exact ⟨by simpa using hd, h2⟩
          · cases hf
        obtain ⟨rfl, rfl⟩ := hkk
        refine ⟨?_, ?_, Or.inl ?_⟩
        · rw [List.pairwise_append]
          exact ⟨h.sorted, by simp, fun a ha b hb => by simp only [List.mem_singleton] at hb; subst hb; exact hlt a ha⟩
        · intro v hv
          rcases List.mem_append.mp hv with hv | hv
          · exact h.le v hv
          · simp only [List.mem_singleton] at hv; subst hv; exact Nat.le_refl _
        · simp [hk']
    · exact h

/-- C16, "carrying a strictly increasing counter": in every calm schedule — any number of streams, started and
    stopped in any order — the counters stored into the feature are strictly increasing -/
theorem c16_counter_increasing (evs : List Ev) (hc : Calm {} evs) : (run evs).stored.Pairwise (· < ·) := by
  unfold run
  suffices ∀ s, Inv s → Calm s evs → Inv (evs.foldl step s) from
    (this {} ⟨by simp, by simp, Or.inl rfl⟩ hc).sorted
  clear hc
  induction evs with
  | nil => intro s h _; exact h
  | cons e es ih =>
    intro s h hcalm
    cases e with
    | draw k =>
      exact ih (step s (.draw k)) (step_inv s (.draw k) h (fun _ _ => hcalm.1)) hcalm.2
    | store k =>
      exact ih (step s (.store k)) (step_inv s (.store k) h (fun k' hk' => by cases hk')) hcalm

/-- non-vacuity: two streams taking turns -/
example : Calm {} [.draw 1, .store 1, .draw 2, .store 2, .draw 1, .store 1] ∧
    (run [.draw 1, .store 1, .draw 2, .store 2, .draw 1, .store 1]).stored = [1, 2, 3] := by
  refine ⟨?_, by decide⟩
  simp [Calm, step]

end Spine.HBC
