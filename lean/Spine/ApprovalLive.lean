import Spine.ApprovalExact
import Spine.ApprovalFrame
import Spine.LockTables
/-! C12, progress: (1) in the approval model no write can be kept from its outcome — from every reachable state the
    two halves of its own timeout are enabled and resolve it; (2) the bridge to the lock-order facts: operations of
    the approval machinery are threads over the mutexes of FeatureLocal; if the extracted "holds h, asks for m" edges
    among those mutexes are ranked, no set of such threads waits cyclically, so every step the model quantifies over
    can be taken (A-mutex: a lock that is not part of a cycle is released eventually; A-time: the timer fires). -/
namespace Spine.Appr

theorem take_not_armed (c : Cfg) (s : St) (w : Nat) : w ∉ (step c s (.timeoutTake w)).armed := by
  simp only [step]
  split
  · simp
  · rename_i h; simpa using h

theorem send_armed (c : Cfg) (s : St) (w : Nat) : (step c s (.timeoutSend w)).armed = s.armed := by
  simp only [step]; split <;> rfl

theorem send_not_fired (c : Cfg) (s : St) (w : Nat) : w ∉ (step c s (.timeoutSend w)).fired := by
  simp only [step]
  split
  · simp
  · rename_i h; simpa using h

/-- from every reachable state (no disconnect in the history) a write that has arrived is resolved by its own
    timeout: after `timeoutTake w ; timeoutSend w` it has exactly one outcome — the one it already had, the one a
    verdict gave it, or the timeout's. No state of the model blocks a write. -/
theorem resolvable (n : Nat) (evs : List Ev) (hnd : ∀ e ∈ evs, e ≠ .drop) (w : Nat)
    (hw : w ∈ (run Cfg.clean n evs).seen) :
    ((run Cfg.clean n (evs ++ [.timeoutTake w, .timeoutSend w])).outcomes.map (·.1)).count w = 1 := by
  have hnd' : ∀ e ∈ evs ++ [Ev.timeoutTake w, .timeoutSend w], e ≠ .drop := by
    intro e he
    rcases List.mem_append.mp he with he | he
    · exact hnd e he
    · simp only [List.mem_cons, List.mem_nil_iff, or_false] at he
      rcases he with rfl | rfl <;> (intro hc; cases hc)
  have hrun : run Cfg.clean n (evs ++ [.timeoutTake w, .timeoutSend w]) =
      step Cfg.clean (step Cfg.clean (run Cfg.clean n evs) (.timeoutTake w)) (.timeoutSend w) := by
    simp [run, List.foldl_append]
  have hseen : w ∈ (run Cfg.clean n (evs ++ [.timeoutTake w, .timeoutSend w])).seen := by
    rw [hrun, seen_step_other _ _ _ (by intro v hc; cases hc), seen_step_other _ _ _ (by intro v hc; cases hc)]
    exact hw
  rw [c12_exactly_one_outcome n _ hnd' w hseen, hrun]
  have h1 : w ∉ (step Cfg.clean (step Cfg.clean (run Cfg.clean n evs) (.timeoutTake w)) (.timeoutSend w)).armed := by
    rw [send_armed]; exact take_not_armed _ _ w
  have h2 := send_not_fired Cfg.clean (step Cfg.clean (run Cfg.clean n evs) (.timeoutTake w)) w
  simp [h1, h2]

end Spine.Appr

namespace Spine.ApprL
open Spine Spine.LockTables

/-- every lock a thread holds or waits for is one of `ms` -/
def Within (ms : List Nat) (thrs : List Lock.Thr) : Prop :=
  ∀ t ∈ thrs, (∀ h ∈ t.held, h ∈ ms) ∧ (∀ m, t.waiting = some m → m ∈ ms)

/-- threads that only touch the mutexes `ms` respect the restriction of an edge table to `ms` -/
theorem respects_restrict (ms : List Nat) (edges : List (Nat × Nat)) (thrs : List Lock.Thr)
    (hw : Within ms thrs) (he : RespectsEdges edges thrs) :
    RespectsEdges (edges.filter fun e => ms.contains e.1 && ms.contains e.2) thrs := by
  intro t ht
  have h := he t ht
  unfold thrRespects at h ⊢
  cases hwt : t.waiting with
  | none => trivial
  | some m =>
    rw [hwt] at h
    intro x hx
    have hm := (hw t ht).2 m hwt
    have hxm := (hw t ht).1 x hx
    simp only [List.mem_filter, Bool.and_eq_true, List.contains_iff_mem]
    exact ⟨h x hx, hxm, hm⟩

end Spine.ApprL
