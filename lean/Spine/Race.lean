/-! Prototype: consistent lock protection orders conflicting accesses (abstract theorem for C17).
    Traces are stored latest event first. -/
namespace Spine.Race

inductive Ev
  | acq (t m : Nat)
  | rel (t m : Nat)
  | acc (t x : Nat) (w : Bool)
deriving DecidableEq

/-- owner of mutex `m` after the (reversed) trace -/
def owner : List Ev → Nat → Option Nat
  | [], _ => none
  | .acq t m :: past, m' => if m = m' then some t else owner past m'
  | .rel _ m :: past, m' => if m = m' then none else owner past m'
  | .acc .. :: past, m' => owner past m'

/-- mutual exclusion: a mutex is acquired only when free and released only by its owner -/
def WF : List Ev → Prop
  | [] => True
  | .acq _ m :: past => owner past m = none ∧ WF past
  | .rel t m :: past => owner past m = some t ∧ WF past
  | .acc .. :: past => WF past

theorem WF_tail {e : Ev} {l : List Ev} (h : WF (e :: l)) : WF l := by
  cases e <;> simp [WF] at h <;> first | exact h.2 | exact h

/-- if `t1` owned `m` and later does not, `t1` released it in between -/
theorem released (m t1 : Nat) (base : List Ev) (hb : owner base m = some t1) :
    ∀ mid, WF (mid ++ base) → owner (mid ++ base) m ≠ some t1 →
      ∃ mid1 mid0, mid = mid1 ++ Ev.rel t1 m :: mid0
  | [], _, h => absurd hb h
  | e :: mid, hwf, hne => by
    by_cases hprev : owner (mid ++ base) m = some t1
    · -- e changes the owner of m
      cases e with
      | acq t m' =>
        simp only [List.cons_append, WF] at hwf
        by_cases hm : m' = m
        · subst hm; rw [hprev] at hwf; exact absurd hwf.1 (by simp)
        · simp [owner, hm, hprev] at hne
      | rel t m' =>
        simp only [List.cons_append, WF] at hwf
        by_cases hm : m' = m
        · subst hm
          rw [hprev] at hwf
          have : t1 = t := by simpa using hwf.1
          subst this
          exact ⟨[], mid, rfl⟩
        · simp [owner, hm, hprev] at hne
      | acc t x w => simp [owner, hprev] at hne
    · obtain ⟨mid1, mid0, rfl⟩ := released m t1 base hb mid (WF_tail hwf) hprev
      exact ⟨e :: mid1, mid0, rfl⟩

/-- if `t1` owned `m` and later a different thread `t2` owns it, then in between `t1` released `m`
    and afterwards `t2` acquired it -/
theorem handover (m t1 t2 : Nat) (hne : t1 ≠ t2) (base : List Ev) (hb : owner base m = some t1) :
    ∀ mid, WF (mid ++ base) → owner (mid ++ base) m = some t2 →
      ∃ mid2 mid1 mid0, mid = mid2 ++ Ev.acq t2 m :: (mid1 ++ Ev.rel t1 m :: mid0)
  | [], _, h => by simp [hb] at h; exact absurd h hne
  | e :: mid, hwf, hown => by
    have hwf' := WF_tail hwf
    cases e with
    | acq t m' =>
      by_cases hm : m' = m
      · subst hm
        simp only [List.cons_append, owner, if_true, Option.some.injEq] at hown
        subst hown
        simp only [List.cons_append, WF] at hwf
        obtain ⟨mid1, mid0, rfl⟩ := released m' t1 base hb mid hwf' (by rw [hwf.1]; simp)
        exact ⟨[], mid1, mid0, rfl⟩
      · simp only [List.cons_append, owner, hm, if_false] at hown
        obtain ⟨mid2, mid1, mid0, rfl⟩ := handover m t1 t2 hne base hb mid hwf' hown
        exact ⟨Ev.acq t m' :: mid2, mid1, mid0, rfl⟩
    | rel t m' =>
      by_cases hm : m' = m
      · subst hm; simp [owner] at hown
      · simp only [List.cons_append, owner, hm, if_false] at hown
        obtain ⟨mid2, mid1, mid0, rfl⟩ := handover m t1 t2 hne base hb mid hwf' hown
        exact ⟨Ev.rel t m' :: mid2, mid1, mid0, rfl⟩
    | acc t x w =>
      simp only [List.cons_append, owner] at hown
      obtain ⟨mid2, mid1, mid0, rfl⟩ := handover m t1 t2 hne base hb mid hwf' hown
      exact ⟨Ev.acc t x w :: mid2, mid1, mid0, rfl⟩

/-- lockset discipline ⇒ ordering: two accesses to `x` by different threads, both made while holding
    the same mutex `m`, are separated by `rel t1 m … acq t2 m`; program order, the release→acquire
    edge of the Go memory model and program order again make the earlier access happen before the later -/
theorem guarded_accesses_ordered (m x t1 t2 : Nat) (w1 w2 : Bool) (hne : t1 ≠ t2)
    (earlier mid : List Ev)
    (hwf : WF (Ev.acc t2 x w2 :: (mid ++ Ev.acc t1 x w1 :: earlier)))
    (h1 : owner earlier m = some t1)                               -- t1 holds m at its access
    (h2 : owner (mid ++ Ev.acc t1 x w1 :: earlier) m = some t2) :  -- t2 holds m at its access
    ∃ mid2 mid1 mid0, mid = mid2 ++ Ev.acq t2 m :: (mid1 ++ Ev.rel t1 m :: mid0) :=
  handover m t1 t2 hne (Ev.acc t1 x w1 :: earlier) (by simpa [owner] using h1) mid (WF_tail hwf) h2

end Spine.Race
