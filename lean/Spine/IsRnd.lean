/-! C19: IEEE-754 round-to-nearest-even to 53 bits as a *relation* on integers (core Lean only; the
    driver `Drivers/Num.lean` asserts it on every value the executable model computes). -/
namespace Spine.Rnd

/-- `m * 2^e` is the binary64 nearest to `n / d` (ties to even), `n, d > 0`, normal range, exponent
    unbounded: cross-multiplied so that only natural numbers occur. `N`/`D` scale numerator and
    denominator by the power of two of the exponent.
    The last conjunct is the binade boundary: below `2^52 * 2^e` the doubles are spaced `2^(e-1)`, so
    `2^52 * 2^e` is the nearest double only down to a *quarter* of a unit below it (without this conjunct
    the relation would not be functional: `(2^53 - 3/4) * 2^e` would be related to both
    `(2^53 - 1, e)` and `(2^52, e + 1)`). -/
def IsRnd (n d m : Nat) (e : Int) : Prop :=
  let N := n * 2 ^ (-e).toNat        -- numerator, scaled when e < 0
  let D := d * 2 ^ e.toNat           -- denominator, scaled when e ≥ 0
  2 ^ 52 ≤ m ∧ m < 2 ^ 53 ∧
  -- |m * D - N| * 2 ≤ D, and on a tie m is even
  (2 * (m * D) ≤ 2 * N + D) ∧ (2 * N ≤ 2 * (m * D) + D) ∧
  ((2 * (m * D) = 2 * N + D ∨ 2 * N = 2 * (m * D) + D) → m % 2 = 0) ∧
  (m = 2 ^ 52 → 4 * (m * D) ≤ 4 * N + D)

instance (n d m : Nat) (e : Int) : Decidable (IsRnd n d m e) := by unfold IsRnd; infer_instance

@[noinline] def p52 : Nat := 2 ^ 52
@[noinline] def p53 : Nat := 2 ^ 53

/-- executable form for the driver (shares the scaled numerator and denominator; named constants
    because the compiled code re-parses a literal of this size at every use) -/
def isRndB (n d m : Nat) (e : Int) : Bool :=
  let N := n <<< (-e).toNat
  let D := d <<< e.toNat
  let mD := m * D
  decide (p52 ≤ m) && decide (m < p53) && decide (2 * mD ≤ 2 * N + D) && decide (2 * N ≤ 2 * mD + D) &&
  ((2 * mD != 2 * N + D && 2 * N != 2 * mD + D) || m % 2 == 0) &&
  (m != p52 || decide (4 * mD ≤ 4 * N + D))

theorem isRndB_iff (n d m : Nat) (e : Int) : isRndB n d m e = true ↔ IsRnd n d m e := by
  unfold isRndB IsRnd p52 p53
  simp only [Nat.shiftLeft_eq, Bool.and_eq_true, Bool.or_eq_true, decide_eq_true_eq, bne_iff_ne, ne_eq, beq_iff_eq]
  constructor
  · rintro ⟨⟨⟨⟨⟨h1, h2⟩, h3⟩, h4⟩, h5⟩, h6⟩
    refine ⟨h1, h2, h3, h4, ?_, ?_⟩
    · intro ht
      rcases h5 with ⟨a, b⟩ | h
      · rcases ht with ht | ht
        · exact absurd ht a
        · exact absurd ht b
      · exact h
    · intro hm
      rcases h6 with h | h
      · exact absurd hm h
      · exact h
  · rintro ⟨h1, h2, h3, h4, h5, h6⟩
    refine ⟨⟨⟨⟨⟨h1, h2⟩, h3⟩, h4⟩, ?_⟩, ?_⟩
    · by_cases a : 2 * (m * (d * 2 ^ e.toNat)) = 2 * (n * 2 ^ (-e).toNat) + d * 2 ^ e.toNat
      · exact Or.inr (h5 (Or.inl a))
      · by_cases b : 2 * (n * 2 ^ (-e).toNat) = 2 * (m * (d * 2 ^ e.toNat)) + d * 2 ^ e.toNat
        · exact Or.inr (h5 (Or.inr b))
        · exact Or.inl ⟨a, b⟩
    · by_cases hm : m = 2 ^ 52
      · exact Or.inr (h6 hm)
      · exact Or.inl hm

/-- 0.29 parses to 0x3FD28F5C28F5C28F: m = 5224175567749775, e = -54 -/
example : IsRnd 29 100 5224175567749775 (-54) := by decide +kernel

/-- … and 0.29 * 100 rounds to 28.999999999999996 (m = 0x1CFFFFFFFFFFFF, e = -48), whose integer part is 28 -/
example : IsRnd (5224175567749775 * 100) (2 ^ 54) 8162774324609023 (-48) := by decide +kernel
example : 8162774324609023 / 2 ^ 48 = 28 := by decide +kernel

/-- the boundary case: (2^53 - 3/4) is nearest to 2^53 - 1, not to 2^53 = 2^52 * 2 -/
example : IsRnd (4 * 2 ^ 53 - 3) 4 (2 ^ 53 - 1) 0 ∧ ¬ IsRnd (4 * 2 ^ 53 - 3) 4 (2 ^ 52) 1 := by
  decide +kernel

end Spine.Rnd
