/-! Prototype: IEEE-754 round-to-nearest-even to 53 bits as a *relation* on integers -/
namespace Spine.Rnd

/-- `m * 2^e` is the binary64 nearest to `n / d` (ties to even), `n, d > 0`, normal range:
    cross-multiplied so that only natural numbers occur. `lo`/`hi` scale numerator and denominator
    by the power of two of the exponent. -/
def IsRnd (n d m : Nat) (e : Int) : Prop :=
  let N := n * 2 ^ (-e).toNat        -- numerator, scaled when e < 0
  let D := d * 2 ^ e.toNat           -- denominator, scaled when e ≥ 0
  2 ^ 52 ≤ m ∧ m < 2 ^ 53 ∧
  -- |m * D - N| * 2 ≤ D, and on a tie m is even
  (2 * (m * D) ≤ 2 * N + D) ∧ (2 * N ≤ 2 * (m * D) + D) ∧
  ((2 * (m * D) = 2 * N + D ∨ 2 * N = 2 * (m * D) + D) → m % 2 = 0)

instance (n d m : Nat) (e : Int) : Decidable (IsRnd n d m e) := by unfold IsRnd; infer_instance

/-- 0.29 parses to 0x3FD28F5C28F5C28F: m = 5224175567749775, e = -54 -/
example : IsRnd 29 100 5224175567749775 (-54) := by decide +kernel

/-- … and 0.29 * 100 rounds to 28.999999999999996 (m = 0x1CFFFFFFFFFFFF, e = -48), whose integer part is 28 -/
example : IsRnd (5224175567749775 * 100) (2 ^ 54) 8162774324609023 (-48) := by decide +kernel
example : 8162774324609023 / 2 ^ 48 = 28 := by decide +kernel

end Spine.Rnd
