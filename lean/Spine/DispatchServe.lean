import Spine.DispatchHist
import Spine.DiscoveryAgree
import Spine.Wedge
/-! C05 "still serves", lifted from one step to ALL histories and to EVERY OTHER peer, and the bridge between the two
    models that describe the lookup of the peer's node-management feature:

    * `Spine.Disc.nmPresent t` — the remote-tree model (C06 / C05 `Wedge`): entity `[0]` of the peer's tree carries
      feature `0`;
    * `Spine.Disp.connected w p` — the dispatch world: the flat feature list of peer `p` holds `([0], 0)`, which is
      exactly the source-feature lookup `srcF` of a node-management datagram.

    `nm_bridge`: under the abstraction relation `Disc.AgreeD` (the one `c06_dispatch_full_agrees` preserves) the two
    coincide. `connected_step`: in the dispatch world the lookup of peer `q` survives every operation of every peer
    except `q`'s own disconnect — no datagram (well-formed or not), registry call, entity removal (also of `[0]`: the
    repaired handler skips it), entity announcement, full announcement, re-announcement or local data change of any
    peer takes it away, provided the announcement set of a peer contains its node management (`FreshNM`).
    Lemma module: nothing a driver imports. -/
namespace Spine.Disp

/-- is this remote feature the peer's node management `([0], 0)` -/
def isNM (f : RF) : Bool := f.ent = nmAddr.1 && f.feat = nmAddr.2

/-- the announcement set of a peer contains its node-management feature -/
def FreshNM (w : W) : Prop := w.fresh.feats.any isNM = true

theorem find_isSome_any (l : List RF) (f : RF → Bool) : (l.find? f).isSome = l.any f := by
  induction l with
  | nil => rfl
  | cons a l ih => simp only [List.find?, List.any]; cases f a <;> simp [ih]

theorem connected_iff_any (w : W) (p : Nat) : connected w p = (w.peers p).feats.any isNM :=
  find_isSome_any _ _

theorem connected_congr (w w' : W) (q : Nat) (h : (w'.peers q).feats = (w.peers q).feats) :
    connected w' q = connected w q := by
  rw [connected_iff_any, connected_iff_any, h]

theorem any_filter_keep (fs : List RF) (keep : RF → Bool) (h : fs.any isNM = true)
    (hk : ∀ f, isNM f = true → keep f = true) : (fs.filter keep).any isNM = true := by
  rw [List.any_eq_true] at h ⊢
  obtain ⟨f, hf, hn⟩ := h
  exact ⟨f, List.mem_filter.mpr ⟨hf, hk f hn⟩, hn⟩

theorem isNM_ent (f : RF) (h : isNM f = true) : f.ent = [0] := by
  simp only [isNM, nmAddr, Bool.and_eq_true] at h
  exact of_decide_eq_true h.1

/-- one operation of any peer keeps the node-management lookup of peer `q`, unless it is `q`'s own disconnect -/
theorem connected_step (w : W) (op : Op) (q : Nat) (hc : connected w q = true) (hF : FreshNM w)
    (hd : ∀ p, op = .drop p → p ≠ q) : connected (step w op).1 q = true := by
  have hany : (w.peers q).feats.any isNM = true := by rw [← connected_iff_any]; exact hc
  cases op with
  | dg p d => show connected (processCmd w p d).1 q = true; rw [connected_congr w _ q ((frame_processCmd w p d).2.2.2 q)]; exact hc
  | call p ctr ack k => show connected (processCall w p ctr ack k).1 q = true; rw [connected_congr w _ q ((frame_processCall w p ctr ack k).2.2 q)]; exact hc
  | entRem p e ctr ack =>
    rw [connected_iff_any]
    simp only [step]
    rw [feats_processEntRem]
    split
    · rename_i h
      simp only [Bool.and_eq_true, decide_eq_true_eq] at h
      obtain ⟨⟨_, hgo⟩, hq⟩ := h
      subst hq
      apply any_filter_keep _ _ hany
      intro f hf
      have he : e ≠ [0] := by
        simp only [remGo, Bool.and_eq_true, decide_eq_true_eq] at hgo
        exact hgo.2
      rw [decide_eq_true_eq, isNM_ent f hf]
      exact fun h => he h.symm
    · exact hany
  | entAdd p e ctr ack =>
    rw [connected_iff_any]
    simp only [step]
    rw [feats_processEntAdd]
    split
    · rename_i h
      simp only [Bool.and_eq_true, decide_eq_true_eq] at h
      obtain ⟨_, hq⟩ := h
      subst hq
      rw [List.any_append, Bool.or_eq_true]
      by_cases he : e = [0]
      · right
        apply any_filter_keep _ _ hF
        intro f hf
        rw [decide_eq_true_eq, isNM_ent f hf, he]
      · left
        apply any_filter_keep _ _ hany
        intro f hf
        rw [decide_eq_true_eq, isNM_ent f hf]
        exact fun h => he h.symm
    · exact hany
  | drop p =>
    have hp : p ≠ q := hd p rfl
    rw [connected_iff_any]
    simp only [step]
    rw [feats_dropPeer]
    rw [if_neg (fun h => hp h.symm)]
    exact hany
  | conn p =>
    rw [connected_iff_any]
    simp only [step, connPeer]
    split
    · rename_i hemp
      simp only [setPeer]
      split
      · exact hF
      · exact hany
    · exact hany
  | setData a fn v => show connected (localSet w a fn v).1 q = true; rw [connected_congr w _ q ((frame_localSet w a fn v).2.2.2 q)]; exact hc
  | reann p ctr ref ack =>
    rw [connected_iff_any]
    simp only [step]
    rw [feats_processReann]
    split
    · exact hF
    · exact hany
  | full p keep ctr ack =>
    rw [connected_iff_any]
    simp only [step]
    rw [feats_processFull]
    split
    · rename_i h
      simp only [Bool.and_eq_true, decide_eq_true_eq] at h
      obtain ⟨_, hq⟩ := h
      subst hq
      rw [List.any_append, Bool.or_eq_true]
      left
      apply any_filter_keep _ _ hany
      intro f hf
      rw [isNM_ent f hf]
      simp [fullRemoved]
    · exact hany

theorem freshNM_step (w : W) (op : Op) (h : FreshNM w) : FreshNM (step w op).1 := by
  unfold FreshNM; rw [(step_frame w op).2]; exact h

/-- … hence any history that does not disconnect `q` keeps it -/
theorem connected_run (ops : List Op) : ∀ (w : W) (q : Nat), connected w q = true → FreshNM w →
    (∀ p, Op.drop p ∈ ops → p ≠ q) → connected (run w ops) q = true := by
  induction ops with
  | nil => intro w q hc _ _; exact hc
  | cons op ops ih =>
    intro w q hc hF hd
    exact ih (step w op).1 q
      (connected_step w op q hc hF (fun p hp => hd p (by rw [hp]; exact List.mem_cons_self)))
      (freshNM_step w op hF) (fun p hp => hd p (List.mem_cons_of_mem _ hp))

/-- the lookup `srcF` of a datagram sent by the peer's node management is the lookup `connected` decides -/
theorem srcF_nm_isSome (w : W) (p : Nat) (d : Dg) (hs : d.src = nmAddr) : (srcF w p d).isSome = connected w p := by
  simp only [srcF, connected, remF, hs]

end Spine.Disp

namespace Spine.Disc

/-- The bridge, as a theorem: if the remote-tree model and the dispatch world describe the same peer (`AgreeD`: the
    same feature numbers at every entity address), then "entity `[0]` of the tree carries feature `0`"
    (`nmPresent`, the invariant `c05_nm_present` proves under every discovery message) is "the dispatch world finds
    the source feature of the peer's node-management datagrams" (`Disp.connected`, the hypothesis of
    `c05_still_serves`). -/
theorem nm_bridge (t : Tree) (w : Disp.W) (p : Nat) (hA : AgreeD t (w.peers p).feats) :
    nmPresent t = Disp.connected w p := by
  rw [Disp.connected_iff_any, Bool.eq_iff_iff]
  have key : nmPresent t = true ↔ 0 ∈ idsAt t [0] := by
    unfold nmPresent idsAt
    cases findE t [0] with
    | none => simp
    | some e => simp [List.any_eq_true, List.mem_map]
  rw [key, hA [0] 0, mem_dispAt, List.any_eq_true]
  constructor
  · rintro ⟨f, hf, he, hi⟩
    exact ⟨f, hf, by simp [Disp.isNM, Disp.nmAddr, he, hi]⟩
  · rintro ⟨f, hf, hn⟩
    simp only [Disp.isNM, Disp.nmAddr, Bool.and_eq_true] at hn
    exact ⟨f, hf, of_decide_eq_true hn.1, of_decide_eq_true hn.2⟩

end Spine.Disc
