import Spine.Rob
import Spine.RobEv
open Spine Spine.Rob

/-! Line-protocol driver of `Spine.Rob.handle` (C05: header layer + discovery layer + request-body layer).

    Arguments: the repairs the harness probed in the tree under test, any of
      header     `addr filter pmo noresonres`
      discovery  `devinfo descr emptyaddr unktype fnnil perentry keep0`
      requests   `body fba errtxt sft clientaddr`
    Ops: `cfg`, `reset`, and
      `dg src=B dst=B cls=C ref=B mc=B cmds=N fwc=B rd=B en=B srck=B dstk=B resp=B known=ADDRS BODY`
        C     = none|read|reply|notify|write|call|result|other        B = 0|1
        ADDRS = `-` or addresses separated by `;`, an address = numbers separated by `.`
        BODY  = `quiet` | `outside`
              | `reply di=B dd=B ents=ENTS feats=FEATS` | `notify part=B di=B dd=B ents=ENTS feats=FEATS`
              | `call kind=subreq|subdel|bindreq|binddel body=B sa=B sf=B sft=B sok=B bound=B ca=B cf=B dk=B`
        ENTS  = `-` or entries separated by `|`, an entry = `d,a,ENT,t,CHG,mm`  (ENT = N nil | E empty | 1.2;  CHG = -|a|r|o)
        FEATS = `-` or elements separated by `|`, an element = `d,a,ENT,FEAT,FT,role,FNS`
                (FEAT = N | number; FT = N|k|u; FNS = `-` or pairs `fo` separated by `+`, f = function present, o = possibleOperations present)
      `shapes`   the event-shape table: `kind=DEFL` (device, entity, feature, localFeature bits) separated by `;`
      `ev late=B src=ENT:N tree=TREE reply di=B dd=B ents=ENTS feats=FEATS`     (TREE = entities `ENT:FEATIDS` separated by
      `ev late=B src=ENT:N tree=TREE notify part=B di=B dd=B ents=ENTS feats=FEATS`   `;`, FEATIDS = `-` or numbers separated by `.`)
                 the events the arrival publishes: `kind,ENTITY|-,featurePresent` separated by `|`, `-` for none
    Answers: `ok` | `outside` | `panic:<file>:<function>` | event list | `bad-op`. -/

def b (s : String) : Option Bool := if s = "1" then some true else if s = "0" then some false else none

def kv (key : String) (tok : String) : Option String :=
  match tok.splitOn "=" with
  | [k, v] => if k = key then some v else none
  | _ => none

def kvb (key tok : String) : Option Bool := (kv key tok).bind b

def nats (s : String) : Option (List Nat) := (s.splitOn ".").mapM String.toNat?

def addrOpt (s : String) : Option (Option (List Nat)) :=
  if s = "N" then some none else if s = "E" then some (some []) else (nats s).map some

def listOf {α : Type} (sep : String) (f : String → Option α) (s : String) : Option (List α) :=
  if s = "-" then some [] else (s.splitOn sep).mapM f

def fnOf (s : String) : Option Fn :=
  match s.toList with
  | [f, o] => do
    let f ← b (String.singleton f)
    let o ← b (String.singleton o)
    pure { function := f, ops := o }
  | _ => none

def featOf (s : String) : Option Feat :=
  match s.splitOn "," with
  | [d, a, ent, ft, ty, role, fns] => do
    let d ← b d; let a ← b a; let ent ← addrOpt ent
    let ft ← if ft = "N" then some none else ft.toNat?.map some
    let ty ← if ty = "N" then some none else if ty = "k" then some (some FT.known) else if ty = "u" then some (some FT.unknown) else none
    let role ← b role
    let fns ← listOf "+" fnOf fns
    pure { description := d, featureAddress := a, entity := ent, feature := ft, ftype := ty, role := role, fns := fns }
  | _ => none

def entOf (s : String) : Option Ent :=
  match s.splitOn "," with
  | [d, a, ent, t, chg, mm] => do
    let d ← b d; let a ← b a; let ent ← addrOpt ent; let t ← b t; let mm ← b mm
    let chg ← if chg = "-" then some none else if chg = "a" then some (some Chg.added) else
      if chg = "r" then some (some Chg.removed) else if chg = "o" then some (some Chg.other) else none
    pure { description := d, entityAddress := a, entity := ent, etype := t, chg := chg, devMismatch := mm }
  | _ => none

def payloadOf (di dd ents feats : String) : Option Payload := do
  let di ← kvb "di" di; let dd ← kvb "dd" dd
  let ents ← (kv "ents" ents).bind (listOf "|" entOf)
  let feats ← (kv "feats" feats).bind (listOf "|" featOf)
  pure { deviceInformation := di, deviceDescription := dd, ents := ents, feats := feats }

def kindOf (s : String) : Option RKind :=
  if s = "subreq" then some .subRequest else if s = "subdel" then some .subDelete else
  if s = "bindreq" then some .bindRequest else if s = "binddel" then some .bindDelete else none

def bodyOf (ws : List String) : Option Body :=
  match ws with
  | ["quiet"] => some .quiet
  | ["outside"] => some .outside
  | ["reply", di, dd, ents, feats] => (payloadOf di dd ents feats).map .discReply
  | ["notify", part, di, dd, ents, feats] => do
    let part ← kvb "part" part
    let p ← payloadOf di dd ents feats
    pure (.discNotify part p)
  | ["call", kind, body, sa, sf, sft, sok, bound, ca, cf, dk] => do
    let kind ← (kv "kind" kind).bind kindOf
    let body ← kvb "body" body; let sa ← kvb "sa" sa; let sf ← kvb "sf" sf; let sft ← kvb "sft" sft
    let sok ← kvb "sok" sok; let bound ← kvb "bound" bound; let ca ← kvb "ca" ca; let cf ← kvb "cf" cf
    let dk ← kvb "dk" dk
    pure (.call { kind := kind, body := body, serverAddr := sa, serverFound := sf, sft := sft, serverOk := sok,
                  bound := bound, clientAddr := ca, clientFound := cf, devKnown := dk })
  | _ => none

/-- the header model has no "unknown classifier string": such a classifier is present, is neither reply nor result,
    and is refused by the feature; `call` behaves the same in `Hdr.pre` -/
def clsOf (s : String) : Option (Option Hdr.Cls) :=
  if s = "none" then some none else if s = "read" then some (some .read) else if s = "reply" then some (some .reply) else
  if s = "notify" then some (some .notify) else if s = "write" then some (some .write) else
  if s = "call" then some (some .call) else if s = "result" then some (some .result) else
  if s = "other" then some (some .call) else none

def dgOf (ws : List String) : Option Dgram :=
  match ws with
  | src :: dst :: cls :: ref :: mc :: cmds :: fwc :: rd :: en :: srck :: dstk :: resp :: known :: body => do
    let src ← kvb "src" src; let dst ← kvb "dst" dst
    let cls ← (kv "cls" cls).bind clsOf
    let ref ← kvb "ref" ref; let mc ← kvb "mc" mc
    let cmds ← (kv "cmds" cmds).bind String.toNat?
    let fwc ← kvb "fwc" fwc; let rd ← kvb "rd" rd; let en ← kvb "en" en
    let srck ← kvb "srck" srck; let dstk ← kvb "dstk" dstk; let resp ← kvb "resp" resp
    let known ← (kv "known" known).bind (listOf ";" nats)
    let body ← bodyOf body
    pure { hdr := { src := if src then some ([0], 0) else none, dst := if dst then some ([0], 0) else none, cls := cls,
                    ref := if ref then some 1 else none, msgCounter := mc, cmds := cmds,
                    filterWithoutCmdControl := fwc, resultData := rd, errorNumber := en, srcKnown := srck,
                    dstKnown := dstk, responds := resp },
           known := known, body := body }
  | _ => none

def siteKey : Site → String
  | .replyDeviceInformation => "nodemanagement_detaileddiscovery.go:processReplyDetailedDiscoveryData"
  | .addEntityAndFeatures => "device_remote.go:AddEntityAndFeatures"
  | .newEntity => "entity.go:NewEntity"
  | .unmarshalFeature => "device_remote.go:unmarshalFeature"
  | .createFunctionData => "function_data_factory.go:CreateFunctionData"
  | .setOperations => "feature_remote.go:SetOperations"
  | .subRequestCall => "nodemanagement_subscription.go:handleMsgSubscriptionRequestCall"
  | .subDeleteCall => "nodemanagement_subscription.go:handleMsgSubscriptionDeleteCall"
  | .bindRequestCall => "nodemanagement_binding.go:handleMsgBindingRequestCall"
  | .bindDeleteCall => "nodemanagement_binding.go:handleMsgBindingDeleteCall"
  | .featureByAddressLocal => "device_local.go:FeatureByAddress"
  | .featureByAddressRemote => "device_remote.go:FeatureByAddress"
  | .addSubscription => "subscription_manager.go:AddSubscription"
  | .removeSubscription => "subscription_manager.go:RemoveSubscription"
  | .addBinding => "binding_manager.go:AddBinding"
  | .removeBinding => "binding_manager.go:RemoveBinding"

def hdrKey (site : String) : String :=
  let f := (site.splitOn "(").head!
  if f = "FeatureByAddress" then "device_local.go:FeatureByAddress" else
  if f = "ProcessCmd" then "device_local.go:ProcessCmd" else
  if f = "ExtractFilter" then "commandframe_additions.go:ExtractFilter" else
  if f = "PrintMessageOverview" then "datagram_additions.go:PrintMessageOverview" else f

def showRes : Res → String
  | .panicHdr s => "panic:" ++ hdrKey s
  | .panic s => "panic:" ++ siteKey s
  | .ok => "ok"
  | .outside => "outside"

def b2s (x : Bool) : String := if x then "1" else "0"

def kindName : EvKind → String
  | .deviceAdd => "deviceAdd" | .entityAdd => "entityAdd" | .entityRemove => "entityRemove"
  | .subscriptionAdd => "subscriptionAdd" | .subscriptionRemove => "subscriptionRemove"
  | .bindingAdd => "bindingAdd" | .bindingRemove => "bindingRemove"
  | .dataUpdate => "dataUpdate" | .dataUpdateNM => "dataUpdateNM"

def allKinds : List EvKind :=
  [.deviceAdd, .entityAdd, .entityRemove, .subscriptionAdd, .subscriptionRemove, .bindingAdd, .bindingRemove, .dataUpdate, .dataUpdateNM]

def shapeStr (s : Shape) : String := b2s s.device ++ b2s s.entity ++ b2s s.feature ++ b2s s.localFeature

def showAddr (l : List Nat) : String := ".".intercalate (l.map toString)

def showEv (e : Ev) : String :=
  kindName e.kind ++ "," ++ (match e.entity with | some l => showAddr l | none => "-") ++ "," ++ b2s e.feature.isSome

def showEvs (l : List Ev) : String := if l.isEmpty then "-" else "|".intercalate (l.map showEv)

def treeEnt (s : String) : Option (List Nat × List Nat) :=
  match s.splitOn ":" with
  | [a, fs] => do
    let a ← nats a
    let fs ← if fs = "-" then some [] else nats fs
    pure (a, fs)
  | _ => none

def srcOf (s : String) : Option (List Nat × Nat) :=
  match s.splitOn ":" with
  | [a, f] => do
    let a ← nats a
    let f ← f.toNat?
    pure (a, f)
  | _ => none

def evOf (ws : List String) : Option String :=
  match ws with
  | late :: src :: tree :: rest => do
    let late ← kvb "late" late
    let src ← (kv "src" src).bind srcOf
    let tree ← (kv "tree" tree).bind (listOf ";" treeEnt)
    match rest with
    | ["reply", di, dd, ents, feats] => do
      let p ← payloadOf di dd ents feats
      pure (showEvs (replyEvents late tree src p))
    | ["notify", part, di, dd, ents, feats] => do
      let part ← kvb "part" part
      let p ← payloadOf di dd ents feats
      pure (showEvs (if part then notifyPartialEvents tree p else notifyFullEvents tree p))
    | _ => none
  | _ => none

structure Cfgs where
  hc : Hdr.Cfg
  dc : DCfg
  rc : RCfg

def answer (c : Cfgs) (ws : List String) : String :=
  match ws with
  | ["cfg"] =>
    s!"addr={b2s c.hc.addr} filter={b2s c.hc.filter} pmo={b2s c.hc.pmo} noresonres={b2s c.hc.noResOnRes} " ++
    s!"devinfo={b2s c.dc.devInfo} descr={b2s c.dc.descr} emptyaddr={b2s c.dc.emptyAddr} unktype={b2s c.dc.unkType} " ++
    s!"fnnil={b2s c.dc.fnNil} perentry={b2s c.dc.perEntry} keep0={b2s c.dc.keep0} " ++
    s!"body={b2s c.rc.body} fba={b2s c.rc.fba} errtxt={b2s c.rc.errTxt} sft={b2s c.rc.sft} clientaddr={b2s c.rc.clientAddr}"
  | ["reset"] => "ok"
  | ["shapes"] => ";".intercalate (allKinds.map fun k => kindName k ++ "=" ++ shapeStr (shapeOf k))
  | "ev" :: rest => (evOf rest).getD "bad-op"
  | "dg" :: rest =>
    match dgOf rest with
    | some d => showRes (handle c.hc c.dc c.rc d)
    | none => "bad-op"
  | _ => "bad-op"

partial def loop (h : IO.FS.Stream) (c : Cfgs) : IO Unit := do
  let line ← h.getLine
  if line.isEmpty then return ()
  let ws := (line.trimAscii.toString.splitOn " ").filter (· ≠ "")
  IO.println (answer c ws)
  (← IO.getStdout).flush
  loop h c

def main (args : List String) : IO Unit := do
  let has := fun (s : String) => args.contains s
  let c : Cfgs := {
    hc := { addr := has "addr", filter := has "filter", pmo := has "pmo", noResOnRes := has "noresonres" },
    dc := { devInfo := has "devinfo", descr := has "descr", emptyAddr := has "emptyaddr", unkType := has "unktype",
            fnNil := has "fnnil", perEntry := has "perentry", keep0 := has "keep0" },
    rc := { body := has "body", fba := has "fba", errTxt := has "errtxt", sft := has "sft", clientAddr := has "clientaddr" } }
  loop (← IO.getStdin) c
