import Spine.Json
import Spine.SchemaLookup
import Spine.PeriodJson
open Spine.Json Spine.Generated
/-! Line protocol for the schema-directed JSON model `Spine.Json` over the regenerated schema (C18).

    Values and JSON trees travel in prefix notation, tokens separated by one blank:
      V:  n | S<hex of UTF-8> | N<int> | T | F | P v | L<k> v…  | R<k> v…          (nil, string, number, bool, some, list, struct)
      J:  z | S<hex> | N<int> | T | F | A<k> j… | O<k> (K<hex of key> j)…           (null, …, array, object)

    enc  <GoType> <V>   encode with the type's schema           → J       (`untyped` if the value does not fit)
    dec  <GoType> <J>   decode                                  → V | none
    norm <GoType> <V>   normal form                             → V
    wf   <GoType>       the schema's side condition             → 1 | 0
    tp <now> <now'> <start> <end>   TimePeriodType's own JSON (Spine.PeriodJson): classes - | j | r<secs> | a<secs>
                        → "enc <start> <end> dec <start> <end>"  (on the wire when encoded at now; decoded at now')
-/

def hexVal (c : Char) : Nat :=
  if '0' ≤ c ∧ c ≤ '9' then c.toNat - 48
  else if 'a' ≤ c ∧ c ≤ 'f' then c.toNat - 87
  else if 'A' ≤ c ∧ c ≤ 'F' then c.toNat - 55 else 0

def hexToBytes (s : String) : ByteArray := Id.run do
  let cs := s.toList.toArray
  let mut out := ByteArray.empty
  let mut i := 0
  while i + 1 < cs.size do
    out := out.push (UInt8.ofNat (hexVal cs[i]! * 16 + hexVal cs[i+1]!))
    i := i + 2
  return out

def hexToString (s : String) : String :=
  match String.fromUTF8? (hexToBytes s) with
  | some r => r
  | none => "�"

def hexToKey (s : String) : Key := s.toList.foldl (fun acc c => acc * 16 + hexVal c) 0

def hexDigit (n : Nat) : Char := if n < 10 then Char.ofNat (48 + n) else Char.ofNat (87 + n)

def bytesToHex (b : ByteArray) : String :=
  String.ofList (b.toList.flatMap fun x => [hexDigit (x.toNat / 16), hexDigit (x.toNat % 16)])

def stringToHex (s : String) : String := bytesToHex s.toUTF8

def keyToHex (k : Key) : String := bytesToHex (ByteArray.mk (keyBytes (k + 1) k []).toArray)

partial def showV : V → String
  | .nil => "n"
  | .str s => "S" ++ stringToHex s
  | .num n => "N" ++ toString n
  | .bool b => if b then "T" else "F"
  | .some v => "P " ++ showV v
  | .list vs => " ".intercalate (s!"L{vs.length}" :: vs.map showV)
  | .strct vs => " ".intercalate (s!"R{vs.length}" :: vs.map showV)

partial def showJ : J → String
  | .null => "z"
  | .str s => "S" ++ stringToHex s
  | .num n => "N" ++ toString n
  | .bool b => if b then "T" else "F"
  | .arr xs => " ".intercalate (s!"A{xs.length}" :: xs.map showJ)
  | .obj kvs => " ".intercalate (s!"O{kvs.length}" :: kvs.map fun p => "K" ++ keyToHex p.1 ++ " " ++ showJ p.2)

mutual
partial def parseV : List String → Option (V × List String)
  | [] => none
  | t :: rest =>
    if t == "n" then some (.nil, rest)
    else if t == "T" then some (.bool true, rest)
    else if t == "F" then some (.bool false, rest)
    else if t == "P" then (parseV rest).map fun (v, r) => (.some v, r)
    else match t.toList with
      | 'S' :: h => some (.str (hexToString (String.ofList h)), rest)
      | 'N' :: d => (String.ofList d).toInt?.map fun n => (.num n, rest)
      | 'L' :: d => (String.ofList d).toNat?.bind fun k => (parseVs k rest).map fun (vs, r) => (.list vs, r)
      | 'R' :: d => (String.ofList d).toNat?.bind fun k => (parseVs k rest).map fun (vs, r) => (.strct vs, r)
      | _ => none
partial def parseVs : Nat → List String → Option (List V × List String)
  | 0, ts => some ([], ts)
  | k + 1, ts => (parseV ts).bind fun (v, r) => (parseVs k r).map fun (vs, r') => (v :: vs, r')
end

mutual
partial def parseJ : List String → Option (J × List String)
  | [] => none
  | t :: rest =>
    if t == "z" then some (.null, rest)
    else if t == "T" then some (.bool true, rest)
    else if t == "F" then some (.bool false, rest)
    else match t.toList with
      | 'S' :: h => some (.str (hexToString (String.ofList h)), rest)
      | 'N' :: d => (String.ofList d).toInt?.map fun n => (.num n, rest)
      | 'A' :: d => (String.ofList d).toNat?.bind fun k => (parseJs k rest).map fun (xs, r) => (.arr xs, r)
      | 'O' :: d => (String.ofList d).toNat?.bind fun k => (parseKVs k rest).map fun (kvs, r) => (.obj kvs, r)
      | _ => none
partial def parseJs : Nat → List String → Option (List J × List String)
  | 0, ts => some ([], ts)
  | k + 1, ts => (parseJ ts).bind fun (v, r) => (parseJs k r).map fun (vs, r') => (v :: vs, r')
partial def parseKVs : Nat → List String → Option (List (Key × J) × List String)
  | 0, ts => some ([], ts)
  | k + 1, ts => match ts with
    | kt :: r0 => (match kt.toList with
      | 'K' :: h => (parseJ r0).bind fun (v, r) => (parseKVs k r).map fun (vs, r') => ((hexToKey (String.ofList h), v) :: vs, r')
      | _ => none)
    | [] => none
end

def parseTV (s : String) : Option (Option Spine.PeriodJson.TV) :=
  if s == "-" then some none
  else if s == "j" then some (some .junk)
  else match s.toList with
    | 'r' :: d => (String.ofList d).toInt?.map fun n => some (.rel n)
    | 'a' :: d => (String.ofList d).toInt?.map fun n => some (.abs n)
    | _ => none

def showTV : Option Spine.PeriodJson.TV → String
  | none => "-"
  | some .junk => "j"
  | some (.rel d) => s!"r{d}"
  | some (.abs t) => s!"a{t}"

def answer (toks : List String) : String :=
  match toks with
  | ["tp", n, n', s, e] =>
    (match n.toInt?, n'.toInt?, parseTV s, parseTV e with
     | some n, some n', some s, some e =>
       let w := Spine.PeriodJson.marshal n ⟨s, e⟩
       let r := Spine.PeriodJson.unmarshal n' w
       s!"enc {showTV w.start} {showTV w.stop} dec {showTV r.start} {showTV r.stop}"
     | _, _, _, _ => "bad-op")
  | "enc" :: ty :: rest =>
    (match schemaTy? (keyOfString ty), parseV rest with
     | some t, some (v, []) => if typed t v then showJ (encode t v) else "untyped"
     | none, _ => "unknown-type"
     | _, _ => "bad-op")
  | "dec" :: ty :: rest =>
    (match schemaTy? (keyOfString ty), parseJ rest with
     | some t, some (j, []) => (match decode t j with | some v => showV v | none => "none")
     | none, _ => "unknown-type"
     | _, _ => "bad-op")
  | "norm" :: ty :: rest =>
    (match schemaTy? (keyOfString ty), parseV rest with
     | some t, some (v, []) => showV (norm t v)
     | none, _ => "unknown-type"
     | _, _ => "bad-op")
  | ["wf", ty] =>
    (match schemaTy? (keyOfString ty) with
     | some t => if wf t then "1" else "0"
     | none => "unknown-type")
  | ["types"] => toString schema.length
  | ["reset"] => "reset"
  | _ => "bad-op"

partial def loop (h out : IO.FS.Stream) : IO Unit := do
  let line ← h.getLine
  if line.isEmpty then out.flush; return ()
  out.putStrLn (answer (line.trimAscii.toString.splitOn " "))
  out.flush
  loop h out

def main : IO Unit := do loop (← IO.getStdin) (← IO.getStdout)
