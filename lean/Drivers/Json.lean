import Spine.Json
import Spine.SchemaLookup
import Spine.PeriodJson
import Spine.JsonText
open Spine.Json Spine.Generated
/-! Line protocol for the schema-directed JSON model `Spine.Json` over the regenerated schema (C18).

    Values and JSON trees travel in prefix notation, tokens separated by one blank:
      V:  n | S<hex of UTF-8> | N<int> | T | F | P v | L<k> v…  | R<k> v…          (nil, string, number, bool, some, list, struct)
      J:  z | S<hex> | N<int> | T | F | A<k> j… | O<k> (K<hex of key> j)…           (null, …, array, object)

    enc  <GoType> <V>   encode with the type's schema           → J       (`untyped` if the value does not fit)
    dec  <GoType> <J>   decode                                  → V | none
    norm <GoType> <V>   normal form                             → V
    wf   <GoType>       the schema's side condition             → 1 | 0
    tp <now> <now'> <start> <end>   TimePeriodType's own JSON (Spine.PeriodJson): classes - | j | r<secs> | a<secs>
                        → "enc <start> <end> dec <start> <end>"  (on the wire when encoded at now; decoded at now')
-/

def parseTV (s : String) : Option (Option Spine.PeriodJson.TV) :=
  if s == "-" then some none
  else if s == "j" then some (some .junk)
  else match s.toList with
    | 'r' :: d => (String.ofList d).toInt?.map fun n => some (.rel n)
    | 'a' :: d => (String.ofList d).toInt?.map fun n => some (.abs n)
    | _ => none

def showTV : Option Spine.PeriodJson.TV → String
  | none => "-"
  | some .junk => "j"
  | some (.rel d) => s!"r{d}"
  | some (.abs t) => s!"a{t}"

def answer (toks : List String) : String :=
  match toks with
  | ["tp", n, n', s, e] =>
    (match n.toInt?, n'.toInt?, parseTV s, parseTV e with
     | some n, some n', some s, some e =>
       let w := Spine.PeriodJson.marshal n ⟨s, e⟩
       let r := Spine.PeriodJson.unmarshal n' w
       s!"enc {showTV w.start} {showTV w.stop} dec {showTV r.start} {showTV r.stop}"
     | _, _, _, _ => "bad-op")
  | "enc" :: ty :: rest =>
    (match schemaTy? (keyOfString ty), parseV rest with
     | some t, some (v, []) => if typed t v then showJ (encode t v) else "untyped"
     | none, _ => "unknown-type"
     | _, _ => "bad-op")
  | "dec" :: ty :: rest =>
    (match schemaTy? (keyOfString ty), parseJ rest with
     | some t, some (j, []) => (match decode t j with | some v => showV v | none => "none")
     | none, _ => "unknown-type"
     | _, _ => "bad-op")
  | "norm" :: ty :: rest =>
    (match schemaTy? (keyOfString ty), parseV rest with
     | some t, some (v, []) => showV (norm t v)
     | none, _ => "unknown-type"
     | _, _ => "bad-op")
  | ["wf", ty] =>
    (match schemaTy? (keyOfString ty) with
     | some t => if wf t then "1" else "0"
     | none => "unknown-type")
  | ["types"] => toString schema.length
  | ["reset"] => "reset"
  | _ => "bad-op"

partial def loop (h out : IO.FS.Stream) : IO Unit := do
  let line ← h.getLine
  if line.isEmpty then out.flush; return ()
  out.putStrLn (answer (line.trimAscii.toString.splitOn " "))
  out.flush
  loop h out

def main : IO Unit := do loop (← IO.getStdin) (← IO.getStdout)
