import Drivers.RegWorld
import Spine.Teardown
open Spine
/-! Line protocol for the composed teardown model (C10). One op per line, one answer per line.
    `cfg a b c d t e` (0/1 each): the four registry flags, timersSurvive, entityKeepsApprovals.
    `peers n` resets the world with peers 1..n connected. -/

def showTargets (l : List (Nat × List Nat × Nat)) : String := toString (l.map fun (p, e, f) => s!"{p}:{showEnt e}/{f}")

def tdInit (n : Nat) : Td.St :=
  { reg := init, alive := (List.range n).map (· + 1), writable := writable, approval := [([1], 1), ([1], 2)],
    approval2 := [([1], 1)], tree := remoteFeats }

def showFired (s : Td.St) : String :=
  let l := (Td.fired s).map fun x => s!"{x.peer}:{x.ctr}" ++ (if s.alive.contains x.peer then "" else "!")
  if l.isEmpty then "." else " ".intercalate l

def regAnswer (c : Td.Cfg) (s : Td.St) (op : Reg.Op) (res : Reg.St → String) : Td.St × String :=
  if s.alive.contains (Td.regPeer op) then
    let s' := Td.step c s (.reg op)
    (s', res s'.reg)
  else (s, "none")

def answer (c : Td.Cfg) (s : Td.St) (ws : List String) : Td.Cfg × Td.St × String :=
  match ws with
  | ["sub", p, ce, cf, se, sf, t] => match nats [p, cf, sf, t] with
    | some [p, cf, sf, t] =>
      let r := (Reg.addSub s.reg p (parseEnt ce) cf (parseEnt se) sf t).2
      let (s', a) := regAnswer c s (.sub p (parseEnt ce) cf (parseEnt se) sf t) (fun _ => b r); (c, s', a)
    | _ => (c, s, "bad-op")
  | ["unsub", p, cd, ce, cf, se, sf] => match nats [p, cd, cf, sf] with
    | some [p, cd, cf, sf] =>
      let r := (Reg.delSub c.reg s.reg p cd (parseEnt ce) cf (parseEnt se) sf).2
      let (s', a) := regAnswer c s (.unsub p cd (parseEnt ce) cf (parseEnt se) sf) (fun _ => b r); (c, s', a)
    | _ => (c, s, "bad-op")
  | ["bind", p, ce, cf, se, sf, t] => match nats [p, cf, sf, t] with
    | some [p, cf, sf, t] =>
      let r := (Reg.addBind s.reg p (parseEnt ce) cf (parseEnt se) sf t).2
      let (s', a) := regAnswer c s (.bind p (parseEnt ce) cf (parseEnt se) sf t) (fun _ => b r); (c, s', a)
    | _ => (c, s, "bad-op")
  | ["unbind", p, cd, ce, cf, se, sf] => match nats [p, cd, cf, sf] with
    | some [p, cd, cf, sf] =>
      let r := (Reg.delBind c.reg s.reg p cd (parseEnt ce) cf (parseEnt se) sf).2
      let (s', a) := regAnswer c s (.unbind p cd (parseEnt ce) cf (parseEnt se) sf) (fun _ => b r); (c, s', a)
    | _ => (c, s, "bad-op")
  | ["wr", p, ce, cf, se, sf, w, k] => match nats [p, cf, sf, w] with
    | some [p, cf, sf, w] =>
      let (s', a) := Td.write s p (parseEnt ce) cf (parseEnt se) sf w (k == "S")
      -- an applied write is notified to the subscribers of the server feature
      (c, s', if a == "applied" then "applied " ++ showTargets (Reg.notifyTargets s.reg (parseEnt se) sf) else a)
    | _ => (c, s, "bad-op")
  | ["subspass", p, e] => match p.toNat? with
    | some p => (c, { s with reg := Reg.subsPass s.reg p (parseEnt e) }, "done")
    | none => (c, s, "bad-op")
  | ["bindspass", p, e] => match p.toNat? with
    | some p => (c, { s with reg := Reg.bindsPass c.reg s.reg p (parseEnt e) }, "done")
    | none => (c, s, "bad-op")
  | ["csub", p, e] => match p.toNat? with
    | some p => let (s', a) := Td.clientAdd s false p (parseEnt e) 4; (c, s', a)
    | none => (c, s, "bad-op")
  | ["cbind", p, e] => match p.toNat? with
    | some p => let (s', a) := Td.clientAdd s true p (parseEnt e) 4; (c, s', a)
    | none => (c, s, "bad-op")
  | [v, p, w] =>
    if v == "approve" || v == "deny" then
      match nats [p, w] with
      | some [p, w] =>
        let x := s.pend.find? (Td.isW p w)
        let (s', a) := Td.verdict s p w (v == "approve")
        let tg := match x with
          | some x => showTargets (Reg.notifyTargets s.reg x.sEnt x.sFeat)
          | none => ""
        (c, s', if a == "applied" then "applied " ++ tg else a)
      | _ => (c, s, "bad-op")
    else if v == "dropent" then
      match p.toNat? with
      -- the device information entity [0] is kept, every other listed entity goes with the full cascade
      | some p => (c, (parseEnts w).foldl (fun s e => Td.removeEntity c s p e) s, "done")
      | none => (c, s, "bad-op")
    else if v == "bareent" then
      match p.toNat? with
      | some p => (c, { s with reg := Reg.bareEntity s.reg p (parseEnt w) }, "done")
      | none => (c, s, "bad-op")
    else if v == "addent" then
      match p.toNat? with
      | some p => (c, { s with reg := addEntity s.reg p (parseEnt w) }, "done")
      | none => (c, s, "bad-op")
    else if v == "notify" then
      match w.toNat? with
      | some sf => (c, s, showTargets (Reg.notifyTargets s.reg (parseEnt p) sf))
      | none => (c, s, "bad-op")
    else (c, s, "bad-op")
  | ["late", p] => match p.toNat? with
    | some p => (c, { s with late := p :: s.late }, "done")
    | none => (c, s, "bad-op")
  | ["discover", p] => match p.toNat? with
    | some p => (c, { s with late := s.late.filter (· ≠ p) }, "done")
    | none => (c, s, "bad-op")
  | ["fire"] => (c, Td.fire s, showFired s)
  | ["chas", p] => match p.toNat? with
    -- the local client's bookkeeping for the servers [1]/4 and [1,1]/4 of peer p, and node management's subscription
    | some p =>
      let has (l : List Td.Book) (e : List Nat) := if l.any (fun x => x.peer = p && x.ent = e && x.feat = 4) then "1" else "0"
      (c, s, s!"{has s.csubs [1]} {has s.cbinds [1]} {has s.csubs [1, 1]} {has s.cbinds [1, 1]} {if s.alive.contains p && !s.late.contains p then "1" else "0"}")
    | none => (c, s, "bad-op")
  | ["drop", p] => match p.toNat? with
    | some p => (c, Td.drop c s p, "done")
    | none => (c, s, "bad-op")
  | ["resolve", p] => match p.toNat? with
    -- by SKI and by device address (the latter is known from the discovery reply on)
    | some p => (c, s, if s.alive.contains p && !s.late.contains p then "1" else "0")
    | none => (c, s, "bad-op")
  | ["read", p] => match p.toNat? with
    -- the reading client feature [1]/1 of peer p must still be announced
    | some p => (c, s, if s.alive.contains p && (Reg.findF (s.reg.rem p) [1] 1).isSome then "reply" else "none")
    | none => (c, s, "bad-op")
  | ["subs", p] => match p.toNat? with
    | some p => (c, s, showL (Reg.subsOf s.reg p))
    | none => (c, s, "bad-op")
  | ["binds", p] => match p.toNat? with
    | some p => (c, s, showL (Reg.bindsOf s.reg p))
    | none => (c, s, "bad-op")
  | ["cfg", a, b', c', d, t, e, y] => match nats [a, b', c', d, t, e, y] with
    | some [a, b', c', d, t, e, y] =>
      ({ reg := { delSubByDevice := bit a, delBindByDevice := bit b', unbindDisjunct := bit c', dropBindsAnyPeer := bit d },
         timersSurvive := bit t, entityKeepsApprovals := bit e, tallySurvivesDrop := bit y }, s, "cfg")
    | _ => (c, s, "bad-op")
  | ["reconnect", p] => match p.toNat? with
    | some p => (c, Td.reconnect s p, "done")
    | none => (c, s, "bad-op")
  | ["peers", n] => match n.toNat? with
    | some n => (c, tdInit n, "reset")
    | none => (c, s, "bad-op")
  | _ => (c, s, "bad-op")

/-- `save` / `restore`: one slot for the state, so that the harness can ask for both orders of two operations -/
partial def loop (h out : IO.FS.Stream) (c : Td.Cfg) (s saved : Td.St) : IO Unit := do
  let line ← h.getLine
  if line.isEmpty then out.flush; return ()
  let ws := stripDecor ((line.trimAscii.toString.splitOn " ").filter (· ≠ ""))
  if ws == ["save"] then
    out.putStrLn "saved"; out.flush
    loop h out c s s
  else if ws == ["restore"] then
    out.putStrLn "restored"; out.flush
    loop h out c saved saved
  else
    let (c', s', ans) := answer c s ws
    out.putStrLn ans
    out.flush
    loop h out c' s' saved

def main : IO Unit := do loop (← IO.getStdin) (← IO.getStdout) {} (tdInit 2) (tdInit 2)
