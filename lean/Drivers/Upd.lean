import Spine.Update
import Spine.Store
import Spine.StoreF
import Spine.SpecKV
import Spine.C02Tables
/-! Line-protocol driver of the update engine model (`Spine.updateList`, `Spine.updateStore`) and of the
    Lean twin of the SPEC (`Spine.SpecKV`).

    shape n=<fields> keys=<i:kind,…|.> flag=<i|-> selmap=<i|-,…|.> eln=<n> elmap=<i|-,…|.>   → shape-ok
    upd r=<0|1> p=<0|1> old=<items> new=<items> fp=<filter> fd=<filter>
        → ok=<0|1> out=<items> store=<items> inplace=<items>   |  panic <site>
    store r=… p=… old=… new=… fp=… fd=…   → ok=<0|1> store=<items> | panic <site>     (spine.FunctionData.UpdateData)
    kv old=<items> new=<items> fp=<filter> fd=<filter>
        → na <reason> | kv <items>          (Spec.KV.apply on well-formed input, as a key-ordered list)
    cfg <mergeStrict> <selNilPanics> <emptySelPanics> <inplaceAltersFlag> [<deleteStrict>]  (0|1 each) → cfg-ok
        selects the member of the engine family (`Spine.UpdateF`); default = all 1 = the code as written
        (`updateListF_asWritten`); the harness probes the flags on the tree under test
    reset → reset (forgets the shape, keeps the member)
    selfacts <structDeep>  (0|1) → selfacts-ok
        how `SelectorMatch` of the tree compares struct-typed selector values (1 = deeply); together with
        `selNilPanics` of `cfg` this is `Tables.SelFacts`; default 0 = the code as written. Send `cfg` and `selfacts`
        BEFORE `shape`: a typed shape line is resolved with the flags known when it arrives.
    shape n=… keys=… flag=… selidx=<i|-,…|.> seltypes=<t,…|.> eln=… elmap=…   → shape-ok     (typed form)
        selidx = item field of the same name per selector field, seltypes = ignored|scalar|othertype|nonptr|struct|
        structnc per selector field (type facts of the data model); the model's selMap is
        `Tables.selMapFor ⟨selNilPanics, structDeep⟩ n selidx seltypes`.
    selmap? → selmap <i|-,…|.>   the model's selMap of the current shape

    items: `.` = empty list, `;` between items, `,` between fields, `-` = absent field.
    filter: `N` = nil, `E` = present without selector and elements, `F:<sel|N>:<el|N>`. -/
open Spine

def parseOpt (s : String) : Option Nat := if s == "-" then none else s.toNat?
def parseItem (s : String) : Item := if s == "" then [] else (s.splitOn ",").map parseOpt
def parseList (s : String) : List Item := if s == "." then [] else (s.splitOn ";").map parseItem
def parseOptItem (s : String) : Option Item := if s == "N" then none else some (parseItem s)
def showOpt : Option Nat → String | none => "-" | some n => toString n
def showItem (it : Item) : String := ",".intercalate (it.map showOpt)
def showList (l : List Item) : String := if l.isEmpty then "." else ";".intercalate (l.map showItem)

/-- `none` = malformed token -/
def parseFilter (s : String) : Option (Option Filter) :=
  if s == "N" || s == "E" || s == "F:N:N" then some none else
  match s.splitOn ":" with
  | ["F", sel, el] => some (some { sel := parseOptItem sel, el := parseOptItem el })
  | _ => none

def parseIdxList (s : String) : List (Option Nat) := if s == "." then [] else (s.splitOn ",").map parseOpt

def parseKind (s : String) : Option KeyKind :=
  if s == "uint" then some .uint else if s == "str" then some .str else if s == "struct" then some .struct else none

def parseKeys (s : String) : Option (List (Nat × KeyKind)) :=
  if s == "." then some [] else
  (s.splitOn ",").mapM fun p => match p.splitOn ":" with
    | [i, k] => do let i ← i.toNat?; let k ← parseKind k; pure (i, k)
    | _ => none

/-- value of a `key=value` token with the expected key -/
def arg (key tok : String) : Option String :=
  let pre := key ++ "="
  if tok.startsWith pre then some ((tok.drop pre.length).toString) else none

def parseShape : List String → Option Shape
  | [n, keys, flag, selmap, eln, elmap] => do
    let n ← (← arg "n" n).toNat?
    let keys ← parseKeys (← arg "keys" keys)
    let flag ← arg "flag" flag
    let selmap ← arg "selmap" selmap
    let eln ← (← arg "eln" eln).toNat?
    let elmap ← arg "elmap" elmap
    pure { n := n, keys := keys, flag := parseOpt flag, selMap := parseIdxList selmap, elN := eln, elMap := parseIdxList elmap }
  | _ => none

def parseSelType (s : String) : Option Tables.SelType :=
  match s with
  | "ignored" => some .ignored | "scalar" => some .scalar | "othertype" => some .othertype
  | "nonptr" => some .nonptr | "struct" => some .struct | "structnc" => some .structnc
  | _ => none

def parseSelTypes (s : String) : Option (List Tables.SelType) :=
  if s == "." then some [] else (s.splitOn ",").mapM parseSelType

/-- the typed shape line: selector fields by type facts, resolved to the model's selMap with the probed facts -/
def parseShapeT (f : Tables.SelFacts) : List String → Option Shape
  | [n, keys, flag, selidx, seltypes, eln, elmap] => do
    let n ← (← arg "n" n).toNat?
    let keys ← parseKeys (← arg "keys" keys)
    let flag ← arg "flag" flag
    let selidx ← arg "selidx" selidx
    let tys ← parseSelTypes (← arg "seltypes" seltypes)
    let eln ← (← arg "eln" eln).toNat?
    let elmap ← arg "elmap" elmap
    if (parseIdxList selidx).length != tys.length then none else
    pure { n := n, keys := keys, flag := parseOpt flag, selMap := Tables.selMapFor f n (parseIdxList selidx) tys,
           elN := eln, elMap := parseIdxList elmap }
  | _ => none

/-- `structDeep` of `Tables.SelFacts` (op `selfacts`) -/
initialize updStructDeep : IO.Ref Bool ← IO.mkRef false

def doUpd (c : UCfg) (sh : Shape) : List String → Option String
  | [r, p, old, nw, fp, fd] => do
    let r ← arg "r" r; let p ← arg "p" p
    let old ← arg "old" old; let nw ← arg "new" nw
    let fp ← parseFilter (← arg "fp" fp); let fd ← parseFilter (← arg "fd" fd)
    let ex := parseList old
    match updateListF c sh (r == "1") ex (parseList nw) fp fd with
    | .panic s => pure ("panic " ++ s)
    | .ok res =>
      let store := if res.ok && p == "1" then res.out else res.inplace
      pure s!"ok={if res.ok then 1 else 0} out={showList res.out} store={showList store} inplace={showList res.inplace}"
  | _ => none

/-- spine.FunctionData.UpdateData: no filter at all and persisting ⇒ the data is replaced by what was
    received; otherwise the per-type UpdateList (`updateStore`) -/
def doStore (c : UCfg) (sh : Shape) : List String → Option String
  | [r, p, old, nw, fp, fd] => do
    let r ← arg "r" r; let p ← arg "p" p
    let old ← arg "old" old; let nw ← arg "new" nw
    let fpS ← arg "fp" fp; let fdS ← arg "fd" fd
    let fp ← parseFilter fpS; let fd ← parseFilter fdS
    match updateDataF c sh (r == "1") (p == "1") (fpS == "N") (fdS == "N") (parseList old) (parseList nw) fp fd with
    | .panic s => pure ("panic " ++ s)
    | .ok (store, ok) => pure s!"ok={if ok then 1 else 0} store={showList store}"
  | _ => none

def doKV (sh : Shape) : List String → Option String
  | [old, nw, fp, fd] => do
    let old ← arg "old" old; let nw ← arg "new" nw
    let fp ← parseFilter (← arg "fp" fp); let fd ← parseFilter (← arg "fd" fd)
    match SpecKV.applyChecked sh (parseList old) (parseList nw) fp fd with
    | .error why => pure ("na " ++ why)
    | .ok kv => pure ("kv " ++ showList kv)
  | _ => none

partial def loop (inp out : IO.FS.Stream) (c : UCfg) (sh : Option Shape) : IO Unit := do
  let line ← inp.getLine
  if line.isEmpty then out.flush; return ()
  let toks := (line.trimAscii.toString.splitOn " ").filter (· != "")
  if let ["cfg", a, b, d, e] := toks then
    if [a, b, d, e].all (fun x => x == "0" || x == "1") then
      out.putStrLn "cfg-ok"; out.flush
      return ← loop inp out { mergeStrict := a == "1", selNilPanics := b == "1", emptySelPanics := d == "1", inplaceAltersFlag := e == "1" } sh
  if let ["cfg", a, b, d, e, g] := toks then
    if [a, b, d, e, g].all (fun x => x == "0" || x == "1") then
      out.putStrLn "cfg-ok"; out.flush
      return ← loop inp out { mergeStrict := a == "1", selNilPanics := b == "1", emptySelPanics := d == "1", inplaceAltersFlag := e == "1", deleteStrict := g == "1" } sh
  if let ["selfacts", x] := toks then
    if x == "0" || x == "1" then
      updStructDeep.set (x == "1")
      out.putStrLn "selfacts-ok"; out.flush
      return ← loop inp out c sh
  let facts : Tables.SelFacts := ⟨c.selNilPanics, ← updStructDeep.get⟩
  let (sh', ans) : Option Shape × String := match toks with
    | "shape" :: rest => match (parseShape rest).orElse (fun _ => parseShapeT facts rest) with
      | some s => (some s, "shape-ok")
      | none => (sh, "bad-op")
    | ["selmap?"] => match sh with
      | none => (sh, "no-shape")
      | some s => (sh, "selmap " ++ (if s.selMap.isEmpty then "." else ",".intercalate (s.selMap.map showOpt)))
    | "upd" :: rest => match sh with
      | none => (sh, "no-shape")
      | some s => (sh, (doUpd c s rest).getD "bad-op")
    | "store" :: rest => match sh with
      | none => (sh, "no-shape")
      | some s => (sh, (doStore c s rest).getD "bad-op")
    | "kv" :: rest => match sh with
      | none => (sh, "no-shape")
      | some s => (sh, (doKV s rest).getD "bad-op")
    | ["reset"] => (none, "reset")
    | _ => (sh, "bad-op")
  out.putStrLn ans
  out.flush
  loop inp out c sh'

def main : IO Unit := do loop (← IO.getStdin) (← IO.getStdout) .asWritten none
