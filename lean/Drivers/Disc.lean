import Spine.DiscoveryGuard
import Spine.DiscoveryResolve
/-! Line-protocol driver of the C06 model family (`Spine.Disc.World`).
    args (1 = the pinned commit a1767d0, 0 = the repair):
          `whole=0|1`   notification entries handled over the whole message (437adab)
          `bindent=0|1` entity removal drops bindings by entity address only (d78a414)
          `rmdev=0|1`   a removed entry about [0] removes the device-information entity (711ee79)
          `refresh=0|1` a re-announcement of [0] without feature 0 replaces its features (6fceef1)
          With `whole=1` the message must be well formed and leave [0] alone (the pinned code panics / wedges there: C05).
    Absent parts are written `-`: empty entity address, missing entityType, missing parts of a feature description
    (`-:-:-:-:-:-` = element without description), missing function of a supportedFunction entry (`-=3`).
    ops:  reset
          msg P reply|partial|full ENT* | FEAT*      ENT = addr:typ:chg:desc   FEAT = ent:id:typ:role:desc:fns
          sub|bind P cEnt cFeat sEnt sFeat            (a request the real code granted)
          csub|cbind P lEnt lFeat rEnt rFeat          (client-side bookkeeping of a local client feature)
          resolve P ENT* | ENT/FEAT*                  (addresses and resolution of peer P's tree, state unchanged)
    answer: `T tree | E events | S subs | B binds | CS csubs | CB cbinds`; unknown op: `bad-op`.
    answer of `resolve`: `D dev | A addr@dev{id@dev,…};… | RE ent=entity,… | RF ent/feat=feature,… | K peers` — `D` what
          `DeviceRemote.Address()` reports, `A` every reported entity / feature address with its device part
          (`Spine.Disc.Dev`; `?` for members with `whole=1`, whose device parts are not modelled), `RE` what `Entity()`
          returns for each asked entity address (`findE`), `RF` what `FeatureByAddress()` returns (`resolveF`); `-` = nil;
          `K` the peers whose SKI the entity events of the last message carried (`.` = no event; the events of
          `World.stepG c w p` are published for peer p).
          The device address a message of peer P announces is interned as P. -/
open Spine.Disc

def parseAddr (s : String) : List Nat := (s.splitOn ".").map fun x => (x.toNat?).getD 0

def okNat (s : String) : Bool := s = "-" || s.toNat?.isSome
def okAddr (s : String) : Bool := s = "-" || (s.splitOn ".").all fun x => x.toNat?.isSome

def parseOptNat (s : String) : Option Nat := if s = "-" then none else s.toNat?

def parseAddrOpt (s : String) : List Nat := if s = "-" then [] else parseAddr s

def parseEW (s : String) : Option EW :=
  match s.splitOn ":" with
  | [a, t, c, d] =>
    if !(okAddr a && okNat t && okNat d) then none else
    if c = "a" then some ⟨parseAddrOpt a, parseOptNat t, .added, parseOptNat d⟩
    else if c = "r" then some ⟨parseAddrOpt a, parseOptNat t, .removed, parseOptNat d⟩
    else if c = "n" then some ⟨parseAddrOpt a, parseOptNat t, .none, parseOptNat d⟩
    else none
  | _ => none

def parseFn (s : String) : Option (Option Nat × Option Nat) :=
  match s.splitOn "=" with
  | [f, b] => if okNat f && (b = "x" || b.toNat?.isSome) then some (parseOptNat f, if b = "x" then none else b.toNat?) else none
  | _ => none

def parseFW (s : String) : Option FW :=
  match s.splitOn ":" with
  | [e, i, t, r, d, fns] =>
    if !(okAddr e && okNat i && okNat t && okNat r && okNat d) then none else
    let l := if fns = "-" then [] else (fns.splitOn ",").map parseFn
    if l.any (·.isNone) then none
    else some ⟨if e = "-" then none else some (parseAddr e), parseOptNat i, parseOptNat t, parseOptNat r, parseOptNat d,
      l.filterMap id⟩
  | _ => none

def showAddr (a : List Nat) : String := ".".intercalate (a.map toString)
def showOpt : Option Nat → String
  | none => "-"
  | some n => toString n

def showF (f : F) : String :=
  s!"{f.id}:{f.typ}:{f.role}:{showOpt f.desc}:" ++
    (if f.ops.isEmpty then "-" else "+".intercalate (f.ops.map fun (g, b) => s!"{g}={b}"))

def showTree (t : Tree) : String :=
  ";".intercalate (t.map fun e => s!"{showAddr e.addr}({e.typ};{showOpt e.desc})[" ++ ",".intercalate (e.feats.map showF) ++ "]")

def sortJoin (ss : List String) : String :=
  if ss.isEmpty then "." else ",".intercalate (ss.toArray.qsort (· < ·)).toList

def showEvts (l : List Evt) : String :=
  sortJoin (l.map fun | .add a => "+" ++ showAddr a | .rem a => "-" ++ showAddr a)

def showRE (l : List RE) : String :=
  sortJoin (l.map fun e => s!"{e.peer}/{showAddr e.cEnt}/{e.cFeat}>{showAddr e.sEnt}/{e.sFeat}")

/-- the client-side bookkeeping is observable only through `HasSubscriptionToRemote` / `HasBindingToRemote`:
    a set -/
def showCE (l : List CE) : String :=
  sortJoin (l.eraseDups.map fun e => s!"{showAddr e.lEnt}/{e.lFeat}>{e.peer}/{showAddr e.rEnt}/{e.rFeat}")

def showReg (w : World) : String :=
  s!"S {showRE w.subs} | B {showRE w.binds} | CS {showCE w.csubs} | CB {showCE w.cbinds}"

def showEnt (e : E) : String :=
  s!"{showAddr e.addr}({e.typ};{showOpt e.desc})[" ++ ",".intercalate (e.feats.map showF) ++ "]"

def showDevPart (known : Bool) (d : Option Nat) : String := if known then showOpt d else "?"

def showAddrs (known : Bool) (t : Tree) (d : Dev) : String :=
  if t.isEmpty then "." else
  ";".intercalate (t.map fun e => s!"{showAddr e.addr}@{showDevPart known (d.ent e.addr)}" ++ "{" ++
    ",".intercalate (e.feats.map fun f => s!"{f.id}@{showDevPart known (d.feat e.addr)}") ++ "}")

def parseEF (s : String) : Option (List Nat × Nat) :=
  match s.splitOn "/" with
  | [a, i] => if okAddr a && a ≠ "-" && i.toNat?.isSome then some (parseAddr a, i.toNat!) else none
  | _ => none

def showResolve (known : Bool) (t : Tree) (d : Dev) (qe : List (List Nat)) (qf : List (List Nat × Nat)) : String :=
  s!"D {showDevPart known d.addr} | A {showAddrs known t d} | RE " ++
    (if qe.isEmpty then "." else ",".intercalate (qe.map fun a =>
      s!"{showAddr a}=" ++ match findE t a with | some e => showEnt e | none => "-")) ++ " | RF " ++
    (if qf.isEmpty then "." else ",".intercalate (qf.map fun (a, i) =>
      s!"{showAddr a}/{i}=" ++ match resolveF t a i with | some f => showAddr f.ent ++ "/" ++ showF f | none => "-"))

def tree0 : Tree := [⟨[0], 0, none, [⟨[0], 0, 9, 2, none, []⟩]⟩]
def world0 : World := { trees := fun _ => tree0 }

def answer (c : Cfg) (w : World) (ws : List String) : World × String :=
  match ws with
  | "msg" :: p :: kind :: rest =>
    let ents := (rest.takeWhile (· ≠ "|")).map parseEW
    let feats := ((rest.dropWhile (· ≠ "|")).drop 1).map parseFW
    let k : Option Kind := if kind = "reply" then some .reply else if kind = "partial" then some .part
      else if kind = "full" then some .full else none
    if kind = "replyx" then
      -- a reply without deviceInformation is rejected as a whole (repaired tree; the pinned commit panics: C05)
      let p := p.toNat!
      (w, s!"T {showTree (w.trees p)} | E . | " ++ showReg w)
    else
    match k with
    | none => (w, "bad-op")
    | some k =>
      if ents.any (·.isNone) || feats.any (·.isNone) || !rest.contains "|" then (w, "bad-op") else
      let m := MsgG.ofWire ⟨ents.filterMap id, feats.filterMap id⟩
      let p := p.toNat!
      let (w', evs) := w.stepG c p k m
      (w', s!"T {showTree (w'.trees p)} | E {showEvts evs} | " ++ showReg w')
  | [op, p, a, b, c', d] =>
    let p := p.toNat!
    if op = "sub" then
      let w' := { w with subs := w.subs ++ [⟨p, parseAddr a, b.toNat!, parseAddr c', d.toNat!⟩] }; (w', showReg w')
    else if op = "bind" then
      let w' := { w with binds := w.binds ++ [⟨p, parseAddr a, b.toNat!, parseAddr c', d.toNat!⟩] }; (w', showReg w')
    else if op = "csub" then
      let w' := { w with csubs := w.csubs ++ [⟨parseAddr a, b.toNat!, p, parseAddr c', d.toNat!⟩] }; (w', showReg w')
    else if op = "cbind" then
      let w' := { w with cbinds := w.cbinds ++ [⟨parseAddr a, b.toNat!, p, parseAddr c', d.toNat!⟩] }; (w', showReg w')
    else (w, "bad-op")
  | _ => (w, "bad-op")

def parseMsgG (rest : List String) : Option MsgG :=
  let ents := (rest.takeWhile (· ≠ "|")).map parseEW
  let feats := ((rest.dropWhile (· ≠ "|")).drop 1).map parseFW
  if ents.any (·.isNone) || feats.any (·.isNone) || !rest.contains "|" then none
  else some (MsgG.ofWire ⟨ents.filterMap id, feats.filterMap id⟩)

def parseKind (kind : String) : Option Kind :=
  if kind = "reply" then some .reply else if kind = "partial" then some .part else if kind = "full" then some .full else none

/-- the device parts next to the world: per peer -/
abbrev Devs := Nat → Dev

def answerD (c : Cfg) (w : World) (ds : Devs) (lastK : String) (ws : List String) : World × Devs × String × String :=
  match ws with
  | "resolve" :: p :: rest =>
    match p.toNat? with
    | none => (w, ds, lastK, "bad-op")
    | some p =>
      let qe := rest.takeWhile (· ≠ "|")
      let qf := ((rest.dropWhile (· ≠ "|")).drop 1).map parseEF
      if !rest.contains "|" || qe.any (fun a => !okAddr a || a = "-") || qf.any (·.isNone) then (w, ds, lastK, "bad-op") else
      (w, ds, lastK, showResolve (!c.wholeMessage) (w.trees p) (ds p) (qe.map parseAddr) (qf.filterMap id) ++ s!" | K {lastK}")
  | "msg" :: p :: kind :: rest =>
    let (w', out) := answer c w ws
    if out = "bad-op" then (w', ds, lastK, out) else
    match p.toNat?, parseKind kind, parseMsgG rest with
    | some p, some k, some m =>
      -- the entity events of this message are published for peer `p`: they carry its SKI
      let kk := if (w.stepG c p k m).2.isEmpty then "." else toString p
      if c.wholeMessage then (w', ds, kk, out) else
      let d' := devStepG c k (some p) m (w.trees p) (ds p)
      (w', (fun q => if q = p then d' else ds q), kk, out)
    | _, _, _ => (w', ds, ".", out)       -- `replyx`: rejected as a whole before `UpdateDevice`, no event
  | _ => let (w', out) := answer c w ws; (w', ds, lastK, out)

partial def loop (h : IO.FS.Stream) (c : Cfg) (w : World) (ds : Devs) (lastK : String) : IO Unit := do
  let line ← h.getLine
  if line.isEmpty then return ()
  let ws := (line.trimAscii.toString.splitOn " ").filter (· ≠ "")
  match ws with
  | ["reset"] => IO.println "ok"; (← IO.getStdout).flush; loop h c world0 (fun _ => {}) "."
  | _ =>
    let (w', ds', k', out) := answerD c w ds lastK ws
    IO.println out
    (← IO.getStdout).flush
    loop h c w' ds' k'

def parseArgs : List String → Option Cfg
  | [] => some {}
  | a :: rest =>
    match parseArgs rest with
    | none => none
    | some c =>
      if a = "whole=1" then some { c with wholeMessage := true }
      else if a = "whole=0" then some { c with wholeMessage := false }
      else if a = "bindent=1" then some { c with bindEntityOnly := true }
      else if a = "bindent=0" then some { c with bindEntityOnly := false }
      else if a = "rmdev=1" then some { c with removesDevInfo := true }
      else if a = "rmdev=0" then some { c with removesDevInfo := false }
      else if a = "refresh=1" then some { c with refreshUnguarded := true }
      else if a = "refresh=0" then some { c with refreshUnguarded := false }
      else none

def main (args : List String) : IO UInt32 := do
  match parseArgs args with
  | none => IO.eprintln s!"drv_disc: bad arguments {args}"; return 2
  | some c => loop (← IO.getStdin) c world0 (fun _ => {}) "."; return 0
