import Spine.DiscoveryCascade
/-! Line-protocol driver of the C06 model family (`Spine.Disc.World`).
    args: `whole=0|1` (notification entries handled over the whole message, as written = 1)
          `bindent=0|1` (entity removal drops bindings by entity address only, as written = 1)
    ops:  reset
          msg P reply|partial|full ENT* | FEAT*      ENT = addr:typ:chg:desc   FEAT = ent:id:typ:role:desc:fns
          sub|bind P cEnt cFeat sEnt sFeat            (a request the real code granted)
          csub|cbind P lEnt lFeat rEnt rFeat          (client-side bookkeeping of a local client feature)
    answer: `T tree | E events | S subs | B binds | CS csubs | CB cbinds`; unknown op: `bad-op`. -/
open Spine.Disc

def parseAddr (s : String) : List Nat := (s.splitOn ".").map String.toNat!

def parseOptNat (s : String) : Option Nat := if s = "-" then none else some s.toNat!

def parseEI (s : String) : Option EI :=
  match s.splitOn ":" with
  | [a, t, c, d] =>
    -- a removed entry may omit the entity type (`-`); the model never reads it
    let ty := (parseOptNat t).getD 0
    if c = "a" then some ⟨parseAddr a, ty, .added, parseOptNat d⟩
    else if c = "r" then some ⟨parseAddr a, ty, .removed, parseOptNat d⟩
    else if c = "n" then some ⟨parseAddr a, ty, .none, parseOptNat d⟩
    else none
  | _ => none

def parseFn (s : String) : Option (Nat × Option Nat) :=
  match s.splitOn "=" with
  | [f, b] => some (f.toNat!, if b = "x" then none else some b.toNat!)
  | _ => none

def parseFI (s : String) : Option FI :=
  match s.splitOn ":" with
  | [e, i, t, r, d, fns] =>
    let l := if fns = "-" then [] else (fns.splitOn ",").map parseFn
    if l.any (·.isNone) then none
    else some ⟨parseAddr e, i.toNat!, t.toNat!, r.toNat!, parseOptNat d, l.filterMap id⟩
  | _ => none

def showAddr (a : List Nat) : String := ".".intercalate (a.map toString)
def showOpt : Option Nat → String
  | none => "-"
  | some n => toString n

def showF (f : F) : String :=
  s!"{f.id}:{f.typ}:{f.role}:{showOpt f.desc}:" ++
    (if f.ops.isEmpty then "-" else "+".intercalate (f.ops.map fun (g, b) => s!"{g}={b}"))

def showTree (t : Tree) : String :=
  ";".intercalate (t.map fun e => s!"{showAddr e.addr}({e.typ};{showOpt e.desc})[" ++ ",".intercalate (e.feats.map showF) ++ "]")

def sortJoin (ss : List String) : String :=
  if ss.isEmpty then "." else ",".intercalate (ss.toArray.qsort (· < ·)).toList

def showEvts (l : List Evt) : String :=
  sortJoin (l.map fun | .add a => "+" ++ showAddr a | .rem a => "-" ++ showAddr a)

def showRE (l : List RE) : String :=
  sortJoin (l.map fun e => s!"{e.peer}/{showAddr e.cEnt}/{e.cFeat}>{showAddr e.sEnt}/{e.sFeat}")

/-- the client-side bookkeeping is observable only through `HasSubscriptionToRemote` / `HasBindingToRemote`:
    a set -/
def showCE (l : List CE) : String :=
  sortJoin (l.eraseDups.map fun e => s!"{showAddr e.lEnt}/{e.lFeat}>{e.peer}/{showAddr e.rEnt}/{e.rFeat}")

def showReg (w : World) : String :=
  s!"S {showRE w.subs} | B {showRE w.binds} | CS {showCE w.csubs} | CB {showCE w.cbinds}"

def tree0 : Tree := [⟨[0], 0, none, [⟨[0], 0, 9, 2, none, []⟩]⟩]
def world0 : World := { trees := fun _ => tree0 }

def answer (c : Cfg) (w : World) (ws : List String) : World × String :=
  match ws with
  | "msg" :: p :: kind :: rest =>
    let ents := (rest.takeWhile (· ≠ "|")).map parseEI
    let feats := ((rest.dropWhile (· ≠ "|")).drop 1).map parseFI
    let k : Option Kind := if kind = "reply" then some .reply else if kind = "partial" then some .part
      else if kind = "full" then some .full else none
    match k with
    | none => (w, "bad-op")
    | some k =>
      if ents.any (·.isNone) || feats.any (·.isNone) || !rest.contains "|" then (w, "bad-op") else
      let m := Msg.ofWire ⟨ents.filterMap id, feats.filterMap id⟩
      let p := p.toNat!
      let (w', evs) := w.step c p k m
      (w', s!"T {showTree (w'.trees p)} | E {showEvts evs} | " ++ showReg w')
  | [op, p, a, b, c', d] =>
    let p := p.toNat!
    if op = "sub" then
      let w' := { w with subs := w.subs ++ [⟨p, parseAddr a, b.toNat!, parseAddr c', d.toNat!⟩] }; (w', showReg w')
    else if op = "bind" then
      let w' := { w with binds := w.binds ++ [⟨p, parseAddr a, b.toNat!, parseAddr c', d.toNat!⟩] }; (w', showReg w')
    else if op = "csub" then
      let w' := { w with csubs := w.csubs ++ [⟨parseAddr a, b.toNat!, p, parseAddr c', d.toNat!⟩] }; (w', showReg w')
    else if op = "cbind" then
      let w' := { w with cbinds := w.cbinds ++ [⟨parseAddr a, b.toNat!, p, parseAddr c', d.toNat!⟩] }; (w', showReg w')
    else (w, "bad-op")
  | _ => (w, "bad-op")

partial def loop (h : IO.FS.Stream) (c : Cfg) (w : World) : IO Unit := do
  let line ← h.getLine
  if line.isEmpty then return ()
  let ws := (line.trimAscii.toString.splitOn " ").filter (· ≠ "")
  match ws with
  | ["reset"] => IO.println "ok"; (← IO.getStdout).flush; loop h c world0
  | _ =>
    let (w', out) := answer c w ws
    IO.println out
    (← IO.getStdout).flush
    loop h c w'

def parseArgs : List String → Option Cfg
  | [] => some {}
  | a :: rest =>
    match parseArgs rest with
    | none => none
    | some c =>
      if a = "whole=1" then some { c with wholeMessage := true }
      else if a = "whole=0" then some { c with wholeMessage := false }
      else if a = "bindent=1" then some { c with bindEntityOnly := true }
      else if a = "bindent=0" then some { c with bindEntityOnly := false }
      else none

def main (args : List String) : IO UInt32 := do
  match parseArgs args with
  | none => IO.eprintln s!"drv_disc: bad arguments {args}"; return 2
  | some c => loop (← IO.getStdin) c world0; return 0
