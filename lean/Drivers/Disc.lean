import Spine.DiscoveryFixed
open Spine.Disc

def parseAddr (s : String) : List Nat := (s.splitOn ".").map String.toNat!

def parseEI (s : String) : EI :=
  match s.splitOn ":" with
  | [a, t, c] => ⟨parseAddr a, t.toNat!, if c = "a" then .added else if c = "r" then .removed else .none⟩
  | _ => ⟨[], 0, .none⟩

def parseF (s : String) : F :=
  match s.splitOn ":" with
  | [e, i, t, r] => ⟨parseAddr e, i.toNat!, t.toNat!, r.toNat!⟩
  | _ => ⟨[], 0, 0, 0⟩

def showAddr (a : List Nat) : String := ".".intercalate (a.map toString)

def showTree (t : Tree) : String :=
  ";".intercalate (t.map fun e => s!"{showAddr e.addr}({e.typ})[" ++ ",".intercalate (e.feats.map fun f => s!"{f.id}:{f.typ}:{f.role}") ++ "]")

def showEvts (l : List Evt) : String :=
  let ss := l.map fun | .add a => "+" ++ showAddr a | .rem a => "-" ++ showAddr a
  if ss.isEmpty then "." else ",".intercalate (ss.toArray.qsort (· < ·)).toList

def answer (fixed : Bool) (t : Tree) (ws : List String) : Tree × String :=
  match ws with
  | kind :: rest =>
    let ents := (rest.takeWhile (· ≠ "|")).map parseEI
    let feats := ((rest.dropWhile (· ≠ "|")).drop 1).map parseF
    let m : Msg := ⟨ents, feats⟩
    let r : Tree × List Evt :=
      match kind with
      | "reply" => reply m t
      | "partial" => if fixed then let x := notifyPartialFixed m t; (x.1, x.2.1) else let x := notifyPartial m t; (x.1, x.2.1)
      | "full" => if fixed then let x := notifyFullFixed m t; (x.1, x.2.1) else let x := notifyFull m t; (x.1, x.2.1)
      | _ => (t, [])
    (r.1, showTree r.1 ++ " | " ++ showEvts r.2)
  | _ => (t, "bad-op")

partial def loop (h : IO.FS.Stream) (fixed : Bool) (t : Tree) : IO Unit := do
  let line ← h.getLine
  if line.isEmpty then return ()
  let ws := (line.trimAscii.toString.splitOn " ").filter (· ≠ "")
  match ws with
  | ["reset"] => IO.println "ok"; (← IO.getStdout).flush; loop h fixed [⟨[0], 0, []⟩]
  | _ =>
    let (t', out) := answer fixed t ws
    IO.println out
    (← IO.getStdout).flush
    loop h fixed t'

def main (args : List String) : IO Unit := do loop (← IO.getStdin) (args == ["fixed"]) []
