import Spine.Gate
open Spine.Gate Spine.Disp
/-! Line protocol for the event-sourced write-gate / binding-registry model (C03, all schedules).
    Addresses are `e.e/f` (entity parts joined by `.`, then the feature number).
    `reset` (clean member, empty registry) · `gate i srv p cli wr` · `apply i` · `grant srv p cli` ·
    `delete srv p cli` · `entgone p ent` · `clean p ent` · `binds` (the registry, in order). -/

def entOf (s : String) : Option (List Nat) := (s.splitOn ".").mapM String.toNat?

def addrOf (s : String) : Option Addr :=
  match s.splitOn "/" with
  | [e, f] => do let e ← entOf e; let f ← f.toNat?; pure (e, f)
  | _ => none

def showAddr (a : Addr) : String := ".".intercalate (a.1.map toString) ++ "/" ++ toString a.2

def showBinds (s : St) : String :=
  if s.binds.isEmpty then "." else
  " ".intercalate (s.binds.map fun b => showAddr b.1 ++ "<" ++ toString b.2.1 ++ ":" ++ showAddr b.2.2)

def parse (ws : List String) : Option Ev :=
  match ws with
  | ["gate", i, srv, p, cli, wr] => do
    pure (.gate (← i.toNat?) (← addrOf srv, ← p.toNat?, ← addrOf cli) ((← wr.toNat?) = 1))
  | ["apply", i] => do pure (.apply (← i.toNat?))
  | ["grant", srv, p, cli] => do pure (.reg (.grant (← addrOf srv, ← p.toNat?, ← addrOf cli)))
  | ["delete", srv, p, cli] => do pure (.reg (.delete (← addrOf srv) (← p.toNat?) (← addrOf cli)))
  | ["entgone", p, e] => do pure (.reg (.entGone (← p.toNat?) (← entOf e)))
  | ["clean", p, e] => do pure (.clean (← p.toNat?) (← entOf e))
  | _ => none

def answer (s : St) (ws : List String) : St × String :=
  match ws with
  | ["reset"] => (init Cfg.clean [], "reset")
  | ["binds"] => (s, showBinds s)
  | _ =>
    match parse ws with
    | some ev => (step s ev, obs s ev)
    | none => (s, "bad-op")

partial def loop (h out : IO.FS.Stream) (s : St) : IO Unit := do
  let line ← h.getLine
  if line.isEmpty then out.flush; return ()
  let ws := (line.trimAscii.toString.splitOn " ").filter (· ≠ "")
  let (s', ans) := answer s ws
  out.putStrLn ans
  out.flush
  loop h out s'

def main : IO Unit := do loop (← IO.getStdin) (← IO.getStdout) (init Cfg.clean [])
