import Drivers.RegWorld
import Spine.BindSched
open Spine.Reg Spine.BindSched
/-! Line protocol for the event model `Spine.BindSched` (C09: the repaired AddBinding as start / look / commit over the
    registry family, harness world of `Drivers.RegWorld`).
    `mode 1`: the yield point `AddBinding.checked` is reached after the server check (a request parks there; `finish k`
    = look k ; commit k); `mode 2`: no yield point reached (`start` runs the request to its end).
    `start k p ce cf se sf typ`, `finish k`, `unbind p cd ce cf se sf`, `binds p` (with the exact ids), `cfg a b c d`. -/

def fin (s : Spine.BindSched.St) (k : Nat) : Spine.BindSched.St × String :=
  if !(s.started.any (·.1 = k)) then (s, "-") else
  let o1 := outcome s (.look k)
  let s1 := lookStep s k
  match o1 with
  | some _ => (s1, "ret err")
  | none =>
    let o2 := outcome s1 (.commit k)
    (commitStep s1 k, match o2 with | some true => "ret ok" | some false => "ret err" | none => "ret ?")

def answer (cfg : Cfg) (m : Nat) (s : Spine.BindSched.St) (ws : List String) : Cfg × Nat × Spine.BindSched.St × String :=
  match ws with
  | ["start", k, p, ce, cf, se, sf, t] => match nats [k, p, cf, sf, t] with
    | some [k, p, cf, sf, t] =>
      let r : Req := ⟨p, parseEnt ce, cf, parseEnt se, sf, t⟩
      if inFlight s k then (cfg, m, s, "bad-op") else
      match outcome s (.start k r) with
      | some _ => (cfg, m, s, "ret err")
      | none =>
        let s1 := startStep s k r
        if m = 1 then (cfg, m, s1, "parked")
        else let (s2, a) := fin s1 k; (cfg, m, s2, a)
    | _ => (cfg, m, s, "bad-op")
  | ["finish", k] => match k.toNat? with
    | some k => let (s', a) := fin s k; (cfg, m, s', a)
    | none => (cfg, m, s, "bad-op")
  | ["unbind", p, cd, ce, cf, se, sf] => match nats [p, cd, cf, sf] with
    | some [p, cd, cf, sf] =>
      let (r', ok) := delBind cfg s.reg p cd (parseEnt ce) cf (parseEnt se) sf
      (cfg, m, { s with reg := r' }, b ok)
    | _ => (cfg, m, s, "bad-op")
  | ["binds", p] => match p.toNat? with
    | some p => (cfg, m, s, showL (bindsOf s.reg p))
    | none => (cfg, m, s, "bad-op")
  | ["mode", x] => match x.toNat? with
    | some x => (cfg, x, s, "mode")
    | none => (cfg, m, s, "bad-op")
  | ["cfg", a, b', c, d] => match nats [a, b', c, d] with
    | some [a, b', c, d] =>
      ({ delSubByDevice := bit a, delBindByDevice := bit b', unbindDisjunct := bit c, dropBindsAnyPeer := bit d }, m, s, "cfg")
    | _ => (cfg, m, s, "bad-op")
  | ["reset"] => (cfg, m, { reg := init }, "reset")
  | _ => (cfg, m, s, "bad-op")

partial def loop (h out : IO.FS.Stream) (cfg : Cfg) (m : Nat) (s : Spine.BindSched.St) : IO Unit := do
  let line ← h.getLine
  if line.isEmpty then out.flush; return ()
  let ws := (line.trimAscii.toString.splitOn " ").filter (· ≠ "")
  let (cfg', m', s', ans) := answer cfg m s ws
  out.putStrLn ans
  out.flush
  loop h out cfg' m' s'

def main : IO Unit := do loop (← IO.getStdin) (← IO.getStdout) {} 1 { reg := init }
