import Spine.Num
import Spine.IsRnd
import Spine.Dur
import Spine.TimePeriod
import Spine.DurText
import Spine.TimeText
open Spine Spine.Num
/-! Line protocol for the numeric / temporal models of C19. One op per line, one answer per line.
    Member of the model family: command-line arguments `trunc=0|1 inexact=0|1` or the op `cfg t i`.
    Every rounding the model performs is checked against the relation `Rnd.IsRnd`; a failure is answered
    as `isrnd-fail …`. -/

/-- the executable `rnd` satisfies the rounding relation on `n / d` -/
def chk (nd : Nat × Nat) : Bool := nd.1 == 0 || Rnd.isRndB nd.1 nd.2 (rnd nd.1 nd.2).1 (rnd nd.1 nd.2).2

/-- a rounding that was taken satisfies the relation (a zero numerator gives the zero `(0, 0)`) -/
def chkR (r : Rounding) : Bool := if r.n == 0 then r.m == 0 else Rnd.isRndB r.n r.d r.m r.e

def obsStr (o : Obs) : String := s!"{o.vbits} {o.decimals} {o.pbits} {o.number} {o.scale} {o.gbits}"

/-- answer for one value (`src` = the rational it was parsed from, if any) -/
def answerV (cfg : Cfg) (src : Option (Nat × Nat)) (v : Dbl) : String :=
  let (o, rs) := observeR cfg v
  if !o.inRange then "range"
  else if !((match src with | some nd => chkR (Rounding.used nd v) | none => true) && rs.all chkR) then "isrnd-fail"
  else obsStr o

def answerDec (cfg : Cfg) (k : Int) (d : Nat) : String :=
  answerV cfg (some (k.natAbs, tenPow d)) (parseDec k d)

def answerBits (cfg : Cfg) (b : Nat) : String :=
  match ofBits b with
  | none => "range"
  | some v => answerV cfg none v

def mix (h : UInt64) (x : Nat) : UInt64 := h * 1099511628211 + UInt64.ofNat x
def mixI (h : UInt64) (x : Int) : UInt64 :=
  if x < 0 then h * 1099511628211 + (0 - UInt64.ofNat x.natAbs) else mix h x.toNat

/-- digest of the observations of all `k * 10^-d`, `k = k0, k0+step, … ≤ k1`; an error (with the
    offending k) on a failed assertion -/
partial def digestRange (cfg : Cfg) (d : Nat) (k k1 step : Int) (h : UInt64) (cnt : Nat) : Except String (UInt64 × Nat) :=
  if k > k1 then .ok (h, cnt) else
  let v := parseDec k d
  let (o, rs) := observeR cfg v
  if !o.inRange then .error s!"range {k}"
  else if !(chkR (Rounding.used (k.natAbs, tenPow d) v) && rs.all chkR) then .error s!"isrnd-fail {k}"
  else
    let h := mixI (mixI (mix (mix (mix (mix h o.vbits) o.decimals) o.pbits) o.gbits) o.number) o.scale
    digestRange cfg d (k + step) k1 step h (cnt + 1)

/-- the same digest without the run-time assertion of `IsRnd` on every rounding (the assertion is a theorem,
    `c19_rnd_sound`; it is asserted at run time on the whole quick-tier grid and on every single value, the largest
    sweeps of the thorough tier do without) -/
partial def digestRangeFast (cfg : Cfg) (d : Nat) (k k1 step : Int) (h : UInt64) (cnt : Nat) : Except String (UInt64 × Nat) :=
  if k > k1 then .ok (h, cnt) else
  let o := observe cfg (parseDec k d)
  if !o.inRange then .error s!"range {k}"
  else
    let h := mixI (mixI (mix (mix (mix (mix h o.vbits) o.decimals) o.pbits) o.gbits) o.number) o.scale
    digestRangeFast cfg d (k + step) k1 step h (cnt + 1)

def periodStr (p : Dur.Period) : String := s!"{p.years} {p.months} {p.days} {p.hours} {p.minutes} {p.tenths}"

partial def digestDur (z z1 step : Int) (h : UInt64) (cnt : Nat) : UInt64 × Nat :=
  if z > z1 then (h, cnt) else digestDur (z + step) z1 step (mixI h (Dur.roundTrip z)) (cnt + 1)

def textOf (s : String) : DurText.Text := s.toList.map Char.toNat
def strOf (t : DurText.Text) : String := String.ofList (t.map Char.ofNat)

/-- `period.Parse(text)`: `err`, `range` (outside the model) or `DurationApprox in ns` + `String()` -/
def answerParse (w : String) : String :=
  let t := textOf w
  if DurText.longRun t 0 then "range" else
  match DurText.parse t with
  | none => "err"
  | some p => s!"{DurText.approxNs p} {strOf (DurText.render p)}"

/-- digest over the texts of `z * 100 ms` and what they are read back as (in units of 100 ms; a fraction of
    100 ms or an error = the minimum of int64, as the harness encodes it) -/
partial def digestDurText (z z1 step : Int) (h : UInt64) (cnt : Nat) : UInt64 × Nat :=
  if z > z1 then (h, cnt) else
  let t := DurText.newDurationType (z * 100000000)
  let h := t.foldl mix h
  let back : Int := match DurText.getTimeDuration t with
    | some ns => if ns % 100000000 == 0 then ns / 100000000 else -9223372036854775808
    | none => -9223372036854775808
  digestDurText (z + step) z1 step (mixI h back) (cnt + 1)


/-! instants at the level of the text (`Spine.TimeText`) -/

def layoutsOf (w : String) : List (List TimeText.Elem) := (w.splitOn "|").map fun l => TimeText.lex (textOf l)

def showInstant : Option TimeText.Instant → String
  | some i => s!"{i.sec} {i.ns} {i.off}"
  | none => "err"

/-- `GetTime` over the layouts `ls` (all inside the model, else `range`) -/
def answerGet (ls : List (List TimeText.Elem)) (t : DurText.Text) : String :=
  if !(ls.all (TimeText.supported true)) then "range" else showInstant (TimeText.getTime ls t)

def answerNew (es : List TimeText.Elem) (rounds utc : Bool) (sec : Int) (ns : Nat) (off : Int) : Option DurText.Text :=
  if !(TimeText.supported false es) || ns ≥ 1000000000 then none
  else TimeText.newDateTimeTypeFromTime es rounds utc sec ns off

/-- digest over the texts written for `sec = s, s+step, … ≤ s1` and what `GetTime` reads them as -/
partial def digestInstants (fes : List TimeText.Elem) (ls : List (List TimeText.Elem)) (rounds utc : Bool)
    (s s1 step : Int) (ns : Nat) (off : Int) (h : UInt64) (cnt : Nat) : Except String (UInt64 × Nat) :=
  if s > s1 then .ok (h, cnt) else
  match answerNew fes rounds utc s ns off with
  | none => .error s!"range {s}"
  | some t =>
    let h := t.foldl mix h
    let h := match TimeText.getTime ls t with
      | some i => mixI (mix (mixI h i.sec) i.ns) i.off
      | none => mix h 7
    digestInstants fes ls rounds utc (s + step) s1 step ns off h (cnt + 1)

/-- `-`, `r:<ns>` or `a:<ns>` -/
def parseT (w : String) : Option TP.T :=
  if w == "-" then some .none else
  match w.splitOn ":" with
  | ["r", v] => v.toInt?.map TP.T.rel
  | ["a", v] => v.toInt?.map TP.T.abs
  | _ => none

def showT : TP.T → String
  | .none => "-"
  | .rel d => s!"r:{d}"
  | .abs t => s!"a:{t}"

def showP (p : TP.Period) : String := s!"{showT p.start} {showT p.endT}"

def ints (ws : List String) : Option (List Int) := ws.mapM String.toInt?
def nats (ws : List String) : Option (List Nat) := ws.mapM String.toNat?

def answer (cfg : Cfg) (ws : List String) : Cfg × String :=
  match ws with
  | ["cfg", t, i] => match t.toNat?, i.toNat? with
    | some t, some i => (⟨t != 0, i != 0⟩, s!"cfg {t} {i}")
    | _, _ => (cfg, "bad-op")
  | ["scaled", k, d] => match k.toInt?, d.toNat? with
    | some k, some d => (cfg, answerDec cfg k d)
    | _, _ => (cfg, "bad-op")
  | "S" :: d :: ks => match d.toNat?, ints ks with
    | some d, some ks => (cfg, ";".intercalate (ks.map fun k => answerDec cfg k d))
    | _, _ => (cfg, "bad-op")
  | ["fbits", b] => match b.toNat? with
    | some b => (cfg, answerBits cfg b)
    | none => (cfg, "bad-op")
  | "B" :: bs => match nats bs with
    | some bs => (cfg, ";".intercalate (bs.map (answerBits cfg)))
    | none => (cfg, "bad-op")
  | ["srange", d, k0, k1, step] => match d.toNat?, k0.toInt?, k1.toInt?, step.toInt? with
    | some d, some k0, some k1, some step =>
      if step ≤ 0 then (cfg, "bad-op") else
      match digestRange cfg d k0 k1 step (UInt64.ofNat 1469598103934665603) 0 with
      | .ok (h, n) => (cfg, s!"digest {h.toNat} {n}")
      | .error e => (cfg, e)
    | _, _, _, _ => (cfg, "bad-op")
  | ["srangef", d, k0, k1, step] => match d.toNat?, k0.toInt?, k1.toInt?, step.toInt? with
    | some d, some k0, some k1, some step =>
      if step ≤ 0 then (cfg, "bad-op") else
      match digestRangeFast cfg d k0 k1 step (UInt64.ofNat 1469598103934665603) 0 with
      | .ok (h, n) => (cfg, s!"digest {h.toNat} {n}")
      | .error e => (cfg, e)
    | _, _, _, _ => (cfg, "bad-op")
  | ["getval", n, s] => match n.toInt?, s.toInt? with
    | some n, some s =>
      if s < -4 || s > 4 then (cfg, "range") else
      let g := getValue cfg n s
      let r := if s < 0 && !cfg.inexactPower then divRat (ofInt n) (pow10 (-s)) else mulRat (ofInt n) (pow10 s)
      (cfg, if !inRange g then "range" else if !(chk (n.natAbs, 1) && chk r) then "isrnd-fail" else toString (bits g))
    | _, _ => (cfg, "bad-op")
  | ["dur", z] => match z.toInt? with
    | some z => (cfg, if Dur.monthsOk z.natAbs then s!"{periodStr (Dur.newOf z.natAbs)} {Dur.roundTrip z}" else "range")
    | none => (cfg, "bad-op")
  | ["durns", z] => match z.toInt? with
    | some z => (cfg, if Dur.monthsOk (z.natAbs / 100000000) then toString (Dur.roundTripNs z) else "range")
    | none => (cfg, "bad-op")
  | ["dtext", ns] => match ns.toInt? with
    | some ns => (cfg, if Dur.monthsOk (ns.natAbs / 100000000) then strOf (DurText.newDurationType ns) else "range")
    | none => (cfg, "bad-op")
  | ["dparse", w] => (cfg, answerParse w)
  | ["dtrange", z0, z1, step] => match z0.toInt?, z1.toInt?, step.toInt? with
    | some z0, some z1, some step =>
      if step ≤ 0 then (cfg, "bad-op") else
      let (h, n) := digestDurText z0 z1 step (UInt64.ofNat 1469598103934665603) 0
      (cfg, s!"digest {h.toNat} {n}")
    | _, _, _ => (cfg, "bad-op")
  | ["drange", z0, z1, step] => match z0.toInt?, z1.toInt?, step.toInt? with
    | some z0, some z1, some step =>
      if step ≤ 0 then (cfg, "bad-op") else
      let (h, n) := digestDur z0 z1 step (UInt64.ofNat 1469598103934665603) 0
      (cfg, s!"digest {h.toNat} {n}")
    | _, _, _ => (cfg, "bad-op")
  | ["tfmt", l, sec, ns, off] => match sec.toInt?, ns.toNat?, off.toInt? with
    | some sec, some ns, some off =>
      let es := TimeText.lex (textOf l)
      if !(TimeText.supported false es) || ns ≥ 1000000000 then (cfg, "range") else
      (cfg, match TimeText.format es sec ns off with | some t => strOf t | none => "range")
    | _, _, _ => (cfg, "bad-op")
  | ["tparse", ls, w] => (cfg, answerGet (layoutsOf ls) (textOf w))
  | ["tnew", l, r, u, sec, ns, off] => match r.toNat?, u.toNat?, sec.toInt?, ns.toNat?, off.toInt? with
    | some r, some u, some sec, some ns, some off =>
      (cfg, match answerNew (TimeText.lex (textOf l)) (r != 0) (u != 0) sec ns off with | some t => strOf t | none => "range")
    | _, _, _, _, _ => (cfg, "bad-op")
  | ["tsweep", l, ls, r, u, s0, s1, step, ns, off] =>
    match r.toNat?, u.toNat?, s0.toInt?, s1.toInt?, step.toInt?, ns.toNat?, off.toInt? with
    | some r, some u, some s0, some s1, some step, some ns, some off =>
      let pls := layoutsOf ls
      if step ≤ 0 then (cfg, "bad-op") else if !(pls.all (TimeText.supported true)) then (cfg, "range") else
      match digestInstants (TimeText.lex (textOf l)) pls (r != 0) (u != 0) s0 s1 step ns off (UInt64.ofNat 1469598103934665603) 0 with
      | .ok (h, n) => (cfg, s!"digest {h.toNat} {n}")
      | .error e => (cfg, e)
    | _, _, _, _, _, _, _ => (cfg, "bad-op")
  | ["endof", now, d] => match now.toInt?, d.toInt? with
    | some now, some d => (cfg, toString (TP.endOf now d))
    | _, _ => (cfg, "bad-op")
  | ["remaining", e, n] => match e.toInt?, n.toInt? with
    | some e, some n => (cfg, toString (TP.remaining e n))
    | _, _ => (cfg, "bad-op")
  | ["pdec", ps, pe, ds, de, now] =>   -- previous value, document, clock: the value after UnmarshalJSON
    match parseT ps, parseT pe, parseT ds, parseT de, now.toInt? with
    | some ps, some pe, some ds, some de, some now => (cfg, showP (TP.decode ⟨ps, pe⟩ ⟨ds, de⟩ now))
    | _, _, _, _, _ => (cfg, "bad-op")
  | ["pdur", ps, pe, now] =>            -- GetDuration
    match parseT ps, parseT pe, now.toInt? with
    | some ps, some pe, some now =>
      (cfg, match TP.getDuration ⟨ps, pe⟩ now with | some d => toString d | none => "invalid")
    | _, _, _ => (cfg, "bad-op")
  | ["penc", ps, pe, now] =>            -- MarshalJSON
    match parseT ps, parseT pe, now.toInt? with
    | some ps, some pe, some now => (cfg, showP (TP.encode ⟨ps, pe⟩ now))
    | _, _, _ => (cfg, "bad-op")
  | ["reset"] => (cfg, "reset")
  | _ => (cfg, "bad-op")

partial def loop (h out : IO.FS.Stream) (cfg : Cfg) : IO Unit := do
  let line ← h.getLine
  if line.isEmpty then out.flush; return ()
  let ws := (line.trimAscii.toString.splitOn " ").filter (· ≠ "")
  let (cfg', ans) := answer cfg ws
  out.putStrLn ans
  out.flush
  loop h out cfg'

def parseArg (cfg : Cfg) (a : String) : Option Cfg :=
  match a.splitOn "=" with
  | ["trunc", v] => v.toNat?.map fun n => { cfg with truncScaled := n != 0 }
  | ["inexact", v] => v.toNat?.map fun n => { cfg with inexactPower := n != 0 }
  | _ => none

def main (args : List String) : IO UInt32 := do
  let mut cfg : Cfg := {}
  for a in args do
    match parseArg cfg a with
    | some c => cfg := c
    | none => IO.eprintln s!"drv_num: bad argument {a}"; return 2
  -- the nine powers of ten the model uses are correctly rounded
  let powsOk := (List.range 5).all fun d => chk (10 ^ d, 1) && chk (1, 10 ^ d)
  if !powsOk then IO.eprintln "drv_num: isrnd-fail on a power of ten"; return 2
  loop (← IO.getStdin) (← IO.getStdout) cfg
  return 0
