import Spine.RegObj
open Spine.RegObj

def showList (l : List String) : String := if l.isEmpty then "." else ",".intercalate l

def answer (b : Bool) (s : St) (ws : List String) : St × String :=
  match ws with
  | ["sub", ce, cf, se, sf] =>
    let c := (ce.toNat!, cf.toNat!); let sv := (se.toNat!, sf.toNat!)
    (step b s (.sub 1 c sv), if granted b s 1 c sv then "ok" else "err")
  | ["unsub", ce, cf, se, sf] =>
    let c := (ce.toNat!, cf.toNat!); let sv := (se.toNat!, sf.toNat!)
    let had := s.subs.any fun e => e.server = sv && e.peer = 1 && e.client = c
    (step b s (.unsub 1 c sv), if had then "ok" else "err")
  | ["data", ce, cf, v] => (step b s (.data 1 (ce.toNat!, cf.toNat!) v.toNat!), "done")
  | ["reannounce", e] => (step b s (.reannounce 1 e.toNat!), "done")
  | ["notify", se, sf] =>
    (s, showList ((fanout s (se.toNat!, sf.toNat!)).map fun (_, c) => s!"{c.1}/{c.2}"))
  | ["subs"] => (s, showList (s.subs.map fun e => s!"{e.id}:{e.server.1}/{e.server.2}<-{e.client.1}/{e.client.2}"))
  | _ => (s, "bad-op")

partial def loop (h : IO.FS.Stream) (b : Bool) (s : St) : IO Unit := do
  let line ← h.getLine
  if line.isEmpty then return ()
  let ws := (line.trimAscii.toString.splitOn " ").filter (· ≠ "")
  match ws with
  | ["reset", f] => IO.println "ok"; (← IO.getStdout).flush; loop h (f == "1") {}
  | _ =>
    let (s', out) := answer b s ws
    IO.println out
    (← IO.getStdout).flush
    loop h b s'

def main : IO Unit := do loop (← IO.getStdin) true {}
