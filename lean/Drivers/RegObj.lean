import Spine.RegObj
open Spine.RegObj
/-! Line protocol for the duplicate check with object identity (C08). `cfg 1` = the code as written (feature objects
    compared by DeepEqual), `cfg 0` = repaired (client compared by address). One peer. -/

def showList (l : List String) : String := if l.isEmpty then "." else ",".intercalate l

def nats (ws : List String) : Option (List Nat) := ws.mapM String.toNat?

def answer (b : Bool) (s : St) (ws : List String) : Bool × St × String :=
  match ws with
  | ["sub", ce, cf, se, sf] => match nats [ce, cf, se, sf] with
    | some [ce, cf, se, sf] =>
      let c := (ce, cf); let sv := (se, sf)
      (b, step b s (.sub 1 c sv), if granted b s 1 c sv then "ok" else "err")
    | _ => (b, s, "bad-op")
  | ["unsub", ce, cf, se, sf] => match nats [ce, cf, se, sf] with
    | some [ce, cf, se, sf] =>
      let c := (ce, cf); let sv := (se, sf)
      let had := s.subs.any fun e => e.server = sv && e.peer = 1 && e.client = c
      (b, step b s (.unsub 1 c sv), if had then "ok" else "err")
    | _ => (b, s, "bad-op")
  | ["data", ce, cf, v] => match nats [ce, cf, v] with
    | some [ce, cf, v] => (b, step b s (.data 1 (ce, cf) v), "done")
    | _ => (b, s, "bad-op")
  | ["reannounce", e] => match e.toNat? with
    | some e => (b, step b s (.reannounce 1 e), "done")
    | none => (b, s, "bad-op")
  | ["notify", se, sf] => match nats [se, sf] with
    | some [se, sf] => (b, s, showList ((fanout s (se, sf)).map fun (_, c) => s!"{c.1}/{c.2}"))
    | _ => (b, s, "bad-op")
  | ["subs"] => (b, s, showList (s.subs.map fun e => s!"{e.id}:{e.server.1}/{e.server.2}<-{e.client.1}/{e.client.2}"))
  | ["cfg", f] => (f == "1", s, "cfg")
  | ["reset"] => (b, {}, "reset")
  | _ => (b, s, "bad-op")

partial def loop (h out : IO.FS.Stream) (b : Bool) (s : St) : IO Unit := do
  let line ← h.getLine
  if line.isEmpty then out.flush; return ()
  let ws := (line.trimAscii.toString.splitOn " ").filter (· ≠ "")
  let (b', s', ans) := answer b s ws
  out.putStrLn ans
  out.flush
  loop h out b' s'

def main : IO Unit := do loop (← IO.getStdin) (← IO.getStdout) true {}
