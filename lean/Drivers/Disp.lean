import Spine.Dispatch
open Spine.Disp
def parseAddr (s : String) : List Nat × Nat := match s.splitOn "/" with
  | [e, f] => ((e.splitOn ".").filterMap String.toNat?, f.toNat!)
  | _ => ([], 0)
def showAddr (a : List Nat × Nat) : String := ".".intercalate (a.1.map toString) ++ "/" ++ toString a.2
def showOut : Out → String
  | .reply r f s d => s!"reply {r} {f} {showAddr s} {showAddr d}"
  | .result r e s d => s!"result {r} {e} {showAddr s} {showAddr d}"
  | .readReq f s d => s!"readReq {f} {showAddr s} {showAddr d}"
  | .panic => "panic"
def parseCls : String → Cls
  | "read" => .read | "reply" => .reply | "notify" => .notify | "write" => .write | "call" => .call | _ => .result
def nmFds : List Nat := [901, 902, 903]
def locals : List LF := [
  { ent := [0], feat := 0, typ := 100, role := .special, fds := nmFds, ops := [(901, false), (902, false)], nm := true },
  { ent := [1], feat := 1, typ := 1, role := .server, fds := [1, 2], ops := [(1, true), (2, false)] },
  { ent := [1], feat := 2, typ := 2, role := .server, fds := [3], ops := [(3, true)] },
  { ent := [1], feat := 3, typ := 1, role := .client, fds := [1, 2], ops := [] },
  { ent := [2], feat := 1, typ := 4, role := .server, fds := [4], ops := [(4, false)] } ]
def remotes : List RF := [⟨[0], 0, nmFds⟩, ⟨[1], 1, [1, 2]⟩, ⟨[1], 2, [3]⟩, ⟨[1], 3, [1, 2, 3, 4]⟩]
def initW : W :=
  { loc := locals,
    peers := fun _ => { feats := remotes, msgNum := 4, req := [(2, ([0], 0), 1000), (3, ([0], 0), 902)] },
    binds := [(([1], 1), 1, ([1], 1)), (([1], 2), 2, ([1], 2))] }
partial def loop (h : IO.FS.Stream) (out : IO.FS.Stream) (w : W) : IO Unit := do
  let line ← h.getLine
  if line.isEmpty then out.flush; return ()
  let (w', ans) : W × String := match line.trimAscii.toString.splitOn " " with
    | ["dg", p, src, dst, ctr, ref, cls, ack, fn] =>
      let d : Dg := ⟨parseAddr src, parseAddr dst, ctr.toNat!, if ref == "-" then none else ref.toNat?, parseCls cls, ack == "1", fn.toNat!⟩
      let (w', outs) := processCmd w p.toNat! d
      let ws := if w'.written.length > w.written.length then " W" else ""
      (w', (if outs.isEmpty then "-" else "; ".intercalate (outs.map showOut)) ++ ws)
    | ["reset"] => (initW, "reset")
    | _ => (w, "bad-op")
  out.putStrLn ans
  out.flush
  loop h out w'
def main : IO Unit := do loop (← IO.getStdin) (← IO.getStdout) initW
