import Spine.DispatchTree
/-! Line-protocol driver of `Spine.Disp` (C01, C03). The harness first describes the world it built from the real
    code (`clear`, then one `loc` line per local feature and one `rem` line per feature every peer announces),
    then runs histories: `reset r u e o` (defect flags: resultOnResult, unbindDisjunct, entRemovalAnyPeer, overviewPanics) followed by
    ops. Answer of an op: the outputs grouped by connection, ` W` appended when a local feature's data was set. -/
open Spine.Disp

def parseEnt (s : String) : List Nat := (s.splitOn ".").filterMap String.toNat?
def parseAddr (s : String) : Addr := match s.splitOn "/" with
  | [e, f] => (parseEnt e, f.toNat!)
  | _ => ([], 0)
def parseList (s : String) : List Nat := if s == "-" then [] else (s.splitOn ",").filterMap String.toNat?
def parseOps (s : String) : List (Nat × Bool) :=
  if s == "-" then [] else (s.splitOn ",").filterMap fun t => match t.splitOn ":" with
    | [f, w] => some (f.toNat!, w == "1")
    | _ => none
def parseRole : String → Option Role
  | "client" => some .client | "server" => some .server | "special" => some .special | _ => none
def parseCls : String → Option Cls
  | "read" => some .read | "reply" => some .reply | "notify" => some .notify | "write" => some .write
  | "call" => some .call | "result" => some .result | _ => none
def showAddr (a : Addr) : String := ".".intercalate (a.1.map toString) ++ "/" ++ toString a.2
def showOpt : Option Nat → String
  | some n => toString n
  | none => "-"
def showOut : Out → String
  | .reply r f s d v sd => s!"reply {showOpt r} {f} {showAddr s} {showAddr d} v{v} d{showOpt sd}"
  | .result r e s d sd => s!"result {showOpt r} {e} {showAddr s} {showAddr d} d{showOpt sd}"
  | .readReq f s d => s!"readReq {f} {showAddr s} {showAddr d}"
  | .notify f s d v => s!"notify {f} {showAddr s} {showAddr d} v{v}"
  | .subReq => "other:call"
  | .panic => "panic"

def showOuts (outs : List (Nat × Out)) : String :=
  let peers := (outs.map (·.1)).eraseDups.mergeSort (· ≤ ·)
  if outs.isEmpty then "-" else
  " | ".intercalate (peers.map fun q => s!"{q}: " ++ "; ".intercalate ((outs.filter (·.1 = q)).map fun o => showOut o.2))

structure Conf where
  loc : List LF := []
  rem : List RF := []
  data : List (Addr × Nat × Nat) := []     -- initial values: feature, function, value id
  nm : List (Nat × Nat) := []              -- initial value ids of node management's computed data: function, value id

def freshPeer (c : Conf) : Peer := { feats := c.rem, msgNum := 3, req := [(2, nmAddr, 1000), (3, nmAddr, 902)] }

def initW (c : Conf) (cfg : Cfg) : W :=
  { loc := c.loc, peers := fun _ => ⟨[], 0, []⟩, binds := [], subs := [], cfg := cfg, fresh := freshPeer c,
    data := c.data.foldl (fun f e => setData f e.1 e.2.1 e.2.2) (fun _ _ => 0),
    nmData := applyNm (fun _ => 0) c.nm }

def flag (s : String) : Bool := s == "1"

def tokVal (rest : List String) (pre : String) : Option String :=
  (rest.find? (·.startsWith pre)).map fun t => (t.drop pre.length).toString

def mkDg (src dst ctr ref : String) (c : Cls) (ack fn : String) (rest : List String) : Dg :=
  let dd : Option Nat := match tokVal rest "dd=" with
    | none => some 0
    | some t => t.toNat?
  { src := parseAddr src, dst := parseAddr dst, ctr := if ctr == "-" then none else ctr.toNat?,
    ref := if ref == "-" then none else ref.toNat?, cls := c, ack := ack == "1", fn := fn.toNat!,
    bad := rest.contains "bad", val := ((tokVal rest "val=").bind String.toNat?).getD 0, noErr := rest.contains "noerr",
    dstDev := dd,
    srcDev := match tokVal rest "sd=" with
      | none => some 0
      | some t => t.toNat? }

def parseOp (toks : List String) : Option Op :=
  match toks with
  | "dg" :: p :: src :: dst :: ctr :: ref :: cls :: ack :: fn :: rest =>
    (parseCls cls).map fun c =>
      .dg p.toNat! (mkDg src dst ctr ref c ack fn rest)
  | "bind" :: p :: c :: s :: typ :: ctr :: ack :: _ => some (.call p.toNat! ctr.toNat! (ack == "1") (.bind (parseAddr c) (parseAddr s) typ.toNat!))
  | "unbind" :: p :: c :: s :: ctr :: ack :: _ => some (.call p.toNat! ctr.toNat! (ack == "1") (.unbind (parseAddr c) (parseAddr s)))
  | "sub" :: p :: c :: s :: typ :: ctr :: ack :: _ => some (.call p.toNat! ctr.toNat! (ack == "1") (.sub (parseAddr c) (parseAddr s) typ.toNat!))
  | "unsub" :: p :: c :: s :: ctr :: ack :: _ => some (.call p.toNat! ctr.toNat! (ack == "1") (.unsub (parseAddr c) (parseAddr s)))
  | "reann" :: p :: ctr :: ref :: ack :: _ => some (.reann p.toNat! ctr.toNat! (if ref == "-" then none else ref.toNat?) (ack == "1"))
  | "full" :: p :: keep :: ctr :: ack :: _ =>
    some (.full p.toNat! ((keep.splitOn ",").map parseEnt) ctr.toNat! (ack == "1"))
  | "entrem" :: p :: e :: ctr :: ack :: _ => some (.entRem p.toNat! (parseEnt e) ctr.toNat! (ack == "1"))
  | "entadd" :: p :: e :: ctr :: ack :: _ => some (.entAdd p.toNat! (parseEnt e) ctr.toNat! (ack == "1"))
  | ["drop", p] => some (.drop p.toNat!)
  | ["conn", p] => some (.conn p.toNat!)
  | ["setdata", a, fn, v] => some (.setData (parseAddr a) fn.toNat! v.toNat!)
  | _ => none

def parseLF (t : String) : Option LF :=
  match t.splitOn "|" with
  | [ent, feat, typ, role, fds, ops] =>
    (parseRole role).map fun r =>
      { ent := parseEnt ent, feat := feat.toNat!, typ := typ.toNat!, role := r, fds := parseList fds, ops := parseOps ops, nm := false }
  | _ => none

/-- the local tree operations of `Spine/DispatchTree.lean` -/
def parseTOp (toks : List String) : Option TOp :=
  match toks with
  | ["addfeat", lf, v] => (parseLF lf).map fun l => .addFeat l v.toNat!
  | ["addfn", a, fn, wr, v] => some (.addFn (parseAddr a) fn.toNat! (wr == "1") v.toNat!)
  | ["descr", a, v] => some (.descr (parseAddr a) v.toNat!)
  | ["adduc", v] => some (.addUc v.toNat!)
  | ["remuc", v] => some (.remUc v.toNat!)
  | "addent" :: v :: lfs => if (lfs.map parseLF).all Option.isSome then some (.addEnt (lfs.filterMap parseLF) v.toNat!) else none
  | ["rement", e, vu, v] => some (.remEnt (parseEnt e) vu.toNat! v.toNat!)
  | _ => (parseOp toks).map .op

partial def loop (h : IO.FS.Stream) (out : IO.FS.Stream) (c : Conf) (w : W) : IO Unit := do
  let line ← h.getLine
  if line.isEmpty then out.flush; return ()
  let toks := (line.trimAscii.toString.splitOn " ").filter (· ≠ "")
  let (c', w', ans) : Conf × W × String := match toks with
    | ["clear"] => ({}, initW {} {}, "ok")
    | ["loc", ent, feat, typ, role, nm, fds, ops] =>
      match parseRole role with
      | some r =>
        let c' := { c with loc := c.loc ++ [{ ent := parseEnt ent, feat := feat.toNat!, typ := typ.toNat!, role := r, fds := parseList fds, ops := parseOps ops, nm := nm == "1" }] }
        (c', w, "ok")
      | none => (c, w, "bad-op")
    | ["rem", ent, feat, typ, role, fds] =>
      match parseRole role with
      | some r => ({ c with rem := c.rem ++ [{ ent := parseEnt ent, feat := feat.toNat!, fds := parseList fds, typ := typ.toNat!, role := r }] }, w, "ok")
      | none => (c, w, "bad-op")
    | ["data", a, fn, v] => ({ c with data := c.data ++ [(parseAddr a, fn.toNat!, v.toNat!)] }, w, "ok")
    | ["nmdata", fn, v] => ({ c with nm := c.nm ++ [(fn.toNat!, v.toNat!)] }, w, "ok")
    | ["ops", a] => (c, w, match locF w (parseAddr a) with
        | some lf => if lf.ops.isEmpty then "-" else ",".intercalate (lf.ops.map fun o => s!"{o.1}:{if o.2 then 1 else 0}")
        | none => "none")
    | ["reset", r, u, e, o] =>
      (c, initW c { resultOnResult := flag r, unbindDisjunct := flag u, entRemovalAnyPeer := flag e, overviewPanics := flag o }, "reset")
    | ["binds"] => (c, w, if w.binds.isEmpty then "-" else "; ".intercalate (w.binds.map fun b => s!"{showAddr b.1}<-{b.2.1}:{showAddr b.2.2}"))
    | ["subs"] => (c, w, if w.subs.isEmpty then "-" else "; ".intercalate (w.subs.map fun b => s!"{showAddr b.1}<-{b.2.1}:{showAddr b.2.2}"))
    | _ =>
      match parseTOp toks with
      | some op =>
        let (w', outs) := tstep w op
        (c, w', showOuts outs ++ (if w'.written.length > w.written.length then " W" else ""))
      | none => (c, w, "bad-op")
  out.putStrLn ans
  out.flush
  loop h out c' w'

def main : IO Unit := do loop (← IO.getStdin) (← IO.getStdout) {} (initW {} {})
