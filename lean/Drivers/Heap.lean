import Spine.Heap
import Spine.ExtractFilter
import Spine.C04Applied
open Spine Spine.Heap
/-! Line protocol for the store / sharing model (C04, C11). One op per line, one answer per line.

    cfg <fastpathRemote> <mergeStrict> <selNilPanics> <emptySelPanics> <inplaceAltersFlag> <deleteStrict> <fastpathAdopts>   (0/1 each)  -> ok
    shape <n> <keys> <flag> <selMap> <elN> <elMap>                                       -> ok
        keys   = `-` or `idx:kind,...` (kind u|s|t = uint, string, struct)
        flag   = `-` or index
        selMap / elMap = `.` or comma list of index / `-`
    reset                                   -> reset      (heap only; cfg and shape stay)
    copy                                    -> <struct id> | nil
    upd <remote> <persist> <items> <fpk> <fps> <fpe> <fdk> <fds> <fde>
        items = `.` or `;`-separated items, an item = comma list of value / `-`
        f?k   = N (nil pointer) | E (filter without data) | F (filter with data); f?s selector item or N; f?e elements item or N
                                            -> panic | ok=<0|1> in=<struct id> ret=<struct id|nil>
    updl <remote> <persist> <items> <arr> <fpk> <fps> <fpe> <fdk> <fds> <fde>
        the same call as it arrives in a datagram: the command carries a filter LIST described by <arr>, one letter
        per entry — p the partial filter (f p*), d the delete filter (f d*), b an entry with both cmdControl tags and the
        partial filter's data, P / D a further partial / delete filter without data, o / e an entry without cmdControl
        resp. with an empty one — and `Cmd.ExtractFilter` (Spine.extractFilter) picks what UpdateData gets
                                            -> as upd
    judge <ok 0|1> <before> <after> <items> <fpk> <fps> <fpe> <fdk> <fds> <fde>
        SPEC evaluation on the IMPLEMENTATION's own data (stateless): a remote persisting write was answered with
        success (1) or an error (0), the function's data read `before` resp. `after` it. Evaluates the statements of
        `c04_success_all_applied_store` / `c04_error_unchanged_exact` with the functions the theorems are stated with.
                                            -> fast                               (the replace fast path: not judged here)
                                             | applied=<0|1> expect=<items>       (success)
                                             | region=<in|out> unchanged=<0|1>    (error)
    read <struct id>                        -> items
    store                                   -> items of the stored value
    dump                                    -> the items of every struct, in id order, separated by `|`
-/
def parseOpt (s : String) : Option Nat := if s == "-" then none else s.toNat?
def parseItem (s : String) : Item := if s == "" then [] else (s.splitOn ",").map parseOpt
def parseList (s : String) : List Item := if s == "." then [] else (s.splitOn ";").map parseItem
def parseOptItem (s : String) : Option Item := if s == "N" then none else some (parseItem s)
def showOpt : Option Nat → String | none => "-" | some n => toString n
def showItem (it : Item) : String := ",".intercalate (it.map showOpt)
def showList (l : List Item) : String := if l.isEmpty then "." else ";".intercalate (l.map showItem)
def parseFArg (k sel el : String) : Option FArg :=
  if k == "N" then some .nil else if k == "E" then some .nodata
  else if k == "F" then some (.data { sel := parseOptItem sel, el := parseOptItem el }) else none
def parseBool (s : String) : Option Bool := if s == "1" then some true else if s == "0" then some false else none
def parseMap (s : String) : List (Option Nat) := if s == "." then [] else (s.splitOn ",").map parseOpt
def parseKind (s : String) : Option KeyKind :=
  if s == "u" then some .uint else if s == "s" then some .str else if s == "t" then some .struct else none
def parseKeys (s : String) : Option (List (Nat × KeyKind)) :=
  if s == "-" then some [] else
  (s.splitOn ",").mapM fun p => match p.splitOn ":" with
    | [i, k] => match i.toNat?, parseKind k with
      | some i, some k => some (i, k)
      | _, _ => none
    | _ => none

structure St where
  cfg : Cfg := {}
  sh : Shape := { n := 5, keys := [(0, .uint)], flag := some 1, selMap := [some 0], elN := 5, elMap := [some 0, some 1, some 2, some 3, some 4] }
  h : H := {}

def step (st : St) (line : String) : St × String :=
  match line.trimAscii.toString.splitOn " " with
  | ["cfg", a, b, c, d, e, g, k] =>
    match parseBool a, parseBool b, parseBool c, parseBool d, parseBool e, parseBool g, parseBool k with
    | some a, some b, some c, some d, some e, some g, some k =>
      ({ st with cfg := { fastpathRemote := a, fastpathAdopts := k,
                          u := { mergeStrict := b, selNilPanics := c, emptySelPanics := d, inplaceAltersFlag := e, deleteStrict := g } } }, "ok")
    | _, _, _, _, _, _, _ => (st, "bad-op")
  | ["shape", n, keys, flag, selMap, elN, elMap] => match n.toNat?, parseKeys keys, elN.toNat? with
    | some n, some keys, some elN =>
      ({ st with sh := { n := n, keys := keys, flag := parseOpt flag, selMap := parseMap selMap, elN := elN, elMap := parseMap elMap } }, "ok")
    | _, _, _ => (st, "bad-op")
  | ["copy"] => let (h', c) := dataCopy st.h; ({ st with h := h' }, match c with | some c => toString c | none => "nil")
  | ["upd", remote, persist, nw, fpk, fps, fpe, fdk, fds, fde] =>
    match parseBool remote, parseBool persist, parseFArg fpk fps fpe, parseFArg fdk fds fde with
    | some remote, some persist, some fp, some fd =>
      let (h', r) := updateData st.cfg st.sh st.h remote persist (parseList nw) fp fd
      ({ st with h := h' }, match r with
        | .panic => "panic"
        | .done ok i o => s!"ok={if ok then 1 else 0} in={i} ret={match o with | some o => toString o | none => "nil"}")
    | _, _, _, _ => (st, "bad-op")
  | ["updl", remote, persist, nw, arr, fpk, fps, fpe, fdk, fds, fde] =>
    match parseBool remote, parseBool persist, parseFArg fpk fps fpe, parseFArg fdk fds fde with
    | some remote, some persist, some fp, some fd =>
      let entries : List (FEntry FArg) := arr.toList.filterMap fun ch =>
        if ch == 'p' || ch == 'b' then (if fp.isNil then none else some (.part fp))
        else if ch == 'd' then (if fd.isNil then none else some (.del fd))
        else if ch == 'P' then some (.part .nodata)
        else if ch == 'D' then some (.del .nodata)
        else some .other
      let (xp, xd) := extractFilter entries
      let (h', r) := updateData st.cfg st.sh st.h remote persist (parseList nw) (xp.getD .nil) (xd.getD .nil)
      ({ st with h := h' }, match r with
        | .panic => "panic"
        | .done ok i o => s!"ok={if ok then 1 else 0} in={i} ret={match o with | some o => toString o | none => "nil"}")
    | _, _, _, _ => (st, "bad-op")
  | ["judge", v, before, after, nw, fpk, fps, fpe, fdk, fds, fde] =>
    match parseBool v, parseFArg fpk fps fpe, parseFArg fdk fds fde with
    | some v, some fp, some fd =>
      let ex := parseList before
      let af := parseList after
      let nw := parseList nw
      if fp.isNil && fd.isNil && st.cfg.fastpathRemote then (st, "fast")
      else if v then
        let e := partialApplied st.cfg.u st.sh true nw fp.toOpt (delPhaseApplied st.cfg.u st.sh true fd.toOpt ex)
        (st, s!"applied={if e == af then 1 else 0} expect={showList e}")
      else
        let noEl := match fd.toOpt with
          | some f => f.el.isNone
          | none => true
        let inside := noEl && !partialTouches st.cfg.u st.sh true nw fp.toOpt ex
        (st, s!"region={if inside then "in" else "out"} unchanged={if ex == af then 1 else 0}")
    | _, _, _ => (st, "bad-op")
  | ["read", s] => match s.toNat? with
    | some s => (st, showList (st.h.readStruct s))
    | none => (st, "bad-op")
  | ["store"] => (st, showList st.h.readStore)
  | ["dump"] => (st, "|".intercalate ((List.range st.h.structs.length).map fun s => showList (st.h.readStruct s)))
  | ["reset"] => ({ st with h := {} }, "reset")
  | _ => (st, "bad-op")

partial def loop (inp out : IO.FS.Stream) (st : St) : IO Unit := do
  let line ← inp.getLine
  if line.isEmpty then out.flush; return ()
  let (st', ans) := step st line
  out.putStrLn ans
  out.flush
  loop inp out st'
def main : IO Unit := do loop (← IO.getStdin) (← IO.getStdout) {}
