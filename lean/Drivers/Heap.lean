import Spine.Heap
open Spine Spine.Heap
def parseOpt (s : String) : Option Nat := if s == "-" then none else s.toNat?
def parseItem (s : String) : Item := if s == "" then [] else (s.splitOn ",").map parseOpt
def parseList (s : String) : List Item := if s == "." then [] else (s.splitOn ";").map parseItem
def parseOptItem (s : String) : Option Item := if s == "N" then none else some (parseItem s)
def showOpt : Option Nat → String | none => "-" | some n => toString n
def showItem (it : Item) : String := ",".intercalate (it.map showOpt)
def showList (l : List Item) : String := if l.isEmpty then "." else ";".intercalate (l.map showItem)
def parseFilter (k sel el : String) : Option Filter :=
  if k == "N" || k == "E" then none else some { sel := parseOptItem sel, el := parseOptItem el }
def shape : Shape := { n := 5, keys := [(0, .uint)], flag := some 1, selMap := [some 0], elN := 5, elMap := [some 0, some 1, some 2, some 3, some 4] }
partial def loop (inp out : IO.FS.Stream) (h : H) : IO Unit := do
  let line ← inp.getLine
  if line.isEmpty then out.flush; return ()
  let (h', ans) : H × String := match line.trimAscii.toString.splitOn " " with
    | ["full", items] => let (h', s) := full h (parseList items); (h', toString s)
    | ["copy"] => let (h', c) := dataCopy h; (h', match c with | some c => toString c | none => "nil")
    | ["upd", remote, persist, nw, fpk, fps, fpe, fdk, fds, fde] =>
      let (h', r) := update shape h (remote == "1") (persist == "1") (parseList nw) (parseFilter fpk fps fpe) (parseFilter fdk fds fde)
      (h', match r with | none => "panic" | some b => if b then "ok=1" else "ok=0")
    | ["read", s] => (h, showList (h.readStruct s.toNat!))
    | ["reset"] => ({}, "reset")
    | _ => (h, "bad-op")
  out.putStrLn ans
  out.flush
  loop inp out h'
def main : IO Unit := do loop (← IO.getStdin) (← IO.getStdout) {}
