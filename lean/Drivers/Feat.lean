import Spine.Feature
open Spine.Feat
/-! Line protocol for the feature-creation model (C07, GetOrAddFeature / NextFeatureId on one entity).
    `cfg recheck 0|1` selects the member (0 = code as written, 1 = creation looks up again under the lock).
    `get op t r` is a call nothing overlaps; `lookup op t r` / `create op` are the two events of an overlapping call.
    Answers: the feature number the call returned (`get`, `create`, `lookup` on a hit) or `miss`. -/
structure D where
  recheck : Bool := false
  s : St := {}

def resOf (s : St) (op : Nat) : String :=
  match s.res.find? (·.1 = op) with
  | some (_, f) => toString f.id
  | none => "none"

def answer (d : D) (ws : List String) : D × String :=
  match ws with
  | ["cfg", "recheck", b] => ({ d with recheck := b == "1" }, "ok")
  | ["reset"] => ({ d with s := {} }, "ok")
  | ["get", op, t, r] => match op.toNat?, t.toNat?, r.toNat? with
    | some op, some t, some r =>
      let s' := step d.recheck { d.s with res := d.s.res.filter (·.1 ≠ op) } (.getOrAdd op t r)
      ({ d with s := s' }, resOf s' op)
    | _, _, _ => (d, "bad-op")
  | ["lookup", op, t, r] => match op.toNat?, t.toNat?, r.toNat? with
    | some op, some t, some r =>
      let s' := step d.recheck { d.s with res := d.s.res.filter (·.1 ≠ op) } (.lookup op t r)
      ({ d with s := s' }, if s'.missed.any (·.1 = op) then "miss" else resOf s' op)
    | _, _, _ => (d, "bad-op")
  | ["create", op] => match op.toNat? with
    | some op =>
      if d.s.missed.any (·.1 = op) then
        let s' := step d.recheck d.s (.create op)
        ({ d with s := s' }, resOf s' op)
      else (d, "not-missed")
    | none => (d, "bad-op")
  | ["next"] => ({ d with s := step d.recheck d.s .nextId }, toString d.s.nextId)
  | ["feats"] => (d, if d.s.feats.isEmpty then "." else ",".intercalate (d.s.feats.map fun f => s!"{f.id}:{f.typ}:{f.role}"))
  | _ => (d, "bad-op")

partial def loop (h out : IO.FS.Stream) (d : D) : IO Unit := do
  let line ← h.getLine
  if line.isEmpty then out.flush; return ()
  let (d', ans) := answer d ((line.trimAscii.toString.splitOn " ").filter (· ≠ ""))
  out.putStrLn ans
  out.flush
  loop h out d'

def main : IO Unit := do loop (← IO.getStdin) (← IO.getStdout) {}
