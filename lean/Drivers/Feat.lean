import Spine.Feature
import Spine.FeatureMore
open Spine.Feat
/-! Line protocol for the feature-creation model (C07, GetOrAddFeature / NextFeatureId on one entity).
    `cfg recheck 0|1` selects the member (0 = code as written, 1 = creation looks up again under the lock).
    `get op t r` is a call nothing overlaps; `lookup op t r` / `create op` are the two events of an overlapping call.
    Answers: the feature number the call returned (`get`, `create`, `lookup` on a hit) or `miss`.
    `drawn` prints the observer `Spine.Feat.drawnOf` accumulated over the events so far (the numbers drawn from the
    generator, oldest first), `answers` the observer `Spine.Feat.answerOf` (op:type-asked:role-asked:number handed
    back, oldest first) — the lists the theorems `c07_numbers_never_reused`, `c07_same_feature_asked` speak about. -/
structure D where
  recheck : Bool := false
  s : St := {}
  drawn : List Nat := []        -- newest first
  ans : List Answer := []       -- newest first

/-- one event: the observers see the event and the state it meets, then the model steps -/
def D.ev (d : D) (s0 : St) (e : Ev) : D :=
  { d with s := step d.recheck s0 e,
           drawn := (drawnOf d.recheck s0 e).toList ++ d.drawn,
           ans := (answerOf d.recheck s0 e).toList ++ d.ans }

def resOf (s : St) (op : Nat) : String :=
  match s.res.find? (·.1 = op) with
  | some (_, f) => toString f.id
  | none => "none"

def answer (d : D) (ws : List String) : D × String :=
  match ws with
  | ["cfg", "recheck", b] => ({ d with recheck := b == "1" }, "ok")
  | ["reset"] => ({ d with s := {}, drawn := [], ans := [] }, "ok")
  | ["get", op, t, r] => match op.toNat?, t.toNat?, r.toNat? with
    | some op, some t, some r =>
      let d' := d.ev { d.s with res := d.s.res.filter (·.1 ≠ op) } (.getOrAdd op t r)
      (d', resOf d'.s op)
    | _, _, _ => (d, "bad-op")
  | ["lookup", op, t, r] => match op.toNat?, t.toNat?, r.toNat? with
    | some op, some t, some r =>
      let d' := d.ev { d.s with res := d.s.res.filter (·.1 ≠ op) } (.lookup op t r)
      (d', if d'.s.missed.any (·.1 = op) then "miss" else resOf d'.s op)
    | _, _, _ => (d, "bad-op")
  | ["create", op] => match op.toNat? with
    | some op =>
      if d.s.missed.any (·.1 = op) then
        let d' := d.ev d.s (.create op)
        (d', resOf d'.s op)
      else (d, "not-missed")
    | none => (d, "bad-op")
  | ["next"] => (d.ev d.s .nextId, toString d.s.nextId)
  | ["drawn"] => (d, if d.drawn.isEmpty then "." else ",".intercalate (d.drawn.reverse.map toString))
  | ["answers"] => (d, if d.ans.isEmpty then "." else
      ",".intercalate (d.ans.reverse.map fun a => s!"{a.op}:{a.typ}:{a.role}:{a.f.id}"))
  | ["feats"] => (d, if d.s.feats.isEmpty then "." else ",".intercalate (d.s.feats.map fun f => s!"{f.id}:{f.typ}:{f.role}"))
  | _ => (d, "bad-op")

partial def loop (h out : IO.FS.Stream) (d : D) : IO Unit := do
  let line ← h.getLine
  if line.isEmpty then out.flush; return ()
  let (d', ans) := answer d ((line.trimAscii.toString.splitOn " ").filter (· ≠ ""))
  out.putStrLn ans
  out.flush
  loop h out d'

def main : IO Unit := do loop (← IO.getStdin) (← IO.getStdout) {}
