import Spine.Feature
open Spine.Feat

def answer (s : St) (ws : List String) : St × String :=
  match ws with
  | ["get", t, r] =>
    let s' := step s (.getOrAdd t.toNat! r.toNat!)
    (s', match s'.feats.find? (fun f => f.typ = t.toNat! && f.role = r.toNat!) with | some f => toString f.id | none => "none")
  | ["next"] => (step s .nextId, toString s.nextId)
  | ["feats"] => (s, if s.feats.isEmpty then "." else ",".intercalate (s.feats.map fun f => s!"{f.id}:{f.typ}:{f.role}"))
  | _ => (s, "bad-op")

partial def loop (h : IO.FS.Stream) (s : St) : IO Unit := do
  let line ← h.getLine
  if line.isEmpty then return ()
  let ws := (line.trimAscii.toString.splitOn " ").filter (· ≠ "")
  match ws with
  | ["reset"] => IO.println "ok"; (← IO.getStdout).flush; loop h {}
  | _ =>
    let (s', out) := answer s ws
    IO.println out
    (← IO.getStdout).flush
    loop h s'

def main : IO Unit := do loop (← IO.getStdin) {}
