import Spine.Approval
open Spine.Appr

def showOut (l : List (Nat × Out)) : String :=
  let ss := l.map fun (w, o) => s!"{w}:" ++ (match o with | .applied => "applied" | .error => "error")
  if ss.isEmpty then "." else ",".intercalate (ss.toArray.qsort (· < ·)).toList

def answer (c : Cfg) (s : St) (op : Nat) (ws : List String) : St × String :=
  let before := s.outcomes.length
  let s' : St :=
    match ws with
    | ["write", w] => step c s (.arrive w.toNat!)
    | ["verdict", w, a] => step c (step c s (.lookup op w.toNat!)) (.commit op (a == "1"))
    | ["wait"] => s.armed.foldl (fun s w => step c (step c s (.timeoutTake w)) (.timeoutSend w)) s
    | _ => s
  (s', showOut (s'.outcomes.drop before))

partial def loop (h : IO.FS.Stream) (c : Cfg) (s : St) (op : Nat) : IO Unit := do
  let line ← h.getLine
  if line.isEmpty then return ()
  let ws := (line.trimAscii.toString.splitOn " ").filter (· ≠ "")
  match ws with
  | ["reset", n] => IO.println "ok"; (← IO.getStdout).flush; loop h c { nCb := n.toNat! } 0
  | _ =>
    let (s', out) := answer c s op ws
    IO.println out
    (← IO.getStdout).flush
    loop h c s' (op + 1)

def main (args : List String) : IO Unit := do
  let c : Cfg := if args == ["fixed"] then Cfg.clean else if args == ["tally"] then { tallyReset := false, ignoreStop := true } else {}
  loop (← IO.getStdin) c { nCb := 1 } 0
