import Spine.Approval
import Spine.ApprovalConn
import Spine.ApprovalWire
open Spine
/-! Line protocol for the write-approval model (C12). One op per line, one answer per line.
    The model driven is `Spine.ApprE` (maps keyed by counter as in the code, write instances = (epoch, counter)),
    one state per peer. Member of the family by command line: `tally=0|1` (1 = tally map re-created), `stop=0|1`
    (1 = result of timer.Stop() ignored), `recheck=0|1` (1 = pending entry re-checked before counting),
    `msgid=0|1` (1 = pending lookup by message identity). For the fully repaired member the instance-keyed model
    `Spine.Appr` (the one the all-schedule theorems are about) runs side by side; if its outcomes ever differ the
    answer is prefixed with `MODEL-DIVERGENCE`.

    ops:  reset <nCb>                 -> ok
          arrive <p> <c> [<ack> <chg>] -> pres=<n> [outcomes]     (instance = (current epoch of p, c); ack = the header
                                                                   asks for an acknowledgement, chg = applying the
                                                                   payload is known to change the data)
          lookup <id> <p> <ep> <c>    -> outcomes (none)          (the verdict's MESSAGE is instance (ep, c))
          commit <id> <p> <0|1>       -> outcomes
          expire <p> <ep> <c>         -> outcomes (timeoutTake ; timeoutSend)
          take / send <p> <ep> <c>    -> the halves on their own
          drop <p>                    -> the peer's connection is removed
          member                      -> the flags
    outcomes: `.` or sorted comma-separated `p<p>.<ep>/<c>:applied|derr|terr`, followed — effects of the outcomes as
    `Spine.ApprW` defines them — by `p<p>.<conn>/<c>:ack` for every success result (ApprW.results: iff applied and
    acknowledgement requested, on the connection the write came in on; the connection of an error result is the one
    printed with `derr`/`terr`) and `p<p>.<ep>/<c>:data` for every change of the data (ApprW.applies, when chg). -/

def kindStr (o : Appr.Out) (timeout : Bool) : String :=
  match o with
  | .applied => "applied"
  | .error => if timeout then "terr" else "derr"

structure P where
  e : ApprE.St
  a : Appr.St          -- the instance-keyed twin (meaningful for the fully repaired member only)
  attrs : List (Nat × ApprW.Attr × Bool) := []   -- instance key ↦ (ackRequest, connection; applying changes the data)

def key (i : ApprE.Inst) : Nat := i.1 * 1000000 + i.2

def attrOf (p : P) (k : Nat) : ApprW.Attr :=
  match p.attrs.find? (·.1 = k) with
  | some (_, a, _) => a
  | none => {}

def chgOf (p : P) (k : Nat) : Bool :=
  match p.attrs.find? (·.1 = k) with
  | some (_, _, c) => c
  | none => false

def showNew (pi : Nat) (p p' : P) (timeout : Bool) (twin : Bool) : String :=
  let newE := p'.e.outcomes.drop p.e.outcomes.length
  let keyed : List (Nat × Appr.Out) := newE.map fun (i, o) => (key i, o)
  -- outcomes; the connection printed with an error is the one ApprW.results sends it on
  let errConn (k : Nat) : Nat := match (ApprW.results (attrOf p') (k, .error)) with
    | (c, _, _) :: _ => c
    | [] => 0
  let ne := keyed.map fun (k, o) =>
    match o with
    | .applied => s!"p{pi}.{k / 1000000}/{k % 1000000}:applied"
    | .error => s!"p{pi}.{errConn k}/{k % 1000000}:{kindStr o timeout}"
  let acks := (keyed.flatMap (ApprW.results (attrOf p'))).filterMap fun (c, k, r) =>
    match r with
    | .success => some s!"p{pi}.{c}/{k % 1000000}:ack"
    | .error => none
  let datas := ((keyed.flatMap ApprW.applies).filter (chgOf p')).map fun k => s!"p{pi}.{k / 1000000}/{k % 1000000}:data"
  let na := (p'.a.outcomes.drop p.a.outcomes.length).map fun (w, o) => (w, o)
  let se := ((ne ++ acks ++ datas).toArray.qsort (· < ·)).toList
  let ka := ((keyed.map fun (k, o) => s!"{k}:{kindStr o false}").toArray.qsort (· < ·)).toList
  let sa := ((na.map fun (k, o) => s!"{k}:{kindStr o false}").toArray.qsort (· < ·)).toList
  let body := if se.isEmpty then "." else ",".intercalate se
  if twin && ka != sa then s!"MODEL-DIVERGENCE instance-keyed={sa} {body}" else body

def full (c : ApprE.Cfg) : Bool := !c.tallyReset && !c.ignoreStop && c.recheck && c.msgId

def stepP (c : ApprE.Cfg) (p : P) (e : ApprE.Ev) : P :=
  let ae : Option Appr.Ev := match e with
    | .arrive ctr => some (.arrive (key (p.e.ep, ctr)))
    | .lookup op m => some (.lookup op (key m))
    | .commit op a => some (.commit op a)
    | .timeoutTake t => some (.timeoutTake (key t))
    | .timeoutSend t => some (.timeoutSend (key t))
    | .drop => some .drop
  { p with e := ApprE.step c p.e e, a := match ae with | some x => Appr.step Appr.Cfg.clean p.a x | none => p.a }

def nats (l : List String) : Option (List Nat) := l.mapM (·.toNat?)

def answer (c : ApprE.Cfg) (ps : Array P) (ws : List String) : Array P × String :=
  let tw := full c
  match ws with
  | "arrive" :: r =>
    match nats r with
    | some [p, ctr] => match ps[p]? with
      | some s => let s' := stepP c s (.arrive ctr)
                  (ps.set! p s', s!"pres={s'.e.presented - s.e.presented} {showNew p s s' false tw}")
      | none => (ps, "bad-op")
    | some [p, ctr, ack, chg] => match ps[p]? with
      | some s =>
        let fresh := !s.e.seen.contains (s.e.ep, ctr)
        let s0 : P := if fresh then { s with attrs := (key (s.e.ep, ctr), { ack := ack == 1, conn := s.e.ep }, chg == 1) :: s.attrs } else s
        let s' := stepP c s0 (.arrive ctr)
        (ps.set! p s', s!"pres={s'.e.presented - s.e.presented} {showNew p s s' false tw}")
      | none => (ps, "bad-op")
    | _ => (ps, "bad-op")
  | "lookup" :: r =>
    match nats r with
    | some [id, p, ep, ctr] => match ps[p]? with
      | some s => let s' := stepP c s (.lookup id (ep, ctr)); (ps.set! p s', showNew p s s' false tw)
      | none => (ps, "bad-op")
    | _ => (ps, "bad-op")
  | "commit" :: r =>
    match nats r with
    | some [id, p, a] => match ps[p]? with
      | some s => let s' := stepP c s (.commit id (a == 1)); (ps.set! p s', showNew p s s' false tw)
      | none => (ps, "bad-op")
    | _ => (ps, "bad-op")
  | "expire" :: r =>
    match nats r with
    | some [p, ep, ctr] => match ps[p]? with
      | some s => let s' := stepP c (stepP c s (.timeoutTake (ep, ctr))) (.timeoutSend (ep, ctr))
                  (ps.set! p s', showNew p s s' true tw)
      | none => (ps, "bad-op")
    | _ => (ps, "bad-op")
  | "take" :: r =>
    match nats r with
    | some [p, ep, ctr] => match ps[p]? with
      | some s => let s' := stepP c s (.timeoutTake (ep, ctr)); (ps.set! p s', showNew p s s' true tw)
      | none => (ps, "bad-op")
    | _ => (ps, "bad-op")
  | "send" :: r =>
    match nats r with
    | some [p, ep, ctr] => match ps[p]? with
      | some s => let s' := stepP c s (.timeoutSend (ep, ctr)); (ps.set! p s', showNew p s s' true tw)
      | none => (ps, "bad-op")
    | _ => (ps, "bad-op")
  | ["drop", p] =>
    match p.toNat? with
    | some p => match ps[p]? with
      | some s => let s' := stepP c s .drop; (ps.set! p s', showNew p s s' false tw)
      | none => (ps, "bad-op")
    | none => (ps, "bad-op")
  | ["pending", p] =>
    match p.toNat? with
    | some p => match ps[p]? with
      | some s => (ps, toString s.e.pending)
      | none => (ps, "bad-op")
    | none => (ps, "bad-op")
  | _ => (ps, "bad-op")

def fresh (n : Nat) : Array P :=
  #[{ e := { nCb := n }, a := { nCb := n } }, { e := { nCb := n }, a := { nCb := n } }, { e := { nCb := n }, a := { nCb := n } }]

partial def loop (h out : IO.FS.Stream) (c : ApprE.Cfg) (ps : Array P) : IO Unit := do
  let line ← h.getLine
  if line.isEmpty then out.flush; return ()
  let ws := (line.trimAscii.toString.splitOn " ").filter (· ≠ "")
  match ws with
  | ["reset", n] =>
    match n.toNat? with
    | some n => out.putStrLn "ok"; out.flush; loop h out c (fresh n)
    | none => out.putStrLn "bad-op"; out.flush; loop h out c ps
  | ["member"] =>
    out.putStrLn s!"tally={c.tallyReset} stop={c.ignoreStop} recheck={c.recheck} msgid={c.msgId}"; out.flush; loop h out c ps
  | _ =>
    let (ps', ans) := answer c ps ws
    out.putStrLn ans
    out.flush
    loop h out c ps'

def main (args : List String) : IO Unit := do
  let c : ApprE.Cfg := { tallyReset := args.contains "tally=1", ignoreStop := args.contains "stop=1",
                         recheck := !args.contains "recheck=0", msgId := !args.contains "msgid=0" }
  loop (← IO.getStdin) (← IO.getStdout) c (fresh 1)
