import Spine.Approval
import Spine.ApprovalConn
open Spine.Appr
/-! Line protocol for the write-approval model (C12). One op per line, one answer per line.
    The member of the family is chosen by the command line: `tally=0|1` (tally map re-created: 1 = as written),
    `stop=0|1` (result of timer.Stop() ignored: 1 = as written). One model state per peer (the maps of
    feature_local.go are keyed by the peer's SKI; the harness binds every peer to a feature of its own).

    ops:  reset <nCb>            -> ok
          arrive <p> <w>         -> pres=<number of callback invocations> [outcomes]
          lookup <id> <p> <w>    -> outcomes (none)
          commit <id> <p> <0|1>  -> outcomes
          expire <p> <w>         -> outcomes (timeoutTake ; timeoutSend)
          drop <p>               -> the peer's connection is removed (Spine.Appr.dropConn)
          take <p> <w> / send <p> <w>   -> the two halves of the timeout on their own
          pending <p>            -> the pending writes (debugging)
    outcomes: `.` or a sorted comma-separated list of `<w>:applied`, `<w>:derr` (error produced by a verdict),
    `<w>:terr` (error produced by the timeout). -/

def kindStr (o : Out) (timeout : Bool) : String :=
  match o with
  | .applied => "applied"
  | .error => if timeout then "terr" else "derr"

def showNew (before : Nat) (s' : St) (timeout : Bool) : String :=
  let ss := (s'.outcomes.drop before).map fun (w, o) => s!"{w}:{kindStr o timeout}"
  if ss.isEmpty then "." else ",".intercalate (ss.toArray.qsort (· < ·)).toList

def getP (ps : Array St) (p : Nat) : Option St := ps[p]?

def answer (c : Cfg) (ps : Array St) (ws : List String) : Array St × String :=
  match ws with
  | ["arrive", p, w] =>
    match p.toNat?, w.toNat? with
    | some p, some w =>
      match getP ps p with
      | some s =>
        let s' := step c s (.arrive w)
        (ps.set! p s', s!"pres={s'.presented.length - s.presented.length} {showNew s.outcomes.length s' false}")
      | none => (ps, "bad-op")
    | _, _ => (ps, "bad-op")
  | ["lookup", id, p, w] =>
    match id.toNat?, p.toNat?, w.toNat? with
    | some id, some p, some w =>
      match getP ps p with
      | some s => let s' := step c s (.lookup id w); (ps.set! p s', showNew s.outcomes.length s' false)
      | none => (ps, "bad-op")
    | _, _, _ => (ps, "bad-op")
  | ["commit", id, p, a] =>
    match id.toNat?, p.toNat?, a.toNat? with
    | some id, some p, some a =>
      match getP ps p with
      | some s => let s' := step c s (.commit id (a == 1)); (ps.set! p s', showNew s.outcomes.length s' false)
      | none => (ps, "bad-op")
    | _, _, _ => (ps, "bad-op")
  | ["expire", p, w] =>
    match p.toNat?, w.toNat? with
    | some p, some w =>
      match getP ps p with
      | some s => let s' := step c (step c s (.timeoutTake w)) (.timeoutSend w); (ps.set! p s', showNew s.outcomes.length s' true)
      | none => (ps, "bad-op")
    | _, _ => (ps, "bad-op")
  | ["take", p, w] =>
    match p.toNat?, w.toNat? with
    | some p, some w =>
      match getP ps p with
      | some s => let s' := step c s (.timeoutTake w); (ps.set! p s', showNew s.outcomes.length s' true)
      | none => (ps, "bad-op")
    | _, _ => (ps, "bad-op")
  | ["send", p, w] =>
    match p.toNat?, w.toNat? with
    | some p, some w =>
      match getP ps p with
      | some s => let s' := step c s (.timeoutSend w); (ps.set! p s', showNew s.outcomes.length s' true)
      | none => (ps, "bad-op")
    | _, _ => (ps, "bad-op")
  | ["drop", p] =>
    match p.toNat? with
    | some p => match getP ps p with
      | some s => let s' := dropConn s; (ps.set! p s', showNew s.outcomes.length s' false)
      | none => (ps, "bad-op")
    | none => (ps, "bad-op")
  | ["pending", p] =>
    match p.toNat? with
    | some p => match getP ps p with
      | some s => (ps, toString s.pending)
      | none => (ps, "bad-op")
    | none => (ps, "bad-op")
  | _ => (ps, "bad-op")

partial def loop (h out : IO.FS.Stream) (c : Cfg) (ps : Array St) : IO Unit := do
  let line ← h.getLine
  if line.isEmpty then out.flush; return ()
  let ws := (line.trimAscii.toString.splitOn " ").filter (· ≠ "")
  match ws with
  | ["reset", n] =>
    match n.toNat? with
    | some n => out.putStrLn "ok"; out.flush; loop h out c #[{ nCb := n }, { nCb := n }, { nCb := n }]
    | none => out.putStrLn "bad-op"; out.flush; loop h out c ps
  | ["member"] => out.putStrLn s!"tally={c.tallyReset} stop={c.ignoreStop}"; out.flush; loop h out c ps
  | _ =>
    let (ps', ans) := answer c ps ws
    out.putStrLn ans
    out.flush
    loop h out c ps'

def main (args : List String) : IO Unit := do
  let c : Cfg := { tallyReset := !args.contains "tally=0", ignoreStop := !args.contains "stop=0" }
  loop (← IO.getStdin) (← IO.getStdout) c #[{ nCb := 1 }, { nCb := 1 }, { nCb := 1 }]
