import Spine.Cmd
import Spine.CmdJson
import Spine.JsonText
open Spine.Json Spine.Generated Spine.Cmd Spine.CmdJson
/-! Line protocol for the command-table model `Spine.Cmd` (C18). One op per line, one answer per line.

    cfg <0|1>            select the member of the family: deleteByRef off / on
    rt <function> <shape> build the command for the function and shape from the tokens
                          (empty, data, sel, el, sel2), print what is built, its wire keys, and what is
                          recognised after encode/decode
    e2e <function> <shape> <V empty> ; <V data> ; <V sel> ; <V el> ; <V sel2>
                          END TO END with real values (prefix notation of `Spine/JsonText.lean`): the command
                          built from the values, as the Go value `cmdToV` of the schema's `CmdType`, its JSON by
                          `Spine.Json.encode`, and what is recognised after `Spine.Json.decode` and `cmdOfV`
                          (`Spine.CmdJson.e2e`)
    functions / features  the registered functions / the feature type constants of the regenerated table G1
    failing               the regenerated list of failing tag rows
    reset                 back to the member as written
-/

def label (n : Nat) : String :=
  match n with
  | 0 => "empty" | 1 => "data" | 2 => "sel" | 3 => "el" | 4 => "sel2" | _ => "?"

def showTyped : Option (Typed Nat) → String
  | some t => s!"{keyToString t.ty}:{label t.val}"
  | none => "-"

def showPair : Option (Option (Typed Nat) × Option (Typed Nat)) → String
  | some (s, e) => s!"(sel={showTyped s},el={showTyped e})"
  | none => "-"

def showFn : Option Key → String
  | some 0 => "\"\""
  | some k => keyToString k
  | none => "-"

def wKeys : W Nat → List String
  | .obj kvs => kvs.map fun p => keyToString p.1
  | _ => []

def filterKeys : W Nat → List String
  | .obj kvs => kvs.filterMap fun p =>
      if p.1 == keyOfString "filter" then
        match p.2 with
        | .arr ws => some (";".intercalate (ws.map fun w =>
            ",".intercalate ((wKeys w).map fun k =>
              if k == "cmdControl" then
                match w with
                | .obj fk => (match lookupW (keyOfString "cmdControl") fk with
                  | some c => "cmdControl{" ++ ",".intercalate (wKeys c) ++ "}"
                  | none => k)
                | _ => k
              else k)))
        | _ => none
      else none
  | _ => []

def showPanic : Panic → String
  | .deleteByRef => "panic convert-iface"
  | .cmdFieldType => "panic type"
  | .filterFieldType => "panic type"
  | .noCmdControl => "panic nil-cmdcontrol"

def parseShape : String → Option Shape
  | "read" => some .read | "readSel" => some .readSel | "readEl" => some .readEl | "reply" => some .reply
  | "full" => some .full | "part" => some .part | "partSel" => some .partSel | "delSel" => some .delSel
  | "delEl" => some .delEl | "readSelEl" => some .readSelEl | "replyPartial" => some .replyPartial
  | "delSelPartSel" => some .delSelPartSel
  | "partSelDelEl" => some .partSelDelEl | "delSelDelEl" => some .delSelDelEl
  | "delSelPartSelDelEl" => some .delSelPartSelDelEl
  | _ => none

def answerRt (cfg : Cfg) (fnName shape : String) : String :=
  match functions.find? (·.name == fnName), parseShape shape with
  | some fn, some sh =>
    if !applicable fn sh then "n/a" else
    match build cfg fn sh tok with
    | .error e => showPanic e
    | .ok c =>
      let w := encodeCmd c
      let built := s!"built fn={showFn c.function} keys={",".intercalate (wKeys w)} filters=[{";".intercalate (filterKeys w)}]"
      match decodeCmd w with
      | none => built ++ " | undecodable"
      | some c' =>
        let cmdfn := showFn c'.function
        match recognise c' with
        | .error e => built ++ " | " ++ showPanic e
        | .ok none => built ++ s!" | rec none cmdfn={cmdfn}"
        | .ok (some r) =>
          built ++ s!" | rec fct={showFn r.function} ty={keyToString r.payloadTy} payload={label r.payload} cmdfn={cmdfn} part={showPair r.part} del={showPair r.delete}"
  | none, _ => "unknown-function"
  | _, none => "bad-op"

def showTypedV : Option (Typed V) → String
  | some t => s!"{keyToString t.ty}:{showV t.val}"
  | none => "-"

def showPairV : Option (Option (Typed V) × Option (Typed V)) → String
  | some (s, e) => s!"(sel={showTypedV s},el={showTypedV e})"
  | none => "-"

/-- split a token list at the separator ";" -/
def splitSemi (ts : List String) : List (List String) :=
  ts.foldr (fun t acc => if t == ";" then [] :: acc else match acc with
    | g :: gs => (t :: g) :: gs
    | [] => [[t]]) [[]]

def parseWhole (ts : List String) : Option V :=
  match parseV ts with
  | some (v, []) => some v
  | _ => none

def answerE2E (cfg : Cfg) (fnName shape : String) (rest : List String) : String :=
  match functions.find? (·.name == fnName), parseShape shape with
  | some fn, some sh =>
    if !applicable fn sh then "n/a" else
    match (splitSemi rest).map parseWhole with
    | [some e, some d, some s, some el, some s2] =>
      -- where the data model has no selectors / elements type for the function the harness sends `n`: the
      -- argument is never used (`build` takes it only with a type); give it the value of the empty struct
      let s := if (selTy? fn).isNone then V.strct [] else s
      let s2 := if (selTy? fn).isNone then V.strct [] else s2
      let el := if (elTy? fn).isNone then V.strct [] else el
      let a : Args V := ⟨e, d, s, el, s2⟩
      if !argsTyped fn a then "untyped" else
      match build cfg fn sh a with
      | .error p => showPanic p
      | .ok c =>
        let v := cmdToV c
        let head := s!"V {showV v} | J {showJ (encode tCmdSchema v)}"
        match e2e cfg fn sh a with
        | .error p => head ++ " | " ++ showPanic p
        | .ok none => head ++ " | rec none"
        | .ok (some r) =>
          head ++ s!" | rec fct={showFn r.function} ty={keyToString r.payloadTy} payload={showV r.payload} part={showPairV r.part} del={showPairV r.delete}"
    | _ => "bad-op"
  | none, _ => "unknown-function"
  | _, none => "bad-op"

partial def loop (h out : IO.FS.Stream) (cfg : Cfg) : IO Unit := do
  let line ← h.getLine
  if line.isEmpty then out.flush; return ()
  let (cfg', ans) : Cfg × String := match line.trimAscii.toString.splitOn " " with
    | ["cfg", "0"] => (clean, "ok")
    | ["cfg", "1"] => (asWritten, "ok")
    | ["rt", f, sh] => (cfg, answerRt cfg f sh)
    | "e2e" :: f :: sh :: rest => (cfg, answerE2E cfg f sh rest)
    | ["functions"] => (cfg, " ".intercalate (functions.map (·.name)))
    | ["features"] => (cfg, " ".intercalate (featureFunctions.map (·.1) ++ featureTypesUnknown))
    | ["failing"] => (cfg, " ".intercalate (tagFailing.map fun r =>
        s!"{keyToString r.1}/{r.2.1}/{match filterRow? r.2.2 with | some fr => fr.go | none => "?"}"))
    | ["reset"] => (asWritten, "reset")
    | _ => (cfg, "bad-op")
  out.putStrLn ans
  out.flush
  loop h out cfg'

def main : IO Unit := do loop (← IO.getStdin) (← IO.getStdout) asWritten
