import Spine.Cmd
open Spine.Json Spine.Generated Spine.Cmd
/-! Line protocol for the command-table model `Spine.Cmd` (C18). One op per line, one answer per line.

    cfg <0|1>            select the member of the family: deleteByRef off / on
    rt <function> <shape> build the command for the function and shape from the tokens
                          (empty, data, sel, el, sel2), print what is built, its wire keys, and what is
                          recognised after encode/decode
    functions / features  the registered functions / the feature type constants of the regenerated table G1
    failing               the regenerated list of failing tag rows
    reset                 back to the member as written
-/

def label (n : Nat) : String :=
  match n with
  | 0 => "empty" | 1 => "data" | 2 => "sel" | 3 => "el" | 4 => "sel2" | _ => "?"

def showTyped : Option (Typed Nat) → String
  | some t => s!"{keyToString t.ty}:{label t.val}"
  | none => "-"

def showPair : Option (Option (Typed Nat) × Option (Typed Nat)) → String
  | some (s, e) => s!"(sel={showTyped s},el={showTyped e})"
  | none => "-"

def showFn : Option Key → String
  | some 0 => "\"\""
  | some k => keyToString k
  | none => "-"

def wKeys : W Nat → List String
  | .obj kvs => kvs.map fun p => keyToString p.1
  | _ => []

def filterKeys : W Nat → List String
  | .obj kvs => kvs.filterMap fun p =>
      if p.1 == keyOfString "filter" then
        match p.2 with
        | .arr ws => some (";".intercalate (ws.map fun w =>
            ",".intercalate ((wKeys w).map fun k =>
              if k == "cmdControl" then
                match w with
                | .obj fk => (match lookupW (keyOfString "cmdControl") fk with
                  | some c => "cmdControl{" ++ ",".intercalate (wKeys c) ++ "}"
                  | none => k)
                | _ => k
              else k)))
        | _ => none
      else none
  | _ => []

def showPanic : Panic → String
  | .deleteByRef => "panic convert-iface"
  | .cmdFieldType => "panic type"
  | .filterFieldType => "panic type"
  | .noCmdControl => "panic nil-cmdcontrol"

def parseShape : String → Option Shape
  | "read" => some .read | "readSel" => some .readSel | "readEl" => some .readEl | "reply" => some .reply
  | "full" => some .full | "part" => some .part | "partSel" => some .partSel | "delSel" => some .delSel
  | "delEl" => some .delEl | "readSelEl" => some .readSelEl | "replyPartial" => some .replyPartial
  | "delSelPartSel" => some .delSelPartSel
  | "partSelDelEl" => some .partSelDelEl | "delSelDelEl" => some .delSelDelEl
  | "delSelPartSelDelEl" => some .delSelPartSelDelEl
  | _ => none

def answerRt (cfg : Cfg) (fnName shape : String) : String :=
  match functions.find? (·.name == fnName), parseShape shape with
  | some fn, some sh =>
    if !applicable fn sh then "n/a" else
    match build cfg fn sh tok with
    | .error e => showPanic e
    | .ok c =>
      let w := encodeCmd c
      let built := s!"built fn={showFn c.function} keys={",".intercalate (wKeys w)} filters=[{";".intercalate (filterKeys w)}]"
      match decodeCmd w with
      | none => built ++ " | undecodable"
      | some c' =>
        let cmdfn := showFn c'.function
        match recognise c' with
        | .error e => built ++ " | " ++ showPanic e
        | .ok none => built ++ s!" | rec none cmdfn={cmdfn}"
        | .ok (some r) =>
          built ++ s!" | rec fct={showFn r.function} ty={keyToString r.payloadTy} payload={label r.payload} cmdfn={cmdfn} part={showPair r.part} del={showPair r.delete}"
  | none, _ => "unknown-function"
  | _, none => "bad-op"

partial def loop (h out : IO.FS.Stream) (cfg : Cfg) : IO Unit := do
  let line ← h.getLine
  if line.isEmpty then out.flush; return ()
  let (cfg', ans) : Cfg × String := match line.trimAscii.toString.splitOn " " with
    | ["cfg", "0"] => (clean, "ok")
    | ["cfg", "1"] => (asWritten, "ok")
    | ["rt", f, sh] => (cfg, answerRt cfg f sh)
    | ["functions"] => (cfg, " ".intercalate (functions.map (·.name)))
    | ["features"] => (cfg, " ".intercalate (featureFunctions.map (·.1) ++ featureTypesUnknown))
    | ["failing"] => (cfg, " ".intercalate (tagFailing.map fun r =>
        s!"{keyToString r.1}/{r.2.1}/{match filterRow? r.2.2 with | some fr => fr.go | none => "?"}"))
    | ["reset"] => (asWritten, "reset")
    | _ => (cfg, "bad-op")
  out.putStrLn ans
  out.flush
  loop h out cfg'

def main : IO Unit := do loop (← IO.getStdin) (← IO.getStdout) asWritten
