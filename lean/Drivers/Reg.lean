import Spine.Registry
open Spine.Reg
def parseEnt (s : String) : List Nat := (s.splitOn ".").filterMap String.toNat?
def showEnt (e : List Nat) : String := ".".intercalate (e.map toString)
def showEntry (e : Entry) : String := s!"{e.id}:{showEnt e.sEnt}/{e.sFeat}<-{e.peer}:{showEnt e.cEnt}/{e.cFeat}"
def showL (l : List Entry) : String := if l.isEmpty then "." else ",".intercalate (l.map showEntry)
def remoteFeats : List Feat := [
  ⟨[0], 0, 100, .special⟩,
  ⟨[1], 1, 1, .client⟩, ⟨[1], 2, 2, .client⟩, ⟨[1], 3, 0, .client⟩, ⟨[1], 4, 1, .server⟩,
  ⟨[2], 1, 1, .client⟩ ]
def localFeats : List Feat := [
  ⟨[0], 0, 100, .special⟩, ⟨[0], 1, 3, .server⟩,
  ⟨[1], 1, 1, .server⟩, ⟨[1], 2, 2, .server⟩, ⟨[1], 3, 1, .client⟩,
  ⟨[2], 1, 1, .server⟩, ⟨[2], 2, 4, .server⟩ ]
def init : St := { loc := localFeats, rem := fun _ => remoteFeats }
def b (x : Bool) : String := if x then "ok" else "err"
def cfg : Cfg := {}
partial def loop (h : IO.FS.Stream) (out : IO.FS.Stream) (s : St) : IO Unit := do
  let line ← h.getLine
  if line.isEmpty then out.flush; return ()
  let (s', ans) : St × String := match line.trimAscii.toString.splitOn " " with
    | ["sub", p, ce, cf, se, sf, t] => let (s', r) := addSub s p.toNat! (parseEnt ce) cf.toNat! (parseEnt se) sf.toNat! t.toNat!; (s', b r)
    | ["unsub", p, cd, ce, cf, se, sf] => let (s', r) := delSub cfg s p.toNat! cd.toNat! (parseEnt ce) cf.toNat! (parseEnt se) sf.toNat!; (s', b r)
    | ["bind", p, ce, cf, se, sf, t] => let (s', r) := addBind s p.toNat! (parseEnt ce) cf.toNat! (parseEnt se) sf.toNat! t.toNat!; (s', b r)
    | ["unbind", p, cd, ce, cf, se, sf] => let (s', r) := delBind cfg s p.toNat! cd.toNat! (parseEnt ce) cf.toNat! (parseEnt se) sf.toNat!; (s', b r)
    | ["drop", p] => (dropPeer cfg s p.toNat!, "done")
    | ["subs", p] => (s, showL (s.subs.filter (·.peer = p.toNat!)))
    | ["binds", p] => (s, showL (s.binds.filter (·.peer = p.toNat!)))
    | ["notify", se, sf] => (s, toString ((notifyTargets s (parseEnt se) sf.toNat!).map fun (p, e, f) => s!"{p}:{showEnt e}/{f}"))
    | ["reset"] => (init, "reset")
    | _ => (s, "bad-op")
  out.putStrLn ans
  out.flush
  loop h out s'
def main : IO Unit := do loop (← IO.getStdin) (← IO.getStdout) init
