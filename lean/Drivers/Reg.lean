import Drivers.RegWorld
import Spine.RegData
import Spine.RegWire
import Spine.RegEvents
open Spine.Reg
/-! Line protocol for the registry family (C08, C09, C10). One op per line, one answer per line.
    `cfg a b c d` (0/1 each) selects the member: delSubByDevice delBindByDevice unbindDisjunct dropBindsAnyPeer. -/
def showWEntry (w : Spine.RegWire.WEntry) : String := s!"{w.id}:{showEnt w.sEnt}/{w.sFeat}<-{w.cDev}:{showEnt w.cEnt}/{w.cFeat}"
def showW (l : List Spine.RegWire.WEntry) : String := if l.isEmpty then "." else ",".intercalate (l.map showWEntry)
def answer (cfg : Cfg) (br : List Nat) (s : St) (ws : List String) : Cfg × St × String :=
  match ws with
  | ["sub", p, ce, cf, se, sf, t] => match nats [p, cf, sf, t] with
    | some [p, cf, sf, t] => let (s', r) := addSub s p (parseEnt ce) cf (parseEnt se) sf t; (cfg, s', b r)
    | _ => (cfg, s, "bad-op")
  | ["unsub", p, cd, ce, cf, se, sf] => match nats [p, cd, cf, sf] with
    | some [p, cd, cf, sf] => let (s', r) := delSub cfg s p cd (parseEnt ce) cf (parseEnt se) sf; (cfg, s', b r)
    | _ => (cfg, s, "bad-op")
  | ["bind", p, ce, cf, se, sf, t] => match nats [p, cf, sf, t] with
    | some [p, cf, sf, t] => let (s', r) := addBind s p (parseEnt ce) cf (parseEnt se) sf t; (cfg, s', b r)
    | _ => (cfg, s, "bad-op")
  | ["unbind", p, cd, ce, cf, se, sf] => match nats [p, cd, cf, sf] with
    | some [p, cd, cf, sf] => let (s', r) := delBind cfg s p cd (parseEnt ce) cf (parseEnt se) sf; (cfg, s', b r)
    | _ => (cfg, s, "bad-op")
  | ["drop", p] => match p.toNat? with
    | some p => (cfg, removePeer cfg s p, "done")
    | none => (cfg, s, "bad-op")
  | ["dropent", p, e] => match p.toNat? with
    | some p => (cfg, dropEntities cfg s p (parseEnts e), "done")
    | none => (cfg, s, "bad-op")
  | ["addent", p, e] => match p.toNat? with
    | some p => (cfg, addEntity s p (parseEnt e), "done")
    | none => (cfg, s, "bad-op")
  | ["bareent", p, e] => match p.toNat? with
    | some p => (cfg, bareEntity s p (parseEnt e), "done")
    | none => (cfg, s, "bad-op")
  | ["discover", _] => (cfg, s, "done")
  | ["reconnect", p] => match p.toNat? with
    | some p => (cfg, { s with rem := fun q => if q = p then remoteFeats else s.rem q,
                               bare := fun q => if q = p then [] else s.bare q }, "done")
    | none => (cfg, s, "bad-op")
  | ["subspass", p, e] => match p.toNat? with
    | some p => (cfg, subsPass s p (parseEnt e), "done")
    | none => (cfg, s, "bad-op")
  | ["bindspass", p, e] => match p.toNat? with
    | some p => (cfg, bindsPass cfg s p (parseEnt e), "done")
    | none => (cfg, s, "bad-op")
  | ["subs", p] => match p.toNat? with
    | some p => (cfg, s, showL (subsOf s p))
    | none => (cfg, s, "bad-op")
  | ["binds", p] => match p.toNat? with
    | some p => (cfg, s, showL (bindsOf s p))
    | none => (cfg, s, "bad-op")
  -- the list as sent over the wire to peer p (reply to a read of the subscription / binding data)
  | ["wire", "subs", p] => match p.toNat? with
    | some p => (cfg, s, showW (Spine.RegWire.readSubs false s p))
    | none => (cfg, s, "bad-op")
  | ["wire", "binds", p] => match p.toNat? with
    | some p => (cfg, s, showW (Spine.RegWire.readBinds false s p))
    | none => (cfg, s, "bad-op")
  | ["notify", se, sf] => match sf.toNat? with
    | some sf => (cfg, s, toString ((delivered s (br.contains ·) (parseEnt se) sf).map fun (p, e, f) => s!"{p}:{showEnt e}/{f}"))
    | none => (cfg, s, "bad-op")
  | ["update", se, sf] => match sf.toNat? with
    | some sf => (cfg, s, toString ((delivered s (br.contains ·) (parseEnt se) sf).map fun (p, e, f) => s!"{p}:{showEnt e}/{f}"))
    | none => (cfg, s, "bad-op")
  | ["write", p, ce, cf, se, sf] => match nats [p, cf, sf] with
    -- a remote write: unknown source feature -> no answer; unknown / unwritable destination or no binding -> error
    -- result; otherwise applied and notified to the subscribers of the destination
    | some [p, cf, sf] =>
      let ce := parseEnt ce; let se := parseEnt se
      if (findF (s.rem p) ce cf).isNone then (cfg, s, "none")
      else if !(writable.contains (se, sf)) then (cfg, s, "denied")
      else if s.binds.any (·.is p ce cf se sf) then
        (cfg, s, toString ((delivered s (br.contains ·) se sf).map fun (p, e, f) => s!"{p}:{showEnt e}/{f}"))
      else (cfg, s, "denied")
    | _ => (cfg, s, "bad-op")
  | ["cfg", a, b', c, d] => match nats [a, b', c, d] with
    | some [a, b', c, d] =>
      ({ delSubByDevice := bit a, delBindByDevice := bit b', unbindDisjunct := bit c, dropBindsAnyPeer := bit d }, s, "cfg")
    | _ => (cfg, s, "bad-op")
  | ["reset"] => (cfg, init, "reset")
  | _ => (cfg, s, "bad-op")

/-! ## the data-change paths (C08): function-data store of the harness world, `Spine.RegData.change` -/
open Spine in
/-- the function a data change of feature (se, sf) concerns in the harness world: named by the feature's type -/
def fnOf (se : List Nat) (sf : Nat) : Nat := match findF localFeats se sf with | some f => f.typ | none => 0
open Spine in
/-- functions the local features have (the client feature [1]/3 has none) -/
def dataKeys : List RegData.FKey := [⟨[0], 0, 100⟩, ⟨[0], 1, 3⟩, ⟨[1], 1, 1⟩, ⟨[1], 2, 2⟩, ⟨[2], 1, 1⟩, ⟨[2], 2, 4⟩]
open Spine in
def initStore : List (RegData.FKey × Nat) := dataKeys.map (·, 0)
open Spine in
def writableKeys : List RegData.FKey := writable.map fun (e, f) => ⟨e, f, fnOf e f⟩
open Spine in
def showNote (n : RegData.Note) : String := s!"{n.peer}:{showEnt n.cEnt}/{n.cFeat}={n.fn}:{n.data}"
open Spine in
def showData (store : List (RegData.FKey × Nat)) (se : List Nat) (sf : Nat) : String :=
  match RegData.lookup store ⟨se, sf, fnOf se sf⟩ with | some v => toString v | none => "none"
open Spine in
/-- a data op: the content number is the running count of data ops (the harness numbers its values the same way);
    node management's use-case data (function 100) carries no number -/
def dataOp (br : List Nat) (s : St) (store : List (RegData.FKey × Nat)) (val : Nat) (ws : List String) :
    Option (List (RegData.FKey × Nat) × String) :=
  let d : RegData.St := { reg := s, store := store, writable := writableKeys }
  let fails := fun p => br.contains p
  let go (path : RegData.Path) (se : List Nat) (sf : Nat) (bad : Bool) : List (RegData.FKey × Nat) × String :=
    let fn := if bad then 999 else fnOf se sf
    let nv := if fn = 100 then 0 else val
    let (d', _, ns) := RegData.change d fails path ⟨se, sf, fn⟩ nv
    (d'.store, toString (ns.map showNote) ++ " data=" ++ showData d'.store se sf)
  match ws with
  | ["notify", se, sf] => sf.toNat?.map fun sf => go .setData (parseEnt se) sf false
  | ["update", se, sf] => sf.toNat?.map fun sf => go .updateData (parseEnt se) sf false
  | ["notifybad", se, sf] => sf.toNat?.map fun sf => go .setData (parseEnt se) sf true
  | ["updatebad", se, sf] => sf.toNat?.map fun sf => go .updateData (parseEnt se) sf true
  | ["write", p, ce, cf, se, sf] => (nats [p, cf, sf]).bind fun
    | [p, cf, sf] =>
      let se := parseEnt se
      let fn := fnOf se sf
      let (d', a, ns) := RegData.remoteWrite d fails p (parseEnt ce) cf ⟨se, sf, fn⟩ val
      some (d'.store, match a with
        | .none => "none"
        | .denied => "denied data=" ++ showData d'.store se sf
        | .applied => toString (ns.map showNote) ++ " data=" ++ showData d'.store se sf)
    | _ => none
  | _ => none
/-- the subscription-change events of a subscribe / unsubscribe call, "+p:ce/cf->se/sf" / "-…" -/
def showKey (k : Spine.RegEv.Key) : String := s!"{k.1}:{showEnt k.2.1}/{k.2.2.1}->{showEnt k.2.2.2.1}/{k.2.2.2.2}"
def showEv : Spine.RegEv.Ev → String
  | .add k => "+" ++ showKey k
  | .remove k => "-" ++ showKey k
def callEv (cfg : Cfg) (s : St) (ws : List String) : String :=
  let op : Option Op := match ws with
    | ["sub", p, ce, cf, se, sf, t] => (nats [p, cf, sf, t]).bind fun
      | [p, cf, sf, t] => some (.sub p (parseEnt ce) cf (parseEnt se) sf t) | _ => none
    | ["unsub", p, cd, ce, cf, se, sf] => (nats [p, cd, cf, sf]).bind fun
      | [p, cd, cf, sf] => some (.unsub p cd (parseEnt ce) cf (parseEnt se) sf) | _ => none
    | _ => none
  match op with
  | some op => toString ((Spine.RegEv.callEvents cfg s op).map showEv)
  | none => "[]"
/-- `save` / `restore`: one slot for the state, so that the harness can ask for both orders of two operations -/
partial def loop (h : IO.FS.Stream) (out : IO.FS.Stream) (cfg : Cfg) (br : List Nat) (s saved : St)
    (store savedStore : List (Spine.RegData.FKey × Nat)) (val : Nat) (rich : Bool) (ev : String) : IO Unit := do
  let line ← h.getLine
  if line.isEmpty then out.flush; return ()
  let ws := stripDecor ((line.trimAscii.toString.splitOn " ").filter (· ≠ ""))
  if ws == ["save"] then
    out.putStrLn "saved"; out.flush
    loop h out cfg br s s store store val rich ev
  else if ws == ["restore"] then
    out.putStrLn "restored"; out.flush
    loop h out cfg br saved saved savedStore savedStore val rich ev
  else if ws == ["reset"] then
    out.putStrLn "reset"; out.flush
    loop h out cfg [] init saved initStore savedStore 0 rich ev
  else if ws == ["events"] then
    -- the subscription-change events of the last registry call (Spine.RegEv.callEvents)
    out.putStrLn ev; out.flush
    loop h out cfg br s saved store savedStore val rich ev
  else if ws == ["rich"] then
    -- from here on data ops answer with the payload of every notification and the store after the op
    out.putStrLn "rich"; out.flush
    loop h out cfg br s saved store savedStore val true ev
  else match ws with
    -- `broken k`: the connection of peer k cannot be written to (every send to it fails)
    | ["broken", k] =>
      out.putStrLn "done"; out.flush
      loop h out cfg ((k.toNat?.getD 0) :: br) s saved store savedStore val rich ev
    | _ =>
      match (if rich then dataOp br s store (val + 1) ws else none) with
      | some (store', ans) =>
        out.putStrLn ans; out.flush
        loop h out cfg br s saved store' savedStore (val + 1) rich ev
      | none =>
        let isData := match ws with
          | "notify" :: _ => true | "update" :: _ => true | "write" :: _ => true | _ => false
        let (cfg', s', ans) := answer cfg br s ws
        out.putStrLn ans
        out.flush
        loop h out cfg' br s' saved store savedStore (if isData then val + 1 else val) rich (callEv cfg s ws)
def main : IO Unit := do loop (← IO.getStdin) (← IO.getStdout) {} [] init init initStore initStore 0 false "[]"
