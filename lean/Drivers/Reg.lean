import Drivers.RegWorld
open Spine.Reg
/-! Line protocol for the registry family (C08, C09, C10). One op per line, one answer per line.
    `cfg a b c d` (0/1 each) selects the member: delSubByDevice delBindByDevice unbindDisjunct dropBindsAnyPeer. -/
def answer (cfg : Cfg) (br : List Nat) (s : St) (ws : List String) : Cfg × St × String :=
  match ws with
  | ["sub", p, ce, cf, se, sf, t] => match nats [p, cf, sf, t] with
    | some [p, cf, sf, t] => let (s', r) := addSub s p (parseEnt ce) cf (parseEnt se) sf t; (cfg, s', b r)
    | _ => (cfg, s, "bad-op")
  | ["unsub", p, cd, ce, cf, se, sf] => match nats [p, cd, cf, sf] with
    | some [p, cd, cf, sf] => let (s', r) := delSub cfg s p cd (parseEnt ce) cf (parseEnt se) sf; (cfg, s', b r)
    | _ => (cfg, s, "bad-op")
  | ["bind", p, ce, cf, se, sf, t] => match nats [p, cf, sf, t] with
    | some [p, cf, sf, t] => let (s', r) := addBind s p (parseEnt ce) cf (parseEnt se) sf t; (cfg, s', b r)
    | _ => (cfg, s, "bad-op")
  | ["unbind", p, cd, ce, cf, se, sf] => match nats [p, cd, cf, sf] with
    | some [p, cd, cf, sf] => let (s', r) := delBind cfg s p cd (parseEnt ce) cf (parseEnt se) sf; (cfg, s', b r)
    | _ => (cfg, s, "bad-op")
  | ["drop", p] => match p.toNat? with
    | some p => (cfg, removePeer cfg s p, "done")
    | none => (cfg, s, "bad-op")
  | ["dropent", p, e] => match p.toNat? with
    | some p => (cfg, dropEntities cfg s p (parseEnts e), "done")
    | none => (cfg, s, "bad-op")
  | ["addent", p, e] => match p.toNat? with
    | some p => (cfg, addEntity s p (parseEnt e), "done")
    | none => (cfg, s, "bad-op")
  | ["bareent", p, e] => match p.toNat? with
    | some p => (cfg, bareEntity s p (parseEnt e), "done")
    | none => (cfg, s, "bad-op")
  | ["discover", _] => (cfg, s, "done")
  | ["reconnect", p] => match p.toNat? with
    | some p => (cfg, { s with rem := fun q => if q = p then remoteFeats else s.rem q,
                               bare := fun q => if q = p then [] else s.bare q }, "done")
    | none => (cfg, s, "bad-op")
  | ["subspass", p, e] => match p.toNat? with
    | some p => (cfg, subsPass s p (parseEnt e), "done")
    | none => (cfg, s, "bad-op")
  | ["bindspass", p, e] => match p.toNat? with
    | some p => (cfg, bindsPass cfg s p (parseEnt e), "done")
    | none => (cfg, s, "bad-op")
  | ["subs", p] => match p.toNat? with
    | some p => (cfg, s, showL (subsOf s p))
    | none => (cfg, s, "bad-op")
  | ["binds", p] => match p.toNat? with
    | some p => (cfg, s, showL (bindsOf s p))
    | none => (cfg, s, "bad-op")
  | ["notify", se, sf] => match sf.toNat? with
    | some sf => (cfg, s, toString ((delivered s (br.contains ·) (parseEnt se) sf).map fun (p, e, f) => s!"{p}:{showEnt e}/{f}"))
    | none => (cfg, s, "bad-op")
  | ["update", se, sf] => match sf.toNat? with
    | some sf => (cfg, s, toString ((delivered s (br.contains ·) (parseEnt se) sf).map fun (p, e, f) => s!"{p}:{showEnt e}/{f}"))
    | none => (cfg, s, "bad-op")
  | ["write", p, ce, cf, se, sf] => match nats [p, cf, sf] with
    -- a remote write: unknown source feature -> no answer; unknown / unwritable destination or no binding -> error
    -- result; otherwise applied and notified to the subscribers of the destination
    | some [p, cf, sf] =>
      let ce := parseEnt ce; let se := parseEnt se
      if (findF (s.rem p) ce cf).isNone then (cfg, s, "none")
      else if !(writable.contains (se, sf)) then (cfg, s, "denied")
      else if s.binds.any (·.is p ce cf se sf) then
        (cfg, s, toString ((delivered s (br.contains ·) se sf).map fun (p, e, f) => s!"{p}:{showEnt e}/{f}"))
      else (cfg, s, "denied")
    | _ => (cfg, s, "bad-op")
  | ["cfg", a, b', c, d] => match nats [a, b', c, d] with
    | some [a, b', c, d] =>
      ({ delSubByDevice := bit a, delBindByDevice := bit b', unbindDisjunct := bit c, dropBindsAnyPeer := bit d }, s, "cfg")
    | _ => (cfg, s, "bad-op")
  | ["reset"] => (cfg, init, "reset")
  | _ => (cfg, s, "bad-op")
/-- `save` / `restore`: one slot for the state, so that the harness can ask for both orders of two operations -/
partial def loop (h : IO.FS.Stream) (out : IO.FS.Stream) (cfg : Cfg) (br : List Nat) (s saved : St) : IO Unit := do
  let line ← h.getLine
  if line.isEmpty then out.flush; return ()
  let ws := stripDecor ((line.trimAscii.toString.splitOn " ").filter (· ≠ ""))
  if ws == ["save"] then
    out.putStrLn "saved"; out.flush
    loop h out cfg br s s
  else if ws == ["restore"] then
    out.putStrLn "restored"; out.flush
    loop h out cfg br saved saved
  else if ws == ["reset"] then
    out.putStrLn "reset"; out.flush
    loop h out cfg [] init saved
  else match ws with
    -- `broken k`: the connection of peer k cannot be written to (every send to it fails)
    | ["broken", k] =>
      out.putStrLn "done"; out.flush
      loop h out cfg ((k.toNat?.getD 0) :: br) s saved
    | _ =>
      let (cfg', s', ans) := answer cfg br s ws
      out.putStrLn ans
      out.flush
      loop h out cfg' br s' saved
def main : IO Unit := do loop (← IO.getStdin) (← IO.getStdout) {} [] init init
