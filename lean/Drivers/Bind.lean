import Spine.Bind
open Spine.Bind
/-! Line protocol for the event-sourced AddBinding model (C09, schedule clause).
    `cfg m`: 0 = the code as written (single-binding check and insertion in separate critical sections, the yield
    point between them), 1 = repaired, yield point reached before the one critical section (a request parks first and
    does everything when released), 2 = repaired, yield point not reached (a request does everything when started).
    `check k srv cl` starts request k, `insert k` releases it. Servers are numbered by the harness. -/

def nats (ws : List String) : Option (List Nat) := ws.mapM String.toNat?

def showClients (s : St) (srv : Nat) : String :=
  let l := (onServer s srv).map (toString ·.client)
  if l.isEmpty then "." else ",".intercalate l

def answer (m : Nat) (s : St) (ws : List String) : Nat × St × String :=
  match ws with
  | ["check", k, srv, cl] => match nats [k, srv, cl] with
    | some [k, srv, cl] =>
      if m = 0 then
        let free := (onServer s srv).isEmpty
        (m, step s (.check k srv cl), if free then "parked" else "ret err")
      else if m = 1 then
        (m, { s with passed := (k, srv, cl) :: s.passed }, "parked")
      else
        let free := (onServer s srv).isEmpty
        (m, step s (.atomicAdd srv cl), if free then "ret ok" else "ret err")
    | _ => (m, s, "bad-op")
  | ["insert", k] => match k.toNat? with
    | some k =>
      match s.passed.find? (·.1 = k) with
      | none => (m, s, "-")
      | some (_, srv, cl) =>
        if m = 0 then (m, step s (.insert k), "ret ok")
        else
          let free := (onServer s srv).isEmpty
          let s' := step s (.atomicAdd srv cl)
          (m, { s' with passed := s'.passed.filter (·.1 ≠ k) }, if free then "ret ok" else "ret err")
    | none => (m, s, "bad-op")
  | ["entries", srv] => match srv.toNat? with
    | some srv => (m, s, showClients s srv)
    | none => (m, s, "bad-op")
  | ["cfg", f] => match f.toNat? with
    | some f => (f, s, "cfg")
    | none => (m, s, "bad-op")
  | ["reset"] => (m, {}, "reset")
  | _ => (m, s, "bad-op")

partial def loop (h out : IO.FS.Stream) (m : Nat) (s : St) : IO Unit := do
  let line ← h.getLine
  if line.isEmpty then out.flush; return ()
  let ws := (line.trimAscii.toString.splitOn " ").filter (· ≠ "")
  let (m', s', ans) := answer m s ws
  out.putStrLn ans
  out.flush
  loop h out m' s'

def main : IO Unit := do loop (← IO.getStdin) (← IO.getStdout) 0 {}
