import Spine.LocalTree
open Spine.LTree
/-! Line protocol for the local device tree model (C07). One op per line, one answer per line:
    the observations of the step joined by " ; " ("-" if none). -/
def b01 (b : Bool) : String := if b then "1" else "0"
def showFn (f : Fn) : String := s!"{f.fn}/{b01 f.read}/{b01 f.write}"
def showFeat (f : Feat) : String :=
  let fns := (f.fns.toArray.qsort (fun a b => a.fn < b.fn)).toList
  s!"{f.id}:{f.typ}:{f.role}:{f.descr}:[" ++ ",".intercalate (fns.map showFn) ++ "]"
def showObs : Obs → String
  | .notify p added k et feats => s!"N {p} {b01 added} {k} {et} [" ++ ";".intercalate (feats.map showFeat) ++ "]"
  | .ucNotify p => s!"U {p}"
  | .reply p ents feats =>
    s!"R {p} E " ++ ",".intercalate (ents.map fun (k, et) => s!"{k}:{et}") ++ " | F " ++
      ";".intercalate (feats.map fun (k, f) => s!"{k}/" ++ showFeat f)
  | .ret id => s!"{id}"
def showAll (os : List Obs) : String := if os.isEmpty then "-" else " ; ".intercalate (os.map showObs)

def nums (ws : List String) : Option (List Nat) := ws.mapM String.toNat?

def parseOp : List String → Option Op
  | [] => none
  | w :: rest =>
    match w, nums rest with
    | "attach", some [k] => some (.attach k)
    | "detach", some [k] => some (.detach k)
    | "renew", some [k, et] => some (.renew k et)
    | "feat", some [k, t, r] => some (.feat k t r)
    | "next", some [k] => some (.nextId k)
    | "fn", some [k, fid, fn, r, w] => some (.addFn k fid fn (r == 1) (w == 1))
    | "descr", some [k, fid, d] => some (.setDescr k fid d)
    | "sub", some [p] => some (.sub p)
    | "unsub", some [p] => some (.unsub p)
    | "adduc", some [k] => some (.addUc k)
    | "read", some [p] => some (.read p)
    | _, _ => none

/-- driver state: the model state and the peers whose connection cannot be written to (`world abc`, one digit per
    peer, 1 = failing; must precede the ops of a history, `reset` clears it) -/
structure D where
  s : St := init
  failing : List Nat := []

def answer (d : D) (ws : List String) : D × String :=
  let out := fun (os : List Obs) => showAll (delivered d.failing os)
  match ws with
  | ["reset"] => ({}, "ok")
  | ["world", flags] =>
    let fl := (flags.toList.zipIdx.filter fun (c, _) => c == '1').map (·.2)
    ({ d with failing := fl }, "ok")
  | ["resolve", k, id] => match nums [k, id] with
    | some [k, id] => (d, match resolve d.s k id with | some f => showFeat f | none => "none")
    | _ => (d, "bad-op")
  | "readheld" :: p :: _ :: rest => match p.toNat?, parseOp rest with
    | some p, some (.attach k) => let (s', os) := heldRead d.s p (.attach k); ({ d with s := s' }, out os)
    | some p, some (.detach k) => let (s', os) := heldRead d.s p (.detach k); ({ d with s := s' }, out os)
    | _, _ => (d, "bad-op")
  | _ => match parseOp ws with
    | some o => let (s', os) := step d.s o; ({ d with s := s' }, out os)
    | none => (d, "bad-op")

partial def loop (h out : IO.FS.Stream) (d : D) : IO Unit := do
  let line ← h.getLine
  if line.isEmpty then out.flush; return ()
  let (d', ans) := answer d ((line.trimAscii.toString.splitOn " ").filter (· ≠ ""))
  out.putStrLn ans
  out.flush
  loop h out d'

def main : IO Unit := do loop (← IO.getStdin) (← IO.getStdout) {}
