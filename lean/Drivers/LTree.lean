import Spine.LocalTree
import Spine.LocalTreeRead
import Spine.Generated.Functions
open Spine.LTree
/-! Line protocol for the local device tree model (C07). One op per line, one answer per line:
    the observations of the step joined by " ; " ("-" if none). -/
def b01 (b : Bool) : String := if b then "1" else "0"
/-- function/read/read.partial/write/write.partial as `Operations.Information` renders them -/
def showFn (f : Fn) : String :=
  let (r, rp, w, wp) := f.info
  s!"{f.fn}/{b01 r}/{b01 rp}/{b01 w}/{b01 wp}"
def showDev (c : DevCfg) : String := s!"{c.addr}:{c.dtype}:{c.fset}"
def showFeat (f : Feat) : String :=
  let fns := (f.fns.toArray.qsort (fun a b => a.fn < b.fn)).toList
  s!"{f.id}:{f.typ}:{f.role}:{f.descr}:[" ++ ",".intercalate (fns.map showFn) ++ "]"
def showObs : Obs → String
  | .notify p added k et feats => s!"N {p} {b01 added} {k} {et} [" ++ ";".intercalate (feats.map showFeat) ++ "]"
  | .ucNotify p => s!"U {p}"
  | .destList p es => s!"L {p} " ++ ",".intercalate (es.map showDev)
  | .reply p dev ents feats =>
    s!"R {p} D {showDev dev} E " ++ ",".intercalate (ents.map fun (k, et) => s!"{k}:{et}") ++ " | F " ++
      ";".intercalate (feats.map fun (k, f) => s!"{k}/" ++ showFeat f)
  | .ret id => s!"{id}"
def showAll (os : List Obs) : String := if os.isEmpty then "-" else " ; ".intercalate (os.map showObs)

def nums (ws : List String) : Option (List Nat) := ws.mapM String.toNat?

def parseOp : List String → Option Op
  | [] => none
  | w :: rest =>
    match w, nums rest with
    | "attach", some [k] => some (.attach k)
    | "detach", some [k] => some (.detach k)
    | "renew", some [k, et] => some (.renew k et)
    | "feat", some [k, t, r] => some (.feat k t r)
    | "next", some [k] => some (.nextId k)
    | "fn", some [k, fid, fn, r, w, cap] => some (.addFn k fid fn (r == 1) (w == 1) (cap == 1))
    | "dread", some [p, known] => some (.destRead p (known == 1))
    | "descr", some [k, fid, d] => some (.setDescr k fid d)
    | "sub", some [p] => some (.sub p)
    | "unsub", some [p] => some (.unsub p)
    | "adduc", some [k] => some (.addUc k)
    | "read", some [p] => some (.read p)
    | _, _ => none

/-- the function's data supports partial updates on a feature of that type: the function is in the feature type's
    factory table and its payload implements `Updater` (regenerated table `Spine.Generated.Functions`) -/
def capOf (ftName fnName : String) : Bool :=
  match Spine.Generated.featureFunctions.find? (·.1 == ftName) with
  | none => false
  | some (_, keys) =>
    match Spine.Generated.functions.find? (·.name == fnName) with
    | none => false
    | some row => keys.contains row.key && row.updater

/-- driver state: the model state, the peers whose connection cannot be written to and the harness's name tables
    (`world abc [dtype fset]`: one digit per peer, 1 = failing, then the device configuration; must precede the ops of
    a history, `reset` clears it; `name t|f IDX NAME` registers the name behind a feature-type / function index,
    kept across `reset`) -/
structure D where
  s : St := init {}
  failing : List Nat := []
  tnames : List (Nat × String) := []
  fnames : List (Nat × String) := []
  rd : Option Rd := none      -- a read in progress (overlapped-read block)

def D.cap (d : D) (k fid fn : Nat) : Bool :=
  match (d.s.pool k).feats.find? (·.id = fid) with
  | none => false
  | some f =>
    match d.tnames.find? (·.1 = f.typ), d.fnames.find? (·.1 = fn) with
    | some (_, tn), some (_, fnn) => capOf tn fnn
    | _, _ => false

def answer (d : D) (ws : List String) : D × String :=
  let out := fun (os : List Obs) => showAll (delivered d.failing os)
  match ws with
  | ["reset"] => ({ d with s := init {}, failing := [], rd := none }, "ok")
  | ["name", "t", i, n] => match i.toNat? with
    | some i => ({ d with tnames := (i, n) :: d.tnames }, "ok")
    | none => (d, "bad-op")
  | ["name", "f", i, n] => match i.toNat? with
    | some i => ({ d with fnames := (i, n) :: d.fnames }, "ok")
    | none => (d, "bad-op")
  | "world" :: flags :: rest =>
    let fl := (flags.toList.zipIdx.filter fun (c, _) => c == '1').map (·.2)
    match nums rest with
    | some [] => ({ d with failing := fl }, "ok")
    | some [dt, fs] => ({ d with failing := fl, s := init ⟨0, dt, fs⟩ }, "ok")
    | _ => (d, "bad-op")
  | ["fn", k, fid, fn, r, w] => match nums [k, fid, fn, r, w] with
    | some [k, fid, fn, r, w] =>
      let (s', os) := step d.s (.addFn k fid fn (r == 1) (w == 1) (d.cap k fid fn))
      ({ d with s := s' }, out os)
    | _ => (d, "bad-op")
  -- overlapped read (Spine/LocalTreeRead.lean): `rhold P K` peer P's read starts and runs until it is about to render
  -- entity K (or to its end: then the reply is the answer); `rmove K` the held read goes on until it is about to render
  -- K; `rrelease` it runs to its end. Ordinary ops in between meet the read where it stands.
  | ["rhold", p, k] => match nums [p, k], d.rd with
    | some [p, k], none =>
      let rd := tickUntil d.s k (fuelOf d.s (rbegin d.s p)) (rbegin d.s p)
      if rd.done then ({ d with rd := none }, out [rd.reply d.s]) else ({ d with rd := some rd }, "-")
    | _, _ => (d, "bad-op")
  | ["rmove", k] => match k.toNat?, d.rd with
    | some k, some rd0 =>
      let rd1 := tick d.s rd0
      let rd := tickUntil d.s k (fuelOf d.s rd1) rd1
      if rd.done then ({ d with rd := none }, out [rd.reply d.s]) else ({ d with rd := some rd }, "-")
    | _, _ => (d, "bad-op")
  | ["rrelease"] => match d.rd with
    | some rd0 =>
      let rd1 := tick d.s rd0
      let rd := tickAll d.s (fuelOf d.s rd1) rd1
      if rd.done then ({ d with rd := none }, out [rd.reply d.s]) else (d, "bad-op")
    | none => (d, "bad-op")
  | ["resolve", k, id] => match nums [k, id] with
    | some [k, id] => (d, match resolve d.s k id with | some f => showFeat f | none => "none")
    | _ => (d, "bad-op")
  | "readheld" :: p :: _ :: rest => match p.toNat?, parseOp rest with
    | some p, some (.attach k) => let (s', os) := heldRead d.s p (.attach k); ({ d with s := s' }, out os)
    | some p, some (.detach k) => let (s', os) := heldRead d.s p (.detach k); ({ d with s := s' }, out os)
    | _, _ => (d, "bad-op")
  | _ => match parseOp ws with
    | some o => let (s', os) := step d.s o; ({ d with s := s' }, out os)
    | none => (d, "bad-op")

partial def loop (h out : IO.FS.Stream) (d : D) : IO Unit := do
  let line ← h.getLine
  if line.isEmpty then out.flush; return ()
  let (d', ans) := answer d ((line.trimAscii.toString.splitOn " ").filter (· ≠ ""))
  out.putStrLn ans
  out.flush
  loop h out d'

def main : IO Unit := do loop (← IO.getStdin) (← IO.getStdout) {}
