import Spine.Header
open Spine.Hdr

def clsOf : String → Option Cls
  | "read" => some .read | "reply" => some .reply | "notify" => some .notify
  | "write" => some .write | "call" => some .call | "result" => some .result | _ => none

def showPre : Pre → String
  | .panic s => "panic:" ++ (s.splitOn "(").head!
  | .dropped => "nothing"
  | .errorResult => "error-result"
  | .proceed => "proceed"

def answer (g : Bool) (ws : List String) : String :=
  match ws with
  | ["pre", sv, dv, cls, ref, mc, cmds, fv, rv, resp] =>
    let sv := sv.toNat!; let dv := dv.toNat!
    let d : Raw := {
      src := if sv = 0 then none else some ([1], 1), dst := if dv = 0 then none else some ([1], 1),
      cls := clsOf cls, ref := if ref = "1" then some 7 else none, msgCounter := mc = "1", responds := resp = "1", cmds := cmds.toNat!,
      filterWithoutCmdControl := fv = "2", resultData := rv ≠ "0", errorNumber := rv = "2",
      srcKnown := sv = 1 || sv = 5, dstKnown := dv = 1 || dv = 5 }
    showPre (pre g d)
  | _ => "bad-op"

partial def loop (h : IO.FS.Stream) (g : Bool) : IO Unit := do
  let line ← h.getLine
  if line.isEmpty then return ()
  let ws := (line.trimAscii.toString.splitOn " ").filter (· ≠ "")
  IO.println (answer g ws)
  (← IO.getStdout).flush
  loop h g

def main (args : List String) : IO Unit := do loop (← IO.getStdin) (args == ["fixed"])
