import Spine.Header
open Spine.Hdr

/-! Line-protocol driver of the header-layer model (C05).
    Arguments: the repairs the harness probed in the tree under test, any of `addr filter pmo noresonres`
    (`fixed` = the first three). Ops: `cfg` (echo the member), `reset`, `pre sv dv cls ref mc cmds fv rv resp`. -/

def clsOf : String → Option Cls
  | "read" => some .read | "reply" => some .reply | "notify" => some .notify
  | "write" => some .write | "call" => some .call | "result" => some .result | _ => none

def showPre : Pre → String
  | .panic s => "panic:" ++ (s.splitOn "(").head!
  | .dropped => "nothing"
  | .errorResult => "error-result"
  | .proceed => "proceed"

def b2s (b : Bool) : String := if b then "1" else "0"

def answer (c : Cfg) (ws : List String) : String :=
  match ws with
  | ["cfg"] => s!"addr={b2s c.addr} filter={b2s c.filter} pmo={b2s c.pmo} noresonres={b2s c.noResOnRes}"
  | ["reset"] => "ok"
  | ["pre", sv, dv, cls, ref, mc, cmds, fv, rv, resp] =>
    let sv := sv.toNat!; let dv := dv.toNat!
    let d : Raw := {
      src := if sv = 0 then none else some ([1], 1), dst := if dv = 0 then none else some ([1], 1),
      cls := clsOf cls, ref := if ref = "1" then some 7 else none, msgCounter := mc = "1", responds := resp = "1", cmds := cmds.toNat!,
      filterWithoutCmdControl := fv = "2", resultData := rv ≠ "0", errorNumber := rv = "2",
      srcKnown := sv = 1 || sv = 5, dstKnown := dv = 1 || dv = 5 }
    showPre (pre c d)
  | _ => "bad-op"

partial def loop (h : IO.FS.Stream) (c : Cfg) : IO Unit := do
  let line ← h.getLine
  if line.isEmpty then return ()
  let ws := (line.trimAscii.toString.splitOn " ").filter (· ≠ "")
  IO.println (answer c ws)
  (← IO.getStdout).flush
  loop h c

def main (args : List String) : IO Unit := do
  let fixed := args.contains "fixed"
  let c : Cfg := { addr := fixed || args.contains "addr", filter := fixed || args.contains "filter",
                   pmo := fixed || args.contains "pmo", noResOnRes := args.contains "noresonres" }
  loop (← IO.getStdin) c
