import Spine.UseCaseSnap
open Spine.UC Spine.UCS
/-! Line protocol of the heap model of the use-case helpers (C11, `Spine.UCS`). One op per line, one answer per line.

    `add E A N V AV SC SUB` | `avail E A N AV` | `rm E A N` | `rmall E`   an EntityLocal helper (DataCopy, helper, SetData)
    `m <op>`                                                            the helper of package model on a scratch DataCopy
    `o K <op>`                                                          the helper of package model on retained value K (oldest = 0)
    `snap`                                                              a value is handed out and retained
    `has E A N`                                                         HasUseCaseSupport
    `cfg a b c`                                                         member of the family (addInPlace availInPlace removeAllInPlace)
    Answer of every op but `has` / `cfg`: the store as it reads now, then every retained value (oldest first) as it
    reads now, separated by ` ## `. -/
def showSup (s : Support) : String := s!"{s.name}/{s.version}/{if s.avail then 1 else 0}/{s.scen}/{s.sub}"
def showInfo (i : Info) : String := s!"{i.ent}:{i.actor}:" ++ ",".intercalate (i.sup.map showSup)
def showReg (r : Reg) : String := if r.isEmpty then "." else " | ".intercalate (r.map showInfo)
def parseEnt (s : String) : List Nat := (s.splitOn ".").filterMap String.toNat?
def nums (ws : List String) : Option (List Nat) := ws.mapM String.toNat?

def parseOp : List String → Option Op
  | ["add", e, a, n, v, av, sc, sub] => do
    let [a, n, v, av, sub] ← nums [a, n, v, av, sub] | none
    some (.add (parseEnt e) a ⟨n, v, av == 1, (sc.splitOn ",").filterMap String.toNat?, sub⟩)
  | ["avail", e, a, n, av] => do
    let [a, n, av] ← nums [a, n, av] | none
    some (.setAvail (parseEnt e) a n (av == 1))
  | ["rm", e, a, n] => do
    let [a, n] ← nums [a, n] | none
    some (.remove (parseEnt e) a n)
  | ["rmall", e] => some (.removeAll (parseEnt e))
  | _ => none

structure D where
  c : Cfg := {}
  s : St := {}

def showAll (s : St) : String :=
  " ## ".intercalate (showReg (s.h.view s.store) :: s.handles.reverse.map fun v => showReg (s.h.view v))

def answer (d : D) (ws : List String) : D × String :=
  match ws with
  | ["reset"] => ({ c := d.c }, ".")
  | ["cfg", a, b, c] => ({ d with c := ⟨a == "1", b == "1", c == "1"⟩ }, "ok")
  | ["snap"] => let s' := step d.c d.s .copy; ({ d with s := s' }, showAll s')
  | ["has", e, a, n] => match nums [a, n] with
    | some [a, n] => (d, if has (d.s.h.view d.s.store) (parseEnt e) a n then "true" else "false")
    | _ => (d, "bad-op")
  | "o" :: k :: rest => match k.toNat?, parseOp rest with
    | some k, some o =>
      -- k counts from the oldest retained value; the model's list is newest first
      let n := d.s.handles.length
      if k < n then let s' := step d.c d.s (.own (n - 1 - k) o); ({ d with s := s' }, showAll s') else (d, "bad-op")
    | _, _ => (d, "bad-op")
  | "m" :: rest => match parseOp rest with
    | some o => let s' := step d.c d.s (.scratch o); ({ d with s := s' }, showAll s')
    | none => (d, "bad-op")
  | _ => match parseOp ws with
    | some o => let s' := step d.c d.s (.op o); ({ d with s := s' }, showAll s')
    | none => (d, "bad-op")

partial def loop (h : IO.FS.Stream) (out : IO.FS.Stream) (s : D) : IO Unit := do
  let line ← h.getLine
  if line.isEmpty then out.flush; return ()
  let (s', ans) := answer s ((line.trimAscii.toString.splitOn " ").filter (· ≠ ""))
  out.putStrLn ans
  out.flush
  loop h out s'
def main : IO Unit := do loop (← IO.getStdin) (← IO.getStdout) {}
