import Spine.TeardownKeys
open Spine Spine.TdK
/-! Line protocol for the identity-key teardown model `Spine.TdK` (C10). One op per line, one answer per line.
    `facts sss bbb ddd eee` — what RemoveSubscriptionsForEntity / RemoveBindingsForEntity / CleanRemoteDeviceCaches /
    CleanRemoteEntityCaches compare, three bits each: connection, device address, entity (the harness passes the values the
    translator derived from the tree under test). `reset` empties the world. Unknown op: `bad-op`. -/

def parseEnt (s : String) : List Nat := (s.splitOn ".").filterMap String.toNat?
def showEnt (e : List Nat) : String := ".".intercalate (e.map toString)
def nats (ws : List String) : Option (List Nat) := ws.mapM String.toNat?

def parseCmp (s : String) : Option Cmp :=
  match s.toList with
  | [a, b, c] => if [a, b, c].all (fun x => x == '0' || x == '1') then some ⟨a == '1', b == '1', c == '1'⟩ else none
  | _ => none

def showEntry (e : Entry) : String := s!"{showEnt e.sEnt}/{e.sFeat}<-{e.cl.ski}:{e.cl.dev}:{showEnt e.cl.ent}/{e.cFeat}"
def showBook (b : Book) : String := s!"{b.dev}:{showEnt b.ent}/{b.feat}"
def showConn (c : Conn) : String := s!"{c.ski}:{c.dev}:" ++ ",".intercalate (c.ents.map showEnt)

def insertSorted (x : String) : List String → List String
  | [] => [x]
  | y :: ys => if x ≤ y then x :: y :: ys else y :: insertSorted x ys
def sorted (l : List String) : List String := l.foldr insertSorted []
def showSet (l : List String) : String := if l.isEmpty then "." else " ".intercalate (sorted l)

def showEv : Ev → String
  | .subRemoved e => "S" ++ showEntry e
  | .bindRemoved e => "B" ++ showEntry e
  | .deviceRemoved k => s!"D{k}"
  | .entityRemoved k e => s!"E{k}:{showEnt e}"

def showState (s : St) : String :=
  s!"subs {showSet (s.subs.map showEntry)} | binds {showSet (s.binds.map showEntry)} | csubs {showSet (s.csubs.map showBook)} | cbinds {showSet (s.cbinds.map showBook)} | conns {showSet (s.conns.map showConn)}"

def answer (F : Facts) (s : St) (n : Nat) (ws : List String) : Facts × St × Nat × String :=
  match ws with
  | ["facts", a, b, c, d] => match parseCmp a, parseCmp b, parseCmp c, parseCmp d with
    | some a, some b, some c, some d => (⟨a, b, c, d⟩, s, n, "facts")
    | _, _, _, _ => (F, s, n, "bad-op")
  | ["reset"] => (F, { conns := [] }, 0, "reset")
  | ["connect", k, d, es] => match nats [k, d] with
    | some [k, d] =>
      if (forSki s k).isSome then (F, s, n, "dup") else (F, connect s ⟨k, d, (es.splitOn ",").map parseEnt⟩, n, "ok")
    | _ => (F, s, n, "bad-op")
  | [kind, k, e, cf, se, sf] =>
    if kind != "sub" && kind != "bind" then (F, s, n, "bad-op") else
    match nats [k, cf, sf] with
    | some [k, cf, sf] =>
      let s' := addEntry s (kind == "bind") (n + 1) k (parseEnt e) cf (parseEnt se) sf
      (F, s', n + 1, if s'.subs.length + s'.binds.length > s.subs.length + s.binds.length then "ok" else "none")
    | _ => (F, s, n, "bad-op")
  | [kind, d, e, f] =>
    if kind != "csub" && kind != "cbind" then (F, s, n, "bad-op") else
    match nats [d, f] with
    | some [d, f] =>
      let s' := addBook s (kind == "cbind") ⟨d, parseEnt e, f⟩
      (F, s', n, if s'.csubs.length + s'.cbinds.length > s.csubs.length + s.cbinds.length then "ok" else "err")
    | _ => (F, s, n, "bad-op")
  | ["drop", k] => match k.toNat? with
    | some k => let r := drop F s k; (F, r.1, n, showSet (r.2.map showEv))
    | none => (F, s, n, "bad-op")
  | ["dropent", k, e] => match k.toNat? with
    | some k => let r := dropEntity F s k (parseEnt e); (F, r.1, n, showSet (r.2.map showEv))
    | none => (F, s, n, "bad-op")
  | ["state"] => (F, s, n, showState s)
  | ["ski", k] => match k.toNat? with
    | some k => (F, s, n, match forSki s k with | some c => s!"{c.ski}:{c.dev}" | none => "-")
    | none => (F, s, n, "bad-op")
  | ["addr", d] => match d.toNat? with
    -- with two connections announcing one address the code's map iteration decides which one resolves: only "some / none"
    | some d => (F, s, n, match forAddress s d with | some c => (if (s.conns.filter (·.dev == d)).length > 1 then "some" else s!"{c.ski}:{c.dev}") | none => "-")
    | none => (F, s, n, "bad-op")
  | _ => (F, s, n, "bad-op")

partial def loop (h out : IO.FS.Stream) (F : Facts) (s : St) (n : Nat) : IO Unit := do
  let line ← h.getLine
  if line.isEmpty then out.flush; return ()
  let ws := (line.trimAscii.toString.splitOn " ").filter (· ≠ "")
  let (F', s', n', ans) := answer F s n ws
  out.putStrLn ans
  out.flush
  loop h out F' s' n'

def main : IO Unit := do loop (← IO.getStdin) (← IO.getStdout) Facts.head { conns := [] } 0
