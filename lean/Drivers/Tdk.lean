import Spine.TeardownKeys
import Spine.TeardownServe
import Spine.TeardownKeysPend
open Spine Spine.TdK
/-! Line protocol for the identity-key teardown model `Spine.TdK` (C10). One op per line, one answer per line.
    `facts sss bbb ddd eee` — what RemoveSubscriptionsForEntity / RemoveBindingsForEntity / CleanRemoteDeviceCaches /
    CleanRemoteEntityCaches compare, three bits each: connection, device address, entity (the harness passes the values the
    translator derived from the tree under test). `reset` empties the world. Unknown op: `bad-op`.

    SERVING (composition with the dispatch model, `Spine.TdS`): `ctx fn typ fdsCsv s1 s2 s3 s4 cl` declares the harness
    world's context (local server feature [i]/s_i of type `typ` holding the functions `fdsCsv`, `fn` readable and
    writable; local client feature [1]/cl; every remote entity but [0] announces client features 1, 2 and server feature 3
    of that type); `dg q cls srcEnt srcFeat dstEnt dstFeat fn ctr ack val` is an inbound datagram of connection `q`
    (answer: the outputs per connection; the data of the local features is updated); `call q sub|bind cEnt cFeat sEnt
    sFeat typ ctr ack` is a node-management request call of `q` (answer: outputs; a granted request enters the registry
    through `TdK.addEntry`). -/

def parseEnt (s : String) : List Nat := (s.splitOn ".").filterMap String.toNat?
def showEnt (e : List Nat) : String := ".".intercalate (e.map toString)
def nats (ws : List String) : Option (List Nat) := ws.mapM String.toNat?

def parseCmp (s : String) : Option Cmp :=
  match s.toList with
  | [a, b, c] => if [a, b, c].all (fun x => x == '0' || x == '1') then some ⟨a == '1', b == '1', c == '1'⟩ else none
  | _ => none

def showEntry (e : Entry) : String := s!"{showEnt e.sEnt}/{e.sFeat}<-{e.cl.ski}:{e.cl.dev}:{showEnt e.cl.ent}/{e.cFeat}"
def showBook (b : Book) : String := s!"{b.dev}:{showEnt b.ent}/{b.feat}"
def showConn (c : Conn) : String := s!"{c.ski}:{c.dev}:" ++ ",".intercalate (c.ents.map showEnt)

def insertSorted (x : String) : List String → List String
  | [] => [x]
  | y :: ys => if x ≤ y then x :: y :: ys else y :: insertSorted x ys
def sorted (l : List String) : List String := l.foldr insertSorted []
def showSet (l : List String) : String := if l.isEmpty then "." else " ".intercalate (sorted l)

def showEv : Ev → String
  | .subRemoved e => "S" ++ showEntry e
  | .bindRemoved e => "B" ++ showEntry e
  | .deviceRemoved k => s!"D{k}"
  | .entityRemoved k e => s!"E{k}:{showEnt e}"

def showState (s : St) : String :=
  s!"subs {showSet (s.subs.map showEntry)} | binds {showSet (s.binds.map showEntry)} | csubs {showSet (s.csubs.map showBook)} | cbinds {showSet (s.cbinds.map showBook)} | conns {showSet (s.conns.map showConn)}"

/-! ### serving: the composed model `Spine.TdS` -/

def mkCtx (fn typ : Nat) (fds : List Nat) (srv : List Nat) (cl : Nat) : TdS.Ctx :=
  { loc := [{ ent := [0], feat := 0, typ := 0, role := .special, fds := [], ops := [], nm := true }] ++
      (srv.zipIdx.map fun (f, i) => { ent := [i + 1], feat := f, typ := typ, role := .server, fds := fds, ops := [(fn, true)] }) ++
      [{ ent := [1], feat := cl, typ := typ, role := .client, fds := fds, ops := [] }],
    featsOf := fun _ e => if e = [0] then [⟨[0], 0, [], 0, .special⟩]
      else [⟨e, 1, fds, typ, .client⟩, ⟨e, 2, fds, typ, .client⟩, ⟨e, 3, fds, typ, .server⟩] }

def showAddr (a : Disp.Addr) : String := s!"{showEnt a.1}/{a.2}"
def showRef : Option Nat → String
  | some r => toString r
  | none => "-"

def showOut : Disp.Out → String
  | .reply r fn src dst v _ => s!"reply:{showRef r}:{fn}:{showAddr src}:{showAddr dst}:v{v}"
  | .result r e src dst _ => s!"result:{showRef r}:{e}:{showAddr src}:{showAddr dst}"
  | .readReq fn src dst => s!"readReq:{fn}:{showAddr src}:{showAddr dst}"
  | .notify fn src dst v => s!"notify:{fn}:{showAddr src}:{showAddr dst}:v{v}"
  | .subReq => "subReq"
  | .panic => "panic"

def showOuts (l : List (Nat × Disp.Out)) : String := showSet (l.map fun o => s!"{o.1}>{showOut o.2}")

def parseCls : String → Option Disp.Cls
  | "read" => some .read | "reply" => some .reply | "notify" => some .notify
  | "write" => some .write | "call" => some .call | "result" => some .result
  | _ => none

structure DS where
  F : Facts
  p : PSt
  n : Nat
  x : TdS.Ctx

def DS.s (D : DS) : St := D.p.s

def showPend (x : Pend) : String := s!"{x.ski}#{x.epoch}:{x.ctr}:{showEnt x.ent}/{x.cFeat}>{showEnt x.srv.1}/{x.srv.2}"

/-- PENDING WRITE APPROVALS (`Spine/TeardownKeysPend.lean`): `connect` / `drop` / `dropent` run the extended steps;
    `pwrite k ctr ent cf sEnt sFeat` is a write of connection k to a server feature with an approval callback (answer:
    `pending <epoch>` or `denied`), `verdict k epoch ctr sEnt sFeat` the application's verdict for the message of that
    connection epoch (answer: `taken` / `ignored`), `pends` the pending approvals with their keys. -/
def pendOp (F : Facts) (p : PSt) (ws : List String) : Option (PSt × String) :=
  match ws with
  | ["connect", k, d, es] => match nats [k, d] with
    | some [k, d] =>
      if (forSki p.s k).isSome then some (p, "dup") else some (pconnect p ⟨k, d, (es.splitOn ",").map parseEnt⟩, "ok")
    | _ => none
  | ["drop", k] => k.toNat?.map fun k => let r := pdrop F p k; (r.1, showSet (r.2.map showEv))
  | ["dropent", k, e] => k.toNat?.map fun k => let r := pdropEntity F p k (parseEnt e); (r.1, showSet (r.2.map showEv))
  | ["dropentdrop", k, e] => k.toNat?.map fun k =>
    -- the connection removed while its entity-removed notification is processed: the sequential result (every
    -- interleaving ends there), the events of both as one multiset
    let r1 := pdropEntity F p k (parseEnt e)
    let r2 := pdrop F r1.1 k
    (r2.1, showSet ((r1.2 ++ r2.2).map showEv))
  | ["pwrite", k, ctr, e, cf, se, sf] => match nats [k, ctr, cf, sf] with
    | some [k, ctr, cf, sf] =>
      let r := pwrite p k ctr (parseEnt e) cf (parseEnt se, sf)
      some (r.1, if r.2 then s!"pending {epochOf p k}" else "denied")
    | _ => none
  | ["verdict", k, ep, ctr, se, sf] => match nats [k, ep, ctr, sf] with
    | some [k, ep, ctr, sf] =>
      let r := presolve p k ep ctr (parseEnt se, sf)
      some (r.1, if r.2 then "taken" else "ignored")
    | _ => none
  | ["pends"] => some (p, showSet (p.pends.map showPend))
  | _ => none

def serveOp (D : DS) (ws : List String) : Option (DS × String) :=
  match ws with
  | ["ctx", fn, typ, fds, s1, s2, s3, s4, cl] => match nats [fn, typ, s1, s2, s3, s4, cl] with
    | some [fn, typ, s1, s2, s3, s4, cl] =>
      some ({ D with x := mkCtx fn typ ((fds.splitOn ",").filterMap String.toNat?) [s1, s2, s3, s4] cl }, "ctx")
    | _ => none
  | ["dg", q, cls, se, sf, de, df, fn, ctr, ack, val] => match nats [q, sf, df, fn, ctr, ack, val], parseCls cls with
    | some [q, sf, df, fn, ctr, ack, val], some cls =>
      let d : Disp.Dg := { src := (parseEnt se, sf), dst := (parseEnt de, df), ctr := some ctr, ref := none, cls := cls,
                           ack := ack == 1, fn := fn, val := val }
      let r := TdS.serveCmd D.x D.s q d
      some ({ D with x := r.1 }, showOuts r.2)
    | _, _ => none
  | ["call", q, kind, ce, cf, se, sf, typ, ctr, ack] => match nats [q, cf, sf, typ, ctr, ack] with
    | some [q, cf, sf, typ, ctr, ack] =>
      if kind != "sub" && kind != "bind" then none else
      let c : Disp.Call := if kind == "bind" then .bind (parseEnt ce, cf) (parseEnt se, sf) typ else .sub (parseEnt ce, cf) (parseEnt se, sf) typ
      let r := TdS.serveCall D.x D.s q ctr (ack == 1) c
      let s' := if r.1 then addEntry D.s (kind == "bind") (D.n + 1) q (parseEnt ce) cf (parseEnt se) sf else D.s
      some ({ D with p := { D.p with s := s' }, n := D.n + 1 }, showOuts r.2)
    | _ => none
  | _ => none

def answer (F : Facts) (s : St) (n : Nat) (ws : List String) : Facts × St × Nat × String :=
  match ws with
  | ["facts", a, b, c, d] => match parseCmp a, parseCmp b, parseCmp c, parseCmp d with
    | some a, some b, some c, some d => (⟨a, b, c, d⟩, s, n, "facts")
    | _, _, _, _ => (F, s, n, "bad-op")
  | ["reset"] => (F, { conns := [] }, 0, "reset")
  | ["connect", k, d, es] => match nats [k, d] with
    | some [k, d] =>
      if (forSki s k).isSome then (F, s, n, "dup") else (F, connect s ⟨k, d, (es.splitOn ",").map parseEnt⟩, n, "ok")
    | _ => (F, s, n, "bad-op")
  | [kind, k, e, cf, se, sf] =>
    if kind != "sub" && kind != "bind" then (F, s, n, "bad-op") else
    match nats [k, cf, sf] with
    | some [k, cf, sf] =>
      let s' := addEntry s (kind == "bind") (n + 1) k (parseEnt e) cf (parseEnt se) sf
      (F, s', n + 1, if s'.subs.length + s'.binds.length > s.subs.length + s.binds.length then "ok" else "none")
    | _ => (F, s, n, "bad-op")
  | [kind, d, e, f] =>
    if kind != "csub" && kind != "cbind" then (F, s, n, "bad-op") else
    match nats [d, f] with
    | some [d, f] =>
      let s' := addBook s (kind == "cbind") ⟨d, parseEnt e, f⟩
      (F, s', n, if s'.csubs.length + s'.cbinds.length > s.csubs.length + s.cbinds.length then "ok" else "err")
    | _ => (F, s, n, "bad-op")
  | ["drop", k] => match k.toNat? with
    | some k => let r := drop F s k; (F, r.1, n, showSet (r.2.map showEv))
    | none => (F, s, n, "bad-op")
  | ["dropent", k, e] => match k.toNat? with
    | some k => let r := dropEntity F s k (parseEnt e); (F, r.1, n, showSet (r.2.map showEv))
    | none => (F, s, n, "bad-op")
  | ["state"] => (F, s, n, showState s)
  | ["ski", k] => match k.toNat? with
    | some k => (F, s, n, match forSki s k with | some c => s!"{c.ski}:{c.dev}" | none => "-")
    | none => (F, s, n, "bad-op")
  | ["addr", d] => match d.toNat? with
    -- with two connections announcing one address the code's map iteration decides which one resolves: only "some / none"
    | some d => (F, s, n, match forAddress s d with | some c => (if (s.conns.filter (·.dev == d)).length > 1 then "some" else s!"{c.ski}:{c.dev}") | none => "-")
    | none => (F, s, n, "bad-op")
  | _ => (F, s, n, "bad-op")

partial def loop (h out : IO.FS.Stream) (D : DS) : IO Unit := do
  let line ← h.getLine
  if line.isEmpty then out.flush; return ()
  let ws := (line.trimAscii.toString.splitOn " ").filter (· ≠ "")
  match serveOp D ws with
  | some (D', ans) =>
    out.putStrLn ans
    out.flush
    loop h out D'
  | none =>
    match pendOp D.F D.p ws with
    | some (p', ans) =>
      out.putStrLn ans
      out.flush
      loop h out { D with p := p' }
    | none =>
      let (F', s', n', ans) := answer D.F D.s D.n ws
      out.putStrLn ans
      out.flush
      -- `reset` empties the world; the data of the local features starts afresh with it (the context's shape stays)
      if ws == ["reset"] then
        loop h out { F := F', p := { s := s' }, n := n', x := { D.x with data := fun _ _ => 0, snd := fun _ => (0, []) } }
      else loop h out { F := F', p := { D.p with s := s' }, n := n', x := D.x }

def main : IO Unit := do
  loop (← IO.getStdin) (← IO.getStdout) { F := Facts.head, p := { s := { conns := [] } }, n := 0, x := mkCtx 0 0 [] [1, 1, 1, 1] 2 }
