import Spine.Events
open Spine.Bus

def showD (l : List (Nat × H)) : String :=
  if l.isEmpty then "." else ",".intercalate (l.map fun (_, h) => s!"{h.1}/{h.2}")

def sortH (l : List (Nat × H)) : List (Nat × H) :=
  (l.toArray.qsort fun a b => a.2.1 < b.2.1 || (a.2.1 == b.2.1 && a.2.2 < b.2.2)).toList

/-- one whole publication on a quiet bus: snapshot, handle, the optional action of the first core handler, return,
    then every spawned application handler; answer = core deliveries in order | application deliveries sorted -/
def publish (s : St) (p : Nat) (act : Option Ev) : St × String :=
  let s1 := step (step s (.snapshot p)) (.handle p)
  let hasCore := match findPub s1 p with | some q => q.snap.any (·.1 = 0) | none => false
  let s2 := match act with | some a => if hasCore then step s1 a else s1 | none => s1
  let s3 := step s2 (.ret p)
  let s4 := s3.pending.foldl (fun s (ph : Nat × H) => step s (.appRun ph.1 ph.2)) s3
  let mine := s4.delivered.filter (·.1 = p)
  (s4, showD (mine.filter (·.2.1 = 0)) ++ "|" ++ showD (sortH (mine.filter (·.2.1 ≠ 0))))

/-- did publication `p` reach an application handler? (then one of them performs the re-entrant action) -/
def hadApp (s : St) (p : Nat) : Bool :=
  match findPub s p with | some q => q.snap.any (·.1 ≠ 0) | none => false

/-- two publications at once: p1 is being handled (its first core handler is inside HandleEvent) when a second
    goroutine publishes p2 and queues behind it (snapshot taken, waiting for muHandle); then the core handler performs
    `act` and returns, p1 returns, p2 is handled and returns, the application goroutines run. If p1 reaches no core
    handler the two publications simply run one after the other. -/
def publishQueued (s : St) (p1 p2 : Nat) (act : Ev) : St × String :=
  let s1 := step (step s (.snapshot p1)) (.handle p1)
  let hasCore := match findPub s1 p1 with | some q => q.snap.any (·.1 = 0) | none => false
  if hasCore then
    let s2 := step s1 (.snapshot p2)
    let s3 := step s2 act
    let s4 := step (step (step s3 (.ret p1)) (.handle p2)) (.ret p2)
    let s5 := s4.pending.foldl (fun s (ph : Nat × H) => step s (.appRun ph.1 ph.2)) s4
    let show1 := fun (p : Nat) =>
      let mine := s5.delivered.filter (·.1 = p)
      showD (mine.filter (·.2.1 = 0)) ++ "|" ++ showD (sortH (mine.filter (·.2.1 ≠ 0)))
    (s5, show1 p1 ++ ";" ++ show1 p2)
  else
    let (sa, o1) := publish s p1 none
    let (sb, o2) := publish sa p2 none
    (sb, o1 ++ ";" ++ o2)

/-- line protocol of the bus model (C15)
    `sub l h` / `unsub l h`               → `ok`
    `pub p`                               → `<core deliveries in order>|<application deliveries sorted>`
    `pubsub p l h` / `pubunsub p l h`     → same; the first core handler of p (un)subscribes (l,h) while handling
    `pubapp p sub l h` / `pubapp p unsub l h` → same; an application handler of p (if p reaches one) does it
    `pubapp p pub p2`                     → `<answer of p>;<answer of the nested publication p2>` (`-` if no
                                             application handler was reached and nothing was published)
    `pubq p1 p2 sub l h` / `pubq p1 p2 unsub l h` → `<answer of p1>;<answer of p2>`: two publishers at once, the first core
                                             handler of p1 (un)subscribes (l,h) while p2 is queued (see `publishQueued`)
    `handlers`                            → the handler list in order -/
def answer (s : St) (ws : List String) : St × String :=
  match ws with
  | ["sub", l, h] => (step s (.subscribe (l.toNat!, h.toNat!)), "ok")
  | ["unsub", l, h] => (step s (.unsubscribe (l.toNat!, h.toNat!)), "ok")
  | ["pub", p] => publish s p.toNat! none
  | ["pubsub", p, l, h] => publish s p.toNat! (some (.subscribe (l.toNat!, h.toNat!)))
  | ["pubunsub", p, l, h] => publish s p.toNat! (some (.unsubscribe (l.toNat!, h.toNat!)))
  | ["pubq", p1, p2, "sub", l, h] => publishQueued s p1.toNat! p2.toNat! (.subscribe (l.toNat!, h.toNat!))
  | ["pubq", p1, p2, "unsub", l, h] => publishQueued s p1.toNat! p2.toNat! (.unsubscribe (l.toNat!, h.toNat!))
  | ["pubapp", p, "sub", l, h] =>
    let (s1, out) := publish s p.toNat! none
    (if hadApp s1 p.toNat! then step s1 (.subscribe (l.toNat!, h.toNat!)) else s1, out)
  | ["pubapp", p, "unsub", l, h] =>
    let (s1, out) := publish s p.toNat! none
    (if hadApp s1 p.toNat! then step s1 (.unsubscribe (l.toNat!, h.toNat!)) else s1, out)
  | ["pubapp", p, "pub", p2] =>
    let (s1, out) := publish s p.toNat! none
    if hadApp s1 p.toNat! then
      let (s2, out2) := publish s1 p2.toNat! none
      (s2, out ++ ";" ++ out2)
    else (s1, out ++ ";-")
  | ["handlers"] => (s, if s.handlers.isEmpty then "." else ",".intercalate (s.handlers.map fun h => s!"{h.1}/{h.2}"))
  | _ => (s, "bad-op")

partial def loop (h : IO.FS.Stream) (s : St) : IO Unit := do
  let line ← h.getLine
  if line.isEmpty then return ()
  let ws := (line.trimAscii.toString.splitOn " ").filter (· ≠ "")
  match ws with
  | ["reset"] => IO.println "ok"; (← IO.getStdout).flush; loop h {}
  | _ =>
    let (s', out) := answer s ws
    IO.println out
    (← IO.getStdout).flush
    loop h s'

def main : IO Unit := do loop (← IO.getStdin) {}
