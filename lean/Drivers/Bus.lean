import Spine.Events
open Spine.Bus

def showD (l : List (Nat × H)) : String :=
  if l.isEmpty then "." else ",".intercalate (l.map fun (_, h) => s!"{h.1}/{h.2}")

def sortH (l : List (Nat × H)) : List (Nat × H) :=
  (l.toArray.qsort fun a b => a.2.1 < b.2.1 || (a.2.1 == b.2.1 && a.2.2 < b.2.2)).toList

/-- one whole publication on a quiet bus: snapshot, handle, the optional action of the first core handler, return,
    then every spawned application handler; answer = core deliveries in order | application deliveries sorted -/
def publish (s : St) (p : Nat) (act : Option Ev) : St × String :=
  let s1 := step (step s (.snapshot p)) (.handle p)
  let hasCore := match findPub s1 p with | some q => q.snap.any (·.1 = 0) | none => false
  let s2 := match act with | some a => if hasCore then step s1 a else s1 | none => s1
  let s3 := step s2 (.ret p)
  let s4 := s3.pending.foldl (fun s (ph : Nat × H) => step s (.appRun ph.1 ph.2)) s3
  let mine := s4.delivered.filter (·.1 = p)
  (s4, showD (mine.filter (·.2.1 = 0)) ++ "|" ++ showD (sortH (mine.filter (·.2.1 ≠ 0))))

def answer (s : St) (ws : List String) : St × String :=
  match ws with
  | ["sub", l, h] => (step s (.subscribe (l.toNat!, h.toNat!)), "ok")
  | ["unsub", l, h] => (step s (.unsubscribe (l.toNat!, h.toNat!)), "ok")
  | ["pub", p] => publish s p.toNat! none
  | ["pubsub", p, l, h] => publish s p.toNat! (some (.subscribe (l.toNat!, h.toNat!)))
  | ["pubunsub", p, l, h] => publish s p.toNat! (some (.unsubscribe (l.toNat!, h.toNat!)))
  | ["handlers"] => (s, if s.handlers.isEmpty then "." else ",".intercalate (s.handlers.map fun h => s!"{h.1}/{h.2}"))
  | _ => (s, "bad-op")

partial def loop (h : IO.FS.Stream) (s : St) : IO Unit := do
  let line ← h.getLine
  if line.isEmpty then return ()
  let ws := (line.trimAscii.toString.splitOn " ").filter (· ≠ "")
  match ws with
  | ["reset"] => IO.println "ok"; (← IO.getStdout).flush; loop h {}
  | _ =>
    let (s', out) := answer s ws
    IO.println out
    (← IO.getStdout).flush
    loop h s'

def main : IO Unit := do loop (← IO.getStdin) {}
