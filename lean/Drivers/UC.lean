import Spine.UseCaseConc
import Spine.UseCaseHeap
import Spine.UseCaseLock
open Spine.UC
/-! Line protocol for the use-case registry model (C20). One op per line, one answer per line.

    Sequential ops (`add`, `avail`, `rm`, `rmall`) take effect atomically; `copy k` / `store k <op>` are the two
    events of the code as written (DataCopy … SetData); `read` is the reply to a peer's read.
    Two members run in lockstep: the value-copy model the theorems are stated on (`Spine.UC.CSt`) and the
    aliasing-exact heap member (`Spine.UCH.St`). An answer is `X` when both agree and `H ## V` (heap, value) when
    they differ — which may only happen inside overlapping read-modify-write cycles.
    `cfg locked 1` selects the member with the lock (`Spine.UC.LSt`, the current tree): then `copy k` stands for
    `acquire k; copy k` (the goroutine is parked at the yield point inside the locked region), `store k <op>` for
    `store k <op>; release k`, a sequential op for a whole cycle, and every answer comes from that member. -/
def showSup (s : Support) : String := s!"{s.name}/{s.version}/{if s.avail then 1 else 0}/{s.scen}/{s.sub}"
def showInfo (i : Info) : String := s!"{i.ent}:{i.actor}:" ++ ",".intercalate (i.sup.map showSup)
def showReg (r : Reg) : String := if r.isEmpty then "." else " | ".intercalate (r.map showInfo)
def parseEnt (s : String) : List Nat := (s.splitOn ".").filterMap String.toNat?
def nums (ws : List String) : Option (List Nat) := ws.mapM String.toNat?

def parseOp : List String → Option Op
  | ["add", e, a, n, v, av, sc, sub] => do
    let [a, n, v, av, sub] ← nums [a, n, v, av, sub] | none
    some (.add (parseEnt e) a ⟨n, v, av == 1, (sc.splitOn ",").filterMap String.toNat?, sub⟩)
  | ["avail", e, a, n, av] => do
    let [a, n, av] ← nums [a, n, av] | none
    some (.setAvail (parseEnt e) a n (av == 1))
  | ["rm", e, a, n] => do
    let [a, n] ← nums [a, n] | none
    some (.remove (parseEnt e) a n)
  | ["rmall", e] => some (.removeAll (parseEnt e))
  | _ => none

structure Both where
  v : CSt := {}
  h : Spine.UCH.St := {}
  l : LSt := {}
  locked : Bool := false

def both (hs vs : String) : String := if hs == vs then hs else hs ++ " ## " ++ vs
def onReg (b : Both) (f : Reg → String) : String :=
  if b.locked then f b.l.reg else both (f (Spine.UCH.reg b.h)) (f b.v.reg)
def lrunOn (s : LSt) (evs : List LEv) : LSt := evs.foldl lstep s

def answer (b : Both) (ws : List String) : Both × String :=
  match ws with
  | ["reset"] => ({ locked := b.locked }, ".")
  | ["cfg", "locked", x] => ({ b with locked := x == "1" }, "ok")
  | ["read"] => (b, onReg b fun r => match peerReads r with | some r' => showReg r' | none => "undecodable")
  | ["has", e, a, n] => match nums [a, n] with
    | some [a, n] => (b, onReg b fun r => if has r (parseEnt e) a n then "true" else "false")
    | _ => (b, "bad-op")
  | ["lookup", e, a, n] => match nums [a, n] with
    | some [a, n] => (b, onReg b fun r => match lookup r (parseEnt e) a n with | some x => showSup x | none => "none")
    | _ => (b, "bad-op")
  | ["copy", k] => match k.toNat? with
    | some k => ({ b with v := cstep b.v (.copy k), h := Spine.UCH.step b.h (.copy k),
                          l := lrunOn b.l [.acquire k, .copy k] }, "ok")
    | none => (b, "bad-op")
  | "store" :: k :: rest => match k.toNat?, parseOp rest with
    | some k, some o =>
      let b' : Both := { b with v := cstep b.v (.store k o), h := Spine.UCH.step b.h (.store k o),
                                l := lrunOn b.l [.store k o, .release k] }
      (b', onReg b' showReg)
    | _, _ => (b, "bad-op")
  | _ => match parseOp ws with
    | some o =>
      let b' : Both := { b with v := cstep b.v (.atomic o), h := Spine.UCH.step b.h (.atomic o),
                                l := lrunOn b.l [.acquire 0, .copy 0, .store 0 o, .release 0] }
      (b', onReg b' showReg)
    | none => (b, "bad-op")

partial def loop (h : IO.FS.Stream) (out : IO.FS.Stream) (s : Both) : IO Unit := do
  let line ← h.getLine
  if line.isEmpty then out.flush; return ()
  let (s', ans) := answer s ((line.trimAscii.toString.splitOn " ").filter (· ≠ ""))
  out.putStrLn ans
  out.flush
  loop h out s'
def main : IO Unit := do loop (← IO.getStdin) (← IO.getStdout) {}
