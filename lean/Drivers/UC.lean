import Spine.UseCase
open Spine.UC
def showSup (s : Support) : String := s!"{s.name}/{s.version}/{if s.avail then 1 else 0}/{s.scen}"
def showInfo (i : Info) : String := s!"{i.ent}:{i.actor}:" ++ ",".intercalate (i.sup.map showSup)
def showReg (r : Reg) : String := if r.isEmpty then "." else " | ".intercalate (r.map showInfo)
def parseEnt (s : String) : List Nat := (s.splitOn ".").filterMap String.toNat?
partial def loop (h : IO.FS.Stream) (out : IO.FS.Stream) (r : Reg) : IO Unit := do
  let line ← h.getLine
  if line.isEmpty then out.flush; return ()
  let (r', ans) : Reg × String := match line.trimAscii.toString.splitOn " " with
    | ["add", e, a, n, v, av, sc] =>
      let r' := add r (parseEnt e) a.toNat! ⟨n.toNat!, v.toNat!, av == "1", (sc.splitOn ",").filterMap String.toNat?⟩
      (r', showReg r')
    | ["has", e, a, n] => (r, if has r (parseEnt e) a.toNat! n.toNat! then "true" else "false")
    | ["avail", e, a, n, av] => let r' := setAvail r (parseEnt e) a.toNat! n.toNat! (av == "1"); (r', showReg r')
    | ["rm", e, a, n] => let r' := remove r (parseEnt e) a.toNat! n.toNat!; (r', showReg r')
    | ["rmall", e] => let r' := removeAll r (parseEnt e); (r', showReg r')
    | ["reset"] => ([], ".")
    | _ => (r, "bad-op")
  out.putStrLn ans
  out.flush
  loop h out r'
def main : IO Unit := do loop (← IO.getStdin) (← IO.getStdout) []
