import Spine.Sender
import Spine.SenderEv
import Spine.SenderKey
import Spine.Generated.Sender
open Spine.Snd
/-! Line protocol for the sender model (C13). One op per line, one answer per line.
    State: the event-sourced model `Spine.SndEv.St` (its `base` is the sequential `Spine.Snd.St`) and the family flag
    `insertFirst` (set by `cfg insertfirst 0|1` after the harness probed the tree under test; survives `reset`).
    `member` answers the STATIC family member regenerated from the source: `before` (the request is remembered before the
    write), `after-window` (after it, and a response can be processed in between), `after-nowindow`.
    `reqf h r` is a `Request` during whose write a response referencing counter `r` is processed (`r = 0`: the
    request's own counter): the events `reqBegin`, `plain (response …)`, `reqEnd` of `Spine.SndEv`.
    `reqk <device> <feature> <entity path> <commands>` / `reqkf … <r>` are `req` / `reqf` with the STRUCTURED request
    identity (`Spine.SndK.Key`: numbers, lists comma-separated, `-` = empty list; device / feature 0 = absent): the
    model hashes the whole key (`Key.hash`), the harness never collapses destination and command list into one id. -/

def parseList (s : String) : Option (List Nat) :=
  if s = "-" then some [] else (s.splitOn ",").mapM (·.toNat?)

def parseKey (d f e c : String) : Option Spine.SndK.Key :=
  match d.toNat?, f.toNat?, parseList e, parseList c with
  | some d, some f, some e, some c => some ⟨⟨d, e, f⟩, c⟩
  | _, _, _, _ => none

def reqInFlight (f : Bool) (s : Spine.SndEv.St) (h r : Nat) : Spine.SndEv.St × String :=
  match Spine.SndEv.observe s (.reqBegin 0 h) with
  | [.req _ c true] =>
    let s1 := Spine.SndEv.step f s (.reqBegin 0 h)
    let ref := if r = 0 then c else r
    let s2 := Spine.SndEv.step f s1 (.plain (.response ref))
    (Spine.SndEv.step f s2 (.reqEnd 0), s!"{c} 1")
  | [.req _ c false] => (Spine.SndEv.step f s (.reqBegin 0 h), s!"{c} 0")
  | _ => (s, "blocked")

partial def loop (h out : IO.FS.Stream) (f : Bool) (es : Spine.SndEv.St) : IO Unit := do
  let line ← h.getLine
  if line.isEmpty then out.flush; return ()
  let s := es.base
  let (f', s', ans) : Bool × Spine.SndEv.St × String := match line.trimAscii.toString.splitOn " " with
    | ["req", hs] => match hs.toNat? with
      | some hh => let (s', c, w) := request s hh; (f, { es with base := s' }, s!"{c} {if w then 1 else 0}")
      | none => (f, es, "bad-op")
    | ["reqk", dv, ft, en, cs] => match parseKey dv ft en cs with
      | some k => let (s', c, w) := request s k.hash; (f, { es with base := s' }, s!"{c} {if w then 1 else 0}")
      | none => (f, es, "bad-op")
    | ["reqkf", dv, ft, en, cs, rs] => match parseKey dv ft en cs, rs.toNat? with
      | some k, some r => let (es', a) := reqInFlight f es k.hash r; (f, es', a)
      | _, _ => (f, es, "bad-op")
    | ["reqf", hs, rs] => match hs.toNat?, rs.toNat? with
      | some hh, some r => let (es', a) := reqInFlight f es hh r; (f, es', a)
      | _, _ => (f, es, "bad-op")
    | ["resp", r] => match r.toNat? with
      | some r => (f, { es with base := response s r }, "ok")
      | none => (f, es, "bad-op")
    | ["other"] => let (s', c) := other s; (f, { es with base := s' }, toString c)
    | ["notify"] => let (s', c) := notify s; (f, { es with base := s' }, toString c)
    | ["get", c] => match c.toNat? with
      | some c => let (s', b) := get s c; (f, { es with base := s' }, if b then "1" else "0")
      | none => (f, es, "bad-op")
    | ["cachelen"] => (f, es, toString s.req.length)
    | ["cfg", "insertfirst", v] => match v.toNat? with
      | some v => (v != 0, es, "ok")
      | none => (f, es, "bad-op")
    | ["member"] => (f, es,
        if Spine.Generated.Sender.requestRemembersBeforeWrite then "before"
        else if Spine.Generated.Sender.responsePathSkipsRequestMutex && Spine.Generated.Sender.writeOutsideCacheLock then "after-window"
        else "after-nowindow")
    | ["reset"] => (f, {}, "reset")
    | _ => (f, es, "bad-op")
  out.putStrLn ans
  out.flush
  loop h out f' s'
def main : IO Unit := do loop (← IO.getStdin) (← IO.getStdout) false {}
