import Spine.Sender
open Spine.Snd
/-! Line protocol for the sender model (C13). One op per line, one answer per line. -/
partial def loop (h out : IO.FS.Stream) (s : St) : IO Unit := do
  let line ← h.getLine
  if line.isEmpty then out.flush; return ()
  let (s', ans) : St × String := match line.trimAscii.toString.splitOn " " with
    | ["req", hs] => match hs.toNat? with
      | some hh => let (s', c, w) := request s hh; (s', s!"{c} {if w then 1 else 0}")
      | none => (s, "bad-op")
    | ["resp", r] => match r.toNat? with
      | some r => (response s r, "ok")
      | none => (s, "bad-op")
    | ["other"] => let (s', c) := other s; (s', toString c)
    | ["notify"] => let (s', c) := notify s; (s', toString c)
    | ["get", c] => match c.toNat? with
      | some c => let (s', b) := get s c; (s', if b then "1" else "0")
      | none => (s, "bad-op")
    | ["cachelen"] => (s, toString s.req.length)
    | ["reset"] => ({}, "reset")
    | _ => (s, "bad-op")
  out.putStrLn ans
  out.flush
  loop h out s'
def main : IO Unit := do loop (← IO.getStdin) (← IO.getStdout) {}
