import Spine.Registry
open Spine.Reg
/-! The harness world of the registry drivers (announced trees, text helpers), shared by `drv_reg` and `drv_td`. -/
def parseEnt (s : String) : List Nat := (s.splitOn ".").filterMap String.toNat?
def showEnt (e : List Nat) : String := ".".intercalate (e.map toString)
def showEntry (e : Entry) : String := s!"{e.id}:{showEnt e.sEnt}/{e.sFeat}<-{e.peer}:{showEnt e.cEnt}/{e.cFeat}"
def showL (l : List Entry) : String := if l.isEmpty then "." else ",".intercalate (l.map showEntry)
def remoteFeats : List Feat := [
  ⟨[0], 0, 100, .special⟩,
  ⟨[1], 1, 1, .client⟩, ⟨[1], 2, 2, .client⟩, ⟨[1], 3, 0, .client⟩, ⟨[1], 4, 1, .server⟩,
  ⟨[2], 1, 1, .client⟩,
  ⟨[1, 1], 1, 1, .client⟩, ⟨[1, 1], 4, 1, .server⟩ ]
def localFeats : List Feat := [
  ⟨[0], 0, 100, .special⟩, ⟨[0], 1, 3, .server⟩,
  ⟨[1], 1, 1, .server⟩, ⟨[1], 2, 2, .server⟩, ⟨[1], 3, 1, .client⟩,
  ⟨[2], 1, 1, .server⟩, ⟨[2], 2, 4, .server⟩ ]
/-- local server features with a writable function in the harness world -/
def writable : List (List Nat × Nat) := [([1], 1), ([1], 2), ([2], 1)]
def init : St := { loc := localFeats, rem := fun _ => remoteFeats }
def b (x : Bool) : String := if x then "ok" else "err"
def nats (ws : List String) : Option (List Nat) := ws.mapM String.toNat?
def bit (n : Nat) : Bool := n != 0
/-- address decorations of the harness (`sd<k>`: device part of the server address, `cd<k>`: device part of the client
    address of a request call) do not reach the model: the code as written resolves both by entity and feature only -/
def isDecor (t : String) : Bool :=
  ((t.startsWith "sd" || t.startsWith "cd") && t.length > 2 && (t.drop 2).all Char.isDigit) ||
  -- "v<k>": which optional parts a removal entry carries (entity type, device part, description)
  (t.startsWith "v" && t.length > 1 && (t.drop 1).all Char.isDigit)
def stripDecor (ws : List String) : List String := ws.filter (!isDecor ·)
/-- "a,b,c" -> entity addresses -/
def parseEnts (s : String) : List (List Nat) := (s.splitOn ",").map parseEnt
/-- a discovery notification that announces entities as removed: entry by entry `Reg.removeEntity` (the device
    information entity [0] is kept, bare entities go too) -/
def dropEntities (c : Cfg) (s : St) (p : Nat) (ents : List (List Nat)) : St :=
  ents.foldl (fun s e => removeEntity c s p e) s
/-- an entity announced as added with its features: its features are known (again), it is no longer bare -/
def addEntity (s : St) (p : Nat) (ent : List Nat) : St :=
  { s with rem := fun q => if q = p then (s.rem p).filter (fun f => !(f.ent = ent)) ++ remoteFeats.filter (·.ent = ent) else s.rem q,
           bare := fun q => if q = p then (s.bare p).filter (· ≠ ent) else s.bare q }
