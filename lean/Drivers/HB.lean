import Spine.Heartbeat
open Spine.HB

/-- sequential operations: a stopped stream has exited by the time the next operation is observed -/
def settle (s : St) : St := s.closed.foldl (fun s c => step s (.exit c)) s

def answer (s : St) (ws : List String) : St × String :=
  let s' : St :=
    match ws with
    | ["start"] => settle (step s .startAtomic)
    | ["stop"] => settle (step s .stopAtomic)
    | _ => s
  (s', s!"{running s'} {s'.streams.length} {s'.panicked}")

partial def loop (h : IO.FS.Stream) (s : St) : IO Unit := do
  let line ← h.getLine
  if line.isEmpty then return ()
  let ws := (line.trimAscii.toString.splitOn " ").filter (· ≠ "")
  match ws with
  | ["reset"] => IO.println "ok"; (← IO.getStdout).flush; loop h {}
  | _ =>
    let (s', out) := answer s ws
    IO.println out
    (← IO.getStdout).flush
    loop h s'

def main : IO Unit := do loop (← IO.getStdin) {}
