import Spine.Heartbeat
import Spine.Period
open Spine.HB
/-! Line protocol for the heartbeat start/stop model (C16). One op per line, one answer per line.
    Both members live in one model: the code as written is driven with the split events
    (`stopCheck`/`stopClose`, `startMake`/`startSpawn`), the repaired code with `stopAtomic`/`startAtomic`;
    the harness's probe phase decides which events it sends.

    ops:  period <timeout ms>  -> the refresh period in ms (Spine.HB.period)
          reset | stopCheck <op> | stopClose <op> | startMake <op> | startSpawn <op> | stopAtomic | startAtomic | obs
    After every op the streams whose channel has been closed exit (the real goroutines notice the closed channel
    at once; the harness waits for that).
    answer: `run=<0|1> streams=<n> live=<n> panic=<0|1> checked=<op,..|->`  -/

/-- a stopped stream has exited by the time the next observation is made -/
def settle (s : St) : St := s.closed.foldl (fun s c => step s (.exit c)) s

def b (x : Bool) : String := if x then "1" else "0"

def showSt (s : St) : String :=
  let ch := if s.checked.isEmpty then "-" else ",".intercalate ((s.checked.toArray.qsort (· < ·)).toList.map toString)
  s!"run={b (running s)} streams={s.streams.length} live={(live s).length} panic={b s.panicked} checked={ch}"

def parse1 (f : Nat → Ev) (x : String) : Option Ev := x.toNat?.map f

def evOf (ws : List String) : Option (List Ev) :=
  match ws with
  | ["stopCheck", x] => (parse1 .stopCheck x).map ([·])
  | ["stopClose", x] => (parse1 .stopClose x).map ([·])
  | ["startMake", x] => (parse1 .startMake x).map ([·])
  | ["startSpawn", x] => (parse1 .startSpawn x).map ([·])
  | ["stopAtomic"] => some [.stopAtomic]
  | ["startAtomic"] => some [.startAtomic]
  | ["obs"] => some []
  | _ => none

partial def loop (h out : IO.FS.Stream) (s : St) : IO Unit := do
  let line ← h.getLine
  if line.isEmpty then out.flush; return ()
  let ws := (line.trimAscii.toString.splitOn " ").filter (· ≠ "")
  match ws with
  | ["reset"] => out.putStrLn "ok"; out.flush; loop h out {}
  | ["period", t] =>
    match t.toNat? with
    | some t => out.putStrLn (toString (period t)); out.flush; loop h out s
    | none => out.putStrLn "bad-op"; out.flush; loop h out s
  | _ =>
    match evOf ws with
    | some evs =>
      let s' := settle (evs.foldl step s)
      out.putStrLn (showSt s')
      out.flush
      loop h out s'
    | none => out.putStrLn "bad-op"; out.flush; loop h out s

def main : IO Unit := do loop (← IO.getStdin) (← IO.getStdout) {}
