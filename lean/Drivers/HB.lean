import Spine.Heartbeat
import Spine.Period
import Spine.HBMulti
import Spine.HBPace
import Spine.HBStamp
import Spine.HBStampSrc
open Spine.HB
/-! Line protocol for the heartbeat start/stop model (C16). One op per line, one answer per line.
    Both members live in one model: the code as written is driven with the split events
    (`stopCheck`/`stopClose`, `startMake`/`startSpawn`), the repaired code with `stopAtomic`/`startAtomic`;
    the harness's probe phase decides which events it sends.

    ops:  period <timeout ms>  -> the refresh period in ms (Spine.HB.period)
          reset | stopCheck <op> | stopClose <op> | startMake <op> | startSpawn <op> | stopAtomic | startAtomic | obs
    After every op the streams whose channel has been closed exit (the real goroutines notice the closed channel
    at once; the harness waits for that).
    answer: `run=<0|1> streams=<n> live=<n> panic=<0|1> checked=<op,..|->`

    second model (all streams of a manager with tickers, refreshes in flight, shared counter: Spine.HBM), own state:
          m reset | m start | m stop | m tick <k> | m take <k> | m store <k> | m exit <k> | m obs
    answer: `run=<0|1> goroutines=<n> stored=<n> since=<stored - mark> last=<counter|0> prompt=<0|1>` (prompt = every
    tick so far came when nothing was pending)
          gap <ticker|perIteration> <timeout ms> <refresh ms> <k>  -> begin of refresh k+1 minus begin of refresh k (Spine.HBP)
          stamp <now ms> <zone s>  -> the instant the timestamp text of a refresh made at `now` denotes (Spine.HBS, UTC reading)
          stale <clock|tick> <timeout ms> <hold ms>  -> refresh 1 is held up for `hold`, the others take no time: begin of
                                  refresh 2 minus the reading formatted into it (Spine.HBS.reading over Spine.HBP) -/

/-- a stopped stream has exited by the time the next observation is made -/
def settle (s : St) : St := s.closed.foldl (fun s c => step s (.exit c)) s

def b (x : Bool) : String := if x then "1" else "0"

def showSt (s : St) : String :=
  let ch := if s.checked.isEmpty then "-" else ",".intercalate ((s.checked.toArray.qsort (· < ·)).toList.map toString)
  s!"run={b (running s)} streams={s.streams.length} live={(live s).length} panic={b s.panicked} checked={ch}"

def parse1 (f : Nat → Ev) (x : String) : Option Ev := x.toNat?.map f

def evOf (ws : List String) : Option (List Ev) :=
  match ws with
  | ["stopCheck", x] => (parse1 .stopCheck x).map ([·])
  | ["stopClose", x] => (parse1 .stopClose x).map ([·])
  | ["startMake", x] => (parse1 .startMake x).map ([·])
  | ["startSpawn", x] => (parse1 .startSpawn x).map ([·])
  | ["stopAtomic"] => some [.stopAtomic]
  | ["startAtomic"] => some [.startAtomic]
  | ["obs"] => some []
  | _ => none

def showM (m : Spine.HBM.St) (ok : Bool) : String :=
  let g := ((List.range m.next).filter fun j => !(m.strm j).exited).length
  s!"run={b m.cur.isSome} goroutines={g} stored={m.stored.length} since={m.stored.length - m.mark} last={m.stored.getLast?.getD 0} prompt={b ok}"

def mEvOf (ws : List String) : Option (List Spine.HBM.Ev) :=
  match ws with
  | ["start"] => some [.start]
  | ["stop"] => some [.stop]
  | ["tick", x] => x.toNat?.map fun k => [.tick k]
  | ["take", x] => x.toNat?.map fun k => [.take k]
  | ["store", x] => x.toNat?.map fun k => [.store k]
  | ["exit", x] => x.toNat?.map fun k => [.exit k]
  | ["obs"] => some []
  | _ => none

def mStep (mo : Spine.HBM.St × Bool) (e : Spine.HBM.Ev) : Spine.HBM.St × Bool :=
  let ok := match e with
    | .tick _ => mo.2 && Spine.HBM.quiet mo.1
    | _ => mo.2
  (Spine.HBM.step mo.1 e, ok)

partial def loop (h out : IO.FS.Stream) (s : St) (mo : Spine.HBM.St × Bool := ({}, true)) : IO Unit := do
  let line ← h.getLine
  if line.isEmpty then out.flush; return ()
  let ws := (line.trimAscii.toString.splitOn " ").filter (· ≠ "")
  match ws with
  | ["reset"] => out.putStrLn "ok"; out.flush; loop h out {} mo
  | ["period", t] =>
    match t.toNat? with
    | some t => out.putStrLn (toString (period t)); out.flush; loop h out s mo
    | none => out.putStrLn "bad-op"; out.flush; loop h out s mo
  | ["m", "reset"] => out.putStrLn "ok"; out.flush; loop h out s ({}, true)
  | "m" :: rest =>
    match mEvOf rest with
    | some evs =>
      let mo' := evs.foldl mStep mo
      out.putStrLn (showM mo'.1 mo'.2); out.flush; loop h out s mo'
    | none => out.putStrLn "bad-op"; out.flush; loop h out s mo
  | ["gap", pc, t, r, k] =>
    let p : Option Spine.HBP.Pace := match pc with
      | "ticker" => some .ticker | "perIteration" => some .perIteration | _ => none
    match p, t.toNat?, r.toNat?, k.toNat? with
    | some p, some t, some r, some k =>
      let d := period t
      out.putStrLn (toString (Spine.HBP.begins p d (fun _ => r) (k + 1) - Spine.HBP.begins p d (fun _ => r) k))
      out.flush; loop h out s mo
    | _, _, _, _ => out.putStrLn "bad-op"; out.flush; loop h out s mo
  | ["stale", src, t, hold] =>
    let sc : Option Spine.HBS.Src := match src with
      | "clock" => some .clock | "tick" => some .tick | _ => none
    match sc, t.toNat?, hold.toNat? with
    | some sc, some t, some hold =>
      let d := period t
      let r : Nat → Nat := fun k => if k = 1 then hold else 0
      out.putStrLn (toString (Spine.HBP.begins .ticker d r 2 - Spine.HBS.reading sc d r 2))
      out.flush; loop h out s mo
    | _, _, _ => out.putStrLn "bad-op"; out.flush; loop h out s mo
  | ["stamp", now, zone] =>
    match now.toInt?, zone.toInt? with
    | some now, some zone => out.putStrLn (toString (Spine.HBS.denoted {} now zone)); out.flush; loop h out s mo
    | _, _ => out.putStrLn "bad-op"; out.flush; loop h out s mo
  | _ =>
    match evOf ws with
    | some evs =>
      let s' := settle (evs.foldl step s)
      out.putStrLn (showSt s')
      out.flush
      loop h out s' mo
    | none => out.putStrLn "bad-op"; out.flush; loop h out s mo

def main : IO Unit := do loop (← IO.getStdin) (← IO.getStdout) {}
