import Spine.Callbacks
open Spine.CB

def answer (b : Bool) (s : St) (ws : List String) : St × String :=
  match ws with
  | ["register", f, c, cb] =>
    let s' := step b s (.register f.toNat! c.toNat! cb.toNat!)
    (s', if s'.next = s.next then "refused" else s!"reg{s.next}")
  | ["arrive", a, f, ref, reply, acc] =>
    let s' := step b s (.arrive a.toNat! f.toNat! ref.toNat! (reply == "1") (acc == "1"))
    let mine := (s'.fired.filter (·.2 = a.toNat!)).map (·.1)
    (s', if mine.isEmpty then "." else ",".intercalate ((mine.toArray.qsort (· < ·)).toList.map toString))
  | _ => (s, "bad-op")

partial def loop (h : IO.FS.Stream) (b : Bool) (s : St) : IO Unit := do
  let line ← h.getLine
  if line.isEmpty then return ()
  let ws := (line.trimAscii.toString.splitOn " ").filter (· ≠ "")
  match ws with
  | ["reset"] => IO.println "ok"; (← IO.getStdout).flush; loop h b {}
  | _ =>
    let (s', out) := answer b s ws
    IO.println out
    (← IO.getStdout).flush
    loop h b s'

def main (args : List String) : IO Unit := do loop (← IO.getStdin) (args != ["fixed"]) {}
