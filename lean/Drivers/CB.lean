import Spine.Callbacks
open Spine.CB

/-- line protocol of the callbacks model (C14)
    `register f c cb`                      → `reg<N>` | `refused`
    `regres f cb`                          → `reg<N>`
    `arrive a f ref reply acc data src`    → `<response invocations>|<result invocations>` of this arrival, each a
                                             sorted list of `reg:data:src`, `.` when empty. A result (`reply = 0`) that
                                             is accepted runs both critical sections (`arrive`, then `resultCbs`).
    argument `fixed` selects the repaired member (node management replies trigger the response callbacks). -/
def showF (l : List Fire) : String :=
  if l.isEmpty then "." else
    ",".intercalate (((l.toArray.qsort fun x y => x.reg < y.reg).toList).map fun x => s!"{x.reg}:{x.data}:{x.src}")

def answer (b : Bool) (s : St) (ws : List String) : St × String :=
  match ws with
  | ["register", f, c, cb] =>
    let s' := step b s (.register f.toNat! c.toNat! cb.toNat!)
    (s', if s'.next = s.next then "refused" else s!"reg{s.next}")
  | ["regres", f, cb] =>
    let s' := step b s (.registerResult f.toNat! cb.toNat!)
    (s', s!"reg{s.next}")
  | ["arrive", a, f, ref, reply, acc, data, src] =>
    let isReply := reply == "1"
    let isAcc := acc == "1"
    let s1 := step b s (.arrive a.toNat! f.toNat! ref.toNat! isReply isAcc data.toNat! src.toNat!)
    let s2 := if isAcc && !isReply then step b s1 (.resultCbs a.toNat! f.toNat! data.toNat! src.toNat!) else s1
    (s2, showF (s2.fired.filter (·.arr = a.toNat!)) ++ "|" ++ showF (s2.resFired.filter (·.arr = a.toNat!)))
  | _ => (s, "bad-op")

partial def loop (h : IO.FS.Stream) (b : Bool) (s : St) : IO Unit := do
  let line ← h.getLine
  if line.isEmpty then return ()
  let ws := (line.trimAscii.toString.splitOn " ").filter (· ≠ "")
  match ws with
  | ["reset"] => IO.println "ok"; (← IO.getStdout).flush; loop h b {}
  | _ =>
    let (s', out) := answer b s ws
    IO.println out
    (← IO.getStdout).flush
    loop h b s'

def main (args : List String) : IO Unit := do loop (← IO.getStdin) (args != ["fixed"]) {}
