import os
p=os.environ['DIR']+'/spine/events.go'
s=open(p).read()
old='''	r.mu.Lock()
	defer r.mu.Unlock()

	for _, item := range r.handlers {
		if item.Level == level && item.Handler == handler {
			return nil
		}
	}
'''
new='''	r.mu.Lock()

	for _, item := range r.handlers {
		if item.Level == level && item.Handler == handler {
			return nil
		}
	}
	defer r.mu.Unlock()
'''
assert old in s; s=s.replace(old,new,1)
open(p,'w').write(s)
