#!/usr/bin/env python3
"""self-test: apply one mutation to a scratch worktree of /repo, run the check against it, report"""
import subprocess, sys, os, re, json
MUT = {
 # ---- C12
 "apr1": ("C12", "spine/feature_local.go", "	if count > 1 && err.ErrorNumber == 0 {", "	if count > 2 && err.ErrorNumber == 0 {", "tally only for more than two callbacks: with two callbacks the first approval applies"),
 "apr2": ("C12", "spine/feature_local.go", "		if r.writeApprovalReceived[ski][*msg.RequestHeader.MsgCounter] < count {", "		if r.writeApprovalReceived[ski][*msg.RequestHeader.MsgCounter] <= count {", "off by one: never enough approvals"),
 "apr3": ("C12", "spine/feature_local.go", "	timer.Stop()\n", "	_ = timer\n", "timer not stopped after the verdict: the timeout error follows an applied write"),
 "apr4": ("C12", "spine/feature_local.go", "		delete(r.pendingWriteApprovals[ski], *msg.RequestHeader.MsgCounter)\n		r.muxResponseCB.Unlock()\n\n		err := model.NewErrorTypeFromString(\"write not approved in time by application\")", "		r.muxResponseCB.Unlock()\n\n		err := model.NewErrorTypeFromString(\"write not approved in time by application\")", "timeout does not forget the pending write: a late verdict still applies it"),
 "apr5": ("C12", "spine/feature_local.go", "	for _, cb := range r.writeApprovalCallbacks {\n		go cb(msg)", "	for _, cb := range r.writeApprovalCallbacks[:1] {\n		go cb(msg)", "only the first callback is asked"),
 "apr6": ("C12", "spine/feature_local.go", "	newTimer := time.AfterFunc(r.writeTimeout, func() {", "	newTimer := time.AfterFunc(r.writeTimeout/2, func() {", "timeout fires after half the configured time"),
 "apr7": ("C12", "spine/feature_local.go", "	if err.ErrorNumber == 0 {\n		r.processWrite(msg)\n		return\n	}\n\n	_ = msg.FeatureRemote.Device().Sender().ResultError(msg.RequestHeader, r.Address(), &err)", "	if err.ErrorNumber == 0 {\n		r.processWrite(msg)\n		return\n	}\n", "a denial sends no error result (the write stays without outcome)"),
 # ---- C16
 "hbt1": ("C16", "spine/heartbeat_manager.go", "	if c.IsHeartbeatRunning() {\n		verifYield(\"StopHeartbeat.running\")\n		close(c.stopHeartbeatC)", "	if !c.IsHeartbeatRunning() {\n		verifYield(\"StopHeartbeat.running\")\n		close(c.stopHeartbeatC)", "inverted running check in StopHeartbeat"),
 "hbt2": ("C16", "spine/heartbeat_manager.go", "		d -= 2 * time.Second", "		d -= 1 * time.Second", "period shortened by one second only (property still holds, model does not)"),
 "hbt3": ("C16", "spine/heartbeat_manager.go", "		d -= 2 * time.Second", "		d += 2 * time.Second", "period lengthened above the announced timeout"),
 "hbt4": ("C16", "spine/heartbeat_manager.go", "	i := atomic.AddUint64(&c.heartBeatNum, 1)", "	i := atomic.AddUint64(&c.heartBeatNum, 0) + 1", "counter never advances"),
 "hbt5": ("C16", "spine/heartbeat_manager.go", "		case <-stopC:\n			return", "		case <-stopC:\n			stopC = nil", "the stream ignores the stop"),
 "hbt6": ("C16", "spine/heartbeat_manager.go", "	// stop an already running heartbeat\n	c.StopHeartbeat()\n", "	// stop an already running heartbeat\n", "restart does not stop the old stream"),
 "hbt7": ("C16", "spine/heartbeat_manager.go", "			heartbeatData := c.heartbeatData(time.Now().UTC(), c.heartBeatCounter())\n\n			c.mux.Lock()", "			heartbeatData := c.heartbeatData(time.Now().UTC().Add(-time.Hour), c.heartBeatCounter())\n\n			c.mux.Lock()", "stale timestamp in the refresh"),
 "hbt9": ("C16", "spine/device_local.go", "func (r *DeviceLocal) RemoveEntity(entity api.EntityLocalInterface) {\n", "func (r *DeviceLocal) RemoveEntity(entity api.EntityLocalInterface) {\n	// nothing to clean up or to announce for an entity that is not part of this device\n	r.mux.Lock()\n	known := false\n	for _, e := range r.entities {\n		if e == entity {\n			known = true\n		}\n	}\n	r.mux.Unlock()\n	if !known {\n		return\n	}\n\n", "RemoveEntity returns early for an entity the device does not list (heartbeat keeps running)"),
 "hbt10": ("C16", "spine/heartbeat_manager.go", "		case <-stopC:\n			return", "		case <-c.stopHeartbeatC:\n			_ = stopC\n			return", "the stream selects on the manager's field instead of its own stop channel"),
 "apr8": ("C12", "spine/feature_local.go", "		delete(r.pendingWriteApprovals[ski], *msg.RequestHeader.MsgCounter)\n		r.muxResponseCB.Unlock()\n\n		err := model.NewErrorTypeFromString(\"write not approved in time by application\")", "		delete(r.pendingWriteApprovals[ski], *msg.RequestHeader.MsgCounter)\n		r.muxResponseCB.Unlock()\n		r.muxWriteReceived.Lock()\n		delete(r.writeApprovalReceived, ski)\n		r.muxWriteReceived.Unlock()\n\n		err := model.NewErrorTypeFromString(\"write not approved in time by application\")", "the timeout of one write deletes the approval tallies of all pending writes of the peer"),
 "hbt8": ("C16", "spine/heartbeat_manager.go", "		close(c.stopHeartbeatC)\n	}\n}", "		close(c.stopHeartbeatC)\n		c.stopHeartbeatC = nil\n	}\n}", "stop forgets the channel (harmless variant: must NOT be flagged except through the model)"),
}
ENV = dict(os.environ, GOFLAGS="-mod=mod", GOPROXY="off", GOSUMDB="off", GOTOOLCHAIN="local")
def sh(cmd, **kw):
    return subprocess.run(cmd, shell=True, stdout=subprocess.PIPE, stderr=subprocess.STDOUT, text=True, env=ENV, **kw)
def run(name, tier="quick", base="HEAD"):
    pid, f, a, b, what = MUT[name]
    d = "/root/scratch/mut-timers-" + name
    sh("git -C /repo worktree remove --force %s" % d)
    r = sh("git -C /repo worktree add %s %s" % (d, base))
    src = open(os.path.join(d, f)).read()
    if a not in src:
        print(name, "PATTERN NOT FOUND"); sh("git -C /repo worktree remove --force %s" % d); return
    open(os.path.join(d, f), "w").write(src.replace(a, b, 1))
    b1 = sh("go build ./... && go build -tags verif ./...", cwd=d)
    if b1.returncode != 0:
        print(name, "DOES NOT BUILD", b1.stdout[-500:]); sh("git -C /repo worktree remove --force %s" % d); return
    c = subprocess.run("./check %s %s" % (pid, tier), shell=True, cwd=os.path.dirname(os.path.dirname(os.path.abspath(__file__))), stdout=subprocess.PIPE, stderr=subprocess.STDOUT, text=True, env=dict(ENV, VERIF_REPO=d), timeout=1500)
    viol = [l for l in c.stdout.splitlines() if l.startswith("VIOLATION") or l.startswith("  spec failure") or l.startswith("  correspondence") or l.startswith("  harness") or l.startswith("MACHINERY")]
    last = c.stdout.strip().splitlines()[-1] if c.stdout.strip() else ""
    print("=== %s [%s] %s\n    rc=%d %s" % (name, pid, what, c.returncode, last))
    for l in viol[:8]:
        print("    " + l[:330])
    sh("git -C /repo worktree remove --force %s" % d)
if __name__ == "__main__":
    for n in sys.argv[1:]:
        run(n)
