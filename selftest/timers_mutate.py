#!/usr/bin/env python3
"""self-test: apply one mutation to a scratch worktree of /repo, run the check against it, report"""
import subprocess, sys, os, re, json
MUT = {
 # ---- C12
 "apr1": ("C12", "spine/feature_local.go", "	if count > 1 && err.ErrorNumber == 0 {", "	if count > 2 && err.ErrorNumber == 0 {", "tally only for more than two callbacks: with two callbacks the first approval applies"),
 "apr2": ("C12", "spine/feature_local.go", "		if r.writeApprovalReceived[ski][*msg.RequestHeader.MsgCounter] < count {", "		if r.writeApprovalReceived[ski][*msg.RequestHeader.MsgCounter] <= count {", "off by one: never enough approvals"),
 "apr3": ("C12", "spine/feature_local.go", "	timer.Stop()\n", "	_ = timer\n", "timer not stopped after the verdict: the timeout error follows an applied write"),
 "apr4": ("C12", "spine/feature_local.go", "		delete(r.pendingWriteApprovals[ski], *msg.RequestHeader.MsgCounter)\n		r.muxResponseCB.Unlock()\n\n		err := model.NewErrorTypeFromString(\"write not approved in time by application\")", "		r.muxResponseCB.Unlock()\n\n		err := model.NewErrorTypeFromString(\"write not approved in time by application\")", "timeout does not forget the pending write: a late verdict still applies it"),
 "apr5": ("C12", "spine/feature_local.go", "	for _, cb := range r.writeApprovalCallbacks {\n		go cb(msg)", "	for _, cb := range r.writeApprovalCallbacks[:1] {\n		go cb(msg)", "only the first callback is asked"),
 "apr6": ("C12", "spine/feature_local.go", "	newTimer := time.AfterFunc(writeTimeout, func() {", "	newTimer := time.AfterFunc(writeTimeout/2, func() {", "timeout fires after half the configured time"),
 "apr7": ("C12", "spine/feature_local.go", "	if err.ErrorNumber == 0 {\n		r.processWrite(msg)\n		return\n	}\n\n	_ = msg.FeatureRemote.Device().Sender().ResultError(msg.RequestHeader, r.Address(), &err)", "	if err.ErrorNumber == 0 {\n		r.processWrite(msg)\n		return\n	}\n", "a denial sends no error result (the write stays without outcome)"),
 # ---- C16
 "hbt1": ("C16", "spine/heartbeat_manager.go", "	if c.IsHeartbeatRunning() {\n		verifYield(\"StopHeartbeat.running\")\n		close(c.stopHeartbeatC)", "	if !c.IsHeartbeatRunning() {\n		verifYield(\"StopHeartbeat.running\")\n		close(c.stopHeartbeatC)", "inverted running check in StopHeartbeat"),
 "hbt2": ("C16", "spine/heartbeat_manager.go", "		d -= 2 * time.Second", "		d -= 1 * time.Second", "period shortened by one second only (property still holds, model does not)"),
 "hbt3": ("C16", "spine/heartbeat_manager.go", "		d -= 2 * time.Second", "		d += 2 * time.Second", "period lengthened above the announced timeout"),
 "hbt4": ("C16", "spine/heartbeat_manager.go", "	i := atomic.AddUint64(&c.heartBeatNum, 1)", "	i := atomic.AddUint64(&c.heartBeatNum, 0) + 1", "counter never advances"),
 "hbt5": ("C16", "spine/heartbeat_manager.go", "		case <-stopC:\n			return", "		case <-stopC:\n			stopC = nil", "the stream ignores the stop"),
 "hbt6": ("C16", "spine/heartbeat_manager.go", "	// stop an already running heartbeat\n	c.StopHeartbeat()\n", "	// stop an already running heartbeat\n", "restart does not stop the old stream"),
 "hbt7": ("C16", "spine/heartbeat_manager.go", "			heartbeatData := c.heartbeatData(time.Now().UTC(), c.heartBeatCounter())\n\n			c.mux.Lock()", "			heartbeatData := c.heartbeatData(time.Now().UTC().Add(-time.Hour), c.heartBeatCounter())\n\n			c.mux.Lock()", "stale timestamp in the refresh"),
 "hbt9": ("C16", "spine/device_local.go", "func (r *DeviceLocal) RemoveEntity(entity api.EntityLocalInterface) {\n", "func (r *DeviceLocal) RemoveEntity(entity api.EntityLocalInterface) {\n	// nothing to clean up or to announce for an entity that is not part of this device\n	r.mux.Lock()\n	known := false\n	for _, e := range r.entities {\n		if e == entity {\n			known = true\n		}\n	}\n	r.mux.Unlock()\n	if !known {\n		return\n	}\n\n", "RemoveEntity returns early for an entity the device does not list (heartbeat keeps running)"),
 "hbt10": ("C16", "spine/heartbeat_manager.go", "		case <-stopC:\n			return", "		case <-c.stopHeartbeatC:\n			_ = stopC\n			return", "the stream selects on the manager's field instead of its own stop channel"),
 "apr8": ("C12", "spine/feature_local.go", "		delete(r.pendingWriteApprovals[ski], *msg.RequestHeader.MsgCounter)\n		r.muxResponseCB.Unlock()\n\n		err := model.NewErrorTypeFromString(\"write not approved in time by application\")", "		delete(r.pendingWriteApprovals[ski], *msg.RequestHeader.MsgCounter)\n		r.muxResponseCB.Unlock()\n		r.muxWriteReceived.Lock()\n		delete(r.writeApprovalReceived, ski)\n		r.muxWriteReceived.Unlock()\n\n		err := model.NewErrorTypeFromString(\"write not approved in time by application\")", "the timeout of one write deletes the approval tallies of all pending writes of the peer"),
 "hbt11": ("C16", "spine/subscription_manager.go", "	var result []*api.SubscriptionEntry\n\n	c.mux.Lock()\n	defer c.mux.Unlock()\n\n	linq.From(c.subscriptionEntries).WhereT(func(s *api.SubscriptionEntry) bool {\n		return reflect.DeepEqual(*s.ServerFeature.Address(), featureAddress)\n	}).ToSlice(&result)\n\n	return result", "	c.mux.Lock()\n	defer c.mux.Unlock()\n\n	// reuse the scratch slice of the manager\n	result := hbtScratch[:0]\n	for _, s := range c.subscriptionEntries {\n		if reflect.DeepEqual(*s.ServerFeature.Address(), featureAddress) {\n			result = append(result, s)\n		}\n	}\n	hbtScratch = result\n\n	return result", "SubscriptionsOnFeature returns a slice that aliases shared scratch storage (iterated after the lock is released)"),
 "hbt12": ("C16", "spine/heartbeat_manager.go", "	go c.updateHeartbeatData(c.stopHeartbeatC, timeout)", "	timeout = hbtRaw[c]\n	go c.updateHeartbeatData(c.stopHeartbeatC, timeout)", "the ticker period is taken from the raw configured duration instead of the announced (0.1 s truncated) timeout"),
 "apr9": ("C12", "spine/feature_local.go", "	delete(r.pendingWriteApprovals, ski)\n	delete(r.pendingWriteMessages, ski)\n	delete(r.writeApprovalReceived, ski)", "	for counter := range r.pendingWriteApprovals[ski] {\n		delete(r.writeApprovalReceived[ski], counter)\n	}\n	delete(r.pendingWriteApprovals, ski)\n	delete(r.pendingWriteMessages, ski)", "disconnect deletes only the tallies of still-pending writes: the tally of a timed-out write survives and a reused counter inherits it"),
 "apr10": ("C12", "spine/feature_local.go", "		if approvalRequired {\n			r.addPendingApproval(message)", "		if approvalRequired {\n			if message.FilterPartial != nil || message.FilterDelete != nil {\n				// pre-validation: would the write be refused?\n				r.mux.Lock()\n				if fd := r.functionData(*cmdData.Function); fd != nil {\n					if _, e := fd.UpdateDataAny(true, false, cmdData.Value, message.FilterPartial, message.FilterDelete); e != nil {\n						r.mux.Unlock()\n						return e\n					}\n				}\n				r.mux.Unlock()\n			}\n			r.addPendingApproval(message)", "dry run (persist=false) of partial/delete writes before the callbacks are asked: modifies stored items in place"),
 "hbt8": ("C16", "spine/heartbeat_manager.go", "		close(c.stopHeartbeatC)\n	}\n}", "		close(c.stopHeartbeatC)\n		c.stopHeartbeatC = nil\n	}\n}", "stop forgets the channel (harmless variant: must NOT be flagged except through the model)"),
}
EXTRA = {
 "hbt11": [("spine/subscription_manager.go", "type SubscriptionManager struct {", "var hbtScratch []*api.SubscriptionEntry\n\ntype SubscriptionManager struct {")],
 "hbt12": [("spine/heartbeat_manager.go", "		heartBeatTimeout: model.NewDurationType(timeout),\n	}\n", "		heartBeatTimeout: model.NewDurationType(timeout),\n	}\n	hbtRawMu.Lock()\n	hbtRaw[h] = timeout\n	hbtRawMu.Unlock()\n"),
           ("spine/heartbeat_manager.go", "var _ api.HeartbeatManagerInterface = (*HeartbeatManager)(nil)", "var _ api.HeartbeatManagerInterface = (*HeartbeatManager)(nil)\n\nvar hbtRaw = map[*HeartbeatManager]time.Duration{}\nvar hbtRawMu sync.Mutex"),
           ("spine/heartbeat_manager.go", "	timeout = hbtRaw[c]\n", "	hbtRawMu.Lock()\n	timeout = hbtRaw[c]\n	hbtRawMu.Unlock()\n")],
}
ENV = dict(os.environ, GOFLAGS="-mod=mod", GOPROXY="off", GOSUMDB="off", GOTOOLCHAIN="local")
def sh(cmd, **kw):
    return subprocess.run(cmd, shell=True, stdout=subprocess.PIPE, stderr=subprocess.STDOUT, text=True, env=ENV, **kw)
def run(name, tier="quick", base="HEAD"):
    pid, f, a, b, what = MUT[name]
    d = "/root/scratch/mut-timers-" + name
    sh("git -C /repo worktree remove --force %s" % d)
    r = sh("git -C /repo worktree add %s %s" % (d, base))
    src = open(os.path.join(d, f)).read()
    if a not in src:
        print(name, "PATTERN NOT FOUND"); sh("git -C /repo worktree remove --force %s" % d); return
    open(os.path.join(d, f), "w").write(src.replace(a, b, 1))
    for f2, a2, b2 in EXTRA.get(name, []):
        src2 = open(os.path.join(d, f2)).read()
        assert a2 in src2, (name, f2)
        open(os.path.join(d, f2), "w").write(src2.replace(a2, b2, 1))
    b1 = sh("go build ./... && go build -tags verif ./...", cwd=d)
    if b1.returncode != 0:
        print(name, "DOES NOT BUILD", b1.stdout[-500:]); sh("git -C /repo worktree remove --force %s" % d); return
    c = subprocess.run("./check %s %s" % (pid, tier), shell=True, cwd=os.path.dirname(os.path.dirname(os.path.abspath(__file__))), stdout=subprocess.PIPE, stderr=subprocess.STDOUT, text=True, env=dict(ENV, VERIF_REPO=d), timeout=1500)
    viol = [l for l in c.stdout.splitlines() if l.startswith("VIOLATION") or l.startswith("  spec failure") or l.startswith("  correspondence") or l.startswith("  harness") or l.startswith("MACHINERY")]
    last = c.stdout.strip().splitlines()[-1] if c.stdout.strip() else ""
    print("=== %s [%s] %s\n    rc=%d %s" % (name, pid, what, c.returncode, last))
    for l in viol[:8]:
        print("    " + l[:330])
    sh("git -C /repo worktree remove --force %s" % d)
if __name__ == "__main__":
    for n in sys.argv[1:]:
        run(n)
