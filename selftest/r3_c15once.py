import os
p=os.environ['DIR']+'/spine/device_local.go'
s=open(p).read()
old='''	// always add subscription, as it checks if it already exists
	_ = Events.subscribe(api.EventHandlerLevelCore, r)
'''
new='''	// subscribe de-duplicates anyway, once is enough
	r.coreOnce.Do(func() {
		_ = Events.subscribe(api.EventHandlerLevelCore, r)
	})
'''
assert old in s; s=s.replace(old,new,1)
import re
m=re.search(r'type DeviceLocal struct \{\n', s)
assert m
s=s[:m.end()]+'\tcoreOnce sync.Once\n'+s[m.end():]
if '"sync"' not in s:
    s=s.replace('import (','import (\n\t"sync"',1)
open(p,'w').write(s)
