import os
p=os.environ['DIR']+'/spine/events.go'
s=open(p).read()
# explicit unlock instead of defer in subscribe, with early return; index loop + closure helper + append-copy in Publish
old='''	r.mu.Lock()
	defer r.mu.Unlock()

	for _, item := range r.handlers {
		if item.Level == level && item.Handler == handler {
			return nil
		}
	}

	newHandlerItem := eventHandlerItem{
		Level:   level,
		Handler: handler,
	}
	r.handlers = append(r.handlers, newHandlerItem)

	return nil'''
new='''	r.mu.Lock()

	for i := range r.handlers {
		if r.handlers[i].Level == level && r.handlers[i].Handler == handler {
			r.mu.Unlock()
			return nil
		}
	}

	r.handlers = append(r.handlers, eventHandlerItem{Level: level, Handler: handler})
	r.mu.Unlock()

	return nil'''
assert old in s; s=s.replace(old,new,1)
a=s.index('func (r *events) Publish(')
s=s[:a]+'''func (r *events) Publish(payload api.EventPayload) {
	r.mu.Lock()
	snapshot := append([]eventHandlerItem(nil), r.handlers...)
	r.mu.Unlock()

	r.dispatchLocked(func() {
		for _, level := range []api.EventHandlerLevel{api.EventHandlerLevelCore, api.EventHandlerLevelApplication} {
			for i := 0; i < len(snapshot); i++ {
				h := snapshot[i]
				switch {
				case h.Level != level:
				case level == api.EventHandlerLevelCore:
					h.Handler.HandleEvent(payload)
				default:
					go func(target api.EventHandlerInterface) { target.HandleEvent(payload) }(h.Handler)
				}
			}
		}
	})
}

func (r *events) dispatchLocked(f func()) {
	r.muHandle.Lock()
	defer func() { r.muHandle.Unlock() }()
	f()
}
'''
open(p,'w').write(s)
