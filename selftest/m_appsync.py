import os
p=os.environ['DIR']+'/spine/events.go'
s=open(p).read()
old='''				go item.Handler.HandleEvent(payload)'''
new='''				item.Handler.HandleEvent(payload)'''
assert old in s
open(p,'w').write(s.replace(old,new,1))
