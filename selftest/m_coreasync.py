import os
p=os.environ['DIR']+'/spine/events.go'
s=open(p).read()
old='''				item.Handler.HandleEvent(payload)
			} else {'''
new='''				go item.Handler.HandleEvent(payload)
			} else {'''
assert old in s
open(p,'w').write(s.replace(old,new,1))
