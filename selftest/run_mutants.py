#!/usr/bin/env python3
"""Self-test of the C06 check: apply one small mutation to a scratch worktree of /repo, run the check against it,
expect a VIOLATION line. usage: run_mutants.py [name ...]"""
import subprocess, sys, os, json, re
ENV = dict(os.environ, GOFLAGS="-mod=mod", GOPROXY="off", GOSUMDB="off", GOTOOLCHAIN="local")
W = "/root/scratch/w-disc"
MUT = {
 "M1-features-accumulate": ("spine/device_remote.go", "\t\tentity.RemoveAllFeatures()\n", ""),
 "M2-fulldiff-wrong-list": ("spine/nodemanagement_detaileddiscovery.go",
    "\t\tif r.addressEntityListContainsAddressEntity(addedEntities, address.Entity) {\n\t\t\tupdatedFeatureInformation",
    "\t\tif r.addressEntityListContainsAddressEntity(existingEntities, address.Entity) {\n\t\t\tupdatedFeatureInformation"),
 "M3-operations-write-from-read": ("spine/feature_remote.go", "\t\t\tsf.PossibleOperations.Write != nil,\n", "\t\t\tsf.PossibleOperations.Read != nil,\n"),
 "M4-event-for-every-listed-entity": ("spine/device_remote.go",
    "\t\t\tentity = d.addNewEntity(*ei.Description.EntityType, entityAddress)\n\t\t\trEntites = append(rEntites, entity)\n\t\t}\n",
    "\t\t\tentity = d.addNewEntity(*ei.Description.EntityType, entityAddress)\n\t\t}\n\t\trEntites = append(rEntites, entity)\n"),
 "M5-client-caches-not-cleaned": ("spine/nodemanagement_detaileddiscovery.go",
    "\t\t\t\tr.Device().CleanRemoteEntityCaches(removedEntity.Address())\n", ""),
 "M6-subscription-retain-and": ("spine/subscription_manager.go",
    "\t\tif !reflect.DeepEqual(item.ClientFeature.Address().Device, remoteEntity.Address().Device) ||\n\t\t\t!reflect.DeepEqual(item.ClientFeature.Address().Entity, remoteEntity.Address().Entity) {",
    "\t\tif !reflect.DeepEqual(item.ClientFeature.Address().Device, remoteEntity.Address().Device) &&\n\t\t\t!reflect.DeepEqual(item.ClientFeature.Address().Entity, remoteEntity.Address().Entity) {"),
 "M7-entity-description-not-updated": ("spine/device_remote.go", "\t\tentity.SetDescription(ei.Description.Description)\n", ""),
 "M8-client-cache-ignores-device": ("spine/feature_local.go",
    "\t\tif item.Device == nil || item.Entity == nil ||\n\t\t\t*item.Device != *remoteAddress.Device ||\n\t\t\t!reflect.DeepEqual(item.Entity, remoteAddress.Entity) {\n\t\t\tsubscriptions = append(subscriptions, item)",
    "\t\tif item.Device == nil || item.Entity == nil ||\n\t\t\t!reflect.DeepEqual(item.Entity, remoteAddress.Entity) {\n\t\t\tsubscriptions = append(subscriptions, item)"),
 "M9-removed-event-dropped-for-nested": ("spine/nodemanagement_detaileddiscovery.go",
    "\t\t\t\tif removedEntity == nil {\n\t\t\t\t\tcontinue\n\t\t\t\t}\n",
    "\t\t\t\tif removedEntity == nil || len(entityAddress) > 1 {\n\t\t\t\t\tcontinue\n\t\t\t\t}\n"),
 "M10-nested-removal-by-prefix": ("spine/device_remote.go",
    "\t\tif !reflect.DeepEqual(item, entityForRemoval) {\n",
    "\t\tif item.Address().Entity[0] != entityForRemoval.Address().Entity[0] {\n"),
 "M11-feature-role-swapped-on-refresh": ("spine/device_remote.go",
    "\tresult = NewFeatureRemote(uint(*fid.FeatureAddress.Feature), entity, *fid.FeatureType, *fid.Role)\n",
    "\trole := *fid.Role\n\tif len(entity.Features()) > 1 {\n\t\trole = model.RoleTypeServer\n\t}\n\tresult = NewFeatureRemote(uint(*fid.FeatureAddress.Feature), entity, *fid.FeatureType, role)\n"),
 "N1-devinfo-guard-continue-to-return": ("spine/nodemanagement_detaileddiscovery.go",
    "\t\t\t\tif slices.Equal(entityAddress, DeviceInformationAddressEntity) {\n\t\t\t\t\tcontinue\n\t\t\t\t}\n",
    "\t\t\t\tif slices.Equal(entityAddress, DeviceInformationAddressEntity) {\n\t\t\t\t\treturn nil\n\t\t\t\t}\n"),
 "N2-refresh-guard-weakened-to-empty-list": ("spine/device_remote.go",
    "\t\t\thasNodeManagement(entity.Features()) && !hasNodeManagement(features) {\n",
    "\t\t\tlen(features) == 0 {\n"),
 "N3-new-entity-without-type-skipped-not-rejected": ("spine/device_remote.go",
    "\t\t\t\treturn nil, errors.New(\"nodemanagement.replyDetailedDiscoveryData: invalid EntityInformation.Description.EntityType\")\n",
    "\t\t\t\tcontinue\n"),
 "N4-malformed-feature-element-stops-the-list": ("spine/device_remote.go",
    "\t\t\tif fi.Description == nil || fi.Description.FeatureAddress == nil {\n\t\t\t\tcontinue\n\t\t\t}\n",
    "\t\t\tif fi.Description == nil || fi.Description.FeatureAddress == nil {\n\t\t\t\tbreak\n\t\t\t}\n"),
 "N5-function-without-name-stops-operations": ("spine/feature_remote.go",
    "\t\tif sf.Function == nil || sf.PossibleOperations == nil {\n\t\t\tcontinue\n\t\t}\n",
    "\t\tif sf.Function == nil || sf.PossibleOperations == nil {\n\t\t\tbreak\n\t\t}\n"),
 "N6-refresh-guard-drops-rest-of-message": ("spine/device_remote.go",
    "\t\t\thasNodeManagement(entity.Features()) && !hasNodeManagement(features) {\n\t\t\tcontinue\n",
    "\t\t\thasNodeManagement(entity.Features()) && !hasNodeManagement(features) {\n\t\t\tbreak\n"),
 "N7-devinfo-guard-removed": ("spine/nodemanagement_detaileddiscovery.go",
    "\t\t\t\tif slices.Equal(entityAddress, DeviceInformationAddressEntity) {\n\t\t\t\t\tcontinue\n\t\t\t\t}\n",
    "\t\t\t\tif slices.Equal(entityAddress, DeviceInformationAddressEntity) && false {\n\t\t\t\t\tcontinue\n\t\t\t\t}\n"),
 "N8-revert-per-entry-removal": ("spine/nodemanagement_detaileddiscovery.go",
    "\t\t\tfor _, ei := range []model.NodeManagementDetailedDiscoveryEntityInformationType{entity} {\n",
    "\t\t\tfor _, ei := range data.EntityInformation {\n"),
 "N9-rejected-removal-entry-skipped": ("spine/nodemanagement_detaileddiscovery.go",
    "\t\t\t\tif err := remoteDevice.CheckEntityInformation(false, ei); err != nil {\n\t\t\t\t\treturn err\n\t\t\t\t}\n",
    "\t\t\t\tif err := remoteDevice.CheckEntityInformation(false, ei); err != nil {\n\t\t\t\t\tcontinue\n\t\t\t\t}\n"),
}
names = sys.argv[1:] or list(MUT)
results = {}
for n in names:
    f, old, new = MUT[n]
    d = "/root/scratch/mut-disc-" + n.split("-")[0]
    subprocess.run(["git", "-C", "/repo", "worktree", "remove", "--force", d], capture_output=True)
    subprocess.run(["git", "-C", "/repo", "worktree", "add", d, "HEAD"], capture_output=True, check=True)
    try:
        p = os.path.join(d, f)
        s = open(p).read()
        assert s.count(old) == 1, (n, s.count(old))
        open(p, "w").write(s.replace(old, new))
        b = subprocess.run(["go", "build", "-tags", "verif", "./..."], cwd=d, env=ENV, capture_output=True, text=True)
        if b.returncode != 0:
            results[n] = "DOES NOT COMPILE: " + b.stderr[-300:]
            continue
        r = subprocess.run(["./check", "C06", "quick"], cwd=W, env=dict(ENV, VERIF_REPO=d), capture_output=True, text=True, timeout=1500)
        viol = [l for l in r.stdout.splitlines() if l.startswith("VIOLATION") or l.startswith("  spec failure") or l.startswith("  correspondence")]
        results[n] = {"exit": r.returncode, "lines": [l[:260] for l in viol][:6], "tail": r.stdout.splitlines()[-1] if r.stdout else r.stderr[-200:]}
        m = re.search(r"VIOLATION property=C06 replay=(\S+)", r.stdout)
        if m:
            rp = "/root/scratch/w-disc/selftest/replay-%s.json" % n.split("-")[0]
            subprocess.run(["cp", m.group(1), rp])
            a = subprocess.run(["./check", "C06", "quick", "--replay", rp], cwd=W, env=dict(ENV, VERIF_REPO=d), capture_output=True, text=True, timeout=900)
            b2 = subprocess.run(["./check", "C06", "quick", "--replay", rp], cwd=W, env=ENV, capture_output=True, text=True, timeout=900)
            results[n]["replay_on_mutant_exit"] = a.returncode
            results[n]["replay_on_repo_exit"] = b2.returncode
    finally:
        subprocess.run(["git", "-C", "/repo", "worktree", "remove", "--force", d], capture_output=True)
    print(n, json.dumps(results[n], indent=1), flush=True)
out = os.path.join(W, "selftest", "C06-mutants.json")
try:
    allr = json.load(open(out))
except Exception:
    allr = {}
allr.update(results)
json.dump(allr, open(out, "w"), indent=1)
