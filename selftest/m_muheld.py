import os
p=os.environ['DIR']+'/spine/events.go'
s=open(p).read()
old='''	r.mu.Unlock()

	// Use different locks'''
new='''	defer r.mu.Unlock()

	// Use different locks'''
assert old in s
open(p,'w').write(s.replace(old,new,1))
