#!/bin/bash
# usage: mut.sh <name> <prop> <file> <python-replace-old> <python-replace-new>
# makes a scratch worktree of /repo, applies one textual mutation, runs ./check <prop> quick against it, removes the worktree
set -u
name=$1; prop=$2; file=$3; old=$4; new=$5
dir=/root/scratch/mut-bus-$name
export GOFLAGS=-mod=mod GOPROXY=off GOSUMDB=off GOTOOLCHAIN=local
git -C /repo worktree remove --force $dir >/dev/null 2>&1
git -C /repo worktree add $dir HEAD >/dev/null 2>&1 || { echo "worktree failed"; exit 2; }
python3 - "$dir/$file" "$old" "$new" <<'PY'
import sys
p,old,new=sys.argv[1:4]
s=open(p).read()
assert s.count(old)>=1, "pattern not found"
s=s.replace(old,new,1)
open(p,'w').write(s)
PY
[ $? -eq 0 ] || { git -C /repo worktree remove --force $dir; exit 2; }
(cd $dir && go build ./... ) || { echo "MUTANT DOES NOT BUILD"; git -C /repo worktree remove --force $dir; exit 2; }
cd /root/scratch/w-bus && VERIF_REPO=$dir timeout 1200 ./check $prop quick 2>&1 | grep -v "^WARNING conda" | tail -8
echo "exit=$?"
git -C /repo worktree remove --force $dir
