import os
p=os.environ['DIR']+'/spine/feature_local.go'
s=open(p).read()
old='''	if _, err := featureRemote.UpdateData(true, *cmdData.Function, cmdData.Value, message.FilterPartial, message.FilterDelete); err != nil {
		return err
	}

	// the data was updated, so send an event'''
new='''	applied, err := featureRemote.UpdateData(true, *cmdData.Function, cmdData.Value, message.FilterPartial, message.FilterDelete)
	if err != nil {
		return err
	}

	// the data was updated, so send an event'''
assert old in s
s=s.replace(old,new,1)
old='''		MsgCounterReference: *message.RequestHeader.MsgCounterReference,
		Data:                cmdData.Value,
		FeatureLocal:        r,
		FeatureRemote:       message.FeatureRemote,
		EntityRemote:        message.EntityRemote,
		DeviceRemote:        message.DeviceRemote,
	}

	r.processResponseMsgCallbacks(*message.RequestHeader.MsgCounterReference, responseMsg)

	return nil
}

func (r *FeatureLocal) processNotify'''
new=old.replace('Data:                cmdData.Value,','Data:                applied,')
assert old in s
s=s.replace(old,new,1)
open(p,'w').write(s)
