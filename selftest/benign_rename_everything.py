import os,re,glob
d=os.environ['DIR']+'/spine/'
for f in glob.glob(d+'*.go'):
    s=open(f).read()
    o=s
    s=re.sub(r'\bevents\b(?!\.go)', 'eventBus', s) if f.endswith('events.go') else s
    s=re.sub(r'\bremoteDevices\b','peers',s) if 'device_local' in f else s
    if f.endswith('events.go'):
        s=re.sub(r'\br\.handlers\b','r.subs',s); s=s.replace('\thandlers []eventHandlerItem','\tsubs []eventHandlerItem')
        s=re.sub(r'\bmuHandle\b','dispatchLock',s); s=re.sub(r'\br\.mu\b','r.listLock',s); s=s.replace('\tmu       sync.Mutex','\tlistLock sync.Mutex')
        s=s.replace('func (r *eventBus)','func (bus *eventBus)').replace('r.listLock','bus.listLock').replace('r.dispatchLock','bus.dispatchLock').replace('r.subs','bus.subs').replace('return r.subscribe','return bus.subscribe').replace('return r.unsubscribe','return bus.unsubscribe')
        s=re.sub(r'\bLevel   api','Lvl     api',s); s=re.sub(r'\.Level\b','.Lvl',s); s=s.replace('Level:   level','Lvl:     level')
    if s!=o: open(f,'w').write(s)
