#!/bin/bash
# usage: selftest/dscrun.sh [seed] [tier]  -- runs TestDiscovery directly and prints a summary
export GOFLAGS=-mod=mod GOPROXY=off GOSUMDB=off GOTOOLCHAIN=local
cd /root/scratch/w-disc/go
MODF=${MODFILE:-go.mod}
( time VERIF_SEED=${1:-1} VERIF_TIER=${2:-quick} VERIF_DRV_DIR=/root/scratch/w-disc/lean/.lake/build/bin VERIF_OUT=/tmp/dsc-out.json timeout 1500 go test -modfile $MODF -tags verif -count=1 -timeout 30m -run '^TestDiscovery$' ./comp/ 2>&1 | grep -v "^model\.\|^api\.\|^\*\|^\[\]" | tail -${TAILN:-8} )
python3 - <<'PY'
import json
r=json.load(open('/tmp/dsc-out.json'))
print(r['evaluations'], r['traces_validated_against_impl'], r['distinct_nontrivial'], 'mismatch', r['mismatch_count'], r['spec_failure_counts'])
print(json.dumps(r['dist']))
print(r.get('floors'), r.get('floor_failures'))
print(r.get('info'))
for m in r['mismatches'][:2]:
    print(json.dumps(m,indent=1))
for s in r['spec_failures']:
    print(s['key'], s['ops'], s['detail'][:700])
print({k:v['on'] for k,v in r['flags'].items()})
PY
