#!/bin/bash
# runs the translator generator `eventbus` against scratch worktrees of /repo with each given patch applied
# usage: genmatrix.sh <patch.diff|edit.py> ...   (prints the facts that are false, or ALL-TRUE)
export GOFLAGS=-mod=mod GOPROXY=off GOSUMDB=off GOTOOLCHAIN=local
for p in "$@"; do p=$(readlink -f $p)
  dir=/root/scratch/mut-bus-gm-$$
  git -C /repo worktree remove --force $dir >/dev/null 2>&1
  git -C /repo worktree add --detach $dir HEAD >/dev/null 2>&1
  if [[ $p == *.py ]]; then DIR=$dir python3 $p >/dev/null 2>&1 || { echo "$p: EDIT FAILED"; git -C /repo worktree remove --force $dir; continue; }
  else (cd $dir && (git apply $p 2>/dev/null || git apply --3way $p >/dev/null 2>&1)) || { echo "$p: DOES NOT APPLY"; git -C /repo worktree remove --force $dir; continue; }; fi
  (cd $dir && go build ./... >/dev/null 2>&1) || { echo "$p: DOES NOT BUILD"; git -C /repo worktree remove --force $dir; continue; }
  out=$(cd /root/scratch/w-bus/go && VERIF_REPO=$dir go run -tags verif ./cmd/translate -out /tmp/gm-$$ eventbus 2>&1)
  f=$(echo "$out" | tr ' ' '\n' | grep "=false" | tr '\n' ' ')
  echo "$p: ${f:-ALL-TRUE}"
  [ -n "$f" ] && grep "note" /tmp/gm-$$/EventBus.lean | head -4
  git -C /repo worktree remove --force $dir
done
rm -rf /tmp/gm-$$
