import os
p=os.environ['DIR']+'/spine/events.go'
s=open(p).read()
old='''func (r *events) unsubscribe(level api.EventHandlerLevel, handler api.EventHandlerInterface) error {
	r.mu.Lock()
	defer r.mu.Unlock()'''
new='''func (r *events) unsubscribe(level api.EventHandlerLevel, handler api.EventHandlerInterface) error {
	r.muHandle.Lock()
	defer r.muHandle.Unlock()
	r.mu.Lock()
	defer r.mu.Unlock()'''
assert old in s
open(p,'w').write(s.replace(old,new,1))
