import os
p=os.environ['DIR']+'/spine/device_local.go'
s=open(p).read()
old='''		if reflect.DeepEqual(id, e.Address().Entity) {
			return e
		}
	}
	return nil
}

func (r *DeviceLocal) EntityForType'''
new='''		if sameEntityAddress(e.Address().Entity, id) {
			return e
		}
	}
	return nil
}

func sameEntityAddress(a, b []model.AddressEntityType) bool {
	for i := range a {
		if i >= len(b) || a[i] != b[i] {
			return false
		}
	}
	return true
}

func (r *DeviceLocal) EntityForType'''
assert old in s
s=s.replace(old,new,1)
s=s.replace('func sameEntityAddress','var _ = reflect.DeepEqual\n\nfunc sameEntityAddress',1)
open(p,'w').write(s)
