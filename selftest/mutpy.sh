#!/bin/bash
# usage: mutpy.sh <name> <prop> <python-file-that-edits-tree-at-$DIR>
name=$1; prop=$2; py=$3
dir=/root/scratch/mut-bus-$name
export GOFLAGS=-mod=mod GOPROXY=off GOSUMDB=off GOTOOLCHAIN=local
git -C /repo worktree remove --force $dir >/dev/null 2>&1
git -C /repo worktree add $dir HEAD >/dev/null 2>&1 || { echo "worktree failed"; exit 2; }
DIR=$dir python3 $py || { git -C /repo worktree remove --force $dir; exit 2; }
(cd $dir && go build ./... ) || { echo "MUTANT DOES NOT BUILD"; git -C /repo worktree remove --force $dir; exit 2; }
cd /root/scratch/w-bus && rm -f replays/$prop-*; VERIF_REPO=$dir timeout 1200 ./check $prop quick 2>&1 | grep -v "^WARNING conda" | grep "spec failure\|VIOLATION\|$prop quick\|BROKEN\|correspondence" | cut -c1-330
git -C /repo worktree remove --force $dir
