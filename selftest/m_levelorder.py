import os
p=os.environ['DIR']+'/spine/events.go'
s=open(p).read()
old='''		api.EventHandlerLevelCore,
		api.EventHandlerLevelApplication,
	}'''
new='''		api.EventHandlerLevelApplication,
		api.EventHandlerLevelCore,
	}'''
assert old in s
open(p,'w').write(s.replace(old,new,1))
