import os
p=os.environ['DIR']+'/spine/events.go'
s=open(p).read()
old='''	muHandle sync.Mutex
'''
new='''	muHandle sync.Mutex

	appPending sync.WaitGroup // application handlers still working on earlier events
'''
assert old in s; s=s.replace(old,new,1)
old='''	r.muHandle.Lock()
	// process subscribers by level'''
new='''	r.muHandle.Lock()
	// application sees events in publication order
	r.appPending.Wait()
	// process subscribers by level'''
assert old in s; s=s.replace(old,new,1)
old='''				go item.Handler.HandleEvent(payload)'''
new='''				r.appPending.Add(1)
				go func(h api.EventHandlerInterface) {
					defer r.appPending.Done()
					h.HandleEvent(payload)
				}(item.Handler)'''
assert old in s; s=s.replace(old,new,1)
open(p,'w').write(s)
