#!/usr/bin/env python3
"""seedtest.py confirm <dir>            confirm a seeded change (patch.diff + demo/ + meta.json): compiles, the
                                        unedited suite passes with it, the demonstration fails with it and passes without
   seedtest.py run <seeded-id> [props]  run ./check <prop> quick (for the property in meta.json, or the listed ones)
                                        against a scratch worktree of /repo with the change applied; records the result
                                        in seeded/<id>/result.json
   seedtest.py all                      `run` for every directory under seeded/
Scratch worktrees live under /root/scratch/seedwt-* and are removed when done. /repo itself is never modified."""
import sys, os, json, subprocess, shutil, time, re

ROOT = os.path.dirname(os.path.abspath(__file__))
ENV = dict(os.environ, GOFLAGS="-mod=mod", GOPROXY="off", GOSUMDB="off", GOTOOLCHAIN="local")


def trim_cache():
    """every changed tree compiles into the Go build cache (~1 GB each); keep it below ~25 GB"""
    try:
        out = subprocess.run("du -sm /root/.cache/go-build 2>/dev/null | cut -f1", shell=True, stdout=subprocess.PIPE, text=True).stdout.strip()
        if out and int(out) > 60000:
            subprocess.run("find /root/.cache/go-build -type f -mmin +75 -delete 2>/dev/null", shell=True)
    except Exception:
        pass


def sh(cmd, cwd=None, timeout=1800, env=None):
    p = subprocess.run(cmd, cwd=cwd, shell=True, stdout=subprocess.PIPE, stderr=subprocess.STDOUT, text=True,
                       timeout=timeout, env=env or ENV)
    return p.returncode, p.stdout


def worktree(tag):
    d = "/root/scratch/seedwt-%s-%d" % (tag, os.getpid())
    sh("git -C /repo worktree remove --force %s" % d)
    rc, out = sh("git -C /repo worktree add --detach %s HEAD" % d)
    if rc != 0:
        raise SystemExit("cannot create worktree: " + out)
    return d


def drop(d):
    sh("git -C /repo worktree remove --force %s" % d)
    shutil.rmtree(d, ignore_errors=True)
    sh("git -C /repo worktree prune")


def copy_demo(src, wt):
    files = []
    for base, _, fs in os.walk(os.path.join(src, "demo")):
        for f in fs:
            rel = os.path.relpath(os.path.join(base, f), os.path.join(src, "demo"))
            os.makedirs(os.path.dirname(os.path.join(wt, rel)) or wt, exist_ok=True)
            shutil.copy(os.path.join(base, f), os.path.join(wt, rel))
            files.append(rel)
    return files


def confirm(src):
    meta = json.load(open(os.path.join(src, "meta.json")))
    wt = worktree("confirm")
    res = {"dir": src, "property": meta.get("property")}
    try:
        rc, out = sh("git apply --check %s && git apply %s" % (os.path.join(src, "patch.diff"), os.path.join(src, "patch.diff")), cwd=wt)
        res["applies"] = rc == 0
        if rc != 0:
            res["error"] = out[-2000:]
            return res
        rc, out = sh("go build ./... && go vet ./... ", cwd=wt)
        res["builds"] = rc == 0
        if rc != 0:
            res["error"] = out[-2000:]
            return res
        ok = True
        for i in range(2):
            rc, out = sh("go test -vet=off -count=1 -timeout 20m ./...", cwd=wt)
            ok = ok and rc == 0
            if rc != 0:
                res["suite_output"] = out[-3000:]
        res["suite_passes_with_change"] = ok
        demo_files = copy_demo(src, wt)
        res["demo_files"] = demo_files
        cmd = meta["demo_cmd"]
        rc, out = sh(cmd, cwd=wt, timeout=900)
        res["demo_fails_with_change"] = rc != 0
        res["demo_with_change_tail"] = out[-1500:]
        sh("git apply -R %s" % os.path.join(src, "patch.diff"), cwd=wt)
        rc, out = sh(cmd, cwd=wt, timeout=900)
        res["demo_passes_without_change"] = rc == 0
        if rc != 0:
            res["demo_without_change_tail"] = out[-1500:]
        res["confirmed"] = bool(res["suite_passes_with_change"] and res["demo_fails_with_change"] and res["demo_passes_without_change"])
        return res
    finally:
        drop(wt)


def run(sid, props=None):
    trim_cache()
    d = os.path.join(ROOT, "seeded", sid)
    meta = json.load(open(os.path.join(d, "meta.json")))
    props = props or [meta["property"]]
    wt = worktree(sid)
    results = {}
    try:
        rc, out = sh("git apply %s" % os.path.join(d, "patch.diff"), cwd=wt)
        if rc != 0:
            rc, out = sh("git apply --3way %s" % os.path.join(d, "patch.diff"), cwd=wt)
        if rc != 0:
            # the change was written against an earlier /repo HEAD and the lines it touches have been repaired since
            json.dump({"checked_at": time.strftime("%Y-%m-%dT%H:%M:%S"), "head": sh("git -C /repo rev-parse --short HEAD")[1].strip(),
                       "not_applicable_at_head": out[-600:]}, open(os.path.join(d, "result-at-head.json"), "w"), indent=1)
            return {p: {"detected": None, "violation_lines": [], "tail": ["patch does not apply at HEAD"], "wall_s": 0, "exit": None} for p in props}
        for p in props:
            t0 = time.time()
            env = dict(ENV, VERIF_REPO=wt)
            rc, out = sh("./check %s quick" % p, cwd=ROOT, env=env, timeout=3600)
            viol = [l for l in out.splitlines() if l.startswith("VIOLATION")]
            results[p] = {"exit": rc, "violation_lines": viol, "detected": rc == 1 and bool(viol),
                          "tail": out.splitlines()[-6:], "wall_s": round(time.time() - t0, 1)}
            # keep the replay files of a detection next to the seeded change
            for l in viol:
                m = re.search(r"replay=(\S+)", l)
                if m and os.path.exists(m.group(1)):
                    shutil.copy(m.group(1), os.path.join(d, "replay-%s-%s" % (p, os.path.basename(m.group(1)))))
    finally:
        drop(wt)
        # the run regenerated lean/Spine/Generated from the changed tree: regenerate it from /repo
        sh("go run -tags verif ./cmd/translate -out ../lean/Spine/Generated", cwd=os.path.join(ROOT, "go"), env=dict(ENV, VERIF_REPO="/repo"))
        sh("go run . -out ../../lean/Spine/Generated", cwd=os.path.join(ROOT, "go", "lockgraph"), env=dict(ENV, VERIF_REPO="/repo"))
    json.dump({"checked_at": time.strftime("%Y-%m-%dT%H:%M:%S"), "repo_head": sh("git -C /repo rev-parse --short HEAD")[1].strip(),
               "results": results}, open(os.path.join(d, "result.json"), "w"), indent=1)
    # restore the evidence of the unchanged tree is the caller's business (./check rewrites evidence/<id>.json)
    return results


if __name__ == "__main__":
    if len(sys.argv) >= 3 and sys.argv[1] == "confirm":
        r = confirm(os.path.abspath(sys.argv[2]))
        print(json.dumps(r, indent=1))
        sys.exit(0 if r.get("confirmed") else 1)
    if len(sys.argv) >= 3 and sys.argv[1] == "run":
        r = run(sys.argv[2], sys.argv[3:] or None)
        print(json.dumps(r, indent=1))
        sys.exit(0 if all(v["detected"] for v in r.values()) else 1)
    if len(sys.argv) >= 2 and sys.argv[1] == "all":
        bad = 0
        for sid in sorted(os.listdir(os.path.join(ROOT, "seeded"))):
            if os.path.exists(os.path.join(ROOT, "seeded", sid, "meta.json")):
                r = run(sid)
                for p, v in r.items():
                    print(sid, p, {True: "DETECTED", False: "MISSED", None: "PATCH-DOES-NOT-APPLY"}[v["detected"]], v["violation_lines"][:1], flush=True)
                    bad += 1 if v["detected"] is False else 0
        sys.exit(1 if bad else 0)
    print(__doc__)
    sys.exit(2)
