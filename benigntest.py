#!/usr/bin/env python3
"""benigntest.py run <benign-id> [--ws <verif workspace>] [props...]
       Run ./check <prop> quick for every claimed property (or the listed ones) against a scratch worktree of /repo
       with the BEHAVIOUR-PRESERVING change benign/<id>/patch.diff applied. Any VIOLATION line or non-zero exit is a
       false alarm of the machinery (the property still holds on that tree) and is recorded in benign/<id>/result.json.
   benigntest.py summary
       table of all results
The changes under benign/ were written by fresh sub-agents that saw one property's text and the source only and
were asked for realistic refactorings that change no behaviour (extract/inline helpers, loops <-> slices functions,
renames of unexported identifiers, moved files, defer <-> explicit unlock with the same critical section, error texts).
--ws lets several runs proceed in parallel from private copies of /verif (each has its own lock and Generated tables);
results are always written to this directory's benign/<id>/."""
import sys, os, json, subprocess, shutil, time, re

ROOT = os.path.dirname(os.path.abspath(__file__))
ENV = dict(os.environ, GOFLAGS="-mod=mod", GOPROXY="off", GOSUMDB="off", GOTOOLCHAIN="local")


def trim_cache():
    """every changed tree compiles into the Go build cache (~1 GB each); keep it below ~25 GB"""
    try:
        out = subprocess.run("du -sm /root/.cache/go-build 2>/dev/null | cut -f1", shell=True, stdout=subprocess.PIPE, text=True).stdout.strip()
        if out and int(out) > 60000:
            subprocess.run("find /root/.cache/go-build -type f -mmin +75 -delete 2>/dev/null", shell=True)
    except Exception:
        pass


def sh(cmd, cwd=None, timeout=3600, env=None):
    p = subprocess.run(cmd, cwd=cwd, shell=True, stdout=subprocess.PIPE, stderr=subprocess.STDOUT, text=True,
                       timeout=timeout, env=env or ENV)
    return p.returncode, p.stdout


def run(bid, ws, props):
    trim_cache()
    d = os.path.join(ROOT, "benign", bid)
    wt = "/root/scratch/benignwt-%s-%d" % (bid, os.getpid())
    sh("git -C /repo worktree remove --force %s" % wt)
    rc, out = sh("git -C /repo worktree add --detach %s HEAD" % wt)
    if rc != 0:
        raise SystemExit("cannot create worktree: " + out)
    res = {"checked_at": time.strftime("%Y-%m-%dT%H:%M:%S"), "repo_head": sh("git -C /repo rev-parse --short HEAD")[1].strip(),
           "results": {}}
    try:
        rc, out = sh("git apply %s" % os.path.join(d, "patch.diff"), cwd=wt)
        if rc != 0:
            rc, out = sh("git apply --3way %s" % os.path.join(d, "patch.diff"), cwd=wt)
        if rc != 0:
            res["applies"] = False
            res["error"] = out[-800:]
            return res
        res["applies"] = True
        suite = "go build ./... && go build -tags verif ./..." if os.environ.get("BENIGN_SKIP_SUITE") else \
            "go build ./... && go build -tags verif ./... && go vet ./... && go test -vet=off -count=1 -timeout 20m ./..."
        rc, out = sh(suite, cwd=wt)
        res["builds_and_suite_passes"] = rc == 0
        if rc != 0:
            res["error"] = out[-1500:]
            return res
        if not props:
            m = json.load(open(os.path.join(ROOT, "MANIFEST.json")))
            props = sorted(c["property_id"] for c in m["checks"])
        for p in props:
            t0 = time.time()
            rc, out = sh("./check %s quick" % p, cwd=ws, env=dict(ENV, VERIF_REPO=wt), timeout=3600)
            viol = [l for l in out.splitlines() if l.startswith("VIOLATION")]
            r = {"exit": rc, "violation_lines": viol, "alarm": rc != 0 or bool(viol), "wall_s": round(time.time() - t0, 1)}
            if r["alarm"]:
                r["tail"] = out.splitlines()[-12:]
                for l in viol:
                    m = re.search(r"replay=(\S+)", l)
                    if m and os.path.exists(m.group(1)):
                        shutil.copy(m.group(1), os.path.join(d, "replay-%s-%s" % (p, os.path.basename(m.group(1)))))
            res["results"][p] = r
        return res
    finally:
        sh("git -C /repo worktree remove --force %s" % wt)
        shutil.rmtree(wt, ignore_errors=True)
        sh("git -C /repo worktree prune")
        # a run over some properties only refreshes those entries
        old = os.path.join(d, "result.json")
        if os.path.exists(old) and res.get("results"):
            try:
                prev = json.load(open(old)).get("results", {})
                prev.update(res["results"])
                res["results"] = dict(sorted(prev.items()))
            except Exception:
                pass
        json.dump(res, open(old, "w"), indent=1)
        if ws == ROOT:
            sh("go run -tags verif ./cmd/translate -out ../lean/Spine/Generated", cwd=os.path.join(ROOT, "go"), env=dict(ENV, VERIF_REPO="/repo"))
            sh("go run . -out ../../lean/Spine/Generated", cwd=os.path.join(ROOT, "go", "lockgraph"), env=dict(ENV, VERIF_REPO="/repo"))


def summary():
    rows = []
    for bid in sorted(os.listdir(os.path.join(ROOT, "benign"))):
        f = os.path.join(ROOT, "benign", bid, "result.json")
        if not os.path.exists(f):
            rows.append((bid, "not run", ""))
            continue
        r = json.load(open(f))
        if not r.get("applies", True) or not r.get("builds_and_suite_passes", True):
            rows.append((bid, "rejected (does not apply/build/pass)", ""))
            continue
        alarms = [p for p, v in r["results"].items() if v["alarm"]]
        rows.append((bid, "%d checks" % len(r["results"]), "ALARM: " + ", ".join(alarms) if alarms else "silent"))
    for row in rows:
        print("%-12s %-40s %s" % row)


if __name__ == "__main__":
    a = sys.argv[1:]
    if a and a[0] == "summary":
        summary()
        sys.exit(0)
    if len(a) >= 2 and a[0] == "run":
        ws = ROOT
        rest = a[2:]
        if rest and rest[0] == "--ws":
            ws = os.path.abspath(rest[1])
            rest = rest[2:]
        r = run(a[1], ws, rest)
        alarms = [p for p, v in r.get("results", {}).items() if v["alarm"]]
        print(a[1], "applies=%s" % r.get("applies"), "suite=%s" % r.get("builds_and_suite_passes"), "alarms=%s" % alarms, flush=True)
        sys.exit(1 if alarms else 0)
    print(__doc__)
    sys.exit(2)
