"""Per-property configuration of ./check: which Lean modules hold the property theorems, which
model drivers and harness tests tie them to /repo, and what each check trusts."""

ALLOWED_AXIOMS = {"propext", "Classical.choice", "Quot.sound"}

COMMON_TRUSTED = [
    "Lean 4.33 kernel (thorough tier: leanchecker re-check); axioms allowed: propext, Classical.choice, Quot.sound; no native_decide, no bv_decide, no own axioms, no sorry (audited per theorem on every run)",
    "the correspondence harness (/verif/go): canonicalisation, settle rule, generators - differential testing that validates the model, not the property",
    "Go toolchain, encoding/json, sync, sync/atomic as documented",
]


import os, glob, importlib.util
PROPS = {}
for _f in sorted(glob.glob(os.path.join(os.path.dirname(os.path.abspath(__file__)), "props", "C*.py"))):
    _spec = importlib.util.spec_from_file_location("prop_" + os.path.basename(_f)[:-3], _f)
    _m = importlib.util.module_from_spec(_spec)
    _spec.loader.exec_module(_m)
    PROPS[os.path.basename(_f)[:-3]] = _m.P
