#!/bin/sh
# run every registered quick (or thorough) check once; print one summary line per property
cd "$(dirname "$0")"
tier=${1:-quick}
for p in $(python3 -c "import json;print(' '.join(c['property_id'] for c in json.load(open('MANIFEST.json'))['checks']))"); do
  out=$(./check $p $tier 2>&1); rc=$?
  echo "$p rc=$rc $(echo "$out" | tail -1)"
  echo "$out" | grep "^VIOLATION\|MACHINERY" | head -5
done
